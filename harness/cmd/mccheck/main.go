//go:build verif

// mccheck runs the model-checking scenarios of one property.
package main

import (
	"encoding/json"
	"flag"
	"fmt"
	"os"
	"runtime"
	"strconv"
	"strings"
	"time"

	"verifh/harness/h"
	"verifh/harness/scen"
)

func main() {
	prop := flag.String("prop", "", "property id")
	tier := flag.String("tier", "quick", "quick|thorough")
	only := flag.String("scenario", "", "run only this scenario")
	replay := flag.String("replay", "", "replay file")
	worker := flag.Bool("worker", false, "worker mode")
	workercap := flag.Int64("workercap", 0, "per-worker execution cap")
	workers := flag.Int("workers", runtime.NumCPU(), "worker processes")
	budget := flag.Duration("budget", 0, "wall-clock budget for the whole check (0 = tier default)")
	verifDir := flag.String("verif", "/verif", "verif directory")
	list := flag.Bool("list", false, "list scenarios")
	conformGraph := flag.String("conform", "", "C05: state graph (tla/graph.py output) to replay against the client")
	conformShard := flag.Int("conformshard", -1, "internal: shard index")
	conformOf := flag.Int("of", 1, "internal: shard count")
	wrapPrefix := flag.Int("wrapprefix", 0, "conformance: acknowledged exchanges before the replay starts")
	maxAge := flag.Int("maxage", 2, "conformance: MaxAge of the model configuration")
	stride := flag.Int("stride", 1, "internal: conformance path stride")
	tlcSummary := flag.String("tlc", "", "C05: JSON summary of the TLC runs (tools/tlc_run.py)")
	flag.Parse()

	if *conformShard >= 0 {
		h.ConformShard(*conformGraph, *wrapPrefix, *maxAge, *conformShard, *conformOf, *stride)
		return
	}

	if *worker {
		if *workercap > 0 {
			for _, sc := range scen.Registry {
				if sc.MaxExe == 0 || sc.MaxExe > *workercap {
					sc.MaxExe = *workercap
				}
			}
		}
		h.WorkerLoop(scen.Registry)
		return
	}
	if *list {
		for p, t := range scen.ByProp {
			fmt.Println(p, t)
		}
		return
	}
	if *replay != "" {
		b, err := os.ReadFile(*replay)
		if err != nil {
			fmt.Println("INFRA-ERROR", err)
			os.Exit(2)
		}
		if strings.Contains(string(b), `"conform_steps"`) {
			os.Exit(h.ConformReplay(*replay))
		}
		var f h.Found
		if err := json.Unmarshal(b, &f); err != nil {
			fmt.Println("INFRA-ERROR", err)
			os.Exit(2)
		}
		sc := scen.Registry[f.Scenario]
		if sc == nil {
			fmt.Println("INFRA-ERROR unknown scenario", f.Scenario)
			os.Exit(2)
		}
		tr, vs := h.Replay(sc, f.Choices)
		for _, e := range tr.Log {
			fmt.Println(e.String())
		}
		fmt.Printf("END reason=%s t=%v\n", tr.Reason, tr.End)
		for _, g := range tr.Live {
			fmt.Printf("LIVE g%d %s env=%v %s\n", g.ID, g.Site, g.Env, g.Pending)
		}
		for _, v := range vs {
			fmt.Printf("VERDICT %s: %s\n", v.Class, v.Msg)
		}
		if len(vs) > 0 {
			os.Exit(1)
		}
		return
	}
	names := scen.ByProp[*prop][*tier]
	if *only != "" {
		names = []string{*only}
	}
	if len(names) == 0 {
		fmt.Println("INFRA-ERROR no scenarios for", *prop, *tier)
		os.Exit(2)
	}
	seed, _ := strconv.ParseInt(os.Getenv("VERIF_SEED"), 10, 64)
	t0 := time.Now()
	b := *budget
	if b == 0 {
		b = 300 * time.Second
		if *tier == "thorough" {
			b = 25 * time.Minute
		}
	}
	deadline := t0.Add(b)
	rep := &h.Report{Prop: *prop, Tier: *tier, Seed: seed, Level: "model_checking", T0: t0, VerifDir: *verifDir,
		Rule: "every execution is one complete run of the real (mechanically rewritten) knx-go code under the controlled scheduler; executions are enumerated depth-first over the choice vector (goroutine order, select case, timer ties, environment answers) up to the stated preemption and fault bounds; distinct = distinct oracle-relevant event logs"}
	var args []string
	if *conformGraph != "" {
		// model <-> code binding: replay an edge-covering path set of the TLC state graph
		st, g := h.Conform("C05-conformance-replay", *conformGraph, 0, *maxAge, *workers, 1, args)
		rep.Stats = append(rep.Stats, st)
		fmt.Printf("  conformance: model states=%d transitions=%d, paths replayed=%d (edge cover), real steps=%d mismatches=%v wall=%.1fs\n", st.States, func() int {
			if g != nil {
				return g.NEdges
			}
			return 0
		}(), st.Execs, st.Steps, st.ClassCount, st.WallS)
		wrapStride := 16
		if *tier == "thorough" {
			wrapStride = 4
		}
		st2, _ := h.Conform("C05-conformance-replay-after-254-exchanges", *conformGraph, 254, *maxAge, *workers, wrapStride, args)
		rep.Stats = append(rep.Stats, st2)
		fmt.Printf("  conformance after a 254-exchange prefix (real 255->0 wrap): paths replayed=%d mismatches=%v wall=%.1fs\n", st2.Execs, st2.ClassCount, st2.WallS)
		rep.Extra = map[string]interface{}{}
		if g != nil {
			rep.Extra["model"] = map[string]interface{}{"spec": "tla/TunnelLink.tla", "states": g.NStates, "transitions": g.NEdges, "max_depth": g.MaxDepth, "paths_in_edge_cover": len(g.Paths), "path_set_capped": g.Capped}
		}
		if *tlcSummary != "" {
			if b, err := os.ReadFile(*tlcSummary); err == nil {
				var v interface{}
				if json.Unmarshal(b, &v) == nil {
					rep.Extra["tlc"] = v
					if m, ok := v.(map[string]interface{}); ok {
						if mcr, ok := m["model_check"].(map[string]interface{}); ok {
							if inv, _ := mcr["invariant_violated"].(string); inv != "" {
								tr, _ := mcr["trace"].(string)
								st := &h.Stats{Scenario: "C05-TLC-model-check", ClassCount: map[string]int{"C05:model-invariant:" + inv: 1}, Outcomes: map[uint64]int{}, Reasons: map[string]int{}}
								st.Found = append(st.Found, h.Found{Scenario: "C05-TLC-model-check", Class: "C05:model-invariant:" + inv, Msg: "TLC found a reachable state of TunnelLink.tla that violates " + inv + "\n" + tr})
								rep.Stats = append(rep.Stats, st)
							}
							if n, ok := mcr["distinct_states"].(float64); ok {
								rep.ModelStates = int64(n)
							}
							if n, ok := mcr["states_generated"].(float64); ok {
								rep.ModelTransitions = int64(n)
							}
						}
					}
				}
			}
		}
	}
	for i, nme := range names {
		sc := scen.Registry[nme]
		if sc == nil {
			fmt.Println("INFRA-ERROR unknown scenario", nme)
			os.Exit(2)
		}
		// share the remaining budget evenly over the remaining scenarios
		remain := time.Until(deadline)
		left := len(names) - i
		dl := time.Now().Add(remain / time.Duration((left+2)/3))
		st := h.Explore(sc, *workers, dl, args)
		rep.Stats = append(rep.Stats, st)
		fmt.Printf("  scenario %-40s P=%d F=%d executions=%d outcomes=%d states=%d exhaustive=%v %s wall=%.1fs classes=%v\n",
			sc.Name, sc.P, sc.F, st.Execs, st.NOutcomes, st.States, st.Exhaustive, st.Capped, st.WallS, st.ClassCount)
	}
	os.Exit(rep.Finish())
}
