//go:build verif

package scen

import (
	"fmt"
	"sort"
	"time"

	"github.com/vapourismo/knx-go/knx"
	"github.com/vapourismo/knx-go/knx/knxnet"
	"github.com/vapourismo/knx-go/verifmc/mc"
	"verifh/enum/refenc"
	"verifh/harness/fakesock"
	"verifh/harness/h"
)

// C13 — router pacing and busy back-off. Wire-level oracle (DESIGN §5 C13):
//   (i)   consecutive successful RoutingInd transmissions are at least the post-send pause apart;
//   (ii)  after the serve loop took a RoutingBusy at t_b: only goroutines that were inside Send at
//         t_b transmit, each at most once; with t_s the last of those transmissions (or t_b), no
//         RoutingInd leaves in the open interval (t_s, t_s+min(wait, 50 ms));
//   (iii) every Send returns, nothing deadlocks, no unlock of an unlocked mutex.

// Call is logged right before an API call is made (Ret when it returns).
type Call struct {
	Call string
	ID   int
}

func (c Call) String() string { return fmt.Sprintf("CALL %s#%d", c.Call, c.ID) }

// BusyAnnounced is logged when a busy indication is put on the wire: the wait time it announces.
type BusyAnnounced struct{ WaitMs int }

func (b BusyAnnounced) String() string { return fmt.Sprintf("BUSY-ANNOUNCED %d ms", b.WaitMs) }

// deliverBusy: the indication as the octets a router sends (built by the independent reference
// encoder), decoded by the library's own decoder as its socket receiver would, then handed to the
// client - so that the wait time the client acts on is the one the library read from the wire.
func deliverBusy(sock *fakesock.Sock, waitMs int, control uint16) {
	mc.Log(BusyAnnounced{waitMs})
	raw := refenc.RoutingBusy(0, uint16(waitMs), control)
	var svc knxnet.Service
	if _, err := knxnet.Unpack(raw, &svc); err != nil {
		mc.Log(IndicationRejected{"busy", waitMs, err.Error()})
		return
	}
	sock.Deliver(svc)
}

// IndicationRejected is logged when the library's decoder turns down a well-formed routing-busy or
// routing-lost indication (6-octet structure built by the reference encoder): the client never sees
// it, so it neither backs off nor repeats anything. Every 16-bit wait time / lost count is a legal
// wire value; the oracles judge the ones inside the properties' quantified ranges.
type IndicationRejected struct {
	Kind  string
	Value int
	Err   string
}

func (r IndicationRejected) String() string {
	return fmt.Sprintf("INDICATION-REJECTED %s %d: %s", r.Kind, r.Value, r.Err)
}

// rejectedIndications: violations for well-formed indications the decoder dropped.
func rejectedIndications(tr *mc.Trace, prop string) []h.Violation {
	var vs []h.Violation
	for _, e := range tr.Log {
		if x, ok := e.V.(fakesock.WireRejected); ok {
			vs = append(vs, h.Violation{Class: prop + ":well-formed-frame-dropped-by-the-decoder", Msg: fmt.Sprintf("the frame %s, put on the wire by the reference encoder, was rejected by the library's decoder (%s): it never reaches the client", x.Frame, x.Err)})
		}
		if x, ok := e.V.(IndicationRejected); ok {
			if x.Kind == "busy" && x.Value > 500 {
				continue // beyond the quantified 0..500 ms
			}
			vs = append(vs, h.Violation{Class: prop + ":well-formed-" + x.Kind + "-indication-dropped", Msg: fmt.Sprintf("a well-formed routing-%s indication with value %d was rejected by the library's decoder (%s): it never reaches the client", x.Kind, x.Value, x.Err)})
		}
	}
	return vs
}

// deliverLost: a lost indication as wire octets through the library's decoder (see deliverBusy).
func deliverLost(sock *fakesock.Sock, count int) {
	raw := refenc.RoutingLost(0, uint16(count))
	var svc knxnet.Service
	if _, err := knxnet.Unpack(raw, &svc); err != nil {
		mc.Log(IndicationRejected{"lost", count, err.Error()})
		return
	}
	sock.Deliver(svc)
}

type c13Params struct {
	pause       int // ms
	pauseUs     int // microseconds, added to pause (configurations that are not a whole number of milliseconds)
	senders     int
	perSender   int
	maxBusy     int
	waits       []int // announced wait times (ms) to choose from
	flat        bool
	busyAtStart bool
	slowWrites  int // up to this many transmissions block in the socket write (pause/2, pause, 2*pause)
	writeFails  int // up to this many transmissions fail in the socket write (transient error)
	lost        int // after the senders are done: a lost indication for that many messages, with a busy indication arriving while the batch is being repeated
}

func c13Run(p c13Params) func() {
	return func() {
		if len(p.waits) > 100 {
			defer logChoice()()
		}
		Pp := mc.Duration(p.pause)*ms + mc.Duration(p.pauseUs)*time.Microsecond
		sock := fakesock.New("udp")
		sock.LogHandoff = true
		r, _ := knx.NewRouterOnSocket(sock, knx.RouterConfig{RetainCount: 4, PostSendPauseDuration: Pp})
		busyLeft := p.maxBusy
		slowLeft := p.slowWrites
		sock.WriteTime = func(v knxnet.ServicePackable) mc.Duration {
			if _, ok := v.(*knxnet.RoutingInd); !ok || slowLeft == 0 {
				return 0
			}
			c := mc.Choose(4, mc.Fault)
			if c == 0 {
				return 0
			}
			slowLeft--
			unit := Pp
			if unit == 0 {
				unit = 10 * ms
			}
			return []mc.Duration{0, unit / 2, unit, 2 * unit}[c]
		}
		failLeft := p.writeFails
		sock.FailSend = func(v knxnet.ServicePackable) error {
			if _, ok := v.(*knxnet.RoutingInd); ok && failLeft > 0 && mc.Choose(2, mc.Fault) == 1 {
				failLeft--
				return fakesock.ErrSockClosed
			}
			return nil
		}
		busy := func() {
			w := p.waits[mc.Choose(len(p.waits), mc.Free)]
			ctl := uint16(mc.Choose(2, mc.Free)) // 0 adds the random term, 1 does not
			deliverBusy(sock, w, 1-ctl)
		}
		sock.OnSend = func(s *fakesock.Sent) {
			if _, ok := s.Svc.(*knxnet.RoutingInd); !ok || busyLeft == 0 || p.flat {
				return
			}
			n := 5
			if p.pause == 0 && p.pauseUs == 0 {
				n = 3
			}
			c := mc.Choose(n, mc.Fault)
			if c == 0 {
				return
			}
			busyLeft--
			switch c {
			case 1:
				busy()
			case 2:
				After(1*ms, "busy", busy)
			case 3:
				After(Pp/2, "busy", busy)
			case 4:
				After(Pp, "busy", busy)
			}
		}
		if p.busyAtStart && mc.Choose(2, mc.Fault) == 1 {
			busyLeft--
			busy()
			mc.Sleep(1 * ms) // the Sends begin after the indication was taken in
		}
		done := mc.NewChan[int](p.senders, "c13.done")
		for s := 0; s < p.senders; s++ {
			base := s * p.perSender
			mc.GoEnv(fmt.Sprintf("sender%d", s), func() {
				for k := 0; k < p.perSender; k++ {
					mc.Log(Call{"Send", base + k})
					t0 := mc.Now()
					err := r.Send(Msg(base + k))
					mc.Log(Ret{"Send", base + k, errStr(err), t0})
					if p.flat && (base+k)%40 == 17 {
						deliverBusy(sock, 30, 1)
					}
				}
				done.Send(1)
			})
		}
		for s := 0; s < p.senders; s++ {
			done.Recv()
		}
		if p.lost > 0 {
			mc.Sleep(200 * ms)
			mc.Log(Note("lost"))
			deliverLost(sock, p.lost)
			// the busy indication arrives before / after the first / second repeat
			mc.Sleep(mc.Duration(mc.Choose(3, mc.Free)) * (Pp + 1*ms))
			deliverBusy(sock, []int{50, 10}[mc.Choose(2, mc.Free)], 1)
		}
		mc.Sleep(1000 * ms)
		r.Close()
	}
}

func c13Oracle(p c13Params) func(tr *mc.Trace) []h.Violation {
	Pp := mc.Duration(p.pause)*ms + mc.Duration(p.pauseUs)*time.Microsecond
	return func(tr *mc.Trace) []h.Violation {
		vs := generic(tr, "C13", true)
		bad := func(class, format string, a ...interface{}) {
			vs = append(vs, h.Violation{Class: "C13:" + class, Msg: fmt.Sprintf(format, a...)})
		}
		type send struct {
			id            int
			call, tx, ret mc.Duration
			hasTx, hasRet bool
		}
		sends := map[int]*send{}
		type txev struct {
			t  mc.Duration // the write returned
			id int
			t0 mc.Duration // the write was entered
		}
		var txs []txev
		type busyev struct {
			t mc.Duration
			w mc.Duration
		}
		var busies []busyev
		var announced []int
		const resendID = -7
		lostSeen := false
		lostAt := mc.Duration(0)
		repeats := 0
		_ = repeats
		for _, e := range tr.Log {
			switch x := e.V.(type) {
			case Note:
				if x == "lost" {
					lostSeen, lostAt = true, e.T
				}
			case Call:
				sends[x.ID] = &send{id: x.ID, call: e.T}
			case Ret:
				if s := sends[x.ID]; s != nil {
					s.ret, s.hasRet = e.T, true
				}
			case fakesock.Sent:
				if ri, ok := x.Svc.(*knxnet.RoutingInd); ok && x.Err == nil {
					id := MsgID(ri.Payload)
					txs = append(txs, txev{e.T, id, x.T0})
					if s := sends[id]; s != nil {
						if s.hasTx {
							if !lostSeen {
								bad("sent-twice", "message %d transmitted twice (%v and %v) without a lost indication", id, s.tx, e.T)
							}
							// a repeat by the re-sending goroutine: one pseudo-sender for the whole batch
							txs[len(txs)-1].id = resendID
							if rs := sends[resendID]; rs == nil {
								sends[resendID] = &send{id: resendID, call: lostAt, tx: e.T, hasTx: true, hasRet: true}
								repeats = 1
							} else {
								repeats++
							}
							continue
						}
						s.tx, s.hasTx = e.T, true
					}
				}
			case BusyAnnounced:
				announced = append(announced, x.WaitMs)
			case fakesock.Handed:
				if b, ok := x.Svc.(*knxnet.RoutingBusy); ok {
					w := b.WaitTime
					// the wait time that counts is the one the router put on the wire (indications are
					// taken from the socket in the order they were sent)
					if len(busies) < len(announced) {
						w = mc.Duration(announced[len(busies)]) * ms
					}
					if w > 50*ms {
						w = 50 * ms
					}
					busies = append(busies, busyev{e.T, w})
				}
			}
		}
		for _, s := range sends {
			if !s.hasRet {
				bad("send-never-returned", "Send of message %d (called %v) had not returned when the scenario ended at %v", s.id, s.call, tr.End)
			}
		}
		sort.SliceStable(txs, func(i, j int) bool { return txs[i].t < txs[j].t })
		// (i)
		for i := 1; i < len(txs); i++ {
			if d := txs[i].t0 - txs[i-1].t; d < Pp {
				bad("pacing", "message %d had left the socket at %v, message %d was handed to the socket %v later (at %v); the post-send pause is %v", txs[i-1].id, txs[i-1].t, txs[i].id, d, txs[i].t0, Pp)
				break
			}
		}
		// (ii)
		for _, b := range busies {
			member := map[int]bool{}
			for _, s := range sends {
				if s.call <= b.t && (!s.hasTx || s.tx >= b.t) {
					member[s.id] = true
				}
			}
			// the re-sending goroutine calls Send in a loop: while its batch is in progress it is
			// (waiting) inside Send
			delete(member, resendID)
			if lostSeen && b.t >= lostAt {
				for _, x := range txs {
					if x.id == resendID && x.t > b.t {
						member[resendID] = true
					}
				}
			}
			// the re-sending goroutine is one goroutine inside Send: one repeat after t_b is its due,
			// any further repeat counts like a transmission by somebody who was not inside Send
			if member[resendID] {
				first := true
				for i := range txs {
					if txs[i].id == resendID && txs[i].t > b.t {
						if !first {
							txs[i].id = resendID - 1
						}
						first = false
					}
				}
			}
			// first transmission after t_b by a goroutine that was not inside Send at t_b
			const inf = mc.Duration(1 << 62)
			tnm, nmID := inf, -1
			for _, x := range txs {
				if x.t > b.t && !member[x.id] && x.t < tnm {
					tnm, nmID = x.t, x.id
				}
			}
			if tnm == inf || b.w == 0 {
				continue
			}
			// the silence: a transmission-free window of length >= wait somewhere in [t_b, tnm]
			pts := []mc.Duration{b.t}
			for _, x := range txs {
				if x.t > b.t && x.t < tnm && member[x.id] {
					pts = append(pts, x.t)
				}
			}
			pts = append(pts, tnm)
			silent := false
			for i := 1; i < len(pts); i++ {
				if pts[i]-pts[i-1] >= b.w {
					silent = true
				}
			}
			if !silent {
				bad("busy-ignored", "routing-busy (wait %v) was taken in at %v; goroutines inside Send then: %v; message %d, whose Send began later, left the socket at %v although no transmission-free interval of %v had passed since the busy indication (transmissions and bounds: %v)", b.w, b.t, keys(member), nmID, tnm, b.w, pts)
			}
		}
		return vs
	}
}

func keys(m map[int]bool) []int {
	var r []int
	for k := range m {
		r = append(r, k)
	}
	sort.Ints(r)
	return r
}

func init() {
	a := c13Params{pause: 20, senders: 2, perSender: 2, maxBusy: 2, waits: []int{0, 10, 100}, busyAtStart: true}
	register("both", &h.Scenario{Name: "C13-pause20-2x2-busy2", Prop: "C13", P: 1, F: 2, D: 1, Run: c13Run(a), Check: c13Oracle(a)})
	b := c13Params{pause: 0, senders: 2, perSender: 2, maxBusy: 2, waits: []int{0, 10, 100}, busyAtStart: true}
	register("both", &h.Scenario{Name: "C13-pause0-2x2-busy2", Prop: "C13", P: 1, F: 2, D: 1, Run: c13Run(b), Check: c13Oracle(b)})
	c := c13Params{pause: 20, senders: 3, perSender: 1, maxBusy: 1, waits: []int{0, 10, 50, 100, 500}, busyAtStart: true}
	register("both", &h.Scenario{Name: "C13-pause20-3x1-busy1-allwaits", Prop: "C13", P: 2, F: 1, D: 2, Run: c13Run(c), Check: c13Oracle(c)})
	d := c13Params{pause: 5, senders: 1, perSender: 3, maxBusy: 3, waits: []int{10, 100}}
	register("both", &h.Scenario{Name: "C13-pause5-1x3-storm3", Prop: "C13", P: 1, F: 3, D: 1, Run: c13Run(d), Check: c13Oracle(d)})
	sw := c13Params{pause: 20, senders: 2, perSender: 2, maxBusy: 1, waits: []int{10, 100}, slowWrites: 2}
	register("both", &h.Scenario{Name: "C13-pause20-2x2-slow-writes", Prop: "C13", P: 1, F: 2, D: 1, Run: c13Run(sw), Check: c13Oracle(sw)})
	lb := c13Params{pause: 20, senders: 1, perSender: 4, lost: 4}
	register("both", &h.Scenario{Name: "C13-pause20-lost4-busy-during-repeats", Prop: "C13", P: 1, F: 0, D: 1, Run: c13Run(lb), Check: c13Oracle(lb)})
	// pauses that are not a whole number of milliseconds (0.5 ms, 0.9 ms, 1.9 ms)
	for _, us := range []int{500, 900, 1900} {
		q := c13Params{pauseUs: us, senders: 2, perSender: 2, maxBusy: 1, waits: []int{0, 10}}
		register("both", &h.Scenario{Name: fmt.Sprintf("C13-pause%dus-2x2-busy1", us), Prop: "C13", P: 1, F: 1, D: 1, Run: c13Run(q), Check: c13Oracle(q)})
	}
	// announced wait times around the 50 ms cap and beyond one octet (255 / 256 ms)
	bw := c13Params{pause: 5, senders: 2, perSender: 1, maxBusy: 1, waits: []int{49, 50, 51, 255, 256, 280, 305, 306, 65535}, busyAtStart: true}
	register("both", &h.Scenario{Name: "C13-pause5-2x1-busy1-wire-wait-times", Prop: "C13", P: 1, F: 1, D: 1, Run: c13Run(bw), Check: c13Oracle(bw)})
	// every announced wait time of the quantifier (0..500 ms), both control values, the indication
	// arriving idle, right after a transmission, mid-pause and at the end of the pause
	var every []int
	for w := 0; w <= 500; w++ {
		every = append(every, w)
	}
	ew := c13Params{pause: 20, senders: 1, perSender: 2, maxBusy: 1, waits: every, busyAtStart: true}
	register("both", &h.Scenario{Name: "C13-pause20-1x2-busy1-every-wait-0..500", Prop: "C13", P: 0, F: 1, D: -1, Run: c13Run(ew), Check: c13Oracle(ew)})
	// a transmission fails in the socket write: the transmissions after it are paced as before
	wf := c13Params{pause: 20, senders: 2, perSender: 3, writeFails: 1}
	register("both", &h.Scenario{Name: "C13-pause20-2x3-write-fails", Prop: "C13", P: 1, F: 1, D: 1, Run: c13Run(wf), Check: c13Oracle(wf)})
	f := c13Params{pause: 20, senders: 8, perSender: 25, flat: true}
	register("both", &h.Scenario{Name: "C13-flat-8x25", Prop: "C13", P: 0, F: 0, D: -1, Run: c13Run(f), Check: c13Oracle(f)})
	t1 := c13Params{pause: 20, senders: 3, perSender: 2, maxBusy: 3, waits: []int{0, 10, 50, 100, 500}, busyAtStart: true}
	register("thorough", &h.Scenario{Name: "C13-pause20-3x2-busy3", Prop: "C13", P: 2, F: 3, D: 2, Run: c13Run(t1), Check: c13Oracle(t1)})
	t2 := c13Params{pause: 0, senders: 4, perSender: 1, maxBusy: 2, waits: []int{0, 10, 100}, busyAtStart: true}
	register("thorough", &h.Scenario{Name: "C13-pause0-4x1-busy2", Prop: "C13", P: 2, F: 2, D: 2, Run: c13Run(t2), Check: c13Oracle(t2)})
}

// c13CloseDuringBackoff: "transmission resumes afterwards: every Send eventually returns" also when
// the application closes the router while a back-off is in force: a Send that was waiting out the
// back-off, and a Send issued after Close, return (with whatever result) - none of them may hang on
// a lock that the back-off still holds.
func c13CloseDuringBackoff() func() {
	return func() {
		sock := fakesock.New("udp")
		r, _ := knx.NewRouterOnSocket(sock, knx.RouterConfig{RetainCount: 4, PostSendPauseDuration: 5 * ms})
		mc.GoEnv("reader", func() {
			for {
				if _, ok := r.Inbound().Recv2(); !ok {
					return
				}
			}
		})
		send := func(i int) {
			mc.Log(Call{"Send", i})
			t0 := mc.Now()
			err := r.Send(Msg(i))
			mc.Log(Ret{"Send", i, errStr(err), t0})
		}
		send(0)
		wait := []int{10, 40, 500}[mc.Choose(3, mc.Free)]
		deliverBusy(sock, wait, uint16(mc.Choose(2, mc.Free)))
		mc.Sleep(1 * ms)
		mc.GoEnv("pending-sender", func() { send(1) })
		closeAt := []mc.Duration{0, 2 * ms, 9 * ms, 30 * ms, 60 * ms}[mc.Choose(5, mc.Free)]
		mc.Sleep(closeAt)
		mc.Log(Call{"Close", 0})
		r.Close()
		mc.Log(Ret{"Close", 0, "", mc.Now()})
		mc.Sleep(1 * ms)
		mc.GoEnv("late-sender", func() { send(2) })
		mc.Sleep(300 * ms)
		mc.Log(Note("horizon"))
	}
}

func c13CloseOracle(tr *mc.Trace) []h.Violation {
	vs := generic(tr, "C13", true)
	calls := map[int]mc.Duration{}
	rets := map[int]bool{}
	for _, e := range tr.Log {
		switch x := e.V.(type) {
		case Call:
			if x.Call == "Send" {
				calls[x.ID] = e.T
			}
		case Ret:
			if x.Call == "Send" {
				rets[x.ID] = true
			}
		}
	}
	if tr.Reason != "main-returned" {
		return vs
	}
	for id, t := range calls {
		if !rets[id] {
			vs = append(vs, h.Violation{Class: "C13:send-never-returned", Msg: fmt.Sprintf("Send(%d), called at %v, had not returned 300 ms after the router was closed (busy indication before, Close during or after the back-off)", id, t)})
		}
	}
	return vs
}

func init() {
	register("both", &h.Scenario{Name: "C13-close-during-and-after-a-back-off", Prop: "C13", P: 1, F: 0, D: 1, Run: c13CloseDuringBackoff(), Check: c13CloseOracle})
}

// c13TwoRouters: two router clients in one process (an application that bridges two multicast
// groups). What one of them is told by its router - busy indications, back-offs that have run their
// course - is that client's business: the other client's pacing and back-off are as if it were alone,
// and every Send of either of them returns.
func c13TwoRouters() func() {
	return func() {
		const pause = 20 * ms
		sa, sb := fakesock.New("udp"), fakesock.New("udp")
		sa.LogHandoff, sb.LogHandoff = true, true
		a, _ := knx.NewRouterOnSocket(sa, knx.RouterConfig{RetainCount: 4, PostSendPauseDuration: pause})
		b, _ := knx.NewRouterOnSocket(sb, knx.RouterConfig{RetainCount: 4, PostSendPauseDuration: pause})
		for _, r := range []*knx.Router{a, b} {
			r := r
			mc.GoEnv("reader", func() {
				for {
					if _, ok := r.Inbound().Recv2(); !ok {
						return
					}
				}
			})
		}
		send := func(r *knx.Router, i int) {
			mc.Log(Call{"Send", i})
			t0 := mc.Now()
			err := r.Send(Msg(i))
			mc.Log(Ret{"Send", i, errStr(err), t0})
		}
		// A: one transmission, a busy indication, the back-off runs its course
		send(a, 0)
		deliverBusy(sa, 10, 1)
		mc.Sleep(60 * ms)
		// B: a busy indication of its own, then traffic on both
		order := mc.Choose(2, mc.Free)
		deliverBusy(sb, []int{10, 40}[mc.Choose(2, mc.Free)], 1)
		mc.Sleep(1 * ms)
		done := mc.NewChan[int](2, "c13two.done")
		mc.GoEnv("sender-a", func() { send(a, 1); send(a, 2); done.Send(1) })
		mc.GoEnv("sender-b", func() {
			if order == 1 {
				mc.Sleep(5 * ms)
			}
			send(b, 101)
			send(b, 102)
			done.Send(1)
		})
		mc.Sleep(400 * ms)
		mc.Log(Note("horizon"))
		a.Close()
		b.Close()
	}
}

func c13TwoRoutersOracle(tr *mc.Trace) []h.Violation {
	vs := generic(tr, "C13", true)
	bad := func(class, format string, a ...interface{}) {
		vs = append(vs, h.Violation{Class: "C13:" + class, Msg: fmt.Sprintf(format, a...)})
	}
	calls := map[int]mc.Duration{}
	rets := map[int]bool{}
	last := map[bool]mc.Duration{} // per router (id >= 100: B): instant of its previous successful transmission
	seenTx := map[bool]bool{}
	horizon := false
	for _, e := range tr.Log {
		switch x := e.V.(type) {
		case Note:
			if x == "horizon" {
				horizon = true
			}
		case Call:
			if x.Call == "Send" && !horizon {
				calls[x.ID] = e.T
			}
		case Ret:
			if x.Call == "Send" {
				rets[x.ID] = true
			}
		case fakesock.Sent:
			ind, ok := x.Svc.(*knxnet.RoutingInd)
			if !ok || x.Err != nil {
				continue
			}
			isB := MsgID(ind.Payload) >= 100
			if seenTx[isB] && e.T-last[isB] < 20*ms {
				bad("two-routers:pause-violated", "router %s: message %d left the socket at %v, %v after that router's previous transmission (post-send pause 20 ms); the other router's flow control must not shorten it", map[bool]string{false: "A", true: "B"}[isB], MsgID(ind.Payload), e.T, e.T-last[isB])
			}
			seenTx[isB], last[isB] = true, e.T
		}
	}
	if tr.Reason != "main-returned" {
		return vs
	}
	for id, t := range calls {
		if !rets[id] {
			bad("two-routers:send-never-returned", "Send(%d), called at %v, had not returned at 460 ms: transmission did not resume after the back-off (two router clients in one process, each with a busy indication of its own)", id, t)
		}
	}
	return vs
}

func init() {
	register("both", &h.Scenario{Name: "C13-two-router-clients-in-one-process", Prop: "C13", P: 1, F: 0, D: 1, Run: c13TwoRouters(), Check: c13TwoRoutersOracle})
}

// c13ManySenders: "1..8 concurrent senders": n goroutines each send two messages, all of them queued
// behind the first transmission's pause when a busy indication arrives (so that the client's worker
// has to get in line with n waiting senders); every Send returns, and the pause holds between all
// transmissions.
func c13ManySenders() func() {
	return func() {
		n := 1 + mc.Choose(9, mc.Free) // 1..9 senders
		sock := fakesock.New("udp")
		sock.LogHandoff = true
		r, _ := knx.NewRouterOnSocket(sock, knx.RouterConfig{RetainCount: 4, PostSendPauseDuration: 20 * ms})
		mc.GoEnv("reader", func() {
			for {
				if _, ok := r.Inbound().Recv2(); !ok {
					return
				}
			}
		})
		busyAt := []mc.Duration{1 * ms, 10 * ms, 25 * ms}[mc.Choose(3, mc.Free)]
		mc.GoEnv("router", func() {
			mc.Sleep(busyAt)
			deliverBusy(sock, 30, 1)
		})
		for s := 0; s < n; s++ {
			s := s
			mc.GoEnv(fmt.Sprintf("sender%d", s), func() {
				for k := 0; k < 2; k++ {
					id := s*10 + k
					mc.Log(Call{"Send", id})
					t0 := mc.Now()
					err := r.Send(Msg(id))
					mc.Log(Ret{"Send", id, errStr(err), t0})
				}
			})
		}
		mc.Sleep(mc.Duration(2*n)*20*ms + 500*ms)
		mc.Log(Note("horizon"))
		r.Close()
	}
}

func c13ManySendersOracle(tr *mc.Trace) []h.Violation {
	vs := generic(tr, "C13", true)
	calls := map[int]mc.Duration{}
	rets := map[int]bool{}
	var last mc.Duration
	seen := false
	for _, e := range tr.Log {
		switch x := e.V.(type) {
		case Call:
			if x.Call == "Send" {
				calls[x.ID] = e.T
			}
		case Ret:
			if x.Call == "Send" {
				rets[x.ID] = true
			}
		case fakesock.Sent:
			if _, ok := x.Svc.(*knxnet.RoutingInd); ok && x.Err == nil {
				if seen && e.T-last < 20*ms {
					vs = append(vs, h.Violation{Class: "C13:many-senders:pause-violated", Msg: fmt.Sprintf("%d senders: transmissions at %v and %v, post-send pause 20 ms", len(calls)/2, last, e.T)})
				}
				seen, last = true, e.T
			}
		}
	}
	if tr.Reason != "main-returned" {
		return vs
	}
	for id, t := range calls {
		if !rets[id] {
			vs = append(vs, h.Violation{Class: "C13:many-senders:send-never-returned", Msg: fmt.Sprintf("%d senders x 2 messages, a busy indication (30 ms) while they were queued: Send(%d), called at %v, had not returned 500 ms after the last transmission was due", len(calls)/2, id, t)})
			break
		}
	}
	return vs
}

func init() {
	register("both", &h.Scenario{Name: "C13-1..9-senders-queued-when-a-busy-indication-arrives", Prop: "C13", P: 0, F: 0, D: -1, Run: c13ManySenders(), Check: c13ManySendersOracle})
}
