//go:build verif

package scen

import (
	"fmt"
	"strings"

	"github.com/vapourismo/knx-go/knx"
	"github.com/vapourismo/knx-go/knx/cemi"
	"github.com/vapourismo/knx-go/knx/knxnet"
	"github.com/vapourismo/knx-go/verifmc/mc"
	"github.com/vapourismo/knx-go/verifmc/vnet"
	"verifh/harness/fakesock"
	"verifh/harness/h"
)

// C17 — inbound telegrams reach the application in the order they were accepted.

// consume reads n telegrams according to the consumer behaviour chosen by the environment:
// 0 always ready; 1 absent for the whole burst, then draining; 2 ready intermittently; 3 absent for
// a second (longer than every timeout of the clients), then draining.
func c17Consumer(n int, recv func() (interface{}, bool), from string) {
	mode := mc.Choose(4, mc.Free)
	switch mode {
	case 1:
		mc.Sleep(5 * ms)
	case 3:
		mc.Sleep(1000 * ms)
	case 2:
		// intermittently ready: pause before every second read
	}
	for i := 0; i < n; i++ {
		if mode == 2 && i%2 == 1 {
			mc.Sleep(1 * ms)
		}
		m, ok := recv()
		if !ok {
			mc.Log(Note("inbound closed early"))
			return
		}
		mc.Log(Rx{ID: MsgID(m), From: from})
	}
}

func c17Oracle(prop string, n int, overflowSite string, attributable bool) func(tr *mc.Trace) []h.Violation {
	return c17OracleR(prop, n, overflowSite, attributable, false)
}

// c17OracleR: with reconnect == true the scenario spaces its telegrams in virtual time. The known
// finding's mechanism (parked goroutines reach the channel in scheduler order) can only reorder
// telegrams accepted at the same instant: every goroutine reaches its blocking send before the
// virtual clock advances. A telegram overtaken by one that was accepted at a later instant is
// therefore a different defect, whatever goroutines were involved.
func c17OracleR(prop string, n int, overflowSite string, attributable bool, reconnect bool) func(tr *mc.Trace) []h.Violation {
	return func(tr *mc.Trace) []h.Violation {
		vs := generic(tr, prop, true)
		// acceptance order = order of the acknowledgements (tunnel) / of delivery to serve (router):
		// telegrams are injected in id order through one FIFO queue, so acceptance order is id order.
		// which telegrams went through an overflow goroutine?
		overflow := map[int]bool{}
		accepted := 0
		pendingSpawn := false
		accT := map[int]mc.Duration{} // virtual instant at which telegram i was accepted
		if reconnect {
			// across epochs the sequence numbers restart: number the acknowledgements as they come
			n0 := 0
			for _, e := range tr.Log {
				if x, ok := e.V.(fakesock.Sent); ok && x.Err == nil {
					if _, ok := x.Svc.(*knxnet.TunnelRes); ok {
						accT[n0] = e.T
						n0++
					}
				}
			}
		}
		for _, e := range tr.Log {
			switch x := e.V.(type) {
			case mc.Spawned:
				if strings.Contains(x.Site, overflowSite) {
					pendingSpawn = true
				}
			case fakesock.Sent:
				if r, ok := x.Svc.(*knxnet.TunnelRes); ok && x.Err == nil {
					_ = r
					if pendingSpawn {
						overflow[accepted] = true
					}
					pendingSpawn = false
					accepted++
				}
			case Accepted:
				if pendingSpawn {
					overflow[x.ID-1] = true // spawn is logged before the next acceptance marker
				}
				pendingSpawn = false
			}
		}
		var got []int
		for _, e := range tr.Log {
			if r, ok := e.V.(Rx); ok {
				got = append(got, r.ID)
			}
			if c, ok := e.V.(Changed); ok {
				vs = append(vs, h.Violation{Class: prop + ":telegram-changed-after-hand-over", Msg: c.String()})
			}
		}
		if len(got) != n {
			vs = append(vs, h.Violation{Class: prop + ":lost-or-extra", Msg: fmt.Sprintf("received %v, want %d telegrams", got, n)})
			return vs
		}
		spawns := 0
		for _, e := range tr.Log {
			if sp, ok := e.V.(mc.Spawned); ok && overflowSite != "" && strings.Contains(sp.Site, overflowSite) {
				spawns++
			}
		}
		for i := 1; i < len(got); i++ {
			if got[i] < got[i-1] {
				// got[i] was overtaken by got[i-1]
				cls := prop + ":inversion:direct"
				if ta, ok := accT[got[i]]; ok && ta < accT[got[i-1]] {
					vs = append(vs, h.Violation{Class: prop + ":inversion:across-time", Msg: fmt.Sprintf("received order %v: telegram %d, accepted at %v, was overtaken by telegram %d, accepted later at %v (parked deliveries of one instant may swap - known finding - but a later telegram cannot get ahead that way)", got, got[i], ta, got[i-1], accT[got[i-1]])})
					break
				}
				if attributable {
					if overflow[got[i]] {
						cls = prop + ":inversion:overflow-goroutine"
					}
				} else if spawns > 0 {
					cls = prop + ":inversion:overflow-goroutine"
				}
				vs = append(vs, h.Violation{Class: cls, Msg: fmt.Sprintf("received order %v (telegram %d overtaken by %d; overflow goroutines spawned: %d)", got, got[i], got[i-1], spawns)})
				break
			}
		}
		return vs
	}
}

// Changed is logged when a telegram the application received earlier no longer reads as it did: the
// sequence the application has in hand is then no longer the sequence that was accepted.
type Changed struct {
	ID   int
	Was  string
	Now  string
	When string
}

func (c Changed) String() string {
	return fmt.Sprintf("telegram %d was accepted as %s; %s it reads %s", c.ID, c.Was, c.When, c.Now)
}

// MsgTagged is Msg(id) with an additional-information block that names the telegram too.
func MsgTagged(id int) cemi.Message {
	m := Msg(id).(*cemi.LDataInd)
	m.Info = cemi.Info{0x03, 0x02, byte(id), byte(0xA0 + id)}
	return m
}

// Accepted marks (router scenarios) the injection of telegram ID into the socket queue.
type Accepted struct{ ID int }

func (a Accepted) String() string { return fmt.Sprintf("ACCEPTED id=%d", a.ID) }

func c17Tunnel(n int) func() {
	return func() {
		sock := fakesock.New("udp")
		NewGateway(sock, 7)
		t, err := knx.NewTunnelOnSocket(sock, knxnet.TunnelLayerData, TCfg(100, 350, 100000))
		if err != nil {
			mc.Log(Note("connect failed: " + err.Error()))
			return
		}
		for i := 0; i < n; i++ {
			sock.Deliver(&knxnet.TunnelReq{Channel: 7, SeqNumber: uint8(i), Payload: Msg(i)})
		}
		c17Consumer(n, func() (interface{}, bool) { m, ok := t.Inbound().Recv2(); return m, ok }, "tunnel")
		t.Close()
	}
}

// c17TunnelNoise: as c17Tunnel, with frames that the client must turn down in front of every
// telegram: a request for a foreign channel (once or twice in a row, carrying the number after the
// expected one) or an out-of-sequence request on the own channel, twice. None of them is accepted,
// so the accepted telegrams are 0..n-1 and must all arrive, in that order.
func c17TunnelNoise(n int) func() {
	return func() {
		sock := fakesock.New("udp")
		NewGateway(sock, 7)
		t, err := knx.NewTunnelOnSocket(sock, knxnet.TunnelLayerData, TCfg(100, 350, 100000))
		if err != nil {
			mc.Log(Note("connect failed: " + err.Error()))
			return
		}
		for i := 0; i < n; i++ {
			switch mc.Choose(4, mc.Free) {
			case 1:
				sock.Deliver(&knxnet.TunnelReq{Channel: 9, SeqNumber: uint8(i + 1), Payload: Msg(100 + i)})
			case 2:
				sock.Deliver(&knxnet.TunnelReq{Channel: 9, SeqNumber: uint8(i + 1), Payload: Msg(100 + i)})
				sock.Deliver(&knxnet.TunnelReq{Channel: 9, SeqNumber: uint8(i + 1), Payload: Msg(100 + i)})
			case 3:
				sock.Deliver(&knxnet.TunnelReq{Channel: 7, SeqNumber: uint8(i + 2), Payload: Msg(200 + i)})
				sock.Deliver(&knxnet.TunnelReq{Channel: 7, SeqNumber: uint8(i + 2), Payload: Msg(200 + i)})
			}
			sock.Deliver(&knxnet.TunnelReq{Channel: 7, SeqNumber: uint8(i), Payload: Msg(i)})
		}
		c17Consumer(n, func() (interface{}, bool) { m, ok := t.Inbound().Recv2(); return m, ok }, "tunnel")
		t.Close()
	}
}

// msgKind builds telegram id in one of six shapes the clients hand to Inbound alike: group write,
// extended application service (APCI 15 + service octet), transport control unit, confirmation,
// individually addressed data, bus-monitor indication.
func msgKind(id, kind int) cemi.Message {
	ld := cemi.LData{Control1: cemi.Control1StdFrame | cemi.Control1NoRepeat, Control2: cemi.Control2GroupAddr | cemi.Control2Hops(6),
		Source: cemi.IndividualAddr(0x1101), Destination: uint16(id), Data: &cemi.AppData{Command: cemi.GroupValueWrite, Data: []byte{byte(id & 63)}}}
	switch kind {
	case 1:
		ld.Data = &cemi.AppData{Command: cemi.Escape, Data: []byte{0x15, 0x03, 0x05, 0x10, 0x01}}
	case 2:
		ld.Control2 = cemi.Control2Hops(6)
		ld.Data = &cemi.ControlData{Command: 0}
	case 3:
		return &cemi.LDataCon{LData: ld}
	case 4:
		ld.Control2 = cemi.Control2Hops(6)
		ld.Data = &cemi.AppData{Numbered: true, SeqNumber: 3, Command: cemi.MemoryRead, Data: []byte{0x02, 0x01, 0x16}}
	case 5:
		m := cemi.LBusmonInd{byte(id >> 8), byte(id), 0xBC, 0x11, 0x01}
		return &m
	}
	return &cemi.LDataInd{LData: ld}
}

func msgKindID(m interface{}) int {
	if b, ok := m.(*cemi.LBusmonInd); ok && len(*b) >= 2 {
		return int((*b)[0])<<8 | int((*b)[1])
	}
	return MsgID(m)
}

// c17Mixed: a burst of three telegrams whose shapes the environment chooses (6^3), through the tunnel
// or the router client: the order (and completeness) of the hand-over must not depend on what a
// telegram carries.
func c17Mixed(router bool) func() {
	return func() {
		const n = 3
		sock := fakesock.New("udp")
		var recv func() (interface{}, bool)
		var closeFn func()
		if router {
			r, _ := knx.NewRouterOnSocket(sock, knx.RouterConfig{RetainCount: 4})
			recv, closeFn = func() (interface{}, bool) { m, ok := r.Inbound().Recv2(); return m, ok }, r.Close
		} else {
			NewGateway(sock, 7)
			t, err := knx.NewTunnelOnSocket(sock, knxnet.TunnelLayerData, TCfg(100, 350, 100000))
			if err != nil {
				mc.Log(Note("connect failed: " + err.Error()))
				return
			}
			recv, closeFn = func() (interface{}, bool) { m, ok := t.Inbound().Recv2(); return m, ok }, t.Close
		}
		for i := 0; i < n; i++ {
			m := msgKind(i, mc.Choose(6, mc.Free))
			if router {
				sock.Deliver(&knxnet.RoutingInd{Payload: m})
			} else {
				sock.Deliver(&knxnet.TunnelReq{Channel: 7, SeqNumber: uint8(i), Payload: m})
			}
		}
		c17Consumer(n, func() (interface{}, bool) {
			m, ok := recv()
			if !ok {
				return nil, false
			}
			return &cemi.LDataInd{LData: cemi.LData{Destination: uint16(msgKindID(m))}}, true
		}, "mixed")
		closeFn()
	}
}

// c17TunnelReconnect: two telegrams are parked (reader stalled), the gateway ends the connection,
// the client reconnects, two more telegrams arrive at later instants, then the reader drains.
func c17TunnelReconnect() func() {
	return func() {
		sock := fakesock.New("udp")
		gw := NewGateway(sock, 7)
		t, err := knx.NewTunnelOnSocket(sock, knxnet.TunnelLayerData, TCfg(100, 350, 100000))
		if err != nil {
			return
		}
		gw.NextChannel = 8
		sock.Deliver(&knxnet.TunnelReq{Channel: 7, SeqNumber: 0, Payload: Msg(0)})
		mc.Sleep(2 * ms)
		sock.Deliver(&knxnet.TunnelReq{Channel: 7, SeqNumber: 1, Payload: Msg(1)})
		mc.Sleep(2 * ms)
		if mc.Choose(2, mc.Free) == 1 {
			sock.Deliver(&knxnet.TunnelReq{Channel: 7, SeqNumber: 2, Payload: Msg(2)})
			mc.Sleep(2 * ms)
		} else {
			m, _ := t.Inbound().Recv2() // the application takes one, the rest stays parked
			mc.Log(Rx{ID: MsgID(m), From: "tunnel"})
			sock.Deliver(&knxnet.TunnelReq{Channel: 7, SeqNumber: 2, Payload: Msg(2)})
			mc.Sleep(2 * ms)
		}
		sock.Deliver(&knxnet.DiscReq{Channel: 7})
		mc.Sleep(10 * ms)
		sock.Deliver(&knxnet.TunnelReq{Channel: 8, SeqNumber: 0, Payload: Msg(3)})
		mc.Sleep(2 * ms)
		sock.Deliver(&knxnet.TunnelReq{Channel: 8, SeqNumber: 1, Payload: Msg(4)})
		mc.Sleep(2 * ms)
		for {
			c0 := mc.RecvC(t.Inbound())
			c1 := mc.RecvC(mc.After(50 * ms))
			if mc.Select(false, c0, c1) != 0 || !c0.Ok {
				break
			}
			mc.Log(Rx{ID: MsgID(c0.V), From: "tunnel"})
		}
		t.Close()
	}
}

func c17Router(n int) func() {
	return func() {
		sock := fakesock.New("udp")
		r, _ := knx.NewRouterOnSocket(sock, knx.RouterConfig{RetainCount: 4})
		for i := 0; i < n; i++ {
			sock.Deliver(&knxnet.RoutingInd{Payload: Msg(i)})
		}
		c17Consumer(n, func() (interface{}, bool) { m, ok := r.Inbound().Recv2(); return m, ok }, "router")
		r.Close()
	}
}

// c17RouterNoise: as c17Router, with flow-control frames in front of every telegram: a lost
// indication when nothing has been sent (count 0, or a count with an empty history), a busy
// indication, or both. None of them concerns the receive side: the telegrams 0..n-1 must all be
// handed over, in their order, whatever was in between.
func c17RouterNoise(n int) func() {
	return func() {
		sock := fakesock.New("udp")
		r, _ := knx.NewRouterOnSocket(sock, knx.RouterConfig{RetainCount: 4})
		for i := 0; i < n; i++ {
			switch mc.Choose(5, mc.Free) {
			case 1:
				deliverLost(sock, 0)
			case 2:
				deliverLost(sock, 2)
			case 3:
				deliverBusy(sock, 3, 1)
			case 4:
				deliverLost(sock, 1)
				deliverBusy(sock, 3, 1)
			}
			sock.Deliver(&knxnet.RoutingInd{Payload: Msg(i)})
		}
		c17Consumer(n, func() (interface{}, bool) { m, ok := r.Inbound().Recv2(); return m, ok }, "router")
		r.Close()
	}
}

func init() {
	register("both", &h.Scenario{Name: "C17-router-burst3-between-flow-control-frames", Prop: "C17", P: 1, F: 0, D: 1, Run: c17RouterNoise(3), Check: c17Oracle("C17", 3, "router.go:", false)})
}

func c17GroupTunnel(n int) func() {
	return func() {
		sock := fakesock.New("udp")
		NewGateway(sock, 7)
		gt, err := knx.NewGroupTunnelOnSocket(sock, TCfg(100, 350, 100000))
		if err != nil {
			mc.Log(Note("connect failed: " + err.Error()))
			return
		}
		for i := 0; i < n; i++ {
			sock.Deliver(&knxnet.TunnelReq{Channel: 7, SeqNumber: uint8(i), Payload: Msg(i)})
		}
		c17Consumer(n, func() (interface{}, bool) {
			ev, ok := gt.Inbound().Recv2()
			return &cemi.LDataInd{LData: cemi.LData{Destination: uint16(ev.Destination)}}, ok
		}, "grouptunnel")
		gt.Close()
	}
}

func c17GroupRouter(n int) func() {
	return func() {
		sock := fakesock.New("udp")
		gr, _ := knx.NewGroupRouterOnSocket(sock, knx.RouterConfig{RetainCount: 4})
		for i := 0; i < n; i++ {
			sock.Deliver(&knxnet.RoutingInd{Payload: Msg(i)})
		}
		c17Consumer(n, func() (interface{}, bool) {
			ev, ok := gr.Inbound().Recv2()
			return &cemi.LDataInd{LData: cemi.LData{Destination: uint16(ev.Destination)}}, ok
		}, "grouprouter")
		gr.Close()
	}
}

// the group layer alone, on a source channel that is ordered by construction
func c17GroupLayer(n int) func() {
	return func() {
		src := mc.NewChan[cemi.Message](0, "ordered-source")
		out := mc.NewChan[knx.GroupEvent](0, "group-out")
		mc.Go("harness:serveGroupInbound", func() { knx.ServeGroupInboundForTest(src, out) })
		mc.GoEnv("producer", func() {
			for i := 0; i < n; i++ {
				src.Send(Msg(i))
			}
			src.Close()
		})
		c17Consumer(n, func() (interface{}, bool) {
			ev, ok := out.Recv2()
			return &cemi.LDataInd{LData: cemi.LData{Destination: uint16(ev.Destination)}}, ok
		}, "grouplayer")
		if _, ok := out.Recv2(); ok {
			mc.Log(Note("group channel delivered an extra event"))
		} else {
			mc.Log(Note("group channel closed"))
		}
	}
}

func init() {
	type mk struct {
		name string
		f    func(int) func()
		site string
		attr bool
	}
	for _, k := range []mk{
		{"tunnel", c17Tunnel, "tunnel.go:", true},
		{"router", c17Router, "router.go:", false},
		{"grouptunnel", c17GroupTunnel, "tunnel.go:", true},
		{"grouprouter", c17GroupRouter, "router.go:", false},
		{"grouplayer-isolated", c17GroupLayer, "", false},
	} {
		for _, n := range []int{2, 3, 4, 5} {
			tiers, D := "both", 3
			switch {
			case n == 4:
				D = 2
			case n == 5:
				tiers, D = "thorough", 2
			}
			if n == 3 && (k.name == "grouptunnel" || k.name == "grouprouter") {
				D = 2
			}
			if n == 4 && k.name != "tunnel" && k.name != "router" && k.name != "grouplayer-isolated" {
				tiers = "thorough"
			}
			register(tiers, &h.Scenario{
				Name: fmt.Sprintf("C17-%s-burst%d", k.name, n), Prop: "C17", P: 2, F: 0, D: D,
				Run: k.f(n), Check: c17Oracle("C17", n, k.site, k.attr),
			})
		}
		// (S: a worker that chooses between several ready select cases 100 times over has 2^100
		// executions; the flat runs explore every pair of non-default choices)
		register("both", &h.Scenario{
			Name: fmt.Sprintf("C17-%s-flat100", k.name), Prop: "C17", P: 0, F: 0, D: -1, S: 2,
			Run: k.f(100), Check: c17Oracle("C17", 100, k.site, k.attr),
		})
	}
	// bursts longer than any small power of two a buffering implementation might start with (8, 16):
	// the group layer alone, and under the group tunnel; one preemption puts the application's reads
	// between any two arrivals
	for _, n := range []int{12, 20} {
		register("both", &h.Scenario{Name: fmt.Sprintf("C17-grouplayer-isolated-burst%d", n), Prop: "C17", P: 1, F: 0, D: 1, S: 2,
			Run: c17GroupLayer(n), Check: c17Oracle("C17", n, "", false)})
	}
	register("both", &h.Scenario{Name: "C17-grouptunnel-burst12", Prop: "C17", P: 1, F: 0, D: 1, S: 1,
		Run: c17GroupTunnel(12), Check: c17Oracle("C17", 12, "tunnel.go:", false)})
	register("both", &h.Scenario{Name: "C17-tunnel-burst3-between-turned-down-frames", Prop: "C17", P: 1, F: 0, D: 1, Run: c17TunnelNoise(3), Check: c17Oracle("C17", 3, "tunnel.go:", true)})
	register("both", &h.Scenario{Name: "C17-tunnel-burst3-mixed-telegram-shapes", Prop: "C17", P: 1, F: 0, D: 1, Run: c17Mixed(false), Check: c17Oracle("C17", 3, "tunnel.go:", true)})
	register("both", &h.Scenario{Name: "C17-router-burst3-mixed-telegram-shapes", Prop: "C17", P: 1, F: 0, D: 1, Run: c17Mixed(true), Check: c17Oracle("C17", 3, "router.go:", false)})
	register("both", &h.Scenario{Name: "C17-tunnel-parked-across-reconnect", Prop: "C17", P: 1, F: 0, D: 1, Run: c17TunnelReconnect(), Check: c17OracleR("C17", 5, "tunnel.go:", false, true)})
	// unbounded preemptions for the smallest burst (classic context bounding with P=2, no delay bound)
	register("thorough", &h.Scenario{Name: "C17-tunnel-burst2-p2", Prop: "C17", P: 2, F: 0, D: 0, Run: c17Tunnel(2), Check: c17Oracle("C17", 2, "tunnel.go:", true), MaxExe: 3000000})
	register("thorough", &h.Scenario{Name: "C17-grouplayer-isolated-burst3-p2", Prop: "C17", P: 2, F: 0, D: 0, Run: c17GroupLayer(3), Check: c17Oracle("C17", 3, "", false), MaxExe: 3000000})
}

// c17FullStack: the router client (or a TCP tunnel) on the real socket layer (virtual connection);
// between the telegrams the peer sends frames the receiver must drop (cut short, wrong version, a
// cEMI body that is too short). What the application reads must be the telegrams, each once, in
// order - whatever the socket layer does with the frames it rejects.
func c17FullStack(router bool) func() { return c17FullStackMode(router, true) }

// c17FullStackMode: tcp selects the transport of the tunnel variant. The telegrams carry an
// additional-information block; every telegram the application has received is looked at again when
// the next one arrives and at the end (an application that queues telegrams, or is still working on
// one, when later datagrams come in).
func c17FullStackMode(router, tcp bool) func() {
	return func() {
		defer logChoice()()
		const n = 3
		w := vnet.Reset()
		var ep *vnet.Endpoint
		w.OnCreate = func(e *vnet.Endpoint) {
			ep = e
			e.OnWrite = func(wr vnet.WriteRec) {
				var v knxnet.Service
				if _, err := knxnet.Unpack(wr.Data, &v); err != nil {
					return
				}
				if _, ok := v.(*knxnet.ConnReq); ok {
					e.Inject(pack(&knxnet.ConnRes{Channel: 7, Status: 0, Control: knxnet.HostInfo{Protocol: knxnet.TCP4}}), nil)
				}
			}
		}
		var recv0 func() (interface{}, bool)
		var closeFn func()
		type kept struct {
			m   interface{}
			was string
		}
		var have []kept
		recheck := func(when string) {
			for _, k := range have {
				if now := deepDump(k.m); now != k.was {
					mc.Log(Changed{MsgID(k.m), k.was, now, when})
					return
				}
			}
		}
		recv := func() (interface{}, bool) {
			m, ok := recv0()
			if ok {
				recheck("when the next telegram was received")
				// what was accepted is what the gateway / router sent under that number
				have = append(have, kept{m, deepDump(MsgTagged(MsgID(m)))})
				recheck("when it was received")
			}
			return m, ok
		}
		_ = recv
		if router {
			r, err := knx.NewRouter("224.0.23.12:3671", knx.RouterConfig{RetainCount: 2})
			if err != nil {
				mc.Log(Note("router failed: " + err.Error()))
				return
			}
			recv0, closeFn = func() (interface{}, bool) { m, ok := r.Inbound().Recv2(); return m, ok }, r.Close
		} else {
			cfg := TCfg(100, 350, 100000000)
			cfg.UseTCP = tcp
			t, err := knx.NewTunnel("192.0.2.99:3671", knxnet.TunnelLayerData, cfg)
			if err != nil {
				mc.Log(Note("connect failed: " + err.Error()))
				return
			}
			recv0, closeFn = func() (interface{}, bool) { m, ok := t.Inbound().Recv2(); return m, ok }, t.Close
		}
		junk := [][]byte{
			{6, 0x10, 0x05, 0x30, 0, 9, 0x29, 0, 0xBC},                                         // routing indication whose cEMI body is too short
			{6, 0x10, 0x04, 0x20, 0, 10, 4, 7, 0, 0},                                           // tunnelling request without a cEMI body
			{6, 0x10, 0x05, 0x30, 0, 17, 0x29, 3, 1, 2, 3, 0xBC, 0xE0, 0x11, 0x01, 0x0A, 0x03}, // additional info + truncated L_Data
		}
		if !router {
			// a well-formed request of a channel the client does not own (the gateway serves another
			// connection on the same stream / towards the same port): not accepted, not handed over
			junk = append(junk, pack(&knxnet.TunnelReq{Channel: 9, SeqNumber: 0, Payload: MsgTagged(66)}))
		}
		for i := 0; i < n; i++ {
			if k := mc.Choose(len(junk)+1, mc.Free); k > 0 {
				ep.Inject(junk[k-1], nil)
			}
			if router {
				ep.Inject(pack(&knxnet.RoutingInd{Payload: MsgTagged(i)}), nil)
			} else {
				ep.Inject(pack(&knxnet.TunnelReq{Channel: 7, SeqNumber: uint8(i), Payload: MsgTagged(i)}), nil)
			}
		}
		mc.Sleep(1 * ms)
		c17Consumer(n, recv, "fullstack")
		recheck("after the last telegram was received")
		// anything beyond the three telegrams?
		mc.Sleep(5 * ms)
		extra := mc.NewChan[int](1, "c17.extra")
		mc.GoEnv("extra-reader", func() {
			if m, ok := recv(); ok {
				mc.Log(Rx{ID: MsgID(m), From: "fullstack-extra"})
			}
			extra.Send(1)
		})
		mc.Sleep(5 * ms)
		closeFn()
		extra.Recv()
	}
}

func init() {
	register("both", &h.Scenario{Name: "C17-fullstack-router-rejected-frames-between-telegrams", Prop: "C17", P: 0, F: 0, D: -1, Run: c17FullStack(true), Check: c17Oracle("C17", 3, "router.go:", false)})
	register("both", &h.Scenario{Name: "C17-fullstack-tcp-tunnel-rejected-frames-between-telegrams", Prop: "C17", P: 0, F: 0, D: -1, Run: c17FullStack(false), Check: c17Oracle("C17", 3, "tunnel.go:", false)})
	register("both", &h.Scenario{Name: "C17-fullstack-udp-tunnel-rejected-frames-between-telegrams", Prop: "C17", P: 0, F: 0, D: -1, Run: c17FullStackMode(false, false), Check: c17Oracle("C17", 3, "tunnel.go:", false)})
}

// c17Identical: neighbouring telegrams may be identical in every field (a sensor that sends the same
// value twice, two writes of the same value): each accepted telegram is handed over, identical or
// not. The environment chooses for every telegram after the first whether it repeats its
// predecessor or is the next one.
func c17Identical(router bool) func() {
	return func() {
		const n = 4
		sock := fakesock.New("udp")
		var recv func() (interface{}, bool)
		var closeFn func()
		if router {
			r, _ := knx.NewRouterOnSocket(sock, knx.RouterConfig{RetainCount: 4})
			recv, closeFn = func() (interface{}, bool) { m, ok := r.Inbound().Recv2(); return m, ok }, r.Close
		} else {
			NewGateway(sock, 7)
			t, err := knx.NewTunnelOnSocket(sock, knxnet.TunnelLayerData, TCfg(100, 350, 100000))
			if err != nil {
				mc.Log(Note("connect failed: " + err.Error()))
				return
			}
			recv, closeFn = func() (interface{}, bool) { m, ok := t.Inbound().Recv2(); return m, ok }, t.Close
		}
		id := 0
		for i := 0; i < n; i++ {
			if i > 0 && mc.Choose(2, mc.Free) == 1 {
				id++
			}
			if router {
				sock.Deliver(&knxnet.RoutingInd{Payload: Msg(id)})
			} else {
				sock.Deliver(&knxnet.TunnelReq{Channel: 7, SeqNumber: uint8(i), Payload: Msg(id)})
			}
		}
		c17Consumer(n, recv, "identical")
		closeFn()
	}
}

func init() {
	register("both", &h.Scenario{Name: "C17-router-burst4-identical-neighbours", Prop: "C17", P: 1, F: 0, D: 1, Run: c17Identical(true), Check: c17Oracle("C17", 4, "router.go:", false)})
	register("both", &h.Scenario{Name: "C17-tunnel-burst4-identical-neighbours", Prop: "C17", P: 1, F: 0, D: 1, Run: c17Identical(false), Check: c17Oracle("C17", 4, "tunnel.go:", false)})
}

// c17DuringHeartbeat: telegrams arrive while a heartbeat exchange is in flight (the gateway answers
// the connection-state request 50 ms late): every one of them is handed over, in order - whoever
// else inside the client is waiting on the socket at that time.
func c17DuringHeartbeat(tcp bool) func() {
	return func() {
		const n = 6
		network := "udp"
		if tcp {
			network = "tcp"
		}
		sock := fakesock.New(network)
		gw := NewGateway(sock, 7)
		gw.OnConnState = func(req *knxnet.ConnStateReq, s *fakesock.Sent) {
			ch := req.Channel
			After(50*ms, "late-state", func() { sock.Deliver(&knxnet.ConnStateRes{Channel: ch, Status: 0}) })
		}
		cfg := TCfg(100, 350, 100)
		cfg.UseTCP = tcp
		t, err := knx.NewTunnelOnSocket(sock, knxnet.TunnelLayerData, cfg)
		if err != nil {
			mc.Log(Note("connect failed: " + err.Error()))
			return
		}
		mc.GoEnv("gateway-traffic", func() {
			mc.Sleep(95 * ms)
			for i := 0; i < n; i++ {
				sock.Deliver(&knxnet.TunnelReq{Channel: 7, SeqNumber: uint8(i), Payload: Msg(i)})
				mc.Sleep(20 * ms)
			}
		})
		for i := 0; i < n; i++ {
			c0 := mc.RecvC(t.Inbound())
			c1 := mc.RecvC(mc.After(400 * ms))
			if mc.Select(false, c0, c1) != 0 || !c0.Ok {
				break
			}
			mc.Log(Rx{ID: MsgID(c0.V), From: "tunnel"})
		}
		t.Close()
	}
}

func init() {
	register("both", &h.Scenario{Name: "C17-udp-tunnel-telegrams-during-a-heartbeat-exchange", Prop: "C17", P: 1, F: 0, D: 1, Run: c17DuringHeartbeat(false), Check: c17Oracle("C17", 6, "tunnel.go:", false)})
	register("both", &h.Scenario{Name: "C17-tcp-tunnel-telegrams-during-a-heartbeat-exchange", Prop: "C17", P: 1, F: 0, D: 1, Run: c17DuringHeartbeat(true), Check: c17Oracle("C17", 6, "tunnel.go:", false)})
}
