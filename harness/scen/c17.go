//go:build verif

package scen

import (
	"fmt"
	"strings"

	"github.com/vapourismo/knx-go/knx"
	"github.com/vapourismo/knx-go/knx/knxnet"
	"github.com/vapourismo/knx-go/verifmc/mc"
	"verifh/harness/fakesock"
	"verifh/harness/h"
)

// C17 — inbound telegrams reach the application in the order they were accepted.

// consume reads n telegrams according to the consumer behaviour chosen by the environment:
// 0 always ready; 1 absent for the whole burst, then draining; 2+k ready after the k-th hand-off.
func c17Consumer(n int, recv func() (interface{}, bool), from string) {
	mode := mc.Choose(3, mc.Free)
	switch mode {
	case 1:
		mc.Sleep(5 * ms)
	case 2:
		// intermittently ready: pause before every second read
	}
	for i := 0; i < n; i++ {
		if mode == 2 && i%2 == 1 {
			mc.Sleep(1 * ms)
		}
		m, ok := recv()
		if !ok {
			mc.Log(Note("inbound closed early"))
			return
		}
		mc.Log(Rx{ID: MsgID(m), From: from})
	}
}

func c17Oracle(prop string, n int, overflowSite string) func(tr *mc.Trace) []h.Violation {
	return func(tr *mc.Trace) []h.Violation {
		vs := generic(tr, prop, true)
		// acceptance order = order of the acknowledgements (tunnel) / of delivery to serve (router):
		// telegrams are injected in id order through one FIFO queue, so acceptance order is id order.
		// which telegrams went through an overflow goroutine?
		overflow := map[int]bool{}
		accepted := 0
		pendingSpawn := false
		for _, e := range tr.Log {
			switch x := e.V.(type) {
			case mc.Spawned:
				if strings.Contains(x.Site, overflowSite) {
					pendingSpawn = true
				}
			case fakesock.Sent:
				if r, ok := x.Svc.(*knxnet.TunnelRes); ok && x.Err == nil {
					_ = r
					if pendingSpawn {
						overflow[accepted] = true
					}
					pendingSpawn = false
					accepted++
				}
			case Accepted:
				if pendingSpawn {
					overflow[x.ID-1] = true // spawn is logged before the next acceptance marker
				}
				pendingSpawn = false
			}
		}
		var got []int
		for _, e := range tr.Log {
			if r, ok := e.V.(Rx); ok {
				got = append(got, r.ID)
			}
		}
		if len(got) != n {
			vs = append(vs, h.Violation{Class: prop + ":lost-or-extra", Msg: fmt.Sprintf("received %v, want %d telegrams", got, n)})
			return vs
		}
		for i := 1; i < len(got); i++ {
			if got[i] < got[i-1] {
				// got[i] was overtaken by got[i-1]
				cls := prop + ":inversion:direct"
				if overflowSite != "" && tr != nil {
					cls = prop + ":inversion:overflow-goroutine"
				}
				vs = append(vs, h.Violation{Class: cls, Msg: fmt.Sprintf("received order %v (telegram %d overtaken by %d)", got, got[i], got[i-1])})
				break
			}
		}
		return vs
	}
}

// Accepted marks (router scenarios) the injection of telegram ID into the socket queue.
type Accepted struct{ ID int }

func (a Accepted) String() string { return fmt.Sprintf("ACCEPTED id=%d", a.ID) }

func c17Tunnel(n int) func() {
	return func() {
		sock := fakesock.New("udp")
		NewGateway(sock, 7)
		t, err := knx.NewTunnelOnSocket(sock, knxnet.TunnelLayerData, TCfg(100, 350, 100000))
		if err != nil {
			mc.Log(Note("connect failed: " + err.Error()))
			return
		}
		for i := 0; i < n; i++ {
			sock.Deliver(&knxnet.TunnelReq{Channel: 7, SeqNumber: uint8(i), Payload: Msg(i)})
		}
		c17Consumer(n, func() (interface{}, bool) { m, ok := t.Inbound().Recv2(); return m, ok }, "tunnel")
		t.Close()
	}
}

func init() {
	for _, n := range []int{2, 3} {
		register("both", &h.Scenario{
			Name: fmt.Sprintf("C17-tunnel-burst%d", n), Prop: "C17", P: 2, F: 0, D: 3,
			Run: c17Tunnel(n), Check: c17Oracle("C17", n, "pushInbound"),
		})
	}
}
