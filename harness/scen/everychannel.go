//go:build verif

package scen

import (
	"fmt"

	"github.com/vapourismo/knx-go/knx"
	"github.com/vapourismo/knx-go/knx/knxnet"
	"github.com/vapourismo/knx-go/verifmc/mc"
	"verifh/harness/fakesock"
	"verifh/harness/h"
)

// Every channel number a gateway can assign (0..255; 0 is a legal one and collides with Go's zero
// value), UDP and TCP, and after a reconnect as well: one Send, one inbound request, one heartbeat
// exchange, a disconnect request by the gateway followed by a reconnect to a second channel number,
// again one Send and one inbound request, then Close. The gateway is strict: it reacts only to
// frames that carry the channel it assigned. Registered under C03 (the Sends), C04 (the inbound
// requests) and C09 (heartbeat, reconnect, new channel in all frames), with one oracle.

type everyChNote struct {
	First, Second uint8
	TCP           bool
}

func (n everyChNote) String() string {
	return fmt.Sprintf("CHANNELS first=%d after-reconnect=%d tcp=%v", n.First, n.Second, n.TCP)
}

func everyChannelRun(tcp bool) func() {
	return func() {
		defer logChoice()()
		const H = 1000 * ms
		first := uint8(mc.Choose(256, mc.Free))
		second := first + []uint8{1, 0, uint8(256 - int(first))}[mc.Choose(3, mc.Free)] // next one, the same again, channel 0
		mc.Log(everyChNote{first, second, tcp})
		network := "udp"
		if tcp {
			network = "tcp"
		}
		sock := fakesock.New(network)
		cur := first
		conns := 0
		sock.OnSend = func(s *fakesock.Sent) {
			switch x := s.Svc.(type) {
			case *knxnet.ConnReq:
				conns++
				if conns > 1 {
					cur = second
				}
				sock.Deliver(&knxnet.ConnRes{Channel: cur, Status: 0, Control: knxnet.HostInfo{Protocol: knxnet.UDP4}})
			case *knxnet.TunnelReq:
				if x.Channel == cur && !tcp {
					sock.Deliver(&knxnet.TunnelRes{Channel: cur, SeqNumber: x.SeqNumber, Status: 0})
				}
			case *knxnet.ConnStateReq:
				if x.Channel == cur {
					sock.Deliver(&knxnet.ConnStateRes{Channel: cur, Status: 0})
				}
			}
		}
		cfg := TCfg(100, 300, int(H/ms))
		cfg.UseTCP = tcp
		t, err := knx.NewTunnelOnSocket(sock, knxnet.TunnelLayerData, cfg)
		if err != nil {
			mc.Log(Note("connect failed: " + err.Error()))
			return
		}
		mc.GoEnv("reader", func() {
			for {
				m, ok := t.Inbound().Recv2()
				if !ok {
					mc.Log(Note("inbound closed"))
					return
				}
				mc.Log(Rx{ID: MsgID(m), From: "tunnel"})
			}
		})
		send := func(i int) {
			mc.Log(Call{"Send", i})
			t0 := mc.Now()
			err := t.Send(Msg(i))
			mc.Log(Ret{"Send", i, errStr(err), t0})
		}
		send(0)
		mc.Sleep(10 * ms)
		sock.Deliver(&knxnet.TunnelReq{Channel: cur, SeqNumber: 0, Payload: Msg(100)})
		mc.Sleep(H + 50*ms) // one heartbeat exchange
		sock.Deliver(&knxnet.DiscReq{Channel: cur})
		mc.Sleep(50 * ms)
		send(1)
		mc.Sleep(10 * ms)
		sock.Deliver(&knxnet.TunnelReq{Channel: cur, SeqNumber: 0, Payload: Msg(101)})
		mc.Sleep(10 * ms)
		mc.Log(Call{"Close", 0})
		t.Close()
		mc.Sleep(1 * ms)
	}
}

func everyChannelOracle(prop string) func(tr *mc.Trace) []h.Violation {
	return func(tr *mc.Trace) []h.Violation {
		vs := generic(tr, prop, true)
		bad := func(class, format string, a ...interface{}) {
			vs = append(vs, h.Violation{Class: prop + ":every-channel:" + class, Msg: fmt.Sprintf(format, a...)})
		}
		var note everyChNote
		cur := -1
		conns := 0
		rx := map[int]int{}
		acks := map[string]int{}
		reqs := map[string]int{}
		hb, disc, discRes := 0, 0, 0
		closed := false
		closing := false
		for _, e := range tr.Log {
			switch x := e.V.(type) {
			case everyChNote:
				note = x
			case Note:
				if x == "inbound closed" {
					closed = true
				} else {
					bad("setup", "%s", string(x))
				}
			case Rx:
				rx[x.ID]++
			case Call:
				if x.Call == "Close" {
					closing = true
				}
			case Ret:
				if x.Call == "Send" && x.Err != "" {
					bad("send-failed", "%v: Send(%d) failed with %q; the gateway answers every frame that carries its channel", note, x.ID, x.Err)
				}
			case fakesock.Sent:
				want := uint8(cur)
				switch y := x.Svc.(type) {
				case *knxnet.ConnReq:
					conns++
					if conns == 1 {
						cur = int(note.First)
					} else {
						cur = int(note.Second)
					}
				case *knxnet.TunnelReq:
					reqs[fmt.Sprintf("%d/%d/%d", y.Channel, y.SeqNumber, MsgID(y.Payload))]++
					if y.Channel != want {
						bad("request-channel", "%v: tunnelling request for telegram %d carries channel %d; the connection's channel is %d", note, MsgID(y.Payload), y.Channel, want)
					}
				case *knxnet.TunnelRes:
					acks[fmt.Sprintf("%d/%d/%d", y.Channel, y.SeqNumber, y.Status)]++
				case *knxnet.ConnStateReq:
					hb++
					if y.Channel != want {
						bad("heartbeat-channel", "%v: connection-state request carries channel %d; the connection's channel is %d", note, y.Channel, want)
					}
				case *knxnet.DiscRes:
					discRes++
					if y.Channel != note.First {
						bad("disconnect-response-channel", "%v: disconnect response carries channel %d", note, y.Channel)
					}
				case *knxnet.DiscReq:
					disc++
					if !closing {
						bad("disconnect-request-unexpected", "%v: the client sent a disconnect request before Close was called", note)
					}
					if y.Channel != want {
						bad("disconnect-request-channel", "%v: disconnect request carries channel %d; the connection's channel is %d", note, y.Channel, want)
					}
				}
			}
		}
		if tr.Reason != "main-returned" {
			return vs
		}
		if conns != 2 {
			bad("connect-requests", "%v: %d connect requests (want 2: the initial one and one after the gateway's disconnect request)", note, conns)
		}
		if rx[100] != 1 || rx[101] != 1 || len(rx) != 2 {
			bad("inbound", "%v: telegrams handed to the application: %v; want 100 and 101 once each (request number 0 on the connection's channel, before and after the reconnect)", note, rx)
		}
		if !note.TCP {
			for i, ch := range []uint8{note.First, note.Second} {
				k := fmt.Sprintf("%d/0/0", ch)
				want := 1
				if note.First == note.Second {
					want = 2
				}
				if acks[k] != want {
					bad("acknowledgements", "%v: acknowledgements (channel/number/status) on the wire: %v; want %q %d time(s) (epoch %d)", note, acks, k, want, i)
				}
			}
			if n := len(acks); n > 2 {
				bad("acknowledgements", "%v: unexpected acknowledgements %v", note, acks)
			}
		} else if len(acks) != 0 {
			bad("acknowledgements", "%v: a TCP tunnel acknowledged: %v", note, acks)
		}
		for i, ch := range []uint8{note.First, note.Second} {
			k := fmt.Sprintf("%d/0/%d", ch, i)
			if reqs[k] != 1 {
				bad("requests", "%v: tunnelling requests (channel/number/telegram) on the wire: %v; want %q exactly once", note, reqs, k)
			}
		}
		if hb != 1 {
			bad("heartbeats", "%v: %d connection-state requests in one heartbeat interval answered at once (want 1)", note, hb)
		}
		if discRes != 1 {
			bad("disconnect-response", "%v: %d disconnect responses to the gateway's disconnect request (want 1)", note, discRes)
		}
		if disc != 1 {
			bad("disconnect-request", "%v: %d disconnect requests at Close (want 1)", note, disc)
		}
		if !closed {
			bad("inbound-not-closed", "%v: Inbound not closed after Close", note)
		}
		return vs
	}
}

func init() {
	for _, prop := range []string{"C03", "C04", "C09", "C10"} {
		for _, tcp := range []bool{false, true} {
			register("both", &h.Scenario{Name: fmt.Sprintf("%s-every-channel-number-before-and-after-a-reconnect-tcp=%v", prop, tcp), Prop: prop, P: 0, F: 0, D: -1,
				Run: everyChannelRun(tcp), Check: everyChannelOracle(prop)})
		}
	}
}
