//go:build verif

package scen

import (
	"encoding/hex"
	"errors"
	"fmt"
	"sort"

	"github.com/vapourismo/knx-go/knx"
	"github.com/vapourismo/knx-go/knx/cemi"
	"github.com/vapourismo/knx-go/knx/knxnet"
	"github.com/vapourismo/knx-go/verifmc/mc"
	"github.com/vapourismo/knx-go/verifmc/vnet"
	"verifh/harness/h"
)

// C12 through the real socket layer: "an inbound L_Data indication becomes a group event ... with
// the same ... payload" for every payload length up to 254 also holds for the datagrams a gateway
// or router actually sends, i.e. after the receive buffer of the UDP / multicast / TCP reader. The
// frames of every boundary length (standard/extended frame switch, the longest payload, the longest
// payload with 255 octets of additional information = the largest frame the protocol allows) are
// injected into a virtual connection; the group events that surface must be exactly those.

// Injected is logged for every group telegram the environment sends.
type Injected struct {
	ID  int
	Hex string
}

func (i Injected) String() string { return fmt.Sprintf("INJECT #%d %s", i.ID, i.Hex) }

// GroupRx is logged for every group event the application receives.
type GroupRx struct {
	Dst uint16
	Hex string
}

func (g GroupRx) String() string { return fmt.Sprintf("GROUP-RX dst=%#04x %s", g.Dst, g.Hex) }

type c12Shape struct{ data, info int }

func c12FullShapes() []c12Shape {
	var out []c12Shape
	for _, n := range []int{1, 2, 15, 16, 100, 249, 250, 251, 252, 253, 254} {
		out = append(out, c12Shape{n, 0})
	}
	return append(out, c12Shape{254, 1}, c12Shape{254, 8}, c12Shape{254, 255}, c12Shape{1, 255})
}

func c12FullFrame(i int, s c12Shape) *cemi.LDataInd {
	d := make([]byte, s.data)
	for k := range d {
		d[k] = byte(k*13 + i)
	}
	d[0] &= 63
	var info cemi.Info
	for k := 0; k < s.info; k++ {
		info = append(info, byte(0x40+k))
	}
	c1 := cemi.Control1NoRepeat | cemi.Control1Prio(cemi.PrioLow)
	if s.data <= 15 {
		c1 |= cemi.Control1StdFrame
	}
	return &cemi.LDataInd{LData: cemi.LData{Info: info, Control1: c1, Control2: cemi.Control2GroupAddr | cemi.Control2Hops(6),
		Source: cemi.IndividualAddr(0x1101), Destination: uint16(0x0A00 + i), Data: &cemi.AppData{Command: cemi.GroupValueWrite, Data: d}}}
}

// mode: 0 group tunnel over UDP, 1 group tunnel over TCP, 2 group router (multicast)
func c12FullStack(mode int) func() {
	return func() {
		defer logChoice()()
		w := vnet.Reset()
		var ep *vnet.Endpoint
		w.OnCreate = func(e *vnet.Endpoint) {
			ep = e
			e.OnWrite = func(wr vnet.WriteRec) {
				var v knxnet.Service
				if _, err := knxnet.Unpack(wr.Data, &v); err != nil {
					return
				}
				if _, ok := v.(*knxnet.ConnReq); ok {
					e.Inject(pack(&knxnet.ConnRes{Channel: 7, Status: 0, Control: knxnet.HostInfo{Protocol: knxnet.UDP4}}), nil)
				}
			}
		}
		var in *mc.Chan[knx.GroupEvent]
		var closeFn func()
		if mode == 2 {
			gr, err := knx.NewGroupRouter("224.0.23.12:3671", knx.RouterConfig{RetainCount: 1})
			if err != nil {
				mc.Log(Note("router failed: " + err.Error()))
				return
			}
			in, closeFn = gr.Inbound(), gr.Close
		} else {
			cfg := TCfg(100, 350, 100000000)
			cfg.UseTCP = mode == 1
			gt, err := knx.NewGroupTunnel("192.0.2.99:3671", cfg)
			if err != nil {
				mc.Log(Note("connect failed: " + err.Error()))
				return
			}
			in, closeFn = gt.Inbound(), gt.Close
		}
		done := mc.NewChan[int](1, "c12full.done")
		// the application may be busy elsewhere for a second (longer than every timeout of the client)
		// while the telegrams arrive: they are all acknowledged, so they must all still surface
		away := mc.Choose(2, mc.Free) == 1
		if away {
			mc.Log(Note("application away"))
		}
		mc.GoEnv("app", func() {
			if away {
				mc.Sleep(1000 * ms)
			}
			for {
				ev, ok := in.Recv2()
				if !ok {
					done.Send(1)
					return
				}
				mc.Log(GroupRx{uint16(ev.Destination), hex.EncodeToString(ev.Data)})
			}
		})
		// UDP tunnel: the socket write of one acknowledgement may fail (a transient error); the gateway
		// then repeats that telegram, which must surface exactly once all the same
		failAt := -1
		reconnAt := -1 // tunnels: the gateway ends the connection before telegram reconnAt; numbering restarts
		if mode == 0 {
			failAt = []int{-1, 2, 13}[mc.Choose(3, mc.Free)]
		}
		if mode != 2 {
			reconnAt = []int{-1, 1, 7}[mc.Choose(3, mc.Free)]
		}
		cutAt := 0
		if mode == 1 {
			cutAt = []int{0, 6, 11}[mc.Choose(3, mc.Free)]
		}
		base := 0
		for i, s := range c12FullShapes() {
			if i == reconnAt {
				ep.Inject(pack(&knxnet.DiscReq{Channel: 7, Control: knxnet.HostInfo{Protocol: knxnet.UDP4}}), nil)
				mc.Sleep(20 * ms)
				base = i
			}
			f := c12FullFrame(i, s)
			mc.Log(Injected{i, hex.EncodeToString(f.Data.(*cemi.AppData).Data)})
			if mode == 2 {
				ep.Inject(pack(&knxnet.RoutingInd{Payload: f}), nil)
			} else {
				if i == failAt {
					ep.WriteErr = errors.New("injected write failure")
				}
				fr := pack(&knxnet.TunnelReq{Channel: 7, SeqNumber: uint8(i - base), Payload: f})
				if mode == 1 && cutAt > 0 && cutAt < len(fr) {
					// TCP: the frame arrives in two segments (the header first, or cut inside the body)
					ep.Inject(fr[:cutAt], nil)
					mc.Sleep(1 * ms)
					ep.Inject(fr[cutAt:], nil)
				} else {
					ep.Inject(fr, nil)
				}
				if i == failAt {
					mc.Sleep(10 * ms)
					ep.WriteErr = nil
					ep.Inject(pack(&knxnet.TunnelReq{Channel: 7, SeqNumber: uint8(i - base), Payload: f}), nil)
				}
			}
			mc.Sleep(10 * ms)
		}
		mc.Sleep(50 * ms)
		if away {
			mc.Sleep(1000 * ms)
		}
		closeFn()
		done.Recv()
	}
}

func c12FullOracle(tr *mc.Trace) []h.Violation {
	vs := generic(tr, "C12", true)
	var want, got []string
	away := false
	for _, e := range tr.Log {
		switch x := e.V.(type) {
		case Injected:
			want = append(want, fmt.Sprintf("%#04x %s", 0x0A00+x.ID, x.Hex))
		case GroupRx:
			got = append(got, fmt.Sprintf("%#04x %s", x.Dst, x.Hex))
		case Note:
			if x == "application away" {
				away = true
				continue
			}
			vs = append(vs, h.Violation{Class: "C12:fullstack-setup", Msg: string(x)})
		}
	}
	if away {
		// telegrams that had to wait for the application may be handed over in another order (the
		// order is C17's subject); here: the same telegrams, each once
		sort.Strings(want)
		sort.Strings(got)
	}
	for i := 0; i < len(want) || i < len(got); i++ {
		var a, b string
		if i < len(want) {
			a = want[i]
		}
		if i < len(got) {
			b = got[i]
		}
		if a != b {
			n := len(a)
			if n > 60 {
				a = a[:60] + "..."
			}
			if len(b) > 60 {
				b = b[:60] + "..."
			}
			vs = append(vs, h.Violation{Class: "C12:fullstack-inbound-group-write-lost-or-changed",
				Msg: fmt.Sprintf("group telegram %d sent to the client's socket: %s (%d payload octets); group event %d received by the application: %q - %d telegrams were sent, %d events surfaced", i, a, (n-7)/2, i, b, len(want), len(got))})
			break
		}
	}
	return vs
}

func init() {
	for i, name := range []string{"udp-tunnel", "tcp-tunnel", "router"} {
		register("both", &h.Scenario{Name: "C12-fullstack-inbound-boundary-lengths-" + name, Prop: "C12", P: 0, F: 0, D: -1, Run: c12FullStack(i), Check: c12FullOracle,
			Note: "largest and boundary-length group telegrams through the real socket layer (virtual connection)"})
	}
}

// c12FullOutbound: "frames leaving the socket after GroupTunnel.Send". A group tunnel shares its
// socket between the application's Send and the connection server, which acknowledges every
// inbound telegram (and sends heartbeats and the disconnect request). One group write is sent
// while a telegram from the bus arrives at the same instant, so that the two writers overlap in
// every order the scheduler allows: the datagram that carries the request must be the L_Data
// request of that event whatever else the client is writing.
func c12FullOutbound() func() {
	return func() {
		w := vnet.Reset()
		var ep *vnet.Endpoint
		w.OnCreate = func(e *vnet.Endpoint) {
			ep = e
			e.OnWrite = func(wr vnet.WriteRec) {
				mc.Log(Wrote{hex.EncodeToString(wr.Data)})
				var v knxnet.Service
				if _, err := knxnet.Unpack(wr.Data, &v); err != nil {
					return
				}
				switch x := v.(type) {
				case *knxnet.ConnReq:
					e.Inject(pack(&knxnet.ConnRes{Channel: 7, Status: 0, Control: knxnet.HostInfo{Protocol: knxnet.UDP4}}), nil)
				case *knxnet.TunnelReq:
					e.Inject(pack(&knxnet.TunnelRes{Channel: x.Channel, SeqNumber: x.SeqNumber, Status: 0}), nil)
				}
			}
		}
		gt, err := knx.NewGroupTunnel("192.0.2.99:3671", TCfg(100, 350, 100000000))
		if err != nil {
			mc.Log(Note("connect failed: " + err.Error()))
			return
		}
		mc.GoEnv("reader", func() {
			for {
				if _, ok := gt.Inbound().Recv2(); !ok {
					return
				}
			}
		})
		n := []int{1, 3, 14}[mc.Choose(3, mc.Free)]
		data := make([]byte, n)
		for k := range data {
			data[k] = byte(0x21 + k)
		}
		mc.Sleep(5 * ms)
		ep.Inject(pack(&knxnet.TunnelReq{Channel: 7, SeqNumber: 0, Payload: c12FullFrame(0, c12Shape{2, 0})}), nil)
		mc.Log(Injected{0, hex.EncodeToString(data)})
		err = gt.Send(knx.GroupEvent{Command: knx.GroupWrite, Destination: cemi.GroupAddr(0x0A55), Data: data})
		mc.Log(Ret{"Send", 0, errStr(err), mc.Now()})
		mc.Sleep(20 * ms)
		gt.Close()
		mc.Sleep(1 * ms)
	}
}

func c12FullOutboundOracle(tr *mc.Trace) []h.Violation {
	vs := generic(tr, "C12", true)
	bad := func(class, format string, a ...interface{}) {
		vs = append(vs, h.Violation{Class: "C12:" + class, Msg: fmt.Sprintf(format, a...)})
	}
	want := ""
	reqs := 0
	for _, e := range tr.Log {
		switch x := e.V.(type) {
		case Note:
			bad("fullstack-setup", "%s", string(x))
		case Injected:
			want = x.Hex
		case Ret:
			if x.Call == "Send" && x.Err != "" {
				bad("fullstack-outbound-send-failed", "Send of the group write failed: %s", x.Err)
			}
		case Wrote:
			b, _ := hex.DecodeString(x.Hex)
			if len(b) < 6 || (int(b[4])<<8|int(b[5])) != len(b) {
				bad("fullstack-outbound-frame-corrupt", "a datagram of %d octets left the socket whose header announces %d: %s", len(b), int(b[4])<<8|int(b[5]), x.Hex)
				continue
			}
			var v knxnet.Service
			if _, err := knxnet.Unpack(b, &v); err != nil {
				bad("fullstack-outbound-frame-corrupt", "the client put %s on the wire, which is no frame: %v", x.Hex, err)
				continue
			}
			req, ok := v.(*knxnet.TunnelReq)
			if !ok {
				continue
			}
			reqs++
			ld, ok := req.Payload.(*cemi.LDataReq)
			if !ok {
				bad("fullstack-outbound-frame-differs", "the tunnelling request on the wire carries %T, want an L_Data request: %s", req.Payload, x.Hex)
				continue
			}
			app, _ := ld.Data.(*cemi.AppData)
			if app == nil || !ld.Control2.IsGroupAddr() || ld.Destination != 0x0A55 || app.Command != cemi.GroupValueWrite || hex.EncodeToString(app.Data) != want {
				bad("fullstack-outbound-frame-differs", "group write to 0x0a55 with payload %s was sent; the tunnelling request on the wire is %s (%+v)", want, x.Hex, ld)
			}
		}
	}
	if tr.Reason == "main-returned" && reqs != 1 {
		bad("fullstack-outbound-count", "%d tunnelling requests left the socket for one group write that was acknowledged at once", reqs)
	}
	return vs
}

func init() {
	register("both", &h.Scenario{Name: "C12-fullstack-outbound-while-acknowledging", Prop: "C12", P: 2, F: 0, D: 4, Run: c12FullOutbound(), Check: c12FullOutboundOracle})
}
