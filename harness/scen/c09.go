//go:build verif

package scen

import (
	"fmt"
	"sort"
	"strings"

	"github.com/vapourismo/knx-go/knx"
	"github.com/vapourismo/knx-go/knx/knxnet"
	"github.com/vapourismo/knx-go/verifmc/mc"
	"verifh/harness/fakesock"
	"verifh/harness/h"
)

// C09 — heartbeat, reconnect, termination.
//
// The oracle replays the frames the gateway side injected (InjSvc events, with virtual times)
// through a reference machine Connected(ch) / Reconnecting / Terminated written from the property
// statement, derives the control frames the client must emit (ConnStateReq, ConnReq, DiscRes) with
// their exact virtual instants, and compares them with what left the socket. A retransmission that
// falls on the very instant its exchange is resolved is a tie and accepted either way.

// InjSvc is logged for every frame the gateway side hands to the client's socket.
type InjSvc struct{ Svc knxnet.Service }

func (i InjSvc) String() string { return "INJ " + fakesock.Describe(i.Svc) }

type c09Params struct {
	H, R, T        int
	tcp            bool
	allStatus      bool // flat: every non-zero status code, one per run (Choose 255, free)
	spont          bool // spontaneous disconnect requests / responses
	horizonHB      int  // number of heartbeat intervals to run
	noTraffic      bool
	connMenu       bool
	stateMenu      bool
	lateCloser     bool
	discWriteFails int  // socket writes of the client's disconnect responses that may fail (transient error)
	secondApp      bool // a second application goroutine calls Send 2 ms after the first one in every interval
	discAllStatus  bool // flat: a disconnect response for the current channel with every status octet in turn (0..255)
	connAllStatus  bool // flat: the first heartbeat fails, the reconnect is refused with every non-zero status code in turn
	hbWriteFails   int  // socket writes of connection-state requests that may fail: the heartbeat has failed
}

func c09Run(p c09Params) func() {
	return func() {
		H, R, T := mc.Duration(p.H)*ms, mc.Duration(p.R)*ms, mc.Duration(p.T)*ms
		if p.allStatus || p.connAllStatus || p.discAllStatus {
			defer logChoice()()
		}
		network := "udp"
		if p.tcp {
			network = "tcp"
		}
		sock := fakesock.New(network)
		deliver := func(v knxnet.Service) {
			mc.Log(InjSvc{v})
			sock.Deliver(v)
		}
		discFailLeft, hbFailLeft := p.discWriteFails, p.hbWriteFails
		sock.FailSend = func(v knxnet.ServicePackable) error {
			if _, ok := v.(*knxnet.DiscRes); ok && discFailLeft > 0 && mc.Choose(2, mc.Fault) == 1 {
				discFailLeft--
				return fakesock.ErrSockClosed
			}
			if _, ok := v.(*knxnet.ConnStateReq); ok && hbFailLeft > 0 && mc.Choose(2, mc.Fault) == 1 {
				hbFailLeft--
				return fakesock.ErrSockClosed
			}
			return nil
		}
		gw := NewGateway(sock, 7)
		cur := uint8(0)
		next := uint8(7)
		epochStart := mc.Duration(0)
		inSeq := uint8(0)
		connected := false
		first := true
		flatStatus := uint8(0)
		if p.allStatus {
			flatStatus = uint8(1 + mc.Choose(255, mc.Free))
		}
		connStatus := uint8(0)
		refuseFirst := false // the very first connect request is refused: the constructor reports the status
		if p.connAllStatus {
			flatStatus = uint8(knxnet.ErrConnectionID)
			connStatus = uint8(1 + mc.Choose(255, mc.Free))
			refuseFirst = mc.Choose(2, mc.Free) == 1
		}
		gw.OnConnReq = func(req *knxnet.ConnReq, s *fakesock.Sent) {
			accept := func() {
				if !first && p.connMenu && mc.Choose(2, mc.Free) == 1 {
					// the gateway hands the same channel number out again
				} else {
					cur = next
					next++
				}
				epochStart = mc.Now()
				inSeq = 0
				connected = true
				deliver(&knxnet.ConnRes{Channel: cur, Status: 0, Control: knxnet.HostInfo{Protocol: knxnet.UDP4}})
			}
			if first && refuseFirst {
				deliver(&knxnet.ConnRes{Channel: 0, Status: knxnet.ErrCode(connStatus)})
				return
			}
			if first {
				accept()
				first = false
				return
			}
			connected = false
			if p.connAllStatus {
				deliver(&knxnet.ConnRes{Channel: 0, Status: knxnet.ErrCode(connStatus)})
				return
			}
			c := 0
			if p.connMenu {
				c = mc.Choose(5, mc.Fault)
			}
			switch c {
			case 0:
				accept()
			case 1:
				deliver(&knxnet.ConnRes{Channel: 0, Status: knxnet.ErrNoMoreConnections})
			case 2:
				deliver(&knxnet.ConnRes{Channel: 0, Status: knxnet.ErrNoMoreUniqueConnections})
			case 3:
				deliver(&knxnet.ConnRes{Channel: 0, Status: knxnet.ErrConnectionType})
			case 4: // silence
			}
		}
		gw.OnConnState = func(req *knxnet.ConnStateReq, s *fakesock.Sent) {
			if p.allStatus || p.connAllStatus {
				deliver(&knxnet.ConnStateRes{Channel: req.Channel, Status: knxnet.ErrCode(flatStatus)})
				return
			}
			c := 0
			if p.stateMenu {
				c = mc.Choose(8, mc.Fault)
			}
			j := ((s.T - epochStart) % H) / R // index of this transmission within its heartbeat
			switch c {
			case 0:
				deliver(&knxnet.ConnStateRes{Channel: req.Channel, Status: 0})
			case 1: // silence
			case 2:
				deliver(&knxnet.ConnStateRes{Channel: req.Channel, Status: knxnet.ErrConnectionID})
			case 3:
				deliver(&knxnet.ConnStateRes{Channel: req.Channel + 50, Status: 0})
			case 4:
				// just after the next resend tick (exactly at the tick two responses with different
				// statuses could meet at one instant, and which of them the heartbeat takes is a
				// scheduling choice the reference machine does not follow)
				ch := req.Channel
				After(R+1*ms, "late-state", func() { deliver(&knxnet.ConnStateRes{Channel: ch, Status: 0}) })
			case 5:
				ch := req.Channel
				After(T-j*R-1*ms, "late-state", func() { deliver(&knxnet.ConnStateRes{Channel: ch, Status: 0}) })
			case 6:
				ch := req.Channel
				After(T-j*R+1*ms, "late-state", func() { deliver(&knxnet.ConnStateRes{Channel: ch, Status: 0}) })
			case 7: // a response for a foreign channel that reports that channel as lost
				deliver(&knxnet.ConnStateRes{Channel: req.Channel + 50, Status: knxnet.ErrConnectionID})
			}
		}
		gw.OnTunnelReq = func(req *knxnet.TunnelReq, s *fakesock.Sent) {
			if p.tcp {
				return
			}
			if connected && req.Channel == cur {
				deliver(&knxnet.TunnelRes{Channel: req.Channel, SeqNumber: req.SeqNumber, Status: 0})
			}
		}
		cfg := TCfg(p.R, p.T, p.H)
		cfg.UseTCP = p.tcp
		t, err := knx.NewTunnelOnSocket(sock, knxnet.TunnelLayerData, cfg)
		if err != nil {
			mc.Log(Note("connect failed: " + err.Error()))
			return
		}
		// application reader
		mc.GoEnv("reader", func() {
			for {
				m, ok := t.Inbound().Recv2()
				if !ok {
					mc.Log(Note("inbound closed"))
					return
				}
				mc.Log(Rx{ID: MsgID(m), From: "tunnel"})
			}
		})
		end := mc.Duration(p.horizonHB)*H + H/2
		if !p.noTraffic {
			// one application Send and one inbound request per heartbeat interval
			mc.GoEnv("app", func() {
				for i := 0; ; i++ {
					mc.Sleep(H/4 + 3*ms)
					if mc.Now() >= end {
						return
					}
					mc.Log(Call{"Send", i})
					t0 := mc.Now()
					err := t.Send(Msg(i))
					mc.Log(Ret{"Send", i, errStr(err), t0})
					mc.Sleep(H - (mc.Now() - t0) - H/4 - 3*ms)
				}
			})
			if p.secondApp {
				mc.GoEnv("app2", func() {
					for i := 0; ; i++ {
						mc.Sleep(H/4 + 5*ms)
						if mc.Now() >= end {
							return
						}
						mc.Log(Call{"Send", 500 + i})
						t0 := mc.Now()
						err := t.Send(Msg(500 + i))
						mc.Log(Ret{"Send", 500 + i, errStr(err), t0})
						if d := H - (mc.Now() - t0) - H/4 - 5*ms; d > 0 {
							mc.Sleep(d)
						}
					}
				})
			}
			mc.GoEnv("inject", func() {
				for i := 0; ; i++ {
					mc.Sleep(H/4 + 57*ms)
					if mc.Now() >= end {
						return
					}
					if connected {
						deliver(&knxnet.TunnelReq{Channel: cur, SeqNumber: inSeq, Payload: Msg(100 + i)})
						inSeq++
					}
					mc.Sleep(H - H/4 - 57*ms)
				}
			})
		}
		if p.discAllStatus {
			st := uint8(mc.Choose(256, mc.Free))
			foreign := mc.Choose(2, mc.Free) == 1
			mc.GoEnv("disc", func() {
				mc.Sleep(H/2 + 11*ms)
				if foreign {
					deliver(&knxnet.DiscRes{Channel: cur + 50, Status: st})
				} else {
					deliver(&knxnet.DiscRes{Channel: cur, Status: st})
				}
			})
		}
		if p.spont {
			mc.GoEnv("spont", func() {
				// mid-interval, and 61 ms into the following heartbeat exchange (pending if unanswered).
				// The residues modulo the resend interval (11, 61, 73) are pairwise different and not 0:
				// after a reconnect the heartbeat phase is the disconnect instant plus a multiple of the
				// resend interval, so no injected frame can coincide with a heartbeat tick - with
				// 2H+161 the third one did (disconnect at H+61, one lost connect request, tick at
				// 2H+161), a tie whose two orders are both correct and which the reference machine
				// resolved one way (false alarm of the thorough tier, see DESIGN 11).
				for i, at := range []mc.Duration{H/2 + 11*ms, H + 61*ms, 2*H + 173*ms} {
					if i >= 2 && p.horizonHB < 3 {
						break
					}
					mc.Sleep(at - mc.Now())
					switch mc.Choose(7, mc.Fault) {
					case 6: // a disconnect response that carries an error status (a gateway that no longer
						// knows the channel answers like that); the statement makes no exception for it
						deliver(&knxnet.DiscRes{Channel: cur, Status: uint8(knxnet.ErrConnectionID)})
					case 5: // unsolicited: another connection's state response, reporting that one as lost
						deliver(&knxnet.ConnStateRes{Channel: cur + 50, Status: knxnet.ErrConnectionID})
					case 1:
						deliver(&knxnet.DiscReq{Channel: cur})
					case 2:
						deliver(&knxnet.DiscReq{Channel: cur + 50})
					case 3:
						deliver(&knxnet.DiscRes{Channel: cur})
					case 4:
						deliver(&knxnet.DiscRes{Channel: cur + 50})
					}
				}
			})
		}
		mc.Sleep(end)
		mc.Log(Call{"Close", 0})
		t.Close()
		mc.Log(Ret{"Close", 0, "", end})
		mc.Sleep(1 * ms)
	}
}

type c09Exp struct {
	t        mc.Duration
	kind     string // "ConnStateReq" | "ConnReq" | "DiscRes"
	ch       uint8
	optional bool
	matched  bool
	why      string
}

func c09Oracle(p c09Params) func(tr *mc.Trace) []h.Violation {
	H, R, T := mc.Duration(p.H)*ms, mc.Duration(p.R)*ms, mc.Duration(p.T)*ms
	return func(tr *mc.Trace) []h.Violation {
		vs := generic(tr, "C09", true)
		bad := func(class, format string, a ...interface{}) {
			vs = append(vs, h.Violation{Class: "C09:" + class, Msg: fmt.Sprintf(format, a...)})
		}
		type inj struct {
			t   mc.Duration
			svc knxnet.Service
		}
		relaxed := H < T+R // more than one heartbeat exchange can be pending: which of them a response resolves is a scheduling choice, so the epoch boundaries are taken from the client's own connect requests and only justified, not predicted
		var injs []inj
		closeAt := mc.Duration(1 << 62)
		sawFirstConnReq := false
		for _, e := range tr.Log {
			switch x := e.V.(type) {
			case fakesock.Sent:
				if q, ok := x.Svc.(*knxnet.ConnStateReq); ok && x.Err != nil && !relaxed {
					// the request could not be written: for the reference machine that is a heartbeat
					// failing at this instant (rendered as a response with a status no gateway sends)
					injs = append(injs, inj{e.T, &knxnet.ConnStateRes{Channel: q.Channel, Status: 0xFE}})
				}
				if _, ok := x.Svc.(*knxnet.ConnReq); ok && x.Err == nil {
					if sawFirstConnReq && relaxed {
						injs = append(injs, inj{e.T, nil}) // marker: the client (re)transmitted a connect request
					}
					sawFirstConnReq = true
				}
			case InjSvc:
				injs = append(injs, inj{e.T, x.Svc})
			case Call:
				if x.Call == "Close" {
					closeAt = e.T
				}
			}
		}
		if len(injs) == 0 {
			return vs
		}
		// ---- reference machine ----
		const (
			mConnected = iota
			mReconnecting
			mTerminated
		)
		type epoch struct {
			ch         uint8
			from, to   mc.Duration
			mode       int
			inExp      uint8
			outAcked   int
			startCause string
		}
		var exps []*c09Exp
		var epochs []*epoch
		expect := func(t mc.Duration, kind string, ch uint8, optional bool, why string) {
			if t > closeAt {
				return
			}
			if t == closeAt {
				optional = true
			}
			exps = append(exps, &c09Exp{t: t, kind: kind, ch: ch, optional: optional, why: why})
		}
		var story []string
		say := func(format string, a ...interface{}) { story = append(story, fmt.Sprintf(format, a...)) }
		first, ok := injs[0].svc.(*knxnet.ConnRes)
		if !ok || first.Status != 0 {
			return vs
		}
		cur := &epoch{ch: first.Channel, from: injs[0].t, mode: mConnected}
		epochs = append(epochs, cur)
		say("%v connected ch=%d", cur.from, cur.ch)
		idx := 1
		// heartbeat bookkeeping
		type hb struct {
			start mc.Duration
		}
		var active []*hb
		nextHb := cur.from + H
		reconnStart := mc.Duration(0)
		type parked struct {
			t  mc.Duration
			st uint8
		}
		var park []parked
		switchMode := func(mode int, t mc.Duration, ch uint8, cause string) {
			cur.to = t
			cur = &epoch{ch: ch, from: t, mode: mode, startCause: cause}
			epochs = append(epochs, cur)
			active = nil
			park = nil
			switch mode {
			case mConnected:
				nextHb = t + H
				say("%v connected ch=%d (%s)", t, ch, cause)
			case mReconnecting:
				reconnStart = t
				expect(t, "ConnReq", 0, false, cause)
				say("%v reconnecting (%s)", t, cause)
			case mTerminated:
				say("%v terminated (%s)", t, cause)
			}
		}
		resolveHb := func(hbb *hb, at mc.Duration, st uint8, cause string) {
			// retransmissions of this heartbeat: mandatory strictly before `at`, optional at `at`
			for j := 1; hbb.start+mc.Duration(j)*R <= at && mc.Duration(j)*R <= T; j++ {
				tt := hbb.start + mc.Duration(j)*R
				expect(tt, "ConnStateReq", cur.ch, tt == at, "retransmission of the heartbeat begun "+hbb.start.String())
			}
			for i, a := range active {
				if a == hbb {
					active = append(active[:i], active[i+1:]...)
					break
				}
			}
			if st != 0 || cause == "timeout" {
				switchMode(mReconnecting, at, 0, fmt.Sprintf("heartbeat begun %v failed: %s", hbb.start, cause))
			} else {
				say("%v heartbeat begun %v succeeded", at, hbb.start)
			}
		}
		horizon := tr.End
		if closeAt < horizon {
			horizon = closeAt
		}
		overlapping := relaxed
		for {
			// next internal deadline
			tInt := mc.Duration(1 << 62)
			what := ""
			switch cur.mode {
			case mConnected:
				if !relaxed {
					if nextHb < tInt {
						tInt, what = nextHb, "hb-start"
					}
					for _, a := range active {
						if a.start+T < tInt {
							tInt, what = a.start+T, "hb-timeout"
						}
					}
				}
			case mReconnecting:
				tInt, what = reconnStart+T, "reconn-timeout"
			}
			tInj := mc.Duration(1 << 62)
			if idx < len(injs) {
				tInj = injs[idx].t
			}
			if tInt > horizon && tInj > horizon {
				break
			}
			if tInt < tInj || (tInt == tInj && what == "hb-start") {
				switch what {
				case "hb-start":
					hbb := &hb{start: tInt}
					nextHb += H
					expect(tInt, "ConnStateReq", cur.ch, false, "heartbeat due")
					active = append(active, hbb)
					// a response parked less than R ago is still on offer
					for _, pk := range park {
						if pk.t+R > tInt {
							resolveHb(hbb, tInt, pk.st, fmt.Sprintf("status %#x (response parked since %v)", pk.st, pk.t))
							break
						}
					}
					park = nil
				case "hb-timeout":
					resolveHb(active[0], tInt, 0, "timeout")
				case "reconn-timeout":
					for j := 1; reconnStart+mc.Duration(j)*R <= tInt; j++ {
						tt := reconnStart + mc.Duration(j)*R
						expect(tt, "ConnReq", 0, tt == tInt, "retransmission of the connect request")
					}
					switchMode(mTerminated, tInt, 0, "reconnect unanswered")
				}
				continue
			}
			in := injs[idx]
			idx++
			if in.svc == nil {
				if cur.mode != mConnected {
					continue
				}
				// relaxed mode: the client began a reconnect at in.t; it must have a reason
				reason := ""
				for _, q := range injs {
					switch y := q.svc.(type) {
					case *knxnet.ConnStateRes:
						if y.Channel == cur.ch && y.Status != 0 && q.t >= cur.from && q.t <= in.t && q.t+R >= in.t {
							reason = fmt.Sprintf("connection-state response with status %#x delivered %v", uint8(y.Status), q.t)
						}
					}
				}
				if d := in.t - cur.from - T; reason == "" && d > 0 && d%H == 0 {
					reason = fmt.Sprintf("the heartbeat begun %v timed out", in.t-T)
				}
				if reason == "" {
					bad("unjustified-reconnect", "the client sent a connect request at %v although no heartbeat had failed and no disconnect request had arrived (%s)", in.t, strings.Join(story, "; "))
				}
				switchMode(mReconnecting, in.t, 0, reason)
				continue
			}
			switch cur.mode {
			case mConnected:
				switch x := in.svc.(type) {
				case *knxnet.ConnStateRes:
					if x.Channel != cur.ch || relaxed {
						continue
					}
					if len(active) > 0 {
						resolveHb(active[0], in.t, uint8(x.Status), fmt.Sprintf("status %#x", uint8(x.Status)))
					} else {
						park = append(park, parked{in.t, uint8(x.Status)})
					}
				case *knxnet.DiscReq:
					if x.Channel != cur.ch {
						continue
					}
					for _, a := range active {
						for j := 1; a.start+mc.Duration(j)*R <= in.t; j++ {
							tt := a.start + mc.Duration(j)*R
							expect(tt, "ConnStateReq", cur.ch, tt == in.t, "retransmission")
						}
					}
					expect(in.t, "DiscRes", cur.ch, false, "answer to the disconnect request")
					switchMode(mReconnecting, in.t, 0, "disconnect request for the current channel")
				case *knxnet.DiscRes:
					if x.Channel != cur.ch {
						continue
					}
					for _, a := range active {
						for j := 1; a.start+mc.Duration(j)*R <= in.t; j++ {
							tt := a.start + mc.Duration(j)*R
							expect(tt, "ConnStateReq", cur.ch, tt == in.t, "retransmission")
						}
					}
					switchMode(mTerminated, in.t, 0, "disconnect response for the current channel")
				}
			case mReconnecting:
				if x, ok := in.svc.(*knxnet.ConnRes); ok {
					if x.Status == knxnet.ErrNoMoreConnections || x.Status == knxnet.ErrNoMoreUniqueConnections {
						continue
					}
					for j := 1; reconnStart+mc.Duration(j)*R <= in.t; j++ {
						tt := reconnStart + mc.Duration(j)*R
						expect(tt, "ConnReq", 0, tt == in.t, "retransmission of the connect request")
					}
					if x.Status == 0 {
						switchMode(mConnected, in.t, x.Channel, "reconnected")
					} else {
						switchMode(mTerminated, in.t, 0, fmt.Sprintf("reconnect refused with status %#x", uint8(x.Status)))
					}
				}
			}
		}
		// pending exchanges at the horizon: their retransmissions up to the horizon
		switch cur.mode {
		case mConnected:
			for _, a := range active {
				for j := 1; a.start+mc.Duration(j)*R <= horizon; j++ {
					tt := a.start + mc.Duration(j)*R
					expect(tt, "ConnStateReq", cur.ch, tt == horizon, "retransmission")
				}
			}
		case mReconnecting:
			for j := 1; reconnStart+mc.Duration(j)*R <= horizon; j++ {
				tt := reconnStart + mc.Duration(j)*R
				expect(tt, "ConnReq", 0, tt == horizon, "retransmission of the connect request")
			}
		}
		cur.to = mc.Duration(1 << 62)
		if relaxed {
			// a heartbeat that got no response at all must end the epoch T after it began
			for _, ep := range epochs {
				if ep.mode != mConnected {
					continue
				}
				end := ep.to
				if end > horizon {
					end = horizon
				}
				for th := ep.from + H; th+T < end; th += H {
					answered := false
					for _, q := range injs {
						if y, ok := q.svc.(*knxnet.ConnStateRes); ok && y.Channel == ep.ch && q.t+R >= th && q.t <= th+T {
							answered = true
						}
					}
					if !answered {
						bad("heartbeat-failure-ignored", "no connection-state response for channel %d was delivered between %v and %v, yet the client was still connected at %v (%s)", ep.ch, th-R, th+T, end, strings.Join(story, "; "))
						break
					}
				}
			}
		}
		// ---- compare control frames ----
		modeAt := func(t mc.Duration) *epoch {
			var r *epoch
			for _, e := range epochs {
				if e.from <= t {
					r = e
				}
			}
			return r
		}
		desc := strings.Join(story, "; ")
		// a Send pending across the start of a connection delays the client's entry into that
		// connection (known finding): its heartbeat schedule then starts late
		// The connection server takes the sender's lock when it enters a new connection, so a Send
		// that is pending at that moment stalls it until the Send gives up: from then on the client's
		// heartbeat schedule lags behind the reference machine's, whose account of everything after
		// that instant (heartbeats, their failures, reconnects, termination) is void. Mismatches after
		// such an instant are consequences of the known finding and carry its suffix.
		var acrossAt = mc.Duration(-1)
		{
			var callT, retT = map[int]mc.Duration{}, map[int]mc.Duration{}
			for _, e := range tr.Log {
				switch x := e.V.(type) {
				case Call:
					if x.Call == "Send" {
						callT[x.ID] = e.T
					}
				case Ret:
					if x.Call == "Send" {
						retT[x.ID] = e.T
					}
				}
			}
			for _, ep := range epochs {
				if ep.mode != mConnected || ep.from == 0 || acrossAt >= 0 {
					continue
				}
				for id, tc := range callT {
					if tr2, ok := retT[id]; tc < ep.from && (!ok || tr2 > ep.from) {
						acrossAt = ep.from
					}
				}
			}
		}
		sendAcross := func(t mc.Duration) bool { return acrossAt >= 0 && t >= acrossAt }
		kf := func(cls string, t mc.Duration) string {
			if sendAcross(t) {
				return cls + ":send-pending-across-reconnect"
			}
			return cls
		}
		firstTxSeen := false
		for _, e := range tr.Log {
			s, ok := e.V.(fakesock.Sent)
			if !ok {
				continue
			}
			_, isDiscRes := s.Svc.(*knxnet.DiscRes)
			_, isStateReq := s.Svc.(*knxnet.ConnStateReq)
			if s.Err != nil && !isDiscRes && !isStateReq {
				continue // (a disconnect response or a heartbeat whose write failed still counts as attempted)
			}
			kind, ch := "", uint8(0)
			switch x := s.Svc.(type) {
			case *knxnet.ConnStateReq:
				kind, ch = "ConnStateReq", x.Channel
			case *knxnet.ConnReq:
				if !firstTxSeen {
					firstTxSeen = true
					continue // the initial connect
				}
				kind = "ConnReq"
			case *knxnet.DiscRes:
				kind, ch = "DiscRes", x.Channel
			case *knxnet.DiscReq:
				if e.T < closeAt {
					bad("unexpected-disconnect-request", "the client sent %s at %v before Close (%s)", fakesock.Describe(s.Svc), e.T, desc)
				} else if ep := modeAt(e.T); ep != nil && ep.mode == mConnected && x.Channel != ep.ch && e.T > ep.from {
					bad("stale-channel", "%s at %v carries channel %d, the connection's channel is %d (%s)", fakesock.Describe(s.Svc), e.T, x.Channel, ep.ch, desc)
				}
				continue
			default:
				continue
			}
			if overlapping && kind == "ConnStateReq" {
				// relaxed: only the channel is judged
				if ep := modeAt(e.T); ep != nil && ep.mode == mConnected && ch != ep.ch && e.T > ep.from {
					bad("stale-channel", "%s at %v carries channel %d, the connection's channel is %d (%s)", fakesock.Describe(s.Svc), e.T, ch, ep.ch, desc)
				}
				continue
			}
			found := false
			for _, x := range exps {
				if !x.matched && x.t == e.T && x.kind == kind && (kind == "ConnReq" || x.ch == ch) {
					x.matched, found = true, true
					break
				}
			}
			if !found {
				cls := "unexpected-" + kind
				for _, x := range exps {
					if x.t == e.T && x.kind == kind && x.ch != ch {
						cls = "stale-channel"
					}
				}
				cls = kf(cls, e.T)
				bad(cls, "%s left the socket at %v; the reference machine expects no such frame then (%s)", fakesock.Describe(s.Svc), e.T, desc)
			}
		}
		sort.SliceStable(exps, func(i, j int) bool { return exps[i].t < exps[j].t })
		for _, x := range exps {
			if x.matched || x.optional || (overlapping && x.kind == "ConnStateReq") {
				continue
			}
			cls := "missing-" + x.kind
			cls = kf(cls, x.t)
			bad(cls, "no %s (channel %d) left the socket at %v: %s (%s)", x.kind, x.ch, x.t, x.why, desc)
			break
		}
		// ---- data frames, Sends, inbound ----
		calls := map[int]mc.Duration{}
		firstTx := map[int]mc.Duration{}
		rets := map[int]mc.Duration{}
		okSend := map[int]bool{}
		inboundClosedAt := mc.Duration(-1)
		rx := map[int]int{}
		for _, e := range tr.Log {
			switch x := e.V.(type) {
			case Call:
				if x.Call == "Send" {
					calls[x.ID] = e.T
				}
			case Ret:
				if x.Call == "Send" {
					rets[x.ID] = e.T
					okSend[x.ID] = x.Err == ""
				}
			case Note:
				if x == "inbound closed" {
					inboundClosedAt = e.T
				}
			case Rx:
				rx[x.ID]++
			}
		}
		var term *epoch
		for _, e := range epochs {
			if e.mode == mTerminated {
				term = e
			}
		}
		if term != nil && term.from < closeAt {
			if inboundClosedAt != term.from {
				bad(kf("inbound-not-closed-on-termination", term.from), "the tunnel terminated at %v (%s) but Inbound was closed at %v (-1 = never)", term.from, term.startCause, inboundClosedAt)
			}
		} else if inboundClosedAt >= 0 && inboundClosedAt < closeAt {
			bad(kf("inbound-closed-early", inboundClosedAt), "Inbound was closed at %v although the tunnel had no reason to terminate (%s)", inboundClosedAt, desc)
		}
		for _, e := range tr.Log {
			switch x := e.V.(type) {
			case Ret:
				if x.Call != "Send" {
					continue
				}
				tc := calls[x.ID]
				epc, epr := modeAt(tc), modeAt(e.T)
				if term != nil && tc > term.from && x.Err == "" && !p.tcp {
					bad(kf("send-succeeds-after-termination", term.from), "Send %d called at %v, after the tunnel terminated at %v (%s), reported success", x.ID, tc, term.from, term.startCause)
				}
				if term != nil && tc > term.from && x.Err == "" && p.tcp {
					bad("tcp-send-succeeds-after-termination", "TCP: Send %d called at %v, after the tunnel terminated at %v (%s), reported success", x.ID, tc, term.from, term.startCause)
				}
				if term != nil && tc <= term.from && e.T >= term.from && x.Err == "" && e.T > tc {
					bad(kf("pending-send-succeeds-at-termination", term.from), "Send %d pending when the tunnel terminated at %v reported success", x.ID, term.from)
				}
				// a Send takes at most the response timeout - counted from the moment it is the only one:
				// a Send called while another one is pending first waits for that one
				queuedBehind := mc.Duration(0)
				for oid, otc := range calls {
					if otr, ok := rets[oid]; ok && oid != x.ID && otc <= tc && otr > tc && otr-tc > queuedBehind {
						queuedBehind = otr - tc
					}
				}
				if e.T-tc > T+queuedBehind {
					bad("send-late", "Send %d called %v returned %v (it was queued behind another Send for %v; the response timeout is %v)", x.ID, tc, e.T, queuedBehind, T)
				}
				if epc == epr && epc.mode == mConnected && x.Err != "" && tc != epc.from && e.T < closeAt {
					bad(kf("send-fails-while-connected", tc), "Send %d (called %v, returned %v with %q) failed although the tunnel was connected on channel %d throughout (%s)", x.ID, tc, e.T, x.Err, epc.ch, desc)
				}
			case fakesock.Sent:
				if x.Err != nil {
					continue
				}
				switch y := x.Svc.(type) {
				case *knxnet.TunnelReq:
					ep := modeAt(e.T)
					ft, seenTx := firstTx[MsgID(y.Payload)]
					if !seenTx {
						ft = e.T
						firstTx[MsgID(y.Payload)] = e.T
					}
					if ep.mode == mConnected && e.T > ep.from {
						if tc, ok := calls[MsgID(y.Payload)]; ok && tc < ep.from && ft >= ep.from {
							// began before the connection was established but transmits for the first time
							// after it (it was queued behind another Send): it has no old request to repeat
							if y.Channel != ep.ch {
								bad("stale-channel:queued-send", "%s at %v: the Send began at %v, was queued, and makes its first transmission after the connection on channel %d was established at %v - with the old channel (%s)", fakesock.Describe(x.Svc), e.T, tc, ep.ch, ep.from, desc)
							}
						} else if ok && tc < ep.from {
							// a Send that began before this connection was established is still retransmitting
							if y.Channel != ep.ch {
								bad("stale-channel:send-pending-across-reconnect", "%s at %v: the Send began at %v, before the connection on channel %d was established at %v, and keeps retransmitting with the old channel (%s)", fakesock.Describe(x.Svc), e.T, tc, ep.ch, ep.from, desc)
							}
						} else if y.Channel != ep.ch {
							bad("stale-channel", "%s at %v carries channel %d, the connection's channel is %d (%s)", fakesock.Describe(x.Svc), e.T, y.Channel, ep.ch, desc)
						} else if !p.tcp {
							// requests of this connection that were acknowledged before this Send began:
							// Sends called after the connection was established that returned success
							tcThis := calls[MsgID(y.Payload)]
							n := 0
							for sid, tc := range calls {
								if tr, ok := rets[sid]; ok && okSend[sid] && tc > ep.from && tr <= tcThis && sid != MsgID(y.Payload) {
									n++
								}
							}
							if int(y.SeqNumber) != n%256 {
								bad("sequence-not-restarted", "%s at %v: %d Sends begun on the connection established at %v (channel %d) had succeeded before this one was called, so it must carry %d (%s)", fakesock.Describe(x.Svc), e.T, n, ep.from, ep.ch, n%256, desc)
							}
						}
					}
				case *knxnet.TunnelRes:
					ep := modeAt(e.T)
					if ep.mode == mConnected && y.Channel != ep.ch {
						bad("stale-channel", "%s at %v carries channel %d, the connection's channel is %d", fakesock.Describe(x.Svc), e.T, y.Channel, ep.ch)
					}
				}
			case InjSvc:
				switch y := x.Svc.(type) {
				case *knxnet.TunnelRes:
					ep := modeAt(e.T)
					if ep.mode == mConnected && y.Channel == ep.ch {
						ep.outAcked++
					}
				case *knxnet.TunnelReq:
					ep := modeAt(e.T)
					if ep.mode == mConnected && y.Channel == ep.ch && e.T > ep.from && e.T < closeAt {
						id := MsgID(y.Payload)
						if y.SeqNumber == ep.inExp || p.tcp {
							ep.inExp++
							if rx[id] != 1 {
								cls := "inbound-not-accepted"
								for sid, tc := range calls {
									if tr, ok := rets[sid]; tc < ep.from && (!ok || tr >= ep.from) {
										cls = "inbound-not-accepted:send-pending-across-reconnect"
									}
								}
								bad(cls, "inbound request %s at %v is in sequence for the connection established at %v (expected %d) but was delivered %d times (%s)", fakesock.Describe(x.Svc), e.T, ep.from, y.SeqNumber, rx[id], desc)
							}
						}
					}
				}
			}
		}
		return vs
	}
}

func init() {
	a := c09Params{H: 1000, R: 100, T: 300, horizonHB: 3, stateMenu: true, connMenu: true}
	register("both", &h.Scenario{Name: "C09-H1000-menus-F3", Prop: "C09", P: 0, F: 3, D: -1, Run: c09Run(a), Check: c09Oracle(a)})
	b := c09Params{H: 1000, R: 100, T: 300, horizonHB: 2, stateMenu: true, connMenu: true, spont: true}
	register("both", &h.Scenario{Name: "C09-H1000-spont-F3", Prop: "C09", P: 0, F: 3, D: -1, Run: c09Run(b), Check: c09Oracle(b)})
	b2 := c09Params{H: 1000, R: 100, T: 300, horizonHB: 2, connMenu: true, spont: true, secondApp: true}
	register("both", &h.Scenario{Name: "C09-H1000-spont-two-senders-F3", Prop: "C09", P: 0, F: 3, D: -1, Run: c09Run(b2), Check: c09Oracle(b2)})
	c := c09Params{H: 1000, R: 100, T: 300, horizonHB: 2, stateMenu: true, connMenu: true, spont: true}
	register("both", &h.Scenario{Name: "C09-H1000-spont-F1-P1", Prop: "C09", P: 1, F: 1, D: 1, Run: c09Run(c), Check: c09Oracle(c)})
	d := c09Params{H: 200, R: 100, T: 300, horizonHB: 6, stateMenu: true, connMenu: true}
	register("both", &h.Scenario{Name: "C09-H200-overlap-F2", Prop: "C09", P: 1, F: 2, D: 1, Run: c09Run(d), Check: c09Oracle(d)})
	// the write of the client's disconnect response fails: the connection is over all the same
	dw := c09Params{H: 1000, R: 100, T: 300, horizonHB: 2, spont: true, connMenu: true, discWriteFails: 1}
	register("both", &h.Scenario{Name: "C09-H1000-spont-disconnect-response-write-fails-F2", Prop: "C09", P: 0, F: 2, D: -1, Run: c09Run(dw), Check: c09Oracle(dw)})
	// (hbWriteFails is not used by a registered scenario: the statement does not say whether a
	// connection-state request that cannot be written fails the heartbeat at once - what the pinned
	// tree does - or is simply repeated at the next resend tick; a scenario that predicted one of
	// the two would raise an alarm on a correct client.)
	e := c09Params{H: 1000, R: 100, T: 300, horizonHB: 2, allStatus: true, noTraffic: true}
	register("both", &h.Scenario{Name: "C09-all-255-status-codes", Prop: "C09", P: 0, F: 0, D: -1, Run: c09Run(e), Check: c09Oracle(e)})
	e2 := c09Params{H: 1000, R: 100, T: 300, horizonHB: 2, connAllStatus: true, noTraffic: true}
	register("both", &h.Scenario{Name: "C09-reconnect-refused-with-all-255-status-codes", Prop: "C09", P: 0, F: 0, D: -1, Run: c09Run(e2), Check: c09Oracle(e2)})
	e3 := c09Params{H: 1000, R: 100, T: 300, horizonHB: 2, discAllStatus: true}
	register("both", &h.Scenario{Name: "C09-disconnect-response-with-every-status-octet", Prop: "C09", P: 0, F: 0, D: -1, Run: c09Run(e3), Check: c09Oracle(e3)})
	f := c09Params{H: 1000, R: 100, T: 300, horizonHB: 5, stateMenu: true, connMenu: true, spont: true}
	register("thorough", &h.Scenario{Name: "C09-H1000-5epochs-F3", Prop: "C09", P: 0, F: 3, D: -1, Run: c09Run(f), Check: c09Oracle(f)})
	g := c09Params{H: 1000, R: 100, T: 300, horizonHB: 3, stateMenu: true, connMenu: true, spont: true}
	register("thorough", &h.Scenario{Name: "C09-H1000-F2-P2", Prop: "C09", P: 2, F: 2, D: 2, Run: c09Run(g), Check: c09Oracle(g)})
	t := c09Params{H: 1000, R: 100, T: 300, horizonHB: 2, stateMenu: true, connMenu: true, spont: true, tcp: true}
	register("both", &h.Scenario{Name: "C09-tcp-F2", Prop: "C09", P: 0, F: 2, D: -1, Run: c09Run(t), Check: c09Oracle(t)})
}
