//go:build verif

package scen

import (
	"encoding/hex"
	"fmt"

	"github.com/vapourismo/knx-go/knx"
	"github.com/vapourismo/knx-go/knx/knxnet"
	"github.com/vapourismo/knx-go/verifmc/mc"
	"github.com/vapourismo/knx-go/verifmc/vnet"
	"verifh/harness/fakesock"
	"verifh/harness/h"
)

// C04 — tunnel receiver: deliver each in-sequence telegram once, acknowledge correctly.

// Inj is logged for every tunnelling request injected by the gateway side.
type Inj struct {
	Ch, Seq uint8
	ID      int
}

func (i Inj) String() string {
	return fmt.Sprintf("INJ TunnelReq ch=%d seq=%d id=%d", i.Ch, i.Seq, i.ID)
}

// refReceiver is the reference model of the property: one counter.
type refReceiver struct {
	ch  uint8
	exp uint8
	tcp bool
}

// step returns (delivered, acked) for one request.
func (r *refReceiver) step(ch, seq uint8) (bool, bool) {
	if ch != r.ch {
		return false, false
	}
	if r.tcp {
		return true, false
	}
	if seq == r.exp {
		r.exp++
		return true, true
	}
	if seq == r.exp-1 {
		return false, true
	}
	return false, false
}

const c04Channel = 7

// c04Symbols: the stream alphabet relative to the expected number.
func c04Symbol(sym int, exp uint8) (ch, seq uint8) {
	switch sym {
	case 0:
		return c04Channel, exp
	case 1:
		return c04Channel, exp - 1
	case 2:
		return c04Channel, exp + 1
	case 3:
		return c04Channel, exp - 2
	case 4:
		return c04Channel, exp + 128
	case 5:
		return c04Channel + 1, exp
	default:
		return c04Channel + 1, exp - 1
	}
}

func c04Run(L int, tcp bool, prefix int, consumerModes int) func() {
	return c04RunF(L, tcp, prefix, consumerModes, 0)
}

// c04RunF: as c04Run; up to failAcks socket writes of acknowledgements fail (transient send error).
func c04RunF(L int, tcp bool, prefix int, consumerModes int, failAcks int) func() {
	return c04RunN(L, tcp, prefix, consumerModes, failAcks, false)
}

// c04RunN: as c04RunF; with noise the gateway may put a frame that is not a tunnelling request in
// front of every request - a connection-state response nobody asked for (duplicated or late answer
// to a heartbeat) for the connection's channel or a foreign one, a stray acknowledgement. None of
// them may keep the receiver from its work (seeded change C04-m: the connection server handed
// a connection-state response to the heartbeat routine synchronously and stayed blocked when none
// was waiting).
func c04RunN(L int, tcp bool, prefix int, consumerModes int, failAcks int, noise bool) func() {
	return func() {
		network := "udp"
		if tcp {
			network = "tcp"
		}
		sock := fakesock.New(network)
		NewGateway(sock, c04Channel)
		failLeft := failAcks
		sock.FailSend = func(p knxnet.ServicePackable) error {
			if _, isAck := p.(*knxnet.TunnelRes); isAck && failLeft > 0 && mc.Choose(2, mc.Fault) == 1 {
				failLeft--
				return fakesock.ErrSockClosed
			}
			return nil
		}
		cfg := TCfg(100, 350, 1000000)
		if failAcks < 0 {
			cfg = knx.TunnelConfig{} // every timing left to the defaults
		}
		cfg.UseTCP = tcp
		t, err := knx.NewTunnelOnSocket(sock, knxnet.TunnelLayerData, cfg)
		if err != nil {
			mc.Log(Note("connect failed: " + err.Error()))
			return
		}
		model := &refReceiver{ch: c04Channel, tcp: tcp}
		id := 0
		accepted := 0
		inject := func(ch, seq uint8) {
			mc.Log(Inj{ch, seq, id})
			sock.Deliver(&knxnet.TunnelReq{Channel: ch, SeqNumber: seq, Payload: Msg(id)})
			if d, _ := model.step(ch, seq); d {
				accepted++
			}
			id++
		}
		got := 0
		read := func() bool {
			c0 := mc.RecvC(t.Inbound())
			c1 := mc.RecvC(mc.After(200 * ms))
			if mc.Select(false, c0, c1) == 0 && c0.Ok {
				mc.Log(Rx{ID: MsgID(c0.V), From: "tunnel"})
				got++
				return true
			}
			return false
		}
		if prefix > 0 {
			// deterministic in-sequence prefix up to the wrap, read as it comes
			mc.SetQuiet(true)
			for i := 0; i < prefix; i++ {
				inject(c04Channel, model.exp)
				read()
			}
			mc.SetQuiet(false)
		}
		mode := 0
		if consumerModes > 1 {
			mode = mc.Choose(consumerModes, mc.Free)
		}
		for i := 0; i < L; i++ {
			if noise {
				switch mc.Choose(4, mc.Free) {
				case 1:
					sock.Deliver(&knxnet.ConnStateRes{Channel: c04Channel, Status: 0})
				case 2:
					sock.Deliver(&knxnet.ConnStateRes{Channel: c04Channel + 1, Status: 0})
				case 3:
					sock.Deliver(&knxnet.TunnelRes{Channel: c04Channel, SeqNumber: model.exp, Status: 0})
				}
			}
			sym := mc.Choose(7, mc.Free)
			ch, seq := c04Symbol(sym, model.exp)
			inject(ch, seq)
			switch mode {
			case 0: // always reading: take whatever is there now
				for got < accepted && read() {
				}
			case 2: // reading after every second request
				if i%2 == 1 {
					for got < accepted && read() {
					}
				}
			}
		}
		// mode 1: never read until the end; then drain (all modes)
		if mode == 3 { // as mode 1, but the application stays away for longer than every timeout of the client
			mc.Sleep(1000 * ms)
		}
		for got < accepted && read() {
		}
		// anything delivered beyond what the model accepts?
		mc.Sleep(1 * ms)
		c0 := mc.RecvC(t.Inbound())
		if mc.Select(true, c0) == 0 && c0.Ok {
			mc.Log(Rx{ID: MsgID(c0.V), From: "tunnel-extra"})
		}
		t.Close()
	}
}

func c04Oracle(tcp bool) func(tr *mc.Trace) []h.Violation {
	return func(tr *mc.Trace) []h.Violation {
		vs := generic(tr, "C04", true)
		model := &refReceiver{ch: c04Channel, tcp: tcp}
		type ack struct{ ch, seq, st uint8 }
		var wantAcks []ack
		wantRx := map[int]int{}
		var stream []string
		for _, e := range tr.Log {
			if in, ok := e.V.(Inj); ok {
				d, a := model.step(in.Ch, in.Seq)
				stream = append(stream, fmt.Sprintf("(%d,%d)", in.Ch, in.Seq))
				if d {
					wantRx[in.ID]++
				}
				if a {
					wantAcks = append(wantAcks, ack{in.Ch, in.Seq, 0})
				}
			}
		}
		var gotAcks []ack
		gotRx := map[int]int{}
		for _, e := range tr.Log {
			switch x := e.V.(type) {
			case fakesock.Sent:
				if r, ok := x.Svc.(*knxnet.TunnelRes); ok {
					gotAcks = append(gotAcks, ack{r.Channel, r.SeqNumber, uint8(r.Status)})
				}
			case Wrote: // full-stack variant: what left the (virtual) network socket
				b, _ := hex.DecodeString(x.Hex)
				var v knxnet.Service
				if _, err := knxnet.Unpack(b, &v); err == nil {
					if r, ok := v.(*knxnet.TunnelRes); ok {
						gotAcks = append(gotAcks, ack{r.Channel, r.SeqNumber, uint8(r.Status)})
					}
				}
			case Rx:
				gotRx[x.ID]++
			}
		}
		if fmt.Sprint(gotAcks) != fmt.Sprint(wantAcks) {
			cls := "C04:acks-differ"
			if len(gotAcks) > len(wantAcks) {
				cls = "C04:spurious-ack"
			} else if len(gotAcks) < len(wantAcks) {
				cls = "C04:missing-ack"
			}
			vs = append(vs, h.Violation{Class: cls, Msg: fmt.Sprintf("stream %v: acknowledgements (ch,seq,status) %v, reference model wants %v", stream, gotAcks, wantAcks)})
		}
		for id, n := range wantRx {
			if gotRx[id] < n {
				vs = append(vs, h.Violation{Class: "C04:telegram-lost", Msg: fmt.Sprintf("stream %v: telegram %d accepted but never delivered on Inbound", stream, id)})
				break
			}
		}
		for id, n := range gotRx {
			if n > wantRx[id] {
				cls := "C04:delivered-twice"
				if wantRx[id] == 0 {
					cls = "C04:delivered-unaccepted"
				}
				vs = append(vs, h.Violation{Class: cls, Msg: fmt.Sprintf("stream %v: telegram %d delivered %d times, reference model says %d", stream, id, n, wantRx[id])})
				break
			}
		}
		return vs
	}
}

// c04Reconnect: telegrams accepted while the application is not reading must survive a reconnect
// (the tunnel stays open); after the reconnect numbering restarts at 0 on the new channel.
func c04Reconnect() func() {
	return func() {
		sock := fakesock.New("udp")
		gw := NewGateway(sock, c04Channel)
		// what ends the first connection: 0 a disconnect request, 1 a heartbeat that gets no answer,
		// 2 a heartbeat answered with an error status
		cause := mc.Choose(3, mc.Free)
		gw.OnConnState = func(req *knxnet.ConnStateReq, s *fakesock.Sent) {
			switch {
			case req.Channel != c04Channel || cause == 0:
				sock.Deliver(&knxnet.ConnStateRes{Channel: req.Channel, Status: 0})
			case cause == 2:
				sock.Deliver(&knxnet.ConnStateRes{Channel: req.Channel, Status: knxnet.ErrConnectionID})
			}
		}
		t, err := knx.NewTunnelOnSocket(sock, knxnet.TunnelLayerData, TCfg(100, 350, 400))
		if err != nil {
			return
		}
		// the channel the reconnect is assigned: the next one, or 0 (a legal channel number)
		next := []uint8{c04Channel + 1, 0}[mc.Choose(2, mc.Free)]
		gw.NextChannel = next
		before := 1 + mc.Choose(2, mc.Free)     // telegrams accepted before the reconnect
		readFirst := mc.Choose(2, mc.Free) == 1 // the application reads one of them before the reconnect
		ch := uint8(c04Channel)
		id := 0
		inject := func(seq uint8) {
			mc.Log(Inj{ch, seq, id})
			sock.Deliver(&knxnet.TunnelReq{Channel: ch, SeqNumber: seq, Payload: Msg(id)})
			id++
		}
		read := func() bool {
			c0 := mc.RecvC(t.Inbound())
			c1 := mc.RecvC(mc.After(200 * ms))
			if mc.Select(false, c0, c1) == 0 && c0.Ok {
				mc.Log(Rx{ID: MsgID(c0.V), From: "tunnel"})
				return true
			}
			return false
		}
		for i := 0; i < before; i++ {
			inject(uint8(i))
		}
		mc.Sleep(1 * ms)
		if readFirst {
			read()
		}
		// the gateway may send the first telegram of the new connection right behind its connect
		// response (it has one waiting): it is request number 0 of that connection like any other
		eager := mc.Choose(2, mc.Free) == 1
		sentEager := false
		gw.OnConnReq = func(req *knxnet.ConnReq, s *fakesock.Sent) {
			gw.Channel = next
			sock.Deliver(&knxnet.ConnRes{Channel: next, Status: 0, Control: knxnet.HostInfo{Protocol: knxnet.UDP4}})
			if eager && !sentEager {
				sentEager = true
				mc.Log(Inj{next, 0, id})
				sock.Deliver(&knxnet.TunnelReq{Channel: next, SeqNumber: 0, Payload: Msg(id)})
				id++
			}
		}
		// the connection ends; the client reconnects and gets the next channel
		if cause == 0 {
			mc.Log(Note("disconnect request"))
			sock.Deliver(&knxnet.DiscReq{Channel: ch})
			mc.Sleep(10 * ms)
		} else {
			mc.Log(Note("heartbeat fails"))
			mc.Sleep(400*ms + 350*ms + 10*ms - mc.Now())
		}
		ch = next
		mc.Log(Note("epoch 2"))
		if sentEager {
			inject(1)
			inject(2)
		} else {
			inject(0)
			inject(1)
		}
		mc.Sleep(1 * ms)
		for read() {
		}
		t.Close()
	}
}

func c04ReconnectOracle(tr *mc.Trace) []h.Violation {
	vs := generic(tr, "C04", true)
	want := map[int]bool{}
	got := map[int]int{}
	acks := map[string]int{}
	for _, e := range tr.Log {
		switch x := e.V.(type) {
		case Inj:
			want[x.ID] = true // every injected request is in sequence for its epoch
			acks[fmt.Sprintf("%d/%d", x.Ch, x.Seq)]--
		case Rx:
			got[x.ID]++
		case fakesock.Sent:
			if r, ok := x.Svc.(*knxnet.TunnelRes); ok {
				acks[fmt.Sprintf("%d/%d", r.Channel, r.SeqNumber)]++
			}
		}
	}
	if tr.Reason != "main-returned" {
		return vs
	}
	for id := range want {
		if got[id] == 0 {
			vs = append(vs, h.Violation{Class: "C04:telegram-lost-across-reconnect", Msg: fmt.Sprintf("telegram %d was in sequence, was acknowledged, and the tunnel stayed open (it reconnected), yet it never reached Inbound; received: %v", id, got)})
			break
		}
		if got[id] > 1 {
			vs = append(vs, h.Violation{Class: "C04:delivered-twice", Msg: fmt.Sprintf("telegram %d delivered %d times", id, got[id])})
		}
	}
	for k, n := range acks {
		if n != 0 {
			vs = append(vs, h.Violation{Class: "C04:acks-differ", Msg: fmt.Sprintf("acknowledgements for (channel/seq) %s: %+d relative to one per in-sequence request", k, n)})
			break
		}
	}
	return vs
}

func init() {
	register("both", &h.Scenario{Name: "C04-udp-stalled-reader-across-reconnect", Prop: "C04", P: 2, F: 0, D: 2, Run: c04Reconnect(), Check: c04ReconnectOracle})
	register("both", &h.Scenario{Name: "C04-tcp-stream4-default-timings", Prop: "C04", P: 0, F: 0, D: -1, Run: c04RunF(4, true, 0, 2, -1), Check: c04Oracle(true)})
	register("both", &h.Scenario{Name: "C04-udp-stream4-default-timings", Prop: "C04", P: 0, F: 0, D: -1, Run: c04RunF(4, false, 0, 2, -1), Check: c04Oracle(false)})
	register("both", &h.Scenario{Name: "C04-udp-stream4-ack-write-fails", Prop: "C04", P: 0, F: 2, D: -1, Run: c04RunF(4, false, 0, 2, 2), Check: c04Oracle(false)})
	register("both", &h.Scenario{Name: "C04-udp-stream4", Prop: "C04", P: 1, F: 0, D: 1, Run: c04Run(4, false, 0, 4), Check: c04Oracle(false)})
	register("both", &h.Scenario{Name: "C04-udp-stream3-other-frames-between-requests", Prop: "C04", P: 0, F: 0, D: -1, Run: c04RunN(3, false, 0, 2, 0, true), Check: c04Oracle(false)})
	register("both", &h.Scenario{Name: "C04-tcp-stream3-other-frames-between-requests", Prop: "C04", P: 0, F: 0, D: -1, Run: c04RunN(3, true, 0, 2, 0, true), Check: c04Oracle(true)})
	register("quick", &h.Scenario{Name: "C04-udp-stream5-p0", Prop: "C04", P: 0, F: 0, D: 0, Run: c04Run(5, false, 0, 3), Check: c04Oracle(false)})
	register("both", &h.Scenario{Name: "C04-udp-wrap254+stream3", Prop: "C04", P: 1, F: 0, D: 1, Run: c04Run(3, false, 254, 2), Check: c04Oracle(false)})
	register("both", &h.Scenario{Name: "C04-tcp-stream4", Prop: "C04", P: 1, F: 0, D: 1, Run: c04Run(4, true, 0, 4), Check: c04Oracle(true)})
	register("both", &h.Scenario{Name: "C04-udp-flat1000", Prop: "C04", P: 0, F: 0, D: -1, Run: c04Run(0, false, 1000, 1), Check: c04Oracle(false)})
	register("thorough", &h.Scenario{Name: "C04-udp-stream6", Prop: "C04", P: 1, F: 0, D: 1, Run: c04Run(6, false, 0, 3), Check: c04Oracle(false)})
	register("thorough", &h.Scenario{Name: "C04-udp-stream4-d2", Prop: "C04", P: 2, F: 0, D: 2, Run: c04Run(4, false, 0, 3), Check: c04Oracle(false)})
	register("thorough", &h.Scenario{Name: "C04-tcp-stream5", Prop: "C04", P: 1, F: 0, D: 1, Run: c04Run(5, true, 0, 3), Check: c04Oracle(true)})
}

// c04FullStackOracle: the acknowledgements as they leave the real socket. The scenario is C03's
// full-stack one (the application's Send and its retransmission share the socket with the
// connection server's acknowledgements of three inbound requests): every buffer that leaves the
// socket must be a whole well-formed frame, and the acknowledgements among them must be exactly
// those of the requests the gateway sent - same channel, same number, status OK.
func c04FullStackOracle(tr *mc.Trace) []h.Violation {
	vs := generic(tr, "C04", true)
	acks := map[string]int{}
	for _, e := range tr.Log {
		wr, ok := e.V.(Wrote)
		if !ok {
			continue
		}
		b, _ := hex.DecodeString(wr.Hex)
		var v knxnet.Service
		if len(b) < 6 || (int(b[4])<<8|int(b[5])) != len(b) {
			vs = append(vs, h.Violation{Class: "C04:transmission-corrupt", Msg: fmt.Sprintf("a buffer of %d octets left the socket whose header announces %d: %s", len(b), int(b[4])<<8|int(b[5]), wr.Hex)})
			continue
		}
		if _, err := knxnet.Unpack(b, &v); err != nil {
			vs = append(vs, h.Violation{Class: "C04:transmission-corrupt", Msg: fmt.Sprintf("the client put %s on the wire, which is no frame: %v", wr.Hex, err)})
			continue
		}
		if r, ok := v.(*knxnet.TunnelRes); ok {
			acks[fmt.Sprintf("%d/%d/%d", r.Channel, r.SeqNumber, r.Status)]++
		}
	}
	if tr.Reason != "main-returned" {
		return vs
	}
	for i := 0; i < 3; i++ {
		k := fmt.Sprintf("7/%d/0", i)
		// (requests 1 and 2 are sent 100 and 200 ms later and may find the tunnel closed)
		if acks[k] == 0 && i == 0 {
			vs = append(vs, h.Violation{Class: "C04:ack-missing-on-the-wire", Msg: fmt.Sprintf("the gateway's request %d (channel 7) was not acknowledged on the wire with channel 7, number %d, status OK; acknowledgements seen: %v", i, i, acks)})
		}
		delete(acks, k)
	}
	for k := range acks {
		vs = append(vs, h.Violation{Class: "C04:ack-unexpected-on-the-wire", Msg: "acknowledgement " + k + " (channel/number/status) left the socket; the gateway sent requests 0..2 on channel 7"})
	}
	return vs
}

func init() {
	register("both", &h.Scenario{Name: "C04-fullstack-acks-share-the-socket-with-a-pending-send", Prop: "C04", P: 2, F: 0, D: 4, Run: c03FullStack(), Check: c04FullStackOracle})
}

// c04WireStream: the stream alphabet of c04Run, as the octets a gateway sends, through the real
// socket layer (virtual network): datagrams on UDP; on TCP one byte stream that the network cuts at a
// chosen position of every frame (inside the header, behind it, inside the body, before the last
// octet) or delivers two frames glued together. The receiver's bookkeeping must not depend on how
// the requests reach it.
func c04WireStream(L int, tcp bool) func() {
	return func() {
		defer logChoice()()
		w := vnet.Reset()
		var ep *vnet.Endpoint
		w.OnCreate = func(e *vnet.Endpoint) {
			ep = e
			e.OnWrite = func(wr vnet.WriteRec) {
				mc.Log(Wrote{hex.EncodeToString(wr.Data)})
				var v knxnet.Service
				if _, err := knxnet.Unpack(wr.Data, &v); err != nil {
					return
				}
				if _, ok := v.(*knxnet.ConnReq); ok {
					e.Inject(pack(&knxnet.ConnRes{Channel: c04Channel, Status: 0, Control: knxnet.HostInfo{Protocol: knxnet.UDP4}}), nil)
				}
			}
		}
		cfg := TCfg(100, 350, 100000000)
		cfg.UseTCP = tcp
		t, err := knx.NewTunnel("192.0.2.99:3671", knxnet.TunnelLayerData, cfg)
		if err != nil {
			mc.Log(Note("connect failed: " + err.Error()))
			return
		}
		mc.GoEnv("reader", func() {
			for {
				m, ok := t.Inbound().Recv2()
				if !ok {
					return
				}
				mc.Log(Rx{ID: MsgID(m), From: "tunnel"})
			}
		})
		cut := 0
		if tcp {
			cut = []int{0, 3, 6, 11, -1, -2}[mc.Choose(6, mc.Free)]
		}
		// UDP: in front of every request the network may deliver a cut-off copy of it (the header, which
		// announces the whole frame, and the connection header): no tunnelling request, to be dropped
		cutCopy := !tcp && mc.Choose(2, mc.Free) == 1
		model := &refReceiver{ch: c04Channel, tcp: tcp}
		var glued []byte
		for id := 0; id < L; id++ {
			ch, seq := c04Symbol(mc.Choose(7, mc.Free), model.exp)
			mc.Log(Inj{ch, seq, id})
			model.step(ch, seq)
			fr := pack(&knxnet.TunnelReq{Channel: ch, SeqNumber: seq, Payload: Msg(id)})
			if cutCopy {
				ep.Inject(fr[:10], nil)
				mc.Sleep(1 * ms)
			}
			switch {
			case cut == -2: // coalesced: everything in one segment at the end
				glued = append(glued, fr...)
				continue
			case cut == -1:
				ep.Inject(fr[:len(fr)-1], nil)
				mc.Sleep(1 * ms)
				ep.Inject(fr[len(fr)-1:], nil)
			case cut > 0:
				ep.Inject(fr[:cut], nil)
				mc.Sleep(1 * ms)
				ep.Inject(fr[cut:], nil)
			default:
				ep.Inject(fr, nil)
			}
			mc.Sleep(5 * ms)
		}
		if glued != nil {
			ep.Inject(glued, nil)
		}
		mc.Sleep(20 * ms)
		t.Close()
		mc.Sleep(1 * ms)
	}
}

func init() {
	register("both", &h.Scenario{Name: "C04-fullstack-udp-stream3", Prop: "C04", P: 0, F: 0, D: -1, Run: c04WireStream(3, false), Check: c04Oracle(false)})
	register("both", &h.Scenario{Name: "C04-fullstack-tcp-stream3-cut-and-glued", Prop: "C04", P: 0, F: 0, D: -1, Run: c04WireStream(3, true), Check: c04Oracle(true)})
}

// c04EveryPair: "arbitrary channel and sequence number": one request with every one of the 65536
// (channel, number) combinations while number 1 is expected (so that the repetition of the previous
// number, the expected number and every other number all occur), followed by the expected request;
// UDP and TCP.
func c04EveryPair(tcp bool) func() {
	return func() {
		defer logChoice()()
		network := "udp"
		if tcp {
			network = "tcp"
		}
		sock := fakesock.New(network)
		NewGateway(sock, c04Channel)
		cfg := TCfg(100, 350, 1000000)
		cfg.UseTCP = tcp
		t, err := knx.NewTunnelOnSocket(sock, knxnet.TunnelLayerData, cfg)
		if err != nil {
			mc.Log(Note("connect failed: " + err.Error()))
			return
		}
		mc.GoEnv("reader", func() {
			for {
				m, ok := t.Inbound().Recv2()
				if !ok {
					return
				}
				mc.Log(Rx{ID: MsgID(m), From: "tunnel"})
			}
		})
		model := &refReceiver{ch: c04Channel, tcp: tcp}
		id := 0
		inject := func(ch, seq uint8) {
			mc.Log(Inj{ch, seq, id})
			sock.Deliver(&knxnet.TunnelReq{Channel: ch, SeqNumber: seq, Payload: Msg(id)})
			model.step(ch, seq)
			id++
			mc.Sleep(1 * ms)
		}
		inject(c04Channel, 0)
		pair := mc.Choose(65536, mc.Free)
		inject(uint8(pair>>8), uint8(pair))
		inject(c04Channel, model.exp)
		mc.Sleep(5 * ms)
		t.Close()
	}
}

func init() {
	register("both", &h.Scenario{Name: "C04-udp-every-channel-and-number", Prop: "C04", P: 0, F: 0, D: -1, Run: c04EveryPair(false), Check: c04Oracle(false)})
	register("both", &h.Scenario{Name: "C04-tcp-every-channel-and-number", Prop: "C04", P: 0, F: 0, D: -1, Run: c04EveryPair(true), Check: c04Oracle(true)})
}
