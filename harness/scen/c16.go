//go:build verif

package scen

import (
	"encoding/hex"
	"fmt"
	"io"
	"net"
	"strings"

	"github.com/vapourismo/knx-go/knx"
	"github.com/vapourismo/knx-go/knx/cemi"
	"github.com/vapourismo/knx-go/knx/knxnet"
	"github.com/vapourismo/knx-go/knx/util"
	"github.com/vapourismo/knx-go/verifmc/mc"
	"github.com/vapourismo/knx-go/verifmc/vnet"
	"verifh/enum/refenc"
	"verifh/harness/h"
)

// C16 — sockets: once, in order, however the stream is cut (net seam: the real socket layer of
// knx/knxnet/socket.go runs on virtual connections whose reads return exactly the segments the
// harness chose). The same harness decides the history half of C01: sequences of malformed and
// well-formed datagrams through the live UDP/TCP receivers.

// RxSvc is logged by the consumer for every frame taken from the socket's Inbound channel.
type RxSvc struct{ Hex string }

func (r RxSvc) String() string { return "RX-FRAME " + r.Hex }

// Want is logged once: the frames the oracle expects on Inbound, in order; Alt is an alternative
// that is also acceptable (stream-framing errors on TCP may end the connection instead).
type Want struct {
	Frames    []string
	MayEndAt  int  // -1: all frames must arrive; k: stream framing is lost after the k-th expected frame (TCP), only the first k are judged
	PrefixOK  bool // the connection is closed concurrently: any prefix of Frames is acceptable
	MustClose bool
}

func (w Want) String() string {
	return fmt.Sprintf("WANT %v framingLostAfter=%d prefixOK=%v mustClose=%v", w.Frames, w.MayEndAt, w.PrefixOK, w.MustClose)
}

func svcHex(v knxnet.Service) (s string) {
	defer func() {
		if recover() != nil {
			s = fmt.Sprintf("%T", v)
		}
	}()
	if p, ok := v.(knxnet.ServicePackable); ok {
		return hex.EncodeToString(knxnet.AllocAndPack(p))
	}
	return fmt.Sprintf("%T", v)
}

func pack(p knxnet.ServicePackable) []byte { return knxnet.AllocAndPack(p) }

func ldata(n int) cemi.Message {
	d := make([]byte, n)
	for i := range d {
		d[i] = byte(i*7 + 1)
	}
	d[0] &= 63
	c1 := cemi.Control1StdFrame
	if n > 15 {
		c1 = 0
	}
	return &cemi.LDataInd{LData: cemi.LData{Control1: c1 | cemi.Control1NoRepeat, Control2: cemi.Control2GroupAddr | cemi.Control2Hops(6),
		Source: 0x1101, Destination: 0x0A03, Data: &cemi.AppData{Command: cemi.GroupValueWrite, Data: d}}}
}

// well-formed frames of every family, minimum size to the largest encodable
func c16Frames() [][]byte {
	info := make(cemi.Info, 255)
	big := &cemi.LDataInd{LData: cemi.LData{Info: info, Control2: cemi.Control2GroupAddr, Data: &cemi.AppData{Command: cemi.GroupValueWrite, Data: make([]byte, 254)}}}
	return [][]byte{
		pack(&knxnet.ConnStateRes{Channel: 1, Status: 0}),                                             // 8 octets, the minimum
		pack(&knxnet.TunnelRes{Channel: 1, SeqNumber: 2, Status: 0}),                                  // 10
		pack(&knxnet.TunnelReq{Channel: 1, SeqNumber: 3, Payload: ldata(2)}),                          // 21
		pack(&knxnet.DiscReq{Channel: 9, Control: knxnet.HostInfo{Protocol: knxnet.TCP4}}),            // 16
		pack(&knxnet.DiscRes{Channel: 9, Status: 0}),                                                  // 8
		pack(&knxnet.ConnRes{Channel: 5, Status: 0, Control: knxnet.HostInfo{Protocol: knxnet.UDP4}}), // 20
		pack(&knxnet.RoutingInd{Payload: ldata(254)}),                                                 // ~270
		pack(&knxnet.RoutingInd{Payload: big}),                                                        // largest: 255 info + 254 data
	}
}

func hexes(fs [][]byte) []string {
	r := make([]string, len(fs))
	for i, f := range fs {
		r[i] = hex.EncodeToString(f)
	}
	return r
}

// consumer drains Inbound and logs every frame; logs a note when the channel closes.
func c16Consumer(in *mc.Chan[knxnet.Service], done *mc.Chan[int]) { c16ConsumerStall(in, done, 0) }

// c16ConsumerStall: the consumer does not touch Inbound for the first `stall` of virtual time.
func c16ConsumerStall(in *mc.Chan[knxnet.Service], done *mc.Chan[int], stall mc.Duration) {
	mc.GoEnv("consumer", func() {
		var kept []knxnet.Service
		if stall > 0 {
			mc.Sleep(stall)
		}
		for {
			v, ok := in.Recv2()
			if !ok {
				// what the delivered frames look like once every later frame has been received
				var late []string
				for _, k := range kept {
					late = append(late, svcHex(k))
				}
				mc.Log(RxLate{late})
				mc.Log(Note("inbound closed"))
				done.Send(1)
				return
			}
			kept = append(kept, v)
			mc.Log(RxSvc{svcHex(v)})
		}
	})
}

// RxLate is logged when Inbound closes: the frames received, rendered again at that moment.
type RxLate struct{ Hex []string }

func (r RxLate) String() string { return fmt.Sprintf("RX-FRAMES-AT-END %v", r.Hex) }

func censusNote() {
	var desc []string
	n := 0
	for _, g := range mc.Live() {
		if !g.Env {
			n++
			desc = append(desc, fmt.Sprintf("[g%d %s %s]", g.ID, g.Site, g.Pending))
		}
	}
	mc.Log(Census{n, strings.Join(desc, " ")})
}

func dialTCP() (*knxnet.TunnelSocket, *vnet.Endpoint) {
	w := vnet.Reset()
	var ep *vnet.Endpoint
	w.OnCreate = func(e *vnet.Endpoint) { ep = e }
	s, err := knxnet.DialTunnelTCP("192.0.2.99:3671")
	if err != nil {
		panic(err)
	}
	return s, ep
}

func dialUDP() (*knxnet.TunnelSocket, *vnet.Endpoint) {
	w := vnet.Reset()
	var ep *vnet.Endpoint
	w.OnCreate = func(e *vnet.Endpoint) { ep = e }
	s, err := knxnet.DialTunnelUDP("192.0.2.99:3671")
	if err != nil {
		panic(err)
	}
	return s, ep
}

// ---- TCP segmentation ----

// mode: 0 = all segmentations with <= 2 cuts of streams of 1..maxFrames frames from the small set;
// 1 = every single cut + dribble + coalesced of one large frame followed by a small one;
// 2 = flat 50-frame stream, dribble and coalesced
func c16TCPSeg(mode, maxFrames int) func() {
	return func() {
		fs := c16Frames()
		var stream []byte
		var want [][]byte
		var cuts []int
		switch mode {
		case 0:
			n := 1 + mc.Choose(maxFrames, mc.Free)
			for i := 0; i < n; i++ {
				f := fs[mc.Choose(5, mc.Free)]
				stream = append(stream, f...)
				want = append(want, f)
			}
			c1 := mc.Choose(len(stream)+1, mc.Free)
			c2 := c1 + mc.Choose(len(stream)-c1+1, mc.Free)
			cuts = []int{c1, c2}
		case 1:
			f := fs[6+mc.Choose(2, mc.Free)]
			stream = append(append(stream, f...), fs[1]...)
			want = [][]byte{f, fs[1]}
			switch k := mc.Choose(len(stream)+2, mc.Free); {
			case k <= len(stream):
				cuts = []int{k}
			default:
				for i := 1; i < len(stream); i++ {
					cuts = append(cuts, i)
				}
			}
		case 3:
			// frames around and far beyond the 4096-octet buffer of the stream reader, each followed
			// by small frames; cut positions around every boundary, MSS-sized segments, coalesced
			size := []int{4090, 4096, 4097, 8200, 65535}[mc.Choose(5, mc.Free)]
			raw := make(cemi.LRaw, size-6-4-1)
			for i := range raw {
				raw[i] = byte(i*31 + 7)
			}
			bigf := pack(&knxnet.TunnelReq{Channel: 1, SeqNumber: 9, Payload: &cemi.LRawReq{LRaw: raw}})
			if len(bigf) != size {
				panic(fmt.Sprintf("big frame has %d octets, want %d", len(bigf), size))
			}
			stream = append(append(append(stream, fs[1]...), bigf...), fs[2]...)
			stream = append(stream, fs[0]...)
			want = [][]byte{fs[1], bigf, fs[2], fs[0]}
			a := len(fs[1])
			opts := [][]int{nil, {a}, {a + 6}, {a + 4095}, {a + 4096}, {a + 4097}, {a + size - 1}, {a + size}, {a + size + 1}, {a + 6, a + size}, {a + 4096, a + size + 6}}
			k := mc.Choose(len(opts)+1, mc.Free)
			if k < len(opts) {
				cuts = opts[k]
			} else {
				for c := 1460; c < len(stream); c += 1460 {
					cuts = append(cuts, c)
				}
			}
		case 2:
			for i := 0; i < 50; i++ {
				f := fs[i%6]
				stream = append(stream, f...)
				want = append(want, f)
			}
			if mc.Choose(2, mc.Free) == 1 {
				for i := 1; i < len(stream); i++ {
					cuts = append(cuts, i)
				}
			}
		}
		mc.Log(Want{Frames: hexes(want), MayEndAt: -1, MustClose: true})
		sock, ep := dialTCP()
		done := mc.NewChan[int](1, "c16.done")
		c16Consumer(sock.Inbound(), done)
		prev := 0
		for _, c := range append(cuts, len(stream)) {
			if c > prev {
				ep.Inject(stream[prev:c], nil)
				prev = c
			}
		}
		ep.InjectErr(io.EOF) // the peer closes the connection
		done.Recv()
		mc.Sleep(1 * ms)
		censusNote()
		sock.Close()
	}
}

// ---- datagram / frame histories with malformed members (C01 d) ----

type c16Item struct {
	b        []byte
	wellUDP  bool // must be delivered on UDP
	wellTCP  bool // must be delivered on TCP
	tcpFatal bool // TCP: framing is lost; the receiver may end the connection here
	foreign  bool // UDP: sent from a foreign source address
	name     string
	canon    []byte // what the delivered value encodes to, when that is not b itself (parts that carry nothing are dropped)
}

func c16Items() []c16Item {
	fs := c16Frames()
	hx := func(s string) []byte { b, _ := hex.DecodeString(strings.ReplaceAll(s, " ", "")); return b }
	// fr builds a frame with a truthful header around body
	fr := func(sid uint16, body string) []byte {
		b := hx(body)
		n := 6 + len(b)
		return append([]byte{6, 0x10, byte(sid >> 8), byte(sid), byte(n >> 8), byte(n)}, b...)
	}
	return []c16Item{
		{b: fs[1], wellUDP: true, wellTCP: true, name: "TunnelRes"},
		{b: fs[2], wellUDP: true, wellTCP: true, name: "TunnelReq"},
		{b: fs[0], wellUDP: true, wellTCP: true, name: "ConnStateRes"},
		{b: pack(&knxnet.TunnelReq{Channel: 2, SeqNumber: 4, Payload: &cemi.LDataInd{LData: cemi.LData{Info: cemi.Info{1, 2, 3, 4, 5}, Control2: cemi.Control2GroupAddr, Source: 0x1203, Destination: 0x0905, Data: &cemi.AppData{Command: cemi.GroupValueWrite, Data: []byte{1, 0xAA, 0xBB, 0xCC}}}}}), wellUDP: true, wellTCP: true, name: "TunnelReq-with-additional-info"},
		{b: fr(0x0204, hex.EncodeToString(devDIB(0x1107))+"04020201"+"08fe0102030405aa"), wellUDP: true, wellTCP: true, name: "DescriptionRes-with-further-DIB"},
		{b: fr(0x0204, hex.EncodeToString(devDIB(0x1108))+"04020201"+"0203"+"0205"), canon: fr(0x0204, hex.EncodeToString(devDIB(0x1108))+"04020201"), wellUDP: true, wellTCP: true, name: "DescriptionRes-with-empty-DIBs"},
		{b: pack(&knxnet.RoutingInd{Payload: &cemi.LRawInd{LRaw: cemi.LRaw{9, 8, 7, 6, 5, 4, 3, 2, 1}}}), wellUDP: true, wellTCP: true, name: "RoutingInd-raw"},
		{b: pack(&knxnet.TunnelReq{Channel: 2, SeqNumber: 7, Payload: &cemi.LBusmonInd{0x03, 0x01, 0x01, 0xBC, 0x11, 0x01, 0x0A, 0x03, 0xE1, 0x00, 0x81}}), wellUDP: true, wellTCP: true, name: "TunnelReq-bus-monitor-indication"},
		{b: pack(&knxnet.TunnelReq{Channel: 2, SeqNumber: 5, Payload: c12FullFrame(1, c12Shape{254, 0})}), wellUDP: true, wellTCP: true, name: "TunnelReq-254-octet-payload"},
		{b: pack(&knxnet.TunnelReq{Channel: 2, SeqNumber: 6, Payload: c12FullFrame(2, c12Shape{254, 255})}), wellUDP: true, wellTCP: true, name: "TunnelReq-largest-frame-529-octets"},
		{b: fr(0x0999, "0102030405060708090a"), wellUDP: true, wellTCP: true, name: "service-type-the-library-does-not-decode"},
		{b: pack(&knxnet.DiscReq{Channel: 3, Control: knxnet.HostInfo{Protocol: knxnet.UDP4, Port: 3671}}), wellUDP: true, wellTCP: true, name: "DiscReq-endpoint-0.0.0.0-with-a-port"},
		{b: fs[1], foreign: true, wellTCP: true, name: "TunnelRes-from-foreign-source"},
		{b: fr(0x0206, "0524"), wellUDP: true, wellTCP: true, name: "ConnRes-refusal-that-names-a-channel"},
		{b: fr(0x0206, ""), name: "ConnRes-empty-body"},
		{b: fr(0x0206, "05"), name: "ConnRes-1-octet-body"},
		{b: hx("0510 0208 0008 0100"), tcpFatal: true, name: "header-length-5"},
		{b: hx("0611 0208 0008 0100"), tcpFatal: true, name: "version-11"},
		{b: fr(0x0420, "0401 0300 1105 00bc"), name: "TunnelReq-info-length-beyond-data"},
		{b: fr(0x0420, "0401 0300 1100 bce0 1101 0a03 05 00 80"), name: "TunnelReq-TPDU-shorter-than-length"},
		{b: fr(0x0204, "0003 0000"), name: "DescriptionRes-DIB-length-0"},
		{b: fr(0x0204, "0103"), name: "DescriptionRes-DIB-length-1"},
		{b: fr(0x0204, "3001"), name: "DescriptionRes-DIB-beyond-data"},
		{b: fr(0x0421, "04"), name: "TunnelRes-1-octet-body"},
		{b: hx("0610 0421 0008 04"), tcpFatal: true, name: "TunnelRes-total-length-exceeds-frame"},
		// datagrams that were cut off although their header announces the full frame: whatever follows
		// the received octets in the receive buffer is left over from an earlier datagram and belongs
		// to no frame (after a TunnelRes / TunnelReq the leftover would complete them to valid frames)
		{b: fs[1][:6], tcpFatal: true, name: "TunnelRes-cut-behind-the-header"},
		{b: fs[1][:9], tcpFatal: true, name: "TunnelRes-cut-before-the-status"},
		{b: fs[2][:10], tcpFatal: true, name: "TunnelReq-cut-behind-the-connection-header"},
		{b: hx("0610 0421 0000"), tcpFatal: true, name: "total-length-0"},
		{b: hx("0610 0421 0003"), tcpFatal: true, name: "total-length-3"},
		{b: hx("0610"), tcpFatal: true, name: "truncated-header"},
		{b: []byte{}, tcpFatal: false, name: "empty-datagram"},
	}
}

// nullLogger is a log target that discards (the library formats the message all the same).
type nullLogger struct{}

func (nullLogger) Printf(format string, args ...interface{}) {}

func c16History(tcp bool, L int) func() { return c16HistoryLog(tcp, L, false) }

// c16HistoryLog: with logChoice the environment also decides whether the application has installed
// a log target (util.Logger): the receiver's error paths then format their messages - code that runs
// on malformed input only and only with that option.
func c16HistoryLog(tcp bool, L int, logChoice bool) func() {
	return func() {
		util.Logger = nil
		if logChoice && mc.Choose(2, mc.Free) == 1 {
			util.Logger = nullLogger{}
			defer func() { util.Logger = nil }()
		}
		items := c16Items()
		n := 1 + mc.Choose(L, mc.Free)
		var seq []c16Item
		for i := 0; i < n; i++ {
			seq = append(seq, items[mc.Choose(len(items), mc.Free)])
		}
		// a well-formed frame at the end shows whether the receiver survived
		seq = append(seq, items[0])
		var want []string
		mayEnd := -1
		var names []string
		for _, it := range seq {
			names = append(names, it.name)
			if tcp && it.tcpFatal && mayEnd < 0 {
				mayEnd = len(want)
			}
			if (tcp && it.wellTCP) || (!tcp && it.wellUDP && !it.foreign) {
				if it.canon != nil {
					want = append(want, hex.EncodeToString(it.canon))
				} else {
					want = append(want, hex.EncodeToString(it.b))
				}
			}
		}
		mc.Log(Note("history " + strings.Join(names, ", ")))
		mc.Log(Want{Frames: want, MayEndAt: mayEnd, MustClose: true})
		var sock *knxnet.TunnelSocket
		var ep *vnet.Endpoint
		if tcp {
			sock, ep = dialTCP()
		} else {
			sock, ep = dialUDP()
		}
		done := mc.NewChan[int](1, "c16.done")
		stall := mc.Duration(0)
		if mc.Choose(2, mc.Free) == 1 {
			stall = 2500 * ms // the application is busy elsewhere for a while
		}
		c16ConsumerStall(sock.Inbound(), done, stall)
		for _, it := range seq {
			var from *net.UDPAddr
			if it.foreign {
				from = &net.UDPAddr{IP: net.IPv4(192, 0, 2, 55), Port: 3671}
			}
			if len(it.b) == 0 && tcp {
				continue
			}
			ep.Inject(it.b, from)
		}
		if tcp {
			ep.InjectErr(io.EOF)
		} else {
			mc.Sleep(stall + 1*ms)
			mc.Sleep(1 * ms)
			sock.Close()
		}
		done.Recv()
		mc.Sleep(1 * ms)
		censusNote()
		sock.Close()
	}
}

// ---- concurrent senders ----

// SendVal is logged before a socket Send with the frame the sender expects on the wire.
type SendVal struct {
	G   int
	Hex string
}

func (s SendVal) String() string { return fmt.Sprintf("SEND g=%d %s", s.G, s.Hex) }

// Wrote is logged for every Write the virtual connection saw.
type Wrote struct{ Hex string }

func (w Wrote) String() string { return "WROTE " + w.Hex }

// Discarded is logged for a frame that Send had accepted and the (virtual) kernel threw away when
// the connection was closed (the socket had been set to linger 0).
type Discarded struct{ Hex string }

func (d Discarded) String() string { return "DISCARDED-AT-CLOSE " + d.Hex }

func c16Senders(tcp bool, senders, each int) func() {
	return func() {
		var sock *knxnet.TunnelSocket
		var ep *vnet.Endpoint
		if tcp {
			sock, ep = dialTCP()
		} else {
			sock, ep = dialUDP()
		}
		ep.OnWrite = func(w vnet.WriteRec) { mc.Log(Wrote{hex.EncodeToString(w.Data)}) }
		ep.OnDiscard = func(w vnet.WriteRec) { mc.Log(Discarded{hex.EncodeToString(w.Data)}) }
		done := mc.NewChan[int](senders, "c16.sdone")
		for s := 0; s < senders; s++ {
			s := s
			mc.GoEnv(fmt.Sprintf("sender%d", s), func() {
				for k := 0; k < each; k++ {
					var v knxnet.ServicePackable
					switch (s + k) % 3 {
					case 0:
						v = &knxnet.TunnelReq{Channel: uint8(s), SeqNumber: uint8(k), Payload: ldata(1 + 20*k)}
					case 1:
						v = &knxnet.ConnStateReq{Channel: uint8(s), Control: knxnet.HostInfo{Protocol: knxnet.UDP4}}
					default:
						v = &knxnet.TunnelRes{Channel: uint8(s), SeqNumber: uint8(k)}
					}
					mc.Log(SendVal{s, hex.EncodeToString(pack(v))})
					err := sock.Send(v)
					mc.Log(Ret{"SockSend", s*10 + k, errStr(err), mc.Now()})
				}
				done.Send(1)
			})
		}
		for s := 0; s < senders; s++ {
			done.Recv()
		}
		sock.Close()
	}
}

// ---- Close racing with receive ----

func c16CloseRace(tcp bool) func() {
	return func() {
		fs := c16Frames()
		var sock *knxnet.TunnelSocket
		var ep *vnet.Endpoint
		if tcp {
			sock, ep = dialTCP()
		} else {
			sock, ep = dialUDP()
		}
		mc.Log(Want{Frames: hexes([][]byte{fs[1], fs[2], fs[0]}), MayEndAt: -1, PrefixOK: true, MustClose: true})
		done := mc.NewChan[int](1, "c16.done")
		c16Consumer(sock.Inbound(), done)
		mc.GoEnv("closer", func() {
			at := mc.Choose(3, mc.Free)
			mc.Sleep(mc.Duration(at) * ms)
			mc.Log(Call{"SockClose", 0})
			sock.Close()
		})
		mc.GoEnv("peer", func() {
			ep.Inject(fs[1], nil)
			mc.Sleep(1 * ms)
			ep.Inject(fs[2], nil)
			ep.Inject(fs[0], nil)
		})
		done.Recv()
		mc.Sleep(3 * ms)
		censusNote()
	}
}

// c16CloseAbandoned: the consumer reads one frame and then stops reading for good; the owner
// closes the socket while further frames are pending. The receiver goroutine must still end.
func c16CloseAbandoned(tcp bool) func() {
	return func() {
		fs := c16Frames()
		var sock *knxnet.TunnelSocket
		var ep *vnet.Endpoint
		if tcp {
			sock, ep = dialTCP()
		} else {
			sock, ep = dialUDP()
		}
		if tcp {
			// one segment: the stream reader buffers the later frames
			ep.Inject(append(append(append([]byte(nil), fs[0]...), fs[1]...), fs[2]...), nil)
		} else {
			for i := 0; i < 3; i++ {
				ep.Inject(fs[i%3], nil)
			}
		}
		if v, ok := sock.Inbound().Recv2(); ok {
			mc.Log(RxSvc{svcHex(v)})
		}
		mc.Sleep(mc.Duration(mc.Choose(2, mc.Free)) * ms)
		mc.Log(Call{"SockClose", 0})
		sock.Close()
		mc.Sleep(5 * ms)
		censusNote()
	}
}

// c03FullStack (registered under C03): the real tunnel on the real socket layer. The application's
// Send loses its first acknowledgement (so it retransmits) while the gateway sends requests of its
// own, which the connection server acknowledges through the same socket at the same instants.
// Every write that carries the application's request must be byte-identical.
func c03FullStack() func() {
	return func() {
		w := vnet.Reset()
		var ep *vnet.Endpoint
		acks := 0
		w.OnCreate = func(e *vnet.Endpoint) {
			ep = e
			e.OnWrite = func(wr vnet.WriteRec) {
				mc.Log(Wrote{hex.EncodeToString(wr.Data)})
				var v knxnet.Service
				if _, err := knxnet.Unpack(wr.Data, &v); err != nil {
					return
				}
				switch x := v.(type) {
				case *knxnet.ConnReq:
					e.Inject(pack(&knxnet.ConnRes{Channel: 7, Status: 0, Control: knxnet.HostInfo{Protocol: knxnet.UDP4}}), nil)
				case *knxnet.TunnelReq:
					acks++
					if acks >= 2 { // the first transmission stays unanswered
						e.Inject(pack(&knxnet.TunnelRes{Channel: x.Channel, SeqNumber: x.SeqNumber, Status: 0}), nil)
					}
				}
			}
		}
		t, err := knx.NewTunnel("192.0.2.99:3671", knxnet.TunnelLayerData, TCfg(100, 350, 100000000))
		if err != nil {
			mc.Log(Note("connect failed: " + err.Error()))
			return
		}
		mc.GoEnv("reader", func() {
			for {
				if _, ok := t.Inbound().Recv2(); !ok {
					return
				}
			}
		})
		mc.GoEnv("gateway-traffic", func() {
			for i := 0; i < 3; i++ {
				ep.Inject(pack(&knxnet.TunnelReq{Channel: 7, SeqNumber: uint8(i), Payload: ldata(3)}), nil)
				mc.Sleep(100 * ms)
			}
		})
		want := pack(&knxnet.TunnelReq{Channel: 7, SeqNumber: 0, Payload: ldata(12)})
		mc.Log(SendVal{0, hex.EncodeToString(want)})
		err = t.Send(ldata(12))
		mc.Log(Ret{"Send", 0, errStr(err), mc.Now()})
		mc.Sleep(50 * ms)
		t.Close()
	}
}

func c03FullStackOracle(tr *mc.Trace) []h.Violation {
	vs := generic(tr, "C03", true)
	want := ""
	for _, e := range tr.Log {
		switch x := e.V.(type) {
		case SendVal:
			want = x.Hex
		case Ret:
			if x.Call == "Send" && x.Err != "" {
				vs = append(vs, h.Violation{Class: "C03:fullstack-send-failed", Msg: "Send failed: " + x.Err})
			}
		}
	}
	n := 0
	for _, e := range tr.Log {
		wr, ok := e.V.(Wrote)
		if !ok {
			continue
		}
		b, _ := hex.DecodeString(wr.Hex)
		if len(b) < 6 || (int(b[4])<<8|int(b[5])) != len(b) {
			vs = append(vs, h.Violation{Class: "C03:transmission-corrupt", Msg: fmt.Sprintf("a buffer of %d octets left the socket whose header announces %d: %s", len(b), int(b[4])<<8|int(b[5]), wr.Hex)})
			continue
		}
		if b[2] == 0x04 && b[3] == 0x20 { // a tunnelling request: only the application sends those here
			n++
			if wr.Hex != want {
				vs = append(vs, h.Violation{Class: "C03:retransmission-differs", Msg: fmt.Sprintf("transmission %d of the request is %s; the request is %s", n, wr.Hex, want)})
			}
		}
	}
	if tr.Reason == "main-returned" && n != 2 {
		vs = append(vs, h.Violation{Class: "C03:fullstack-transmission-count", Msg: fmt.Sprintf("%d transmissions of the request, want 2 (first one unanswered, retransmission acknowledged)", n)})
	}
	return vs
}

// ---- connect request endpoint ----

// ConnHPAI is logged with the ConnReq bytes the real constructor put on the wire.
type ConnHPAI struct {
	SendLocal, TCP bool
	Hex            string
	Local          string
}

func (c ConnHPAI) String() string {
	return fmt.Sprintf("CONNREQ sendLocal=%v tcp=%v local=%s %s", c.SendLocal, c.TCP, c.Local, c.Hex)
}

func c16ConnReq() func() {
	return func() {
		sendLocal := mc.Choose(2, mc.Free) == 1
		tcp := mc.Choose(2, mc.Free) == 1
		alt := mc.Choose(2, mc.Free) == 1
		w := vnet.Reset()
		if alt {
			w.LocalUDP = &net.UDPAddr{IP: net.IPv4(10, 0, 0, 1), Port: 1}
			w.LocalTCP = &net.TCPAddr{IP: net.IPv4(10, 0, 0, 1), Port: 1}
		}
		w.OnCreate = func(e *vnet.Endpoint) {
			e.OnWrite = func(wr vnet.WriteRec) {
				if len(wr.Data) >= 4 && wr.Data[2] == 0x02 && wr.Data[3] == 0x05 {
					mc.Log(ConnHPAI{sendLocal, tcp, hex.EncodeToString(wr.Data), e.Local.String()})
					e.Inject(pack(&knxnet.ConnRes{Channel: 3, Status: 0, Control: knxnet.HostInfo{Protocol: knxnet.UDP4}}), nil)
				}
			}
		}
		cfg := TCfg(100, 300, 100000)
		// the timing part of the configuration must not matter for the advertised endpoint: all
		// set, all left to the defaults (zero), negative, or only one of them set
		switch mc.Choose(5, mc.Free) {
		case 1:
			cfg = knx.TunnelConfig{}
		case 2:
			cfg = TCfg(-1, -1, -1)
		case 3:
			cfg = TCfg(0, 300, 0)
		case 4:
			cfg = knx.DefaultTunnelConfig
		}
		cfg.SendLocalAddress = sendLocal
		cfg.UseTCP = tcp
		t, err := knx.NewTunnel("192.0.2.99:3671", knxnet.TunnelLayerData, cfg)
		if err != nil {
			mc.Log(Note("connect failed: " + err.Error()))
			return
		}
		t.Close()
		mc.Sleep(1 * ms)
		censusNote()
	}
}

// ---- oracles ----

func c16Oracle(prop string, census bool) func(tr *mc.Trace) []h.Violation {
	return func(tr *mc.Trace) []h.Violation {
		vs := generic(tr, prop, true)
		bad := func(class, format string, a ...interface{}) {
			vs = append(vs, h.Violation{Class: prop + ":" + class, Msg: fmt.Sprintf(format, a...)})
		}
		var want *Want
		var got, late []string
		haveLate := false
		closed := false
		hist := ""
		var cen *Census
		sends := map[string]int{}
		wrote := map[string]int{}
		var conn *ConnHPAI
		for _, e := range tr.Log {
			switch x := e.V.(type) {
			case Want:
				w := x
				want = &w
			case RxSvc:
				got = append(got, x.Hex)
			case RxLate:
				late = x.Hex
				haveLate = true
			case Note:
				if x == "inbound closed" {
					closed = true
				}
				if strings.HasPrefix(string(x), "history ") {
					hist = string(x)
				}
			case Census:
				c := x
				cen = &c
			case SendVal:
				sends[x.Hex]++
			case Wrote:
				wrote[x.Hex]++
			case ConnHPAI:
				c := x
				conn = &c
			case Ret:
				if x.Call == "SockSend" && x.Err != "" {
					bad("send-error", "socket Send failed: %s", x.Err)
				}
			}
		}
		if tr.Reason != "main-returned" {
			return vs
		}
		if want != nil {
			okFull := fmt.Sprint(got) == fmt.Sprint(want.Frames)
			okPrefix := false
			if want.MayEndAt >= 0 && len(got) >= want.MayEndAt {
				okPrefix = fmt.Sprint(got[:want.MayEndAt]) == fmt.Sprint(want.Frames[:want.MayEndAt])
			}
			if want.PrefixOK && len(got) <= len(want.Frames) {
				okPrefix = fmt.Sprint(got) == fmt.Sprint(want.Frames[:len(got)])
			}
			if !okFull && !okPrefix {
				cls := "frames-differ"
				switch {
				case len(got) < len(want.Frames) && fmt.Sprint(got) == fmt.Sprint(want.Frames[:len(got)]):
					cls = "frame-lost"
				case len(got) > len(want.Frames):
					cls = "frame-extra"
				}
				bad(cls, "%s: the peer transmitted the well-formed frames %v; Inbound delivered %v", hist, want.Frames, got)
			}
			if want.MustClose && !closed {
				bad("inbound-not-closed", "%s: Inbound was not closed after the connection ended", hist)
			}
		}
		if haveLate && fmt.Sprint(late) != fmt.Sprint(got) && !(len(late) == 0 && len(got) == 0) {
			bad("frame-content-changes-after-delivery", "%s: the frames delivered on Inbound were %v; rendered again after the later frames had been received the same values read %v (a delivered frame shares memory with the receive buffer)", hist, got, late)
		}
		if census && cen != nil && cen.N > 0 {
			bad("receiver-leak", "%s: %d library goroutine(s) still alive after the connection ended and Inbound was drained: %s", hist, cen.N, cen.Desc)
		}
		for hx := range wrote {
			b, _ := hex.DecodeString(hx)
			if len(b) >= 6 && (int(b[4])<<8|int(b[5])) != len(b) {
				bad("datagram-length-differs-from-header", "a buffer of %d octets was handed to the network whose header announces a total length of %d: %s", len(b), int(b[4])<<8|int(b[5]), hx)
			}
		}
		for _, e := range tr.Log {
			if d, ok := e.V.(Discarded); ok {
				bad("send-accepted-but-discarded-at-close", "Send returned nil for frame %s, the application closed the socket, and the frame never left: the socket was set to discard unsent data on Close (linger 0)", d.Hex)
				break
			}
		}
		for hx, n := range sends {
			if wrote[hx] != n {
				bad("send-not-one-write", "frame %s was sent %d time(s) but written %d time(s) as one contiguous buffer (writes: %v)", hx, n, wrote[hx], wrote)
			}
		}
		for hx, n := range wrote {
			if len(sends) > 0 && sends[hx] != n {
				bad("write-without-send", "the connection saw %d write(s) of %s, %d Send(s) of that frame were made", n, hx, sends[hx])
			}
		}
		if conn != nil {
			b, _ := hex.DecodeString(conn.Hex)
			// header(6) | HPAI control(8) | HPAI data(8) | CRI(4)
			if len(b) != 26 || b[4] != 0 || b[5] != 26 {
				bad("connreq-shape", "connect request has %d octets: %s", len(b), conn.Hex)
			} else {
				for _, off := range []int{6, 14} {
					hp := b[off : off+8]
					wantProto := byte(1)
					if conn.TCP {
						wantProto = 2
					}
					wantAddr := []byte{0, 0, 0, 0, 0, 0}
					if conn.SendLocal && !conn.TCP {
						host, port, _ := net.SplitHostPort(conn.Local)
						ip := net.ParseIP(host).To4()
						var p int
						fmt.Sscan(port, &p)
						wantAddr = []byte{ip[0], ip[1], ip[2], ip[3], byte(p >> 8), byte(p)}
					}
					if hp[0] != 8 || hp[1] != wantProto || string(hp[2:]) != string(wantAddr) {
						bad("connreq-endpoint", "connect request (sendLocal=%v tcp=%v local=%s) advertises HPAI % x at offset %d; want 08 %02x % x", conn.SendLocal, conn.TCP, conn.Local, hp, off, wantProto, wantAddr)
					}
				}
			}
		}
		return vs
	}
}

func init() {
	reg := func(tiers, name, prop string, P, D int, run func(), census bool) {
		register(tiers, &h.Scenario{Name: name, Prop: prop, P: P, F: 0, D: D, Run: run, Check: c16Oracle(prop, census)})
	}
	reg("both", "C16-tcp-2cuts-upto3frames", "C16", 0, -1, c16TCPSeg(0, 3), true)
	reg("thorough", "C16-tcp-2cuts-upto4frames", "C16", 0, -1, c16TCPSeg(0, 4), true)
	reg("both", "C16-tcp-large-frames-every-cut+dribble", "C16", 0, -1, c16TCPSeg(1, 0), true)
	reg("both", "C16-tcp-flat50-dribble+coalesced", "C16", 0, -1, c16TCPSeg(2, 0), true)
	reg("both", "C16-tcp-frames-4090..65535-octets", "C16", 0, -1, c16TCPSeg(3, 0), true)
	reg("both", "C16-tcp-2cuts-1frame-P1", "C16", 1, 1, c16TCPSeg(0, 1), true)
	reg("both", "C16-udp-histories-L3", "C16", 0, -1, c16History(false, 3), true)
	reg("both", "C16-tcp-histories-L3", "C16", 0, -1, c16History(true, 3), true)
	reg("thorough", "C16-udp-histories-L4", "C16", 0, -1, c16History(false, 4), true)
	reg("thorough", "C16-tcp-histories-L4", "C16", 0, -1, c16History(true, 4), true)
	reg("both", "C16-udp-senders-3x2", "C16", 2, 2, c16Senders(false, 3, 2), false)
	reg("both", "C16-tcp-senders-3x2", "C16", 2, 2, c16Senders(true, 3, 2), false)
	reg("thorough", "C16-tcp-senders-8x1", "C16", 2, 2, c16Senders(true, 8, 1), false)
	reg("both", "C16-udp-close-race", "C16", 2, 3, c16CloseRace(false), true)
	reg("both", "C16-tcp-close-race", "C16", 2, 3, c16CloseRace(true), true)
	reg("both", "C16-udp-close-with-abandoned-consumer", "C16", 2, 2, c16CloseAbandoned(false), true)
	reg("both", "C16-tcp-close-with-abandoned-consumer", "C16", 2, 2, c16CloseAbandoned(true), true)
	reg("both", "C16-connreq-endpoint", "C16", 0, -1, c16ConnReq(), false)
	reg("both", "C16-udp-stream-of-50-datagrams-back-to-back", "C16", 0, -1, c16UDPStream(50), true)
	reg("both", "C16-udp-stream-of-12-datagrams-back-to-back-P1", "C16", 1, 1, c16UDPStream(12), true)
	register("both", &h.Scenario{Name: "C03-fullstack-real-socket-send-vs-server-acks", Prop: "C03", P: 2, F: 0, D: 2, Run: c03FullStack(), Check: c03FullStackOracle})
	// C15's datagram clause ("the total-length field equals the length of the datagram handed to the
	// network") under concurrent senders shares the sender scenarios
	reg("both", "C15-udp-senders-3x2", "C15", 2, 2, c16Senders(false, 3, 2), false)
	reg("both", "C15-tcp-senders-3x2", "C15", 2, 2, c16Senders(true, 3, 2), false)
	// the history half of C01 shares the scenarios (registered under C01's own names)
	reg("both", "C01-udp-receiver-histories-L3", "C01", 0, -1, c16HistoryLog(false, 3, true), false)
	reg("both", "C01-tcp-receiver-histories-L3", "C01", 0, -1, c16HistoryLog(true, 3, true), false)
	reg("thorough", "C01-udp-receiver-histories-L4", "C01", 0, -1, c16HistoryLog(false, 4, true), false)
	reg("thorough", "C01-tcp-receiver-histories-L4", "C01", 0, -1, c16HistoryLog(true, 4, true), false)
	// C02's "decodes back to exactly the value that was encoded" for frames that travel: the same
	// frames (the largest legal ones among them) through the real UDP and TCP receivers
	reg("both", "C02-frames-through-the-udp-receiver-L2", "C02", 0, -1, c16History(false, 2), false)
	reg("both", "C02-frames-through-the-tcp-receiver-L2", "C02", 0, -1, c16History(true, 2), false)
	reg("both", "C02-frames-through-the-tcp-receiver-2cuts", "C02", 0, -1, c16TCPSeg(0, 2), false)
	// ... and on the way out: what the socket hands to the network for a value is that value's
	// encoding, also while other goroutines send other values through the same socket
	reg("both", "C02-encodings-leave-the-socket-intact-udp-senders-3x2", "C02", 2, 2, c16Senders(false, 3, 2), false)
	// "the outcome is a function of the input bytes alone" for bytes that reach the decoder through
	// the stream receiver: the same frames, however the stream is cut into segments
	reg("both", "C01-tcp-receiver-2cuts-upto2frames", "C01", 0, -1, c16TCPSeg(0, 2), false)
}

// ---- a back-to-back stream of datagrams ----

// c16UDPStream: "streams of 1..50 frames": n datagrams arrive back to back on a UDP tunnel socket
// while the consumer of Inbound is busy elsewhere (or not); the socket's receive queue (the virtual
// kernel's, with Linux accounting and the default size unless the library configures another one)
// is the only buffer between peer and Inbound. Every frame must surface, once, in arrival order.
func c16UDPStream(n int) func() {
	return func() {
		fs := c16Frames()
		var want []string
		sock, ep := dialUDP()
		ep.OnDrop = func(d []byte) {
			mc.Log(Note("the socket's receive queue had no room for a datagram of " + fmt.Sprint(len(d)) + " octets"))
		}
		done := mc.NewChan[int](1, "c16.done")
		stall := []mc.Duration{0, 2500 * ms}[mc.Choose(2, mc.Free)]
		c16ConsumerStall(sock.Inbound(), done, stall)
		for i := 0; i < n; i++ {
			f := fs[i%len(fs)]
			if i%len(fs) == 2 { // make every tunnelling request distinguishable
				f = pack(&knxnet.TunnelReq{Channel: 1, SeqNumber: uint8(i), Payload: ldata(2)})
			}
			want = append(want, hex.EncodeToString(f))
			ep.Inject(f, nil)
		}
		mc.Log(Want{Frames: want, MayEndAt: -1, MustClose: true})
		mc.Sleep(stall + 2*ms)
		sock.Close()
		done.Recv()
		mc.Sleep(1 * ms)
		censusNote()
	}
}

// ---- one Send per service type ----

// c16SendEach: "every Send emits exactly one complete well-formed frame" for values of every service
// type the library encodes, among them the ones with a variable number of variable-length parts
// (description responses with 0..3 further description blocks of different and of equal sizes, in
// both orders; search responses; telegrams with additional information). The datagram / the run of
// bytes that leaves the socket is judged without the library's encoder: its header must announce
// its length, and the library's decoder must turn it back into the value that was sent.
func c16SendEach(tcp bool) func() {
	return func() {
		var sock *knxnet.TunnelSocket
		var ep *vnet.Endpoint
		if tcp {
			sock, ep = dialTCP()
		} else {
			sock, ep = dialUDP()
		}
		ep.OnWrite = func(w vnet.WriteRec) { mc.Log(Wrote{hex.EncodeToString(w.Data)}) }
		dev := knxnet.DeviceInformationBlock{Type: 1, Medium: 2, Source: 0x1105, HardwareAddr: []byte{2, 4, 6, 8, 10, 12}, FriendlyName: "unit"}
		fam := knxnet.SupportedServicesDIB{Type: 2, Families: []knxnet.ServiceFamily{{Type: 2, Version: 1}, {Type: 4, Version: 1}}}
		blk := func(t knxnet.DescriptionType, n int) knxnet.UnknownDescriptionBlock {
			d := make([]byte, n)
			for i := range d {
				d[i] = byte(int(t)*16 + i)
			}
			return knxnet.UnknownDescriptionBlock{Type: t, Data: d}
		}
		descr := func(bs ...knxnet.UnknownDescriptionBlock) *knxnet.DescriptionRes {
			return &knxnet.DescriptionRes{DeviceHardware: dev, SupportedServices: fam, UnknownBlocks: bs}
		}
		host := knxnet.HostInfo{Protocol: knxnet.UDP4, Address: knxnet.Address{10, 0, 0, 7}, Port: 3671}
		vals := []knxnet.ServicePackable{
			&knxnet.ConnReq{Layer: knxnet.TunnelLayerData, Control: host, Tunnel: host},
			&knxnet.ConnStateReq{Channel: 3, Control: host},
			&knxnet.DiscReq{Channel: 3, Control: host},
			&knxnet.DiscRes{Channel: 3, Status: 0},
			&knxnet.TunnelRes{Channel: 3, SeqNumber: 9, Status: 0},
			&knxnet.TunnelReq{Channel: 3, SeqNumber: 9, Payload: ldata(1)},
			&knxnet.TunnelReq{Channel: 3, SeqNumber: 10, Payload: c12FullFrame(1, c12Shape{254, 255})},
			&knxnet.RoutingInd{Payload: ldata(20)},
			&knxnet.SearchReq{HostInfo: host},
			&knxnet.DescriptionReq{HostInfo: host},
			&knxnet.SearchRes{Control: host, DescriptionB: knxnet.DescriptionBlock{DeviceHardware: dev, SupportedServices: fam}},
			descr(),
			descr(blk(3, 14)),
			descr(blk(3, 14), blk(5, 2)),
			descr(blk(5, 2), blk(3, 14)),
			descr(blk(3, 6), blk(4, 6)),
			descr(blk(3, 2), blk(4, 6), blk(0xFE, 12)),
			descr(blk(0xFE, 12), blk(4, 6), blk(3, 2)),
		}
		for i, v := range vals {
			mc.Log(SendEach{i, fmt.Sprintf("%T", v), dumpSvc(v)})
			err := sock.Send(v)
			mc.Log(Ret{"SockSend", i, errStr(err), mc.Now()})
		}
		sock.Close()
	}
}

// SendEach is logged before every Send of c16SendEach: the value in a rendering that the decoded
// frame is compared with.
type SendEach struct {
	I    int
	Type string
	Dump string
}

func (s SendEach) String() string { return fmt.Sprintf("SEND-EACH #%d %s %s", s.I, s.Type, s.Dump) }

func dumpSvc(v interface{}) string { return deepDump(v) }

func c16SendEachOracle(tr *mc.Trace) []h.Violation {
	vs := generic(tr, "C16", true)
	bad := func(class, format string, a ...interface{}) {
		vs = append(vs, h.Violation{Class: "C16:" + class, Msg: fmt.Sprintf(format, a...)})
	}
	var cur *SendEach
	writes := 0
	flush := func() {
		if cur != nil && writes != 1 {
			bad("send-not-one-write", "Send #%d (%s) caused %d writes on the connection, want 1", cur.I, cur.Type, writes)
		}
	}
	for _, e := range tr.Log {
		switch x := e.V.(type) {
		case SendEach:
			flush()
			c := x
			cur, writes = &c, 0
		case Ret:
			if x.Call == "SockSend" && x.Err != "" {
				bad("send-error", "Send #%d failed: %s", x.ID, x.Err)
			}
		case Wrote:
			writes++
			if cur == nil {
				continue
			}
			b, _ := hex.DecodeString(x.Hex)
			if len(b) < 6 || (int(b[4])<<8|int(b[5])) != len(b) {
				bad("datagram-length-differs-from-header", "Send #%d (%s): %d octets left the socket, the header announces %d: %s", cur.I, cur.Type, len(b), int(b[4])<<8|int(b[5]), x.Hex)
				continue
			}
			var got knxnet.Service
			n, err := knxnet.Unpack(b, &got)
			if err != nil || int(n) != len(b) {
				bad("sent-frame-not-well-formed", "Send #%d (%s, %s) put %s on the wire; the decoder reads %d of its %d octets: %v", cur.I, cur.Type, cur.Dump, x.Hex, n, len(b), err)
				continue
			}
			if d := dumpSvc(got); d != cur.Dump {
				bad("sent-frame-is-another-value", "Send #%d: the value %s left the socket as %s, which decodes to %s", cur.I, cur.Dump, x.Hex, d)
			}
		}
	}
	flush()
	return vs
}

func init() {
	register("both", &h.Scenario{Name: "C16-udp-one-send-per-service-type", Prop: "C16", P: 0, F: 0, D: -1, Run: c16SendEach(false), Check: c16SendEachOracle})
	register("both", &h.Scenario{Name: "C16-tcp-one-send-per-service-type", Prop: "C16", P: 0, F: 0, D: -1, Run: c16SendEach(true), Check: c16SendEachOracle})
}

// ---- every frame length through every socket kind ----

// c16EveryLength: "frame sizes from the 8-byte minimum to the largest encodable frame": one Send per
// frame length 8..531 (a routing indication / tunnelling request carrying a raw message of every
// length), through the tunnel socket (UDP, TCP) and the router socket. Each Send is one write whose
// length the header announces and which the decoder turns back into the value sent.
func c16EveryLength(kind int) func() {
	return func() {
		w := vnet.Reset()
		var ep *vnet.Endpoint
		w.OnCreate = func(e *vnet.Endpoint) { ep = e }
		var send func(v knxnet.ServicePackable) error
		var closeFn func()
		switch kind {
		case 0:
			s, err := knxnet.DialTunnelUDP("192.0.2.99:3671")
			if err != nil {
				panic(err)
			}
			send, closeFn = s.Send, func() { s.Close() }
		case 1:
			s, err := knxnet.DialTunnelTCP("192.0.2.99:3671")
			if err != nil {
				panic(err)
			}
			send, closeFn = s.Send, func() { s.Close() }
		default:
			s, err := knxnet.ListenRouter("224.0.23.12:3671")
			if err != nil {
				panic(err)
			}
			send, closeFn = s.Send, func() { s.Close() }
		}
		ep.OnWrite = func(wr vnet.WriteRec) { mc.Log(Wrote{hex.EncodeToString(wr.Data)}) }
		mc.SetQuiet(true)
		i := 0
		for n := 1; n <= 524; n++ {
			raw := make(cemi.LRaw, n)
			for k := range raw {
				raw[k] = byte(n + k)
			}
			var v knxnet.ServicePackable
			if kind == 2 {
				v = &knxnet.RoutingInd{Payload: &cemi.LRawReq{LRaw: raw}} // 6 + 1 + n octets
			} else if n <= 520 {
				v = &knxnet.TunnelReq{Channel: 1, SeqNumber: uint8(n), Payload: &cemi.LRawReq{LRaw: raw}} // 6 + 4 + 1 + n
			} else {
				continue
			}
			mc.Log(SendEach{i, fmt.Sprintf("%T", v), dumpSvc(v)})
			err := send(v)
			mc.Log(Ret{"SockSend", i, errStr(err), mc.Now()})
			i++
		}
		mc.SetQuiet(false)
		closeFn()
	}
}

func init() {
	for k, name := range []string{"udp-tunnel-socket", "tcp-tunnel-socket", "router-socket"} {
		register("both", &h.Scenario{Name: "C16-one-send-per-frame-length-" + name, Prop: "C16", P: 0, F: 0, D: -1, Run: c16EveryLength(k), Check: c16SendEachOracle})
		register("both", &h.Scenario{Name: "C15-one-send-per-frame-length-" + name, Prop: "C15", P: 0, F: 0, D: -1, Run: c16EveryLength(k), Check: c15SendEachOracle})
	}
}

func c15SendEachOracle(tr *mc.Trace) []h.Violation {
	vs := c16SendEachOracle(tr)
	for i := range vs {
		vs[i].Class = strings.Replace(vs[i].Class, "C16:", "C15:", 1)
	}
	return vs
}

// ---- C03: telegrams of several shapes in succession through the real socket layer ----
//
// Seeded change C03-l: the socket's Send packs into buffers recycled through a sync.Pool and
// AppData.Pack no longer clears the first data octet before OR-ing the application code into it -
// each harmless alone; together a group read (no data) that follows a write leaves the socket with
// the write's low six data bits, and its retransmission (another buffer) differs from its first
// transmission. Every ordered triple of eight telegram shapes is sent through the real tunnel on
// the real socket layer; the first transmission of every request stays unanswered; every datagram
// that carries a tunnelling request must be the reference encoding (enum/refenc) of the request
// handed to Send with the connection's channel and the next number.
func c03Shapes() []cemi.TransportUnit {
	long := make([]byte, 20)
	for i := range long {
		long[i] = 0xFF
	}
	long[0] = 0x3F
	return []cemi.TransportUnit{
		&cemi.AppData{Command: cemi.GroupValueRead},
		&cemi.AppData{Command: cemi.GroupValueWrite, Data: []byte{0x2A}},
		&cemi.AppData{Command: cemi.GroupValueWrite, Data: []byte{0x3F}},
		&cemi.AppData{Command: cemi.GroupValueResponse, Data: []byte{0x00}},
		&cemi.AppData{Command: cemi.GroupValueWrite, Data: []byte{0x3F, 0xFF, 0xFF}},
		&cemi.AppData{Command: cemi.GroupValueWrite, Data: long},
		&cemi.AppData{Command: cemi.GroupValueResponse, Data: []byte{}},
		&cemi.ControlData{Command: 1},
	}
}

type ShapeSend struct {
	N     int
	Shape int
	Hex   string
}

func (s ShapeSend) String() string {
	return fmt.Sprintf("SHAPE-SEND #%d shape=%d %s", s.N, s.Shape, s.Hex)
}

func c03FullStackShapes() func() {
	return func() {
		w := vnet.Reset()
		seen := map[uint8]int{}
		w.OnCreate = func(e *vnet.Endpoint) {
			e.OnWrite = func(wr vnet.WriteRec) {
				mc.Log(Wrote{hex.EncodeToString(wr.Data)})
				b := wr.Data
				if len(b) < 10 {
					return
				}
				switch {
				case b[2] == 0x02 && b[3] == 0x05:
					e.Inject(refenc.ConnRes(7, 0, refenc.HPAI(1, [4]byte{192, 0, 2, 99}, 3671), 0x1101), nil)
				case b[2] == 0x04 && b[3] == 0x20:
					seen[b[8]]++
					if seen[b[8]] >= 2 { // the first transmission stays unanswered
						e.Inject(refenc.TunnelAck(b[7], b[8], 0), nil)
					}
				}
			}
		}
		t, err := knx.NewTunnel("192.0.2.99:3671", knxnet.TunnelLayerData, TCfg(100, 350, 100000000))
		if err != nil {
			mc.Log(Note("connect failed: " + err.Error()))
			return
		}
		mc.GoEnv("reader", func() {
			for {
				if _, ok := t.Inbound().Recv2(); !ok {
					return
				}
			}
		})
		shapes := c03Shapes()
		for n := 0; n < 3; n++ {
			k := mc.Choose(len(shapes), mc.Free)
			unit := shapes[k]
			c1 := cemi.Control1StdFrame | cemi.Control1NoRepeat
			if a, ok := unit.(*cemi.AppData); ok && len(a.Data) > 15 {
				c1 = cemi.Control1NoRepeat
			}
			m := &cemi.LDataReq{LData: cemi.LData{Control1: c1, Control2: cemi.Control2GroupAddr | cemi.Control2Hops(6), Source: 0, Destination: uint16(0x0A00 + n), Data: unit}}
			want, err := refenc.Encode(&knxnet.TunnelReq{Channel: 7, SeqNumber: uint8(n), Payload: m})
			if err != nil {
				mc.Log(Note("reference encoder: " + err.Error()))
				return
			}
			mc.Log(ShapeSend{n, k, hex.EncodeToString(want)})
			err = t.Send(m)
			mc.Log(Ret{"Send", n, errStr(err), mc.Now()})
		}
		mc.Sleep(50 * ms)
		t.Close()
	}
}

func c03FullStackShapesOracle(tr *mc.Trace) []h.Violation {
	vs := generic(tr, "C03", true)
	want := map[int]string{}
	var shapes []int
	for _, e := range tr.Log {
		switch x := e.V.(type) {
		case ShapeSend:
			want[x.N] = x.Hex
			shapes = append(shapes, x.Shape)
		case Ret:
			if x.Call == "Send" && x.Err != "" {
				vs = append(vs, h.Violation{Class: "C03:fullstack-send-failed", Msg: fmt.Sprintf("telegram shapes %v: Send %d failed: %s", shapes, x.ID, x.Err)})
			}
		}
	}
	count := map[int]int{}
	for _, e := range tr.Log {
		wr, ok := e.V.(Wrote)
		if !ok {
			continue
		}
		b, _ := hex.DecodeString(wr.Hex)
		if len(b) < 6 || (int(b[4])<<8|int(b[5])) != len(b) {
			vs = append(vs, h.Violation{Class: "C03:transmission-corrupt", Msg: fmt.Sprintf("a buffer of %d octets left the socket whose header announces %d: %s", len(b), int(b[4])<<8|int(b[5]), wr.Hex)})
			continue
		}
		if b[2] == 0x04 && b[3] == 0x20 && len(b) > 8 {
			n := int(b[8])
			count[n]++
			if w, ok := want[n]; !ok || wr.Hex != w {
				class := "C03:transmission-differs-from-the-request"
				if count[n] > 1 {
					class = "C03:retransmission-differs"
				}
				vs = append(vs, h.Violation{Class: class, Msg: fmt.Sprintf("telegram shapes %v in succession: transmission %d of request %d is %s; the request handed to Send encodes as %s", shapes, count[n], n, wr.Hex, w)})
			}
		}
	}
	if tr.Reason == "main-returned" {
		for n := range want {
			if count[n] != 2 {
				vs = append(vs, h.Violation{Class: "C03:fullstack-transmission-count", Msg: fmt.Sprintf("telegram shapes %v: %d transmissions of request %d, want 2 (first one unanswered, retransmission acknowledged)", shapes, count[n], n)})
			}
		}
	}
	return vs
}

func init() {
	register("both", &h.Scenario{Name: "C03-fullstack-every-triple-of-eight-telegram-shapes", Prop: "C03", P: 0, F: 0, D: -1, Run: c03FullStackShapes(), Check: c03FullStackShapesOracle})
	register("thorough", &h.Scenario{Name: "C03-fullstack-three-telegram-shapes-P1", Prop: "C03", P: 1, F: 0, D: 1, Run: c03FullStackShapes(), Check: c03FullStackShapesOracle})
}
