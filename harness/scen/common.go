//go:build verif

// Package scen holds the scenarios (closed drivers) and oracles of the concurrency properties.
package scen

import (
	"fmt"
	"time"

	"github.com/vapourismo/knx-go/knx"
	"github.com/vapourismo/knx-go/knx/cemi"
	"github.com/vapourismo/knx-go/knx/dpt"
	"github.com/vapourismo/knx-go/knx/knxnet"
	"github.com/vapourismo/knx-go/knx/util"
	"github.com/vapourismo/knx-go/verifmc/mc"
	"verifh/enum/statelib"
	"verifh/harness/fakesock"
	"verifh/harness/h"
)

const ms = time.Millisecond

// Registry of all scenarios by name.
var Registry = map[string]*h.Scenario{}

// ByProp lists scenario names per property and tier, in execution order.
var ByProp = map[string]map[string][]string{}

func register(tiers string, sc *h.Scenario) {
	if _, dup := Registry[sc.Name]; dup {
		panic("duplicate scenario " + sc.Name)
	}
	if sc.Cfg.Horizon == 0 {
		sc.Cfg.Horizon = 120 * time.Second
	}
	// a well-formed routing-busy / routing-lost indication that the library's decoder turns down
	// never reaches the client: judged in every scenario that puts one on the wire (c13.go)
	if inner := sc.Check; inner != nil {
		prop := sc.Prop
		sc.Check = func(tr *mc.Trace) []h.Violation {
			return append(inner(tr), rejectedIndications(tr, prop)...)
		}
	}
	Registry[sc.Name] = sc
	if ByProp[sc.Prop] == nil {
		ByProp[sc.Prop] = map[string][]string{}
	}
	for _, t := range []string{"quick", "thorough"} {
		if tiers == "both" || tiers == t {
			ByProp[sc.Prop][t] = append(ByProp[sc.Prop][t], sc.Name)
		}
	}
}

// Msg builds telegram number id (the id travels in the destination address).
func Msg(id int) cemi.Message {
	return &cemi.LDataInd{LData: cemi.LData{
		Control1:    cemi.Control1StdFrame | cemi.Control1NoRepeat,
		Control2:    cemi.Control2GroupAddr | cemi.Control2Hops(6),
		Source:      cemi.IndividualAddr(0x1101),
		Destination: uint16(id),
		Data:        &cemi.AppData{Command: cemi.GroupValueWrite, Data: []byte{byte(id & 63)}},
	}}
}

// MsgID recovers the id of a telegram built by Msg (or -1).
func MsgID(m interface{}) int {
	switch x := m.(type) {
	case *cemi.LDataInd:
		return int(x.Destination)
	case *cemi.LDataReq:
		return int(x.Destination)
	case *cemi.LDataCon:
		return int(x.Destination)
	}
	return -1
}

func init() {
	fakesock.PayloadID = func(m interface{}) string { return fmt.Sprint(MsgID(m)) }
}

// Every execution starts from the state the library's packages were initialised to: the package-level
// variables of knx, knxnet, cemi, dpt and util (addresses from the generated VerifGlobals files)
// are saved once and restored in place before each run. On the pinned tree nothing changes them;
// a change under check that keeps state in package scope would otherwise make an execution depend
// on the executions the same worker ran before it (and a replay in a fresh process differ).
func init() {
	var roots []interface{}
	for _, f := range []func() ([]string, []interface{}){knx.VerifGlobals, knxnet.VerifGlobals, cemi.VerifGlobals, dpt.VerifGlobals, util.VerifGlobals} {
		_, r := f()
		roots = append(roots, r...)
	}
	snap := statelib.Take(roots)
	mc.PreRun = snap.Restore
}

// Rx is logged by consumers for every telegram read from Inbound.
type Rx struct {
	ID   int
	From string
}

func (r Rx) String() string { return fmt.Sprintf("RX %s id=%d", r.From, r.ID) }

// Ret is logged when an API call returns.
type Ret struct {
	Call string
	ID   int
	Err  string
	T0   mc.Duration
}

func (r Ret) String() string {
	return fmt.Sprintf("RET %s#%d err=%q (called at %v)", r.Call, r.ID, r.Err, r.T0)
}

func errStr(e error) string {
	if e == nil {
		return ""
	}
	return e.Error()
}

// Note is a free-form marker event.
type Note string

func (n Note) String() string { return "NOTE " + string(n) }

// TCfg builds a tunnel configuration in virtual milliseconds.
func TCfg(R, T, H int) knx.TunnelConfig {
	return knx.TunnelConfig{ResendInterval: time.Duration(R) * ms, ResponseTimeout: time.Duration(T) * ms, HeartbeatInterval: time.Duration(H) * ms}
}

// Gateway is the scripted environment behind a fakesock.
type Gateway struct {
	Sock    *fakesock.Sock
	Channel uint8
	// OnTunnelReq decides what happens with each (re)transmission; default: ack OK at once.
	OnTunnelReq func(req *knxnet.TunnelReq, s *fakesock.Sent)
	OnConnState func(req *knxnet.ConnStateReq, s *fakesock.Sent)
	OnConnReq   func(req *knxnet.ConnReq, s *fakesock.Sent)
	OnDiscReq   func(req *knxnet.DiscReq, s *fakesock.Sent)
	NextChannel uint8
}

// NewGateway wires a default well-behaved gateway to sock.
func NewGateway(sock *fakesock.Sock, channel uint8) *Gateway {
	g := &Gateway{Sock: sock, Channel: channel, NextChannel: channel}
	sock.OnSend = func(s *fakesock.Sent) {
		switch x := s.Svc.(type) {
		case *knxnet.ConnReq:
			if g.OnConnReq != nil {
				g.OnConnReq(x, s)
				return
			}
			g.Channel = g.NextChannel
			sock.Deliver(&knxnet.ConnRes{Channel: g.Channel, Status: 0, Control: knxnet.HostInfo{Protocol: knxnet.UDP4}})
		case *knxnet.TunnelReq:
			if g.OnTunnelReq != nil {
				g.OnTunnelReq(x, s)
				return
			}
			if sock.Network == "udp" {
				sock.Deliver(&knxnet.TunnelRes{Channel: x.Channel, SeqNumber: x.SeqNumber, Status: 0})
			}
		case *knxnet.ConnStateReq:
			if g.OnConnState != nil {
				g.OnConnState(x, s)
				return
			}
			sock.Deliver(&knxnet.ConnStateRes{Channel: x.Channel, Status: 0})
		case *knxnet.DiscReq:
			if g.OnDiscReq != nil {
				g.OnDiscReq(x, s)
			}
		}
	}
	return g
}

// After runs f in an environment goroutine after d of virtual time.
func After(d time.Duration, name string, f func()) {
	mc.GoEnv(name, func() {
		mc.Sleep(d)
		f()
	})
}

// libLive filters the census down to library goroutines.
func libLive(gs []mc.GInfo) []mc.GInfo {
	var r []mc.GInfo
	for _, g := range gs {
		if !g.Env {
			r = append(r, g)
		}
	}
	return r
}

// generic checks every oracle starts with: escaped panics, fatal errors, races, deadlock.
// logChoice lets the environment decide whether the application has installed a log target
// (util.Logger). With one, the library formats a message on every path that logs - code that
// otherwise never runs (error branches that print a status code, a rejected frame, a nil value).
// What a client does must not depend on it. Usage: defer logChoice()().
func logChoice() func() {
	util.Logger = nil
	if mc.Choose(2, mc.Free) == 1 {
		util.Logger = nullLogger{}
	}
	return func() { util.Logger = nil }
}

func generic(tr *mc.Trace, prop string, allowRace bool) []h.Violation {
	var vs []h.Violation
	for _, e := range tr.Log {
		switch x := e.V.(type) {
		case mc.PanicEscaped:
			vs = append(vs, h.Violation{Class: prop + ":panic:" + x.Site, Msg: x.Value + "\n" + x.Stack})
		case mc.Fatal:
			vs = append(vs, h.Violation{Class: prop + ":fatal", Msg: x.Msg})
		case mc.Race:
			if !allowRace {
				vs = append(vs, h.Violation{Class: prop + ":race:" + x.A + "|" + x.B, Msg: x.String()})
			}
		}
	}
	switch tr.Reason {
	case "main-returned":
	case "fatal":
	default:
		msg := "execution ended with " + tr.Reason + "; blocked:"
		for _, g := range tr.Live {
			msg += fmt.Sprintf(" [g%d %s %s]", g.ID, g.Site, g.Pending)
		}
		vs = append(vs, h.Violation{Class: prop + ":" + tr.Reason, Msg: msg})
	}
	return vs
}
