//go:build verif

package scen

import (
	"encoding/hex"
	"fmt"
	"sort"

	"github.com/vapourismo/knx-go/knx/cemi"
	"github.com/vapourismo/knx-go/knx/dpt"
	"github.com/vapourismo/knx-go/knx/knxnet"
	"github.com/vapourismo/knx-go/verifmc/mc"
	"verifh/harness/h"
)

// Concurrent use of the codecs. The codec properties (C01, C02, C06-C08, C11, C15, C18, C19) are
// stated for every input; an application calls the codecs from many goroutines at once (every
// tunnel has a receiver goroutine next to the senders), so "for every input" must not depend on what
// another goroutine is encoding or decoding at the same time. The driver: each of N goroutines
// runs a fixed program of codec operations on its own values; every result must equal the result
// of the same operation run alone (computed first, sequentially, in the same execution), under
// every schedule within the preemption bound, and no unsynchronised access to package-level state
// may occur. mcgen puts knx/cemi, knx/dpt and knx/util under the controlled runtime as soon as
// they contain locks, atomics, goroutines, channels or a package-level variable that a function
// modifies (on the pinned tree: only knx/util's log-column width, which is untouched while no
// logger is set) - a scratch buffer hoisted to package scope, a parse or name cache, a pooled
// decoder then have scheduling points and race instrumentation.

type concOp struct {
	name string
	run  func() string
}

// ConcResult is logged for every operation: by g0 (the sequential reference) and by the workers.
type ConcResult struct {
	Phase string // "ref" | "conc"
	Prog  int
	Op    string
	Out   string
}

func (c ConcResult) String() string {
	return fmt.Sprintf("CONC %s prog=%d %s -> %s", c.Phase, c.Prog, c.Op, c.Out)
}

func safely(f func() string) (out string) {
	defer func() {
		if r := recover(); r != nil {
			out = fmt.Sprintf("PANIC %v", r)
		}
	}()
	return f()
}

func concRun(progs func() [][]concOp) func() {
	return func() {
		ps := progs()
		for i, p := range ps {
			for _, op := range p {
				mc.Log(ConcResult{"ref", i, op.name, safely(op.run)})
			}
		}
		// fresh closures for the concurrent phase (the operations own their inputs)
		ps = progs()
		done := mc.NewChan[int](len(ps), "conc.done")
		for i, p := range ps {
			i, p := i, p
			mc.GoEnv(fmt.Sprintf("worker%d", i), func() {
				for _, op := range p {
					mc.Log(ConcResult{"conc", i, op.name, safely(op.run)})
				}
				done.Send(i)
			})
		}
		for range ps {
			done.Recv()
		}
	}
}

func concOracle(prop string) func(tr *mc.Trace) []h.Violation {
	return func(tr *mc.Trace) []h.Violation {
		vs := generic(tr, prop, false)
		ref := map[string]string{}
		for _, e := range tr.Log {
			c, ok := e.V.(ConcResult)
			if !ok {
				continue
			}
			key := fmt.Sprintf("%d/%s", c.Prog, c.Op)
			if c.Phase == "ref" {
				ref[key] = c.Out
				continue
			}
			if want, ok := ref[key]; ok && want != c.Out {
				vs = append(vs, h.Violation{Class: prop + ":result-depends-on-concurrent-callers:" + opClass(c.Op),
					Msg: fmt.Sprintf("%s run alone yields %s; run by worker %d while other goroutines use the codecs it yields %s", c.Op, want, c.Prog, c.Out)})
			}
		}
		return vs
	}
}

func opClass(op string) string {
	for i := 0; i < len(op); i++ {
		if op[i] == '(' || op[i] == ' ' {
			return op[:i]
		}
	}
	return op
}

// --- programs ------------------------------------------------------------------------------------

func addrOps(ind uint16, grp uint16) []concOp {
	it, gt := cemi.IndividualAddr(ind).String(), cemi.GroupAddr(grp).String()
	return []concOp{
		{fmt.Sprintf("IndividualAddr.String(%#04x)", ind), func() string { return cemi.IndividualAddr(ind).String() }},
		{fmt.Sprintf("NewIndividualAddrString(%q)", it), func() string {
			a, err := cemi.NewIndividualAddrString(it)
			return fmt.Sprintf("%#04x %v", uint16(a), err)
		}},
		{fmt.Sprintf("GroupAddr.String(%#04x)", grp), func() string { return cemi.GroupAddr(grp).String() }},
		{fmt.Sprintf("NewGroupAddrString(%q)", gt), func() string {
			a, err := cemi.NewGroupAddrString(gt)
			return fmt.Sprintf("%#04x %v", uint16(a), err)
		}},
		{fmt.Sprintf("NewGroupAddrString(%q)", it), func() string { // the other kind's separator: rejected
			a, err := cemi.NewGroupAddrString(it)
			return fmt.Sprintf("%#04x %v", uint16(a), err != nil)
		}},
	}
}

func concAddr(n int) func() [][]concOp {
	vals := [][2]uint16{{0x1203, 0x0A03}, {0xFFFE, 0xFFFF}, {0x0001, 0x7801}}
	return func() [][]concOp {
		var ps [][]concOp
		for i := 0; i < n; i++ {
			ps = append(ps, addrOps(vals[i][0], vals[i][1]))
		}
		return ps
	}
}

func dptOps(name string, fill byte) []concOp {
	var payload []byte
	if d, ok := dpt.Produce(name); ok {
		payload = d.Pack()
		// a second, different but valid payload: keep the zero encoding's length, vary the low bits
		// of the last octet where the type accepts it (checked sequentially by the reference phase)
		alt := append([]byte(nil), payload...)
		if len(alt) > 0 {
			alt[len(alt)-1] ^= fill
		}
		if d2, _ := dpt.Produce(name); d2 != nil && d2.Unpack(alt) == nil {
			payload = alt
		}
	}
	px := hex.EncodeToString(payload)
	return []concOp{
		{fmt.Sprintf("Produce(%q)+Unpack(%s)+Pack", name, px), func() string {
			d, ok := dpt.Produce(name)
			if !ok {
				return "unknown"
			}
			if err := d.Unpack(payload); err != nil {
				return "error " + err.Error()
			}
			return hex.EncodeToString(d.Pack()) + " " + fmt.Sprint(d)
		}},
		{fmt.Sprintf("Produce(%q)+Pack", name), func() string {
			d, ok := dpt.Produce(name)
			if !ok {
				return "unknown"
			}
			return hex.EncodeToString(d.Pack())
		}},
		// a telegram that is one octet short: rejected - and whatever the decoder does on its way
		// out must not show in anybody's later decoding
		{fmt.Sprintf("Produce(%q)+Unpack(%s minus the last octet)", name, px), func() string {
			d, ok := dpt.Produce(name)
			if !ok || len(payload) == 0 {
				return "unknown"
			}
			if err := d.Unpack(payload[:len(payload)-1]); err != nil {
				return "error " + err.Error()
			}
			return "accepted " + hex.EncodeToString(d.Pack())
		}},
		{fmt.Sprintf("Produce(%q)+Unpack(%s)+Pack again", name, px), func() string {
			d, ok := dpt.Produce(name)
			if !ok {
				return "unknown"
			}
			if err := d.Unpack(payload); err != nil {
				return "error " + err.Error()
			}
			return hex.EncodeToString(d.Pack()) + " " + fmt.Sprint(d)
		}},
	}
}

// concDPTSame: every worker decodes the same structured types (colours, xyY, date and time, texts),
// each its own payloads: decoders of one type - and of types that share a helper - run side by side.
func concDPTSame(n int) func() [][]concOp {
	names := []string{"232.600", "251.600", "242.600", "19.001", "16.000", "28.001"}
	return func() [][]concOp {
		var ps [][]concOp
		for i := 0; i < n; i++ {
			var p []concOp
			for k := range names {
				p = append(p, dptOps(names[(k+i)%len(names)], byte(1+i))...)
			}
			ps = append(ps, p)
		}
		return ps
	}
}

func concDPT(n int) func() [][]concOp {
	sets := [][]string{{"9.001", "5.001", "16.000", "19.001"}, {"9.001", "14.056", "1.001", "7.001"}, {"12.001", "13.001", "16.001", "232.600"}}
	return func() [][]concOp {
		var ps [][]concOp
		for i := 0; i < n; i++ {
			var p []concOp
			for _, name := range sets[i] {
				p = append(p, dptOps(name, byte(1+i))...)
			}
			ps = append(ps, p)
		}
		return ps
	}
}

// concDPTAll: two goroutines go through every registered name, one upwards, one downwards.
func concDPTAll() [][]concOp {
	names := append([]string(nil), dpt.ListSupportedTypes()...)
	sort.Strings(names)
	var up, down []concOp
	for i := range names {
		up = append(up, dptOps(names[i], 1)...)
		down = append(down, dptOps(names[len(names)-1-i], 2)...)
	}
	return [][]concOp{up, down}
}

func concLData(code int, info int, data int, dst uint16) cemi.Message {
	ld := cemi.LData{
		Control1: cemi.Control1NoRepeat | cemi.Control1Prio(cemi.PrioLow), Control2: cemi.Control2GroupAddr | cemi.Control2Hops(6),
		Source: cemi.IndividualAddr(0x1100 + dst&0xFF), Destination: dst,
	}
	if data <= 15 {
		ld.Control1 |= cemi.Control1StdFrame
	}
	for i := 0; i < info; i++ {
		ld.Info = append(ld.Info, byte(0x80+i+int(dst)))
	}
	d := make([]byte, data)
	for i := range d {
		d[i] = byte(i*7) + byte(dst)
	}
	d[0] &= 63
	ld.Data = &cemi.AppData{Command: cemi.GroupValueWrite, Data: d}
	switch code {
	case 0:
		return &cemi.LDataReq{LData: ld}
	case 1:
		return &cemi.LDataInd{LData: ld}
	}
	return &cemi.LDataCon{LData: ld}
}

func frameOps(svcs []func() knxnet.ServicePackable) []concOp {
	var ops []concOp
	for i, mk := range svcs {
		mk := mk
		name := fmt.Sprintf("%T#%d", mk(), i)
		ref := make([]byte, knxnet.Size(mk()))
		knxnet.Pack(ref, mk())
		raw := append([]byte(nil), ref...)
		ops = append(ops,
			concOp{fmt.Sprintf("knxnet.Pack(%s)", name), func() string {
				v := mk()
				b := make([]byte, knxnet.Size(v))
				for j := range b {
					b[j] = 0xEE
				}
				knxnet.Pack(b, v)
				return hex.EncodeToString(b)
			}},
			concOp{fmt.Sprintf("knxnet.Unpack(%s)+Pack", name), func() string {
				var s knxnet.Service
				n, err := knxnet.Unpack(append([]byte(nil), raw...), &s)
				if err != nil {
					return "error " + err.Error()
				}
				sp, ok := s.(knxnet.ServicePackable)
				if !ok {
					return fmt.Sprintf("%T consumed=%d (no encoder)", s, n)
				}
				b := make([]byte, knxnet.Size(sp))
				knxnet.Pack(b, sp)
				return fmt.Sprintf("%T consumed=%d %s", s, n, hex.EncodeToString(b))
			}},
		)
	}
	return ops
}

func concDevice(tag byte, name string) knxnet.DeviceInformationBlock {
	return knxnet.DeviceInformationBlock{
		Type: knxnet.DescriptionTypeDeviceInfo, Medium: knxnet.KNXMediumTP1, Source: cemi.IndividualAddr(0x1100 + uint16(tag)),
		ProjectIdentifier: knxnet.ProjectInstallationIdentifier(0x0100 + uint16(tag)), SerialNumber: knxnet.DeviceSerialNumber{1, 2, 3, 4, 5, tag},
		RoutingMulticastAddress: knxnet.Address{224, 0, 23, tag}, HardwareAddr: []byte{0, 1, 2, 3, 4, tag}, FriendlyName: name,
	}
}

func concFrames(n int) func() [][]concOp {
	fam := func(k int) knxnet.SupportedServicesDIB {
		d := knxnet.SupportedServicesDIB{Type: knxnet.DescriptionTypeSupportedServiceFamilies}
		for i := 0; i < k; i++ {
			d.Families = append(d.Families, knxnet.ServiceFamily{Type: knxnet.ServiceFamilyType(2 + i), Version: uint8(1 + i)})
		}
		return d
	}
	sets := [][]func() knxnet.ServicePackable{
		{
			func() knxnet.ServicePackable {
				return &knxnet.TunnelReq{Channel: 7, SeqNumber: 200, Payload: concLData(0, 0, 3, 0x0A03)}
			},
			func() knxnet.ServicePackable {
				return &knxnet.DescriptionRes{DeviceHardware: concDevice(1, "Gateway Süd"), SupportedServices: fam(3),
					UnknownBlocks: []knxnet.UnknownDescriptionBlock{{Type: knxnet.DescriptionTypeKNXAddresses, Data: []byte{0x11, 0x01, 0x11, 0x02}}, {Type: knxnet.DescriptionTypeManufacturerData, Data: []byte{0, 0xC5, 1}}}}
			},
		},
		{
			func() knxnet.ServicePackable { return &knxnet.RoutingInd{Payload: concLData(1, 2, 20, 0x7801)} },
			func() knxnet.ServicePackable {
				return &knxnet.SearchRes{Control: knxnet.HostInfo{Protocol: knxnet.UDP4, Address: knxnet.Address{10, 0, 0, 9}, Port: 3671},
					DescriptionB: knxnet.DescriptionBlock{DeviceHardware: concDevice(2, "Router Nord-West 0123456789"), SupportedServices: fam(5)}}
			},
		},
		{
			func() knxnet.ServicePackable {
				return &knxnet.TunnelReq{Channel: 9, SeqNumber: 0, Payload: concLData(2, 0, 1, 0xFFFF)}
			},
			func() knxnet.ServicePackable {
				return &knxnet.ConnRes{Channel: 9, Status: 0, Control: knxnet.HostInfo{Protocol: knxnet.UDP4, Address: knxnet.Address{192, 168, 1, 2}, Port: 50000}}
			},
			func() knxnet.ServicePackable { return &knxnet.TunnelRes{Channel: 9, SeqNumber: 255, Status: 0x29} },
		},
	}
	return func() [][]concOp {
		var ps [][]concOp
		for i := 0; i < n; i++ {
			ps = append(ps, frameOps(sets[i]))
		}
		return ps
	}
}

func init() {
	reg := func(tiers, name, prop string, P, D int, progs func() [][]concOp) {
		register(tiers, &h.Scenario{Name: name, Prop: prop, P: P, F: 0, D: D, Run: concRun(progs), Check: concOracle(prop), Cfg: mc.Config{StmtPoints: true},
			Note: "concurrent callers of the codecs: every result equals the result of the same call made alone; no unsynchronised package state"})
	}
	reg("both", "C18-concurrent-format-and-parse-2", "C18", 2, 0, concAddr(2))
	reg("both", "C18-concurrent-format-and-parse-3", "C18", 1, 0, concAddr(3))
	for _, prop := range []string{"C06", "C07", "C08", "C19"} {
		reg("both", prop+"-concurrent-datapoint-codecs-2", prop, 2, 0, concDPT(2))
		reg("both", prop+"-concurrent-datapoint-codecs-3", prop, 1, 0, concDPT(3))
		reg("both", prop+"-concurrent-all-registered-types", prop, 0, -1, concDPTAll)
		reg("both", prop+"-concurrent-same-structured-types-2", prop, 2, 0, concDPTSame(2))
	}
	for _, prop := range []string{"C01", "C02", "C11", "C15"} {
		reg("both", prop+"-concurrent-frame-codecs-2", prop, 1, 0, concFrames(2))
		reg("both", prop+"-concurrent-frame-codecs-3", prop, 1, 0, concFrames(3))
	}
}
