//go:build verif

package scen

import (
	"encoding/hex"
	"fmt"
	"strings"

	"github.com/vapourismo/knx-go/knx"
	"github.com/vapourismo/knx-go/knx/knxnet"
	"github.com/vapourismo/knx-go/verifmc/mc"
	"github.com/vapourismo/knx-go/verifmc/vnet"
	"verifh/harness/fakesock"
	"verifh/harness/h"
)

// C10 — Close always ends the tunnel.
//
// Base situations (a pending Send with lost acknowledgements, overflowed inbound deliveries with a
// stalled or absent reader, a heartbeat exchange without answer followed by a reconnect that is
// accepted / ignored, a socket that died) are combined with 1..n closer goroutines. Each closer
// sleeps until an instant chosen from a menu that contains every timer deadline of the base
// situation, then calls Close; preemption bounding additionally places the Close steps before
// every visible operation of the other goroutines.
//
// Oracle: no panic escapes; no happens-before race on instrumented client state; every Close
// returns within 2·T; at most one DiscReq leaves the socket, exactly one if the socket accepted
// frames when the first Close began; after the first Close returned the reader's range loop over
// Inbound ends and a fresh Send fails (never succeeds, returns within T); once all Closes have
// returned and one resend interval has passed no library goroutine is left.

type c10Params struct {
	base     string // "send" | "inbound" | "heartbeat" | "sockdead" | "idle"
	closers  int
	reader   bool // an application goroutine ranges over Inbound from the start
	instants []int
	tcp      bool
	discFail bool // the socket write of the disconnect request fails (transient error); everything else works
	everyCh  bool // the gateway assigns every channel number in turn (0..255); base "idle" only
}

type Census struct {
	N    int
	Desc string
}

func (c Census) String() string {
	return fmt.Sprintf("CENSUS live-library-goroutines=%d %s", c.N, c.Desc)
}

func c10Run(p c10Params) func() {
	return func() {
		const R, T = 100 * ms, 300 * ms
		H := 100000 * ms
		if p.base == "heartbeat" || p.base == "reconnect-2sends" {
			H = 200 * ms
		}
		network := "udp"
		if p.tcp {
			network = "tcp"
		}
		sock := fakesock.New(network)
		ch := uint8(7)
		if p.everyCh {
			ch = uint8(mc.Choose(256, mc.Free))
			mc.Log(Note(fmt.Sprintf("assigned channel %d", ch)))
		}
		gw := NewGateway(sock, ch)
		if p.discFail {
			sock.FailSend = func(v knxnet.ServicePackable) error {
				if _, ok := v.(*knxnet.DiscReq); ok {
					return fakesock.ErrSockClosed
				}
				return nil
			}
		}
		switch p.base {
		case "send":
			// the first two transmissions of every request are lost
			n := map[int]int{}
			gw.OnTunnelReq = func(req *knxnet.TunnelReq, s *fakesock.Sent) {
				id := MsgID(req.Payload)
				n[id]++
				if n[id] >= 3 {
					sock.Deliver(&knxnet.TunnelRes{Channel: req.Channel, SeqNumber: req.SeqNumber, Status: 0})
				}
			}
		case "heartbeat", "reconnect-2sends":
			if p.base == "reconnect-2sends" {
				gw.OnTunnelReq = func(req *knxnet.TunnelReq, s *fakesock.Sent) {} // never acknowledged
			}
			// heartbeats are never answered; the reconnect is accepted, refused, ignored or answered "busy" every time
			gw.OnConnState = func(req *knxnet.ConnStateReq, s *fakesock.Sent) {}
			first := true
			mode := -1
			gw.OnConnReq = func(req *knxnet.ConnReq, s *fakesock.Sent) {
				if first {
					first = false
					sock.Deliver(&knxnet.ConnRes{Channel: 7, Status: 0, Control: knxnet.HostInfo{Protocol: knxnet.UDP4}})
					return
				}
				if mode < 0 {
					mode = mc.Choose(4, mc.Free)
				}
				switch mode {
				case 0:
					sock.Deliver(&knxnet.ConnRes{Channel: 8, Status: 0, Control: knxnet.HostInfo{Protocol: knxnet.UDP4}})
				case 1:
					sock.Deliver(&knxnet.ConnRes{Channel: 0, Status: knxnet.ErrConnectionType})
				case 2: // silence
				case 3: // every connect request is answered "no more connections" (all slots taken)
					sock.Deliver(&knxnet.ConnRes{Channel: 0, Status: knxnet.ErrNoMoreConnections})
				}
			}
		}
		cfg := TCfg(100, 300, int(H/ms))
		cfg.UseTCP = p.tcp
		t, err := knx.NewTunnelOnSocket(sock, knxnet.TunnelLayerData, cfg)
		if err != nil {
			mc.Log(Note("connect failed: " + err.Error()))
			return
		}
		if p.reader {
			mc.GoEnv("reader", func() {
				for {
					m, ok := t.Inbound().Recv2()
					if !ok {
						mc.Log(Note("inbound closed"))
						return
					}
					mc.Log(Rx{ID: MsgID(m), From: "tunnel"})
				}
			})
		}
		switch p.base {
		case "send":
			mc.GoEnv("app", func() {
				mc.Log(Call{"Send", 0})
				t0 := mc.Now()
				err := t.Send(Msg(0))
				mc.Log(Ret{"Send", 0, errStr(err), t0})
			})
		case "inbound":
			for i := 0; i < 3; i++ {
				sock.Deliver(&knxnet.TunnelReq{Channel: 7, SeqNumber: uint8(i), Payload: Msg(100 + i)})
			}
		case "heartbeat":
			mc.GoEnv("app", func() {
				mc.Sleep(250 * ms)
				mc.Log(Call{"Send", 0})
				t0 := mc.Now()
				err := t.Send(Msg(0))
				mc.Log(Ret{"Send", 0, errStr(err), t0})
			})
		case "reconnect-2sends":
			// two Sends are outstanding (one waiting for its acknowledgement, one queued behind it)
			// when the reconnect that follows the failed heartbeat succeeds
			for i := 0; i < 2; i++ {
				i := i
				mc.GoEnv(fmt.Sprintf("app%d", i), func() {
					mc.Sleep(mc.Duration(420+10*i) * ms)
					mc.Log(Call{"Send", i})
					t0 := mc.Now()
					err := t.Send(Msg(i))
					mc.Log(Ret{"Send", i, errStr(err), t0})
				})
			}
		case "sockdead":
			After(50*ms, "kill", func() { mc.Log(Note("socket dies")); sock.Kill() })
		}
		done := mc.NewChan[int](p.closers, "c10.done")
		for c := 0; c < p.closers; c++ {
			c := c
			mc.GoEnv(fmt.Sprintf("closer%d", c), func() {
				at := p.instants[mc.Choose(len(p.instants), mc.Free)]
				if at > 0 { // (instant 0: Close is the first thing this goroutine does, whenever it is scheduled - also before the goroutines the constructor started have run)
					mc.Sleep(mc.Duration(at) * ms)
				}
				mc.Log(Call{"Close", c})
				t0 := mc.Now()
				usable := sock.Usable
				t.Close()
				mc.Log(Ret{"Close", c, fmt.Sprintf("usable=%v", usable), t0})
				if p.closers == 1 && !p.reader {
					// "After Close has returned, Inbound is closed": looked at without waiting, by the
					// goroutine that called Close (telegrams that were still on offer may come first)
					for {
						c0 := mc.RecvC(t.Inbound())
						if mc.Select(true, c0) != 0 {
							mc.Log(Note("inbound open when Close returned"))
							break
						}
						if !c0.Ok {
							break
						}
					}
				}
				done.Send(1)
			})
		}
		done.Recv()
		// after the first Close returned: a fresh Send must fail, the reader must finish
		mc.Log(Call{"Send", 99})
		t0 := mc.Now()
		err = t.Send(Msg(99))
		mc.Log(Ret{"Send", 99, errStr(err), t0})
		for c := 1; c < p.closers; c++ {
			done.Recv()
		}
		if !p.reader {
			// the statement's observable: a range loop over Inbound ends
			mc.GoEnv("late-reader", func() {
				for {
					m, ok := t.Inbound().Recv2()
					if !ok {
						mc.Log(Note("inbound closed"))
						return
					}
					mc.Log(Rx{ID: MsgID(m), From: "tunnel"})
				}
			})
		}
		mc.Sleep(R)
		var desc []string
		n := 0
		for _, g := range mc.Live() {
			if !g.Env {
				n++
				desc = append(desc, fmt.Sprintf("[g%d %s %s]", g.ID, g.Site, g.Pending))
			}
		}
		mc.Log(Census{n, strings.Join(desc, " ")})
	}
}

func c10Oracle(p c10Params) func(tr *mc.Trace) []h.Violation {
	const T = 300 * ms
	return func(tr *mc.Trace) []h.Violation {
		vs := generic(tr, "C10", false)
		bad := func(class, format string, a ...interface{}) {
			vs = append(vs, h.Violation{Class: "C10:" + class, Msg: fmt.Sprintf(format, a...)})
		}
		closeCalls := map[int]mc.Duration{}
		closeRets := map[int]mc.Duration{}
		firstCloseCall := mc.Duration(-1)
		firstCloseRet := mc.Duration(-1)
		usableAtFirst := false
		discReqs := 0
		assigned := -1
		inboundClosed := false
		var census *Census
		for _, e := range tr.Log {
			switch x := e.V.(type) {
			case Call:
				if x.Call == "Close" {
					closeCalls[x.ID] = e.T
					if firstCloseCall < 0 {
						firstCloseCall = e.T
					}
				}
			case Ret:
				switch x.Call {
				case "Close":
					closeRets[x.ID] = e.T
					if firstCloseRet < 0 {
						firstCloseRet = e.T
					}
					if x.T0 == firstCloseCall && strings.Contains(x.Err, "usable=true") {
						usableAtFirst = true
					}
					if e.T-x.T0 > 2*T {
						bad("close-slow", "Close called at %v returned at %v (more than twice the response timeout %v)", x.T0, e.T, T)
					}
				case "Send":
					if x.ID == 99 {
						if x.Err == "" {
							bad("send-succeeds-after-close", "a Send called at %v, after Close had returned, reported success", x.T0)
						}
						if e.T-x.T0 > T {
							bad("send-slow-after-close", "a Send called at %v, after Close had returned, returned only at %v", x.T0, e.T)
						}
					}
				}
			case fakesock.Sent:
				if d, ok := x.Svc.(*knxnet.DiscReq); ok {
					discReqs++
					if assigned >= 0 && int(d.Channel) != assigned {
						bad("disconnect-request-channel", "the disconnect request names channel %d; the gateway assigned channel %d", d.Channel, assigned)
					}
				}
			case Note:
				if x == "inbound open when Close returned" {
					bad("inbound-open-when-close-returned", "Close (the only one) returned at %v; a receive on Inbound that does not wait found the channel neither closed nor offering a telegram", e.T)
				}
				if strings.HasPrefix(string(x), "assigned channel ") {
					fmt.Sscanf(string(x), "assigned channel %d", &assigned)
				}
				if x == "inbound closed" {
					inboundClosed = true
				}
			case Census:
				c := x
				census = &c
			}
		}
		if tr.Reason != "main-returned" {
			return vs // generic() reported the deadlock / horizon with the blocked goroutines
		}
		for id, tc := range closeCalls {
			if _, ok := closeRets[id]; !ok {
				bad("close-never-returned", "Close #%d called at %v never returned", id, tc)
			}
		}
		if discReqs > 1 {
			bad("disconnect-request-repeated", "%d disconnect requests left the socket", discReqs)
		}
		if discReqs == 0 && usableAtFirst {
			bad("disconnect-request-missing", "no disconnect request left the socket although it accepted frames when the first Close began at %v", firstCloseCall)
		}
		if !inboundClosed {
			bad("inbound-not-closed", "a range loop over Inbound did not end after Close had returned")
		}
		if census == nil {
			bad("no-census", "scenario ended without census")
		} else if census.N > 0 {
			site := "?"
			if i := strings.Index(census.Desc, " "); i > 0 {
				f := strings.Fields(census.Desc)
				if len(f) > 1 {
					site = f[1]
				}
			}
			bad("goroutine-leak:"+site, "%d library goroutine(s) still alive one resend interval after every Close returned: %s", census.N, census.Desc)
		}
		return vs
	}
}

// c10FullStack: the real constructor and the real socket layer on the virtual network, so that the
// socket's receiver goroutine (started by the tunnel's constructor) is part of the census. The peer
// keeps sending datagrams around the instant of Close.
func c10FullStack(tcp bool) func() {
	return func() {
		w := vnet.Reset()
		var ep *vnet.Endpoint
		w.OnCreate = func(e *vnet.Endpoint) {
			ep = e
			e.OnWrite = func(wr vnet.WriteRec) {
				var v knxnet.Service
				if _, err := knxnet.Unpack(wr.Data, &v); err != nil {
					return
				}
				switch x := v.(type) {
				case *knxnet.ConnReq:
					e.Inject(knxnet.AllocAndPack(&knxnet.ConnRes{Channel: 7, Status: 0, Control: knxnet.HostInfo{Protocol: knxnet.UDP4}}), nil)
				case *knxnet.TunnelReq:
					if !tcp {
						e.Inject(knxnet.AllocAndPack(&knxnet.TunnelRes{Channel: x.Channel, SeqNumber: x.SeqNumber, Status: 0}), nil)
					}
				case *knxnet.ConnStateReq:
					e.Inject(knxnet.AllocAndPack(&knxnet.ConnStateRes{Channel: x.Channel, Status: 0}), nil)
				case *knxnet.DiscReq:
					mc.Log(fakesock.Sent{T: mc.Now(), Svc: x})
				}
			}
		}
		cfg := TCfg(100, 300, 100000)
		cfg.UseTCP = tcp
		t, err := knx.NewTunnel("192.0.2.99:3671", knxnet.TunnelLayerData, cfg)
		if err != nil {
			mc.Log(Note("connect failed: " + err.Error()))
			return
		}
		reader := mc.Choose(2, mc.Free) == 0
		if reader {
			mc.GoEnv("reader", func() {
				for {
					m, ok := t.Inbound().Recv2()
					if !ok {
						mc.Log(Note("inbound closed"))
						return
					}
					mc.Log(Rx{ID: MsgID(m), From: "tunnel"})
				}
			})
		}
		// the gateway keeps talking: one telegram before, several around and after the Close instant
		mc.GoEnv("peer", func() {
			ep.Inject(knxnet.AllocAndPack(&knxnet.TunnelReq{Channel: 7, SeqNumber: 0, Payload: Msg(100)}), nil)
			mc.Sleep(50 * ms)
			if tcp {
				// three frames in one segment: the stream reader holds the later ones in its buffer
				var seg []byte
				for i := 1; i < 4; i++ {
					seg = append(seg, knxnet.AllocAndPack(&knxnet.TunnelReq{Channel: 7, SeqNumber: uint8(i), Payload: Msg(100 + i)})...)
				}
				ep.Inject(seg, nil)
				return
			}
			for i := 1; i < 4; i++ {
				ep.Inject(knxnet.AllocAndPack(&knxnet.TunnelReq{Channel: 7, SeqNumber: uint8(i), Payload: Msg(100 + i)}), nil)
			}
		})
		mc.Sleep(50 * ms)
		mc.Log(Call{"Close", 0})
		t0 := mc.Now()
		t.Close()
		mc.Log(Ret{"Close", 0, fmt.Sprintf("usable=%v", true), t0})
		mc.Log(Call{"Send", 99})
		err = t.Send(Msg(99))
		mc.Log(Ret{"Send", 99, errStr(err), mc.Now()})
		if !reader {
			mc.GoEnv("late-reader", func() {
				for {
					if _, ok := t.Inbound().Recv2(); !ok {
						mc.Log(Note("inbound closed"))
						return
					}
				}
			})
		}
		mc.Sleep(100 * ms)
		var desc []string
		n := 0
		for _, g := range mc.Live() {
			if !g.Env {
				n++
				desc = append(desc, fmt.Sprintf("[g%d %s %s]", g.ID, g.Site, g.Pending))
			}
		}
		mc.Log(Census{n, strings.Join(desc, " ")})
	}
}

func init() {
	pfs := c10Params{base: "fullstack", closers: 1}
	register("both", &h.Scenario{Name: "C10-fullstack-udp-peer-talks-during-close", Prop: "C10", P: 2, F: 0, D: 2, Run: c10FullStack(false), Check: c10Oracle(pfs)})
	register("both", &h.Scenario{Name: "C10-fullstack-tcp-peer-talks-during-close", Prop: "C10", P: 2, F: 0, D: 2, Run: c10FullStack(true), Check: c10Oracle(pfs)})
	inst := []int{0, 50, 100, 150, 200, 300, 450, 500, 550, 650, 800}
	for _, base := range []string{"send", "inbound", "heartbeat", "reconnect-2sends", "sockdead", "idle"} {
		for _, reader := range []bool{true, false} {
			p := c10Params{base: base, closers: 1, reader: reader, instants: inst}
			nm := fmt.Sprintf("C10-%s-reader=%v-1closer", base, reader)
			register("both", &h.Scenario{Name: nm, Prop: "C10", P: 1, F: 0, D: 2, Run: c10Run(p), Check: c10Oracle(p)})
		}
		p2 := c10Params{base: base, closers: 2, reader: true, instants: []int{0, 100, 250, 500}}
		register("both", &h.Scenario{Name: fmt.Sprintf("C10-%s-2closers", base), Prop: "C10", P: 1, F: 0, D: 1, Run: c10Run(p2), Check: c10Oracle(p2)})
		p4 := c10Params{base: base, closers: 4, reader: false, instants: []int{0, 250, 500}}
		register("thorough", &h.Scenario{Name: fmt.Sprintf("C10-%s-4closers", base), Prop: "C10", P: 1, F: 0, D: 1, Run: c10Run(p4), Check: c10Oracle(p4)})
		p3 := c10Params{base: base, closers: 1, reader: true, instants: inst}
		register("thorough", &h.Scenario{Name: fmt.Sprintf("C10-%s-1closer-P2", base), Prop: "C10", P: 2, F: 0, D: 3, Run: c10Run(p3), Check: c10Oracle(p3)})
	}
	// the write of the disconnect request fails while everything else works (heartbeat exchange in
	// flight, Send pending, deliveries parked): Close must still end the tunnel completely
	for _, base := range []string{"send", "inbound", "heartbeat"} {
		pd := c10Params{base: base, closers: 1, reader: base != "inbound", instants: inst, discFail: true}
		register("both", &h.Scenario{Name: fmt.Sprintf("C10-%s-disconnect-request-write-fails", base), Prop: "C10", P: 1, F: 0, D: 2, Run: c10Run(pd), Check: c10Oracle(pd)})
	}
	// every channel number a gateway can assign (0 is a legal one), UDP and TCP
	for _, tcp := range []bool{false, true} {
		pe := c10Params{base: "idle", closers: 1, reader: true, instants: []int{50}, tcp: tcp, everyCh: true}
		register("both", &h.Scenario{Name: fmt.Sprintf("C10-idle-every-channel-number-tcp=%v", tcp), Prop: "C10", P: 0, F: 0, D: -1, Run: c10Run(pe), Check: c10Oracle(pe)})
	}
	pt := c10Params{base: "inbound", closers: 2, reader: true, instants: []int{0, 100}, tcp: true}
	register("both", &h.Scenario{Name: "C10-tcp-inbound-2closers", Prop: "C10", P: 1, F: 0, D: 1, Run: c10Run(pt), Check: c10Oracle(pt)})
}

// c10WireOracle: C03's full-stack scenario ends with Close while the connection server is still
// acknowledging the gateway's requests on the same socket: whatever shares that socket, exactly one
// disconnect request leaves it, as a whole frame, and nothing that leaves it is mangled.
func c10WireOracle(tr *mc.Trace) []h.Violation {
	vs := generic(tr, "C10", false)
	disc := 0
	for _, e := range tr.Log {
		wr, ok := e.V.(Wrote)
		if !ok {
			continue
		}
		b, _ := hex.DecodeString(wr.Hex)
		var v knxnet.Service
		if len(b) < 6 || (int(b[4])<<8|int(b[5])) != len(b) {
			vs = append(vs, h.Violation{Class: "C10:transmission-corrupt", Msg: fmt.Sprintf("a buffer of %d octets left the socket whose header announces %d: %s", len(b), int(b[4])<<8|int(b[5]), wr.Hex)})
			continue
		}
		if _, err := knxnet.Unpack(b, &v); err != nil {
			vs = append(vs, h.Violation{Class: "C10:transmission-corrupt", Msg: fmt.Sprintf("the client put %s on the wire, which is no frame: %v", wr.Hex, err)})
			continue
		}
		if _, ok := v.(*knxnet.DiscReq); ok {
			disc++
		}
	}
	if tr.Reason == "main-returned" && disc != 1 {
		vs = append(vs, h.Violation{Class: "C10:disconnect-requests-on-the-wire", Msg: fmt.Sprintf("%d disconnect requests left the socket (the socket was usable when Close began): want exactly one", disc)})
	}
	return vs
}

func init() {
	register("both", &h.Scenario{Name: "C10-fullstack-close-shares-the-socket-with-acknowledgements", Prop: "C10", P: 2, F: 0, D: 4, Run: c03FullStack(), Check: c10WireOracle})
}
