//go:build verif

package scen

import (
	"errors"
	"fmt"
	"strings"

	"github.com/vapourismo/knx-go/knx"
	"github.com/vapourismo/knx-go/knx/knxnet"
	"github.com/vapourismo/knx-go/verifmc/mc"
	"verifh/harness/fakesock"
	"verifh/harness/h"
)

// C14 — router resend window, history bound, shutdown.
//
// Histories over {send ok, send that fails, lost(k), busy, inbound RoutingInd, inbound other
// service, close} are issued by one application goroutine (optionally a second sender). Oracle =
// reference list (push on success, trim from the front to RetainCount, failed sends not pushed):
//   strict  a lost(k) that arrives while no resend is in progress and is followed by a settling
//           pause must be answered by exactly the last min(k, retained) messages in original order;
//   weak    (always) every RoutingInd on the wire carries a message the application sent
//           successfully or is its first transmission; a message whose Send failed never shows up
//           again; the final lost(65535) probe shows at most RetainCount messages, none twice;
//           every operation returns; every RoutingInd the client took from the socket is handed to
//           Inbound at most once, and exactly once if a reader drains (or nothing was closed);
//           after Close, Inbound is closed.

// Op marks the start of a history operation.
type Op struct {
	Kind   string
	Arg    int
	Strict bool
}

func (o Op) String() string { return fmt.Sprintf("OP %s %d strict=%v", o.Kind, o.Arg, o.Strict) }

type c14Params struct {
	L           int
	retain      uint
	pause       int
	losts       []int
	second      bool // a second sender goroutine issuing two sends concurrently
	flat        int  // flat run: that many sends, then lost(65535)
	noClose     bool
	noInject    bool
	flood       int  // that many routing indications arrive before the history begins (parked when nobody reads)
	resendFails bool // a socket write may fail while a lost batch is being repeated
	pre         int  // that many successful sends before the history begins
	onlyLost    bool // the history consists of lost indications only (counts from losts)
}

var errInjected = errors.New("injected send failure")

func c14Run(p c14Params) func() {
	return func() {
		if p.onlyLost && len(p.losts) < 1000 {
			defer logChoice()()
		}
		sock := fakesock.New("udp")
		sock.LogHandoff = true
		r, _ := knx.NewRouterOnSocket(sock, knx.RouterConfig{RetainCount: p.retain, PostSendPauseDuration: mc.Duration(p.pause) * ms})
		failNext := false
		failIn := 0 // >0: the failIn-th RoutingInd write from now fails (a transient error during a resend)
		sock.FailSend = func(v knxnet.ServicePackable) error {
			if failNext {
				failNext = false
				return errInjected
			}
			if _, ok := v.(*knxnet.RoutingInd); ok && failIn > 0 {
				failIn--
				if failIn == 0 {
					return errInjected
				}
			}
			return nil
		}
		reader := mc.Choose(2, mc.Free) // 0 draining from the start, 1 absent until the end
		readerDone := mc.NewChan[int](1, "c14.readerDone")
		drain := func() {
			for {
				m, ok := r.Inbound().Recv2()
				if !ok {
					mc.Log(Note("inbound closed"))
					break
				}
				mc.Log(Rx{ID: MsgID(m), From: "router"})
			}
			readerDone.Send(1)
		}
		if reader == 0 {
			mc.GoEnv("reader", drain)
		}
		id := 0
		unsettled := false
		closed := false
		send := func(fail bool) {
			k := "send"
			if fail {
				k = "sendfail"
				failNext = true
			}
			mc.Log(Op{k, id, false})
			t0 := mc.Now()
			err := r.Send(Msg(id))
			mc.Log(Ret{"Send", id, errStr(err), t0})
			failNext = false
			id++
		}
		lost := func(k int) {
			if p.resendFails && k >= 2 {
				failIn = mc.Choose(3, mc.Free) // 0: none; 1 / 2: the first / second repeat cannot be written
			}
			settle := mc.Choose(2, mc.Free) == 0
			strict := settle && !unsettled && !p.second
			mc.Log(Op{"lost", k, strict})
			deliverLost(sock, k)
			if settle {
				mc.Sleep(1000 * ms)
			} else {
				unsettled = true
			}
		}
		if p.second {
			mc.GoEnv("sender2", func() {
				for k := 0; k < 2; k++ {
					mid := 500 + k
					mc.Log(Op{"send", mid, false})
					t0 := mc.Now()
					err := r.Send(Msg(mid))
					mc.Log(Ret{"Send", mid, errStr(err), t0})
				}
			})
		}
		if p.flood > 0 {
			mc.SetQuiet(true)
			for i := 0; i < p.flood; i++ {
				mc.Log(Op{"inbound", 2000 + i, false})
				sock.Deliver(&knxnet.RoutingInd{Payload: Msg(2000 + i)})
			}
			mc.Sleep(1 * ms)
			mc.SetQuiet(false)
		}
		for i := 0; i < p.pre; i++ {
			send(false)
		}
		nsym := 4 + len(p.losts)
		if !p.noInject {
			nsym += 2
		}
		if !p.noClose {
			nsym++
		}
		for i := 0; i < p.L; i++ {
			if p.onlyLost {
				lost(p.losts[mc.Choose(len(p.losts), mc.Free)])
				continue
			}
			c := mc.Choose(nsym, mc.Free)
			switch {
			case c == 0:
				send(false)
			case c == 1:
				send(true)
			case c == 2:
				mc.Log(Op{"busy", 10, false})
				deliverBusy(sock, 10, 1)
				mc.Sleep(1 * ms) // the indication is taken in; the next operation falls into the 10 ms pause
			case c == 3:
				mc.Log(Op{"pause", 0, false})
				mc.Sleep(1000 * ms)
				unsettled = false
			case c < 4+len(p.losts):
				lost(p.losts[c-4])
			case !p.noInject && c == 4+len(p.losts):
				mc.Log(Op{"inbound", 900 + i, false})
				sock.Deliver(&knxnet.RoutingInd{Payload: Msg(900 + i)})
			case !p.noInject && c == 5+len(p.losts):
				mc.Log(Op{"inbound-other", 0, false})
				sock.Deliver(&knxnet.TunnelRes{Channel: 1, SeqNumber: 2})
			default:
				mc.Log(Op{"close", 0, false})
				r.Close()
				closed = true
			}
		}
		if p.flat > 0 {
			mc.SetQuiet(true)
			for i := 0; i < p.flat; i++ {
				send(false)
			}
			mc.SetQuiet(false)
		}
		// final probe of the retained history
		mc.Sleep(2000 * ms)
		mc.Log(Op{"probe", 65535, !unsettled && !p.second})
		deliverLost(sock, 65535)
		mc.Sleep(5000 * ms)
		if reader == 1 {
			mc.GoEnv("reader", drain)
			mc.Sleep(1 * ms)
		}
		if !closed {
			mc.Log(Op{"close", 0, false})
			r.Close()
		}
		readerDone.Recv()
		mc.Log(Note("reader finished"))
	}
}

func c14Oracle(p c14Params) func(tr *mc.Trace) []h.Violation {
	retain := int(p.retain)
	if retain == 0 {
		retain = 32
	}
	return func(tr *mc.Trace) []h.Violation {
		vs := generic(tr, "C14", true)
		bad := func(class, format string, a ...interface{}) {
			vs = append(vs, h.Violation{Class: "C14:" + class, Msg: fmt.Sprintf(format, a...)})
		}
		var ref []int                // reference retained list (exact while exact==true)
		exact := true                // no unsettled lost / concurrent sender so far
		okSent := map[int]bool{}     // ids whose application Send succeeded
		failed := map[int]bool{}     // ids whose application Send failed
		firstTx := map[int]bool{}    // first transmission seen
		pendingApp := map[int]bool{} // application Send announced (OP) and not yet returned
		var strictWant []int         // expected resends of the strict lost being judged
		var strictGot []int
		inStrict := false
		strictDesc := ""
		history := []string{}
		handed := map[int]int{}
		rx := map[int]int{}
		closedOp := false
		sawClosed := false
		readerFinished := false
		finishStrict := func() {
			if !inStrict {
				return
			}
			inStrict = false
			if fmt.Sprint(strictGot) != fmt.Sprint(strictWant) {
				cls := "resend-differs"
				switch {
				case len(strictGot) < len(strictWant):
					cls = "resend-missing"
				case len(strictGot) > len(strictWant):
					cls = "resend-extra"
				}
				bad(cls, "history %v: %s with retained list %v must be answered by retransmitting %v in that order; the client retransmitted %v", history, strictDesc, ref, strictWant, strictGot)
			}
		}
		for _, e := range tr.Log {
			switch x := e.V.(type) {
			case Op:
				finishStrict()
				history = append(history, fmt.Sprintf("%s(%d)", x.Kind, x.Arg))
				switch x.Kind {
				case "send", "sendfail":
					pendingApp[x.Arg] = true
				case "lost", "probe":
					if x.Strict && exact && !closedOp {
						n := x.Arg
						if n > len(ref) {
							n = len(ref)
						}
						strictWant = append([]int{}, ref[len(ref)-n:]...)
						strictGot = nil
						inStrict = true
						strictDesc = fmt.Sprintf("lost(%d)", x.Arg)
					} else if !x.Strict {
						exact = false
					}
					if x.Kind == "probe" && !inStrict {
						// weak probe: collect what comes back
						strictWant, strictGot = nil, nil
					}
				case "close":
					closedOp = true
					exact = false
				}
			case fakesock.Sent:
				ri, ok := x.Svc.(*knxnet.RoutingInd)
				if !ok {
					continue
				}
				id := MsgID(ri.Payload)
				if pendingApp[id] && !firstTx[id] {
					firstTx[id] = true // the application's own transmission
					continue
				}
				// a retransmission
				if x.Err != nil {
					// the write failed: the attempt belongs to the batch, the message is no longer retained
					if inStrict {
						strictGot = append(strictGot, id)
					}
					for i, r := range ref {
						if r == id {
							ref = append(ref[:i:i], ref[i+1:]...)
							break
						}
					}
					continue
				}
				if failed[id] {
					bad("failed-send-retained", "history %v: message %d, whose Send failed, was retransmitted later", history, id)
				} else if !okSent[id] {
					bad("invented-message", "history %v: message %d was transmitted but never sent successfully by the application", history, id)
				}
				if inStrict {
					strictGot = append(strictGot, id)
				} else if exact && !closedOp {
					bad("unsolicited-resend", "history %v: message %d was retransmitted although no lost indication is outstanding", history, id)
				}
			case Ret:
				if x.Call == "Send" {
					delete(pendingApp, x.ID)
					if x.Err == "" {
						okSent[x.ID] = true
						ref = append(ref, x.ID)
						if len(ref) > retain {
							ref = ref[len(ref)-retain:]
						}
						if !firstTx[x.ID] {
							bad("send-without-transmission", "history %v: Send of %d reported success without a transmission", history, x.ID)
						}
					} else {
						failed[x.ID] = true
					}
				}
			case fakesock.Handed:
				if ri, ok := x.Svc.(*knxnet.RoutingInd); ok {
					handed[MsgID(ri.Payload)]++
				}
			case Rx:
				rx[x.ID]++
			case Note:
				if x == "inbound closed" {
					sawClosed = true
				}
				if x == "reader finished" {
					readerFinished = true
				}
			}
		}
		finishStrict()
		// weak probe bound: count retransmissions after the probe marker
		{
			probeAt := -1
			for i, e := range tr.Log {
				if o, ok := e.V.(Op); ok && o.Kind == "probe" {
					probeAt = i
				}
			}
			if probeAt >= 0 && !closedOpBefore(tr, probeAt) {
				seen := map[int]int{}
				n := 0
				for _, e := range tr.Log[probeAt:] {
					if s, ok := e.V.(fakesock.Sent); ok && s.Err == nil {
						if ri, ok := s.Svc.(*knxnet.RoutingInd); ok {
							seen[MsgID(ri.Payload)]++
							n++
						}
					}
				}
				if n > retain {
					bad("history-bound", "history %v: the final lost(65535) probe made the client retransmit %d messages; RetainCount is %d", history, n, retain)
				}
				for id, c := range seen {
					if c > 1 {
						bad("retained-twice", "history %v: message %d retransmitted %d times by one lost indication", history, id, c)
					}
				}
			}
		}
		if tr.Reason == "main-returned" {
			if !readerFinished || !sawClosed {
				bad("inbound-not-closed", "history %v: after Close the reader's range over Inbound did not end", history)
			}
		}
		for id, n := range rx {
			if n > handed[id] || n > 1 {
				bad("inbound-duplicate", "history %v: inbound telegram %d delivered %d times (taken from the socket %d times)", history, id, n, handed[id])
			}
		}
		for id, n := range handed {
			if rx[id] < n && !closedEarly(tr) {
				bad("inbound-lost", "history %v: inbound telegram %d was taken from the socket but never handed to the application", history, id)
			}
		}
		return vs
	}
}

// closedOpBefore reports whether a close operation precedes log position i.
func closedOpBefore(tr *mc.Trace, i int) bool {
	for _, e := range tr.Log[:i] {
		if o, ok := e.V.(Op); ok && o.Kind == "close" {
			return true
		}
	}
	return false
}

// closedEarly reports whether Close was part of the explored history (not the final one).
func closedEarly(tr *mc.Trace) bool {
	probe := -1
	for i, e := range tr.Log {
		if o, ok := e.V.(Op); ok && o.Kind == "probe" {
			probe = i
		}
	}
	return probe >= 0 && closedOpBefore(tr, probe)
}

func init() {
	a0 := c14Params{L: 3, retain: 2, pause: 5, losts: []int{1, 2, 65535}}
	register("quick", &h.Scenario{Name: "C14-L3-retain2", Prop: "C14", P: 1, F: 0, D: 1, Run: c14Run(a0), Check: c14Oracle(a0)})
	a := c14Params{L: 4, retain: 2, pause: 5, losts: []int{1, 2, 65535}}
	register("thorough", &h.Scenario{Name: "C14-L4-retain2", Prop: "C14", P: 1, F: 0, D: 1, Run: c14Run(a), Check: c14Oracle(a)})
	// a negative pause is a legal configuration value and means "no pause", like 0
	np := c14Params{L: 3, retain: 2, pause: -5, losts: []int{1, 3}, noInject: true}
	register("both", &h.Scenario{Name: "C14-L3-retain2-negative-pause", Prop: "C14", P: 0, F: 0, D: -1, Run: c14Run(np), Check: c14Oracle(np)})
	b := c14Params{L: 4, retain: 1, pause: 0, losts: []int{0, 1, 3}, noClose: true, noInject: true}
	register("both", &h.Scenario{Name: "C14-L4-retain1-pause0", Prop: "C14", P: 0, F: 0, D: -1, Run: c14Run(b), Check: c14Oracle(b)})
	c := c14Params{L: 5, retain: 3, pause: 5, losts: []int{2, 3}, noClose: true, noInject: true}
	register("both", &h.Scenario{Name: "C14-L5-retain3-sends-losts", Prop: "C14", P: 0, F: 0, D: -1, Run: c14Run(c), Check: c14Oracle(c)})
	d := c14Params{L: 3, retain: 2, pause: 5, losts: []int{1, 2}, second: true, noClose: true}
	register("both", &h.Scenario{Name: "C14-L3-retain2-second-sender", Prop: "C14", P: 1, F: 0, D: 1, Run: c14Run(d), Check: c14Oracle(d)})
	rf := c14Params{L: 4, retain: 3, pause: 5, losts: []int{2, 3}, noClose: true, noInject: true, resendFails: true}
	register("both", &h.Scenario{Name: "C14-L4-retain3-resend-write-fails", Prop: "C14", P: 0, F: 0, D: -1, Run: c14Run(rf), Check: c14Oracle(rf)})
	// a backlog of inbound indications (nobody reads, or a reader from the start) must not keep the
	// worker from answering lost indications and from closing Inbound on Close
	fl := c14Params{L: 3, retain: 3, pause: 5, losts: []int{1, 2}, flood: 100}
	register("both", &h.Scenario{Name: "C14-L3-retain3-after-100-inbound", Prop: "C14", P: 0, F: 0, D: -1, Run: c14Run(fl), Check: c14Oracle(fl)})
	// backlogs beyond any small bound an implementation might put on waiting deliveries (seeded
	// change C14-m: after 128 parked deliveries the connection server hands over synchronously and
	// stops reading the socket - no retransmission after a lost indication, Inbound never closed)
	for _, n := range []int{129, 300} {
		flb := c14Params{L: 2, retain: 3, pause: 5, losts: []int{1, 2}, flood: n}
		register("both", &h.Scenario{Name: fmt.Sprintf("C14-L2-retain3-after-%d-inbound", n), Prop: "C14", P: 0, F: 0, D: -1, Run: c14Run(flb), Check: c14Oracle(flb)})
	}
	f1 := c14Params{L: 0, retain: 0, pause: 1, flat: 300}
	register("both", &h.Scenario{Name: "C14-flat300-default-retain", Prop: "C14", P: 0, F: 0, D: -1, Run: c14Run(f1), Check: c14Oracle(f1)})
	f2 := c14Params{L: 0, retain: 64, pause: 1, flat: 300}
	register("both", &h.Scenario{Name: "C14-flat300-retain64", Prop: "C14", P: 0, F: 0, D: -1, Run: c14Run(f2), Check: c14Oracle(f2)})
	// "counts 0..65535": every count (thorough), the counts around every octet / sign boundary (quick),
	// after five sends with a history of three
	var allCounts, edgeCounts []int
	for k := 0; k <= 65535; k++ {
		allCounts = append(allCounts, k)
		if k <= 40 || (k&0xFF) <= 1 && k < 0x800 || (k&0xFF) == 0xFF && k < 0x800 || k >= 32764 && k <= 32772 || k >= 65528 {
			edgeCounts = append(edgeCounts, k)
		}
	}
	ec := c14Params{L: 1, pre: 5, retain: 3, pause: 1, losts: edgeCounts, onlyLost: true, noClose: true, noInject: true}
	register("quick", &h.Scenario{Name: "C14-lost-counts-at-every-boundary", Prop: "C14", P: 0, F: 0, D: -1, Run: c14Run(ec), Check: c14Oracle(ec)})
	ac := c14Params{L: 1, pre: 5, retain: 3, pause: 1, losts: allCounts, onlyLost: true, noClose: true, noInject: true}
	register("thorough", &h.Scenario{Name: "C14-every-lost-count-0..65535", Prop: "C14", P: 0, F: 0, D: -1, Run: c14Run(ac), Check: c14Oracle(ac)})
	t1 := c14Params{L: 5, retain: 2, pause: 5, losts: []int{0, 1, 2, 3, 65535}}
	register("thorough", &h.Scenario{Name: "C14-L5-retain2-all", Prop: "C14", P: 1, F: 0, D: 1, Run: c14Run(t1), Check: c14Oracle(t1)})
	t2 := c14Params{L: 6, retain: 3, pause: 5, losts: []int{1, 2, 3, 65535}, noInject: true}
	register("thorough", &h.Scenario{Name: "C14-L6-retain3", Prop: "C14", P: 0, F: 0, D: 0, Run: c14Run(t2), Check: c14Oracle(t2)})
	t3 := c14Params{L: 4, retain: 2, pause: 5, losts: []int{1, 2, 65535}, second: true}
	register("thorough", &h.Scenario{Name: "C14-L4-retain2-second-sender-P2", Prop: "C14", P: 2, F: 0, D: 2, Run: c14Run(t3), Check: c14Oracle(t3)})
}

// c14LostDuringWrite: a lost indication arrives while a Send is inside the socket write (its message
// on the wire, not yet retained). Whichever of the two the client puts first, the retransmission is
// the last min(k, retained) messages of the history as it stood then - [m1.. ] without or with the
// message in flight - in their original order; nothing else is acceptable.
func c14LostDuringWrite() func() {
	return func() {
		sock := fakesock.New("udp")
		sock.LogHandoff = true
		pre := 1 + mc.Choose(2, mc.Free) // messages retained before
		slowID := pre
		slowDone := false
		sock.WriteTime = func(v knxnet.ServicePackable) mc.Duration {
			if ind, ok := v.(*knxnet.RoutingInd); ok && MsgID(ind.Payload) == slowID && !slowDone {
				slowDone = true // (only the first transmission of that message is slow)
				return 5 * ms
			}
			return 0
		}
		r, _ := knx.NewRouterOnSocket(sock, knx.RouterConfig{RetainCount: 4, PostSendPauseDuration: 2 * ms})
		mc.GoEnv("reader", func() {
			for {
				if _, ok := r.Inbound().Recv2(); !ok {
					return
				}
			}
		})
		for i := 0; i < pre; i++ {
			r.Send(Msg(i))
			mc.Sleep(5 * ms)
		}
		k := []int{1, 2, 3, 65535}[mc.Choose(4, mc.Free)]
		mc.GoEnv("sender", func() {
			mc.Log(Op{"send", slowID, false})
			r.Send(Msg(slowID))
		})
		mc.Sleep(1 * ms)
		mc.Log(Op{"lost", k, false})
		deliverLost(sock, k)
		mc.Sleep(1000 * ms)
		mc.Log(Op{"end", pre, false})
		r.Close()
	}
}

func c14LostDuringWriteOracle(tr *mc.Trace) []h.Violation {
	vs := generic(tr, "C14", true)
	pre, k := 0, -1
	lostAt := mc.Duration(-1)
	var resent []int
	firstTx := map[int]bool{}
	for _, e := range tr.Log {
		switch x := e.V.(type) {
		case Op:
			switch x.Kind {
			case "lost":
				k, lostAt = x.Arg, e.T
			case "end":
				pre = x.Arg
			}
		case fakesock.Sent:
			ind, ok := x.Svc.(*knxnet.RoutingInd)
			if !ok || x.Err != nil {
				continue
			}
			id := MsgID(ind.Payload)
			if !firstTx[id] {
				firstTx[id] = true
				continue
			}
			if lostAt >= 0 {
				resent = append(resent, id)
			}
		}
	}
	if tr.Reason != "main-returned" || k < 0 {
		return vs
	}
	last := func(hist []int) []int {
		n := k
		if n > len(hist) {
			n = len(hist)
		}
		return hist[len(hist)-n:]
	}
	var without, with []int
	for i := 0; i < pre; i++ {
		without = append(without, i)
	}
	with = append(append([]int{}, without...), pre)
	a, b := last(without), last(with)
	if fmt.Sprint(resent) != fmt.Sprint(a) && fmt.Sprint(resent) != fmt.Sprint(b) {
		vs = append(vs, h.Violation{Class: "C14:resend-differs:lost-during-a-write", Msg: fmt.Sprintf("messages 0..%d were retained, message %d was inside the socket write when lost(%d) arrived; the client retransmitted %v; acceptable: %v (the indication first) or %v (the message first)", pre-1, pre, k, resent, a, b)})
	}
	return vs
}

func init() {
	register("both", &h.Scenario{Name: "C14-lost-indication-during-a-socket-write", Prop: "C14", P: 1, F: 0, D: 1, Run: c14LostDuringWrite(), Check: c14LostDuringWriteOracle})
}

// Router clients with different configurations one after another in one process (seeded change
// C14-l: checkRouterConfig overlaid the caller's settings onto the package's default *in place*, so
// a router created with RetainCount 0 = default inherited the count of the router before it). Three
// routers in succession, every ordered triple of retain counts {0, 1, 3, 40, 64} and two pauses;
// each sends 70 messages and is then asked for everything it retained: exactly the last
// min(70, configured) must come back (0 = the documented default, 32), and the package's exported
// default configuration must read the same before and after.
type RouterCfg struct {
	N      int
	Retain int
}

func (r RouterCfg) String() string { return fmt.Sprintf("ROUTER %d retain=%d", r.N, r.Retain) }

func c14ConfigSequence() func() {
	return func() {
		before := knx.DefaultRouterConfig
		retains := []uint{0, 1, 3, 40, 64}
		for n := 0; n < 3; n++ {
			rc := retains[mc.Choose(len(retains), mc.Free)]
			pause := []mc.Duration{0, 2 * ms}[mc.Choose(2, mc.Free)]
			sock := fakesock.New("udp")
			r, _ := knx.NewRouterOnSocket(sock, knx.RouterConfig{RetainCount: rc, PostSendPauseDuration: pause})
			mc.Log(RouterCfg{n, int(rc)})
			for i := 0; i < 70; i++ {
				r.Send(Msg(n*1000 + i))
			}
			mc.Log(Op{"lost", 65535, true})
			deliverLost(sock, 65535)
			mc.Sleep(2000 * ms)
			mc.Log(Op{"end", n, false})
			r.Close()
		}
		if after := knx.DefaultRouterConfig; after != before {
			mc.Log(Note(fmt.Sprintf("default-config-changed: DefaultRouterConfig was %+v before the routers were created and is %+v afterwards", before, after)))
		}
	}
}

func c14ConfigSequenceOracle(tr *mc.Trace) []h.Violation {
	vs := generic(tr, "C14", false)
	cur, retain := -1, 0
	probing := false
	var resent []int
	var cfgs []int
	judge := func() {
		want := retain
		if want == 0 {
			want = 32
		}
		if want > 70 {
			want = 70
		}
		var exp []int
		for i := 70 - want; i < 70; i++ {
			exp = append(exp, cur*1000+i)
		}
		if fmt.Sprint(resent) != fmt.Sprint(exp) {
			vs = append(vs, h.Violation{Class: "C14:resend-differs:routers-in-succession", Msg: fmt.Sprintf("routers with RetainCount %v were created one after another; router %d (RetainCount %d) sent 70 messages and was told 65535 were lost: it retransmitted %d messages %v, expected the last %d", cfgs, cur, retain, len(resent), abbreviate(resent), want)})
		}
	}
	for _, e := range tr.Log {
		switch x := e.V.(type) {
		case RouterCfg:
			cur, retain, probing, resent = x.N, x.Retain, false, nil
			cfgs = append(cfgs, x.Retain)
		case Op:
			if x.Kind == "lost" {
				probing = true
			} else if x.Kind == "end" {
				judge()
				probing = false
			}
		case fakesock.Sent:
			if ind, ok := x.Svc.(*knxnet.RoutingInd); ok && x.Err == nil && probing {
				resent = append(resent, MsgID(ind.Payload))
			}
		case Note:
			if strings.HasPrefix(string(x), "default-config-changed") {
				vs = append(vs, h.Violation{Class: "C14:default-configuration-modified", Msg: string(x)})
			}
		}
	}
	return vs
}

func abbreviate(xs []int) string {
	if len(xs) <= 8 {
		return fmt.Sprint(xs)
	}
	return fmt.Sprintf("[%d %d %d ... %d %d]", xs[0], xs[1], xs[2], xs[len(xs)-2], xs[len(xs)-1])
}

func init() {
	register("both", &h.Scenario{Name: "C14-three-routers-in-succession-every-retain-triple", Prop: "C14", P: 0, F: 0, D: -1, Run: c14ConfigSequence(), Check: c14ConfigSequenceOracle})
}
