//go:build verif

package scen

import (
	"fmt"
	"reflect"
	"strings"
)

// deepDump renders a value with everything it points to (no addresses): two values with the same
// rendering are equal field by field.
func deepDump(v interface{}) string {
	var b strings.Builder
	deepDumpValue(&b, reflect.ValueOf(v), 0)
	return b.String()
}

func deepDumpValue(b *strings.Builder, v reflect.Value, depth int) {
	if !v.IsValid() {
		b.WriteString("nil")
		return
	}
	if depth > 12 {
		b.WriteString("...")
		return
	}
	switch v.Kind() {
	case reflect.Ptr, reflect.Interface:
		if v.IsNil() {
			b.WriteString("nil")
			return
		}
		if v.Kind() == reflect.Ptr {
			b.WriteByte('&')
		}
		deepDumpValue(b, v.Elem(), depth+1)
	case reflect.Struct:
		b.WriteString(v.Type().Name())
		b.WriteByte('{')
		for i := 0; i < v.NumField(); i++ {
			if i > 0 {
				b.WriteString(", ")
			}
			b.WriteString(v.Type().Field(i).Name)
			b.WriteByte(':')
			deepDumpValue(b, v.Field(i), depth+1)
		}
		b.WriteByte('}')
	case reflect.Slice, reflect.Array:
		if v.Kind() == reflect.Slice && v.Len() == 0 {
			b.WriteString("[]") // nil and empty are the same on the wire
			return
		}
		if v.Type().Elem().Kind() == reflect.Uint8 {
			fmt.Fprintf(b, "[%d]x", v.Len())
			for i := 0; i < v.Len(); i++ {
				fmt.Fprintf(b, "%02x", v.Index(i).Uint())
			}
			return
		}
		b.WriteByte('[')
		for i := 0; i < v.Len(); i++ {
			if i > 0 {
				b.WriteString(", ")
			}
			deepDumpValue(b, v.Index(i), depth+1)
		}
		b.WriteByte(']')
	case reflect.String:
		fmt.Fprintf(b, "%q", v.String())
	case reflect.Bool:
		fmt.Fprintf(b, "%v", v.Bool())
	case reflect.Int, reflect.Int8, reflect.Int16, reflect.Int32, reflect.Int64:
		fmt.Fprintf(b, "%d", v.Int())
	case reflect.Uint, reflect.Uint8, reflect.Uint16, reflect.Uint32, reflect.Uint64, reflect.Uintptr:
		fmt.Fprintf(b, "%d", v.Uint())
	default:
		fmt.Fprintf(b, "<%s>", v.Kind())
	}
}
