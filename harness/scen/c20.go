//go:build verif

package scen

import (
	"bytes"
	"encoding/hex"
	"errors"
	"fmt"
	"io"
	"net"
	"sort"
	"strings"
	"time"

	"github.com/vapourismo/knx-go/knx"
	"github.com/vapourismo/knx-go/knx/knxnet"
	"github.com/vapourismo/knx-go/verifmc/mc"
	"github.com/vapourismo/knx-go/verifmc/vnet"
	"verifh/harness/h"
)

// C20 — describe / discover are time-bounded and return only matching responses. The real
// DescribeTunnel / DiscoverOnInterface run on the real socket layer over the virtual network with
// the virtual clock; the environment enumerates responder behaviours.

func devDIB(ia uint16) []byte {
	b := make([]byte, 54)
	b[0], b[1], b[2], b[3] = 54, 1, 2, 0
	b[4], b[5] = byte(ia>>8), byte(ia)
	copy(b[24:], devName(ia))
	return b
}

// devName: the friendly name of responder ia as it stands on the wire (ISO 8859-1, zero padded to
// 30 octets): plain ASCII, names with one and with several characters above 0x7F, and 29 of them.
func devName(ia uint16) []byte {
	switch ia % 4 {
	case 1:
		return []byte("B\xfcro")
	case 2:
		return []byte("K\xfcche S\xfcd-\xd6st")
	case 3:
		return bytes.Repeat([]byte{0xe9}, 29)
	}
	return []byte("dev")
}

// devContent renders what a response of responder ia says about it: name and service families.
func devContent(name string, fams []knxnet.ServiceFamily) string {
	return fmt.Sprintf("name=%q families=%v", name, fams)
}

func wantContent(ia uint16) string {
	var r []rune
	for _, c := range devName(ia) {
		r = append(r, rune(c))
	}
	return devContent(string(r), []knxnet.ServiceFamily{{Type: 2, Version: 1}})
}

func frame(sid uint16, body ...[]byte) []byte {
	var bb []byte
	for _, x := range body {
		bb = append(bb, x...)
	}
	n := 6 + len(bb)
	return append([]byte{6, 0x10, byte(sid >> 8), byte(sid), byte(n >> 8), byte(n)}, bb...)
}

var svcDIB = []byte{4, 2, 2, 1}

// furtherDIB is a manufacturer DIB (type 0xFE) whose body identifies the responder.
func furtherDIB(ia uint16) []byte {
	return []byte{8, 0xFE, byte(ia >> 8), byte(ia), ^byte(ia >> 8), ^byte(ia), 0x5A, 0xA5}
}

// descrRes: device information, service families, an EMPTY block of a known type (length 2: legal,
// carries nothing, dropped by the decoder) and a manufacturer-data block.
func descrRes(ia uint16) []byte {
	return frame(0x0204, devDIB(ia), svcDIB, []byte{2, 0x04}, furtherDIB(ia))
}
func searchRes(ia uint16) []byte {
	return frame(0x0202, []byte{8, 1, 192, 0, 2, byte(ia), 0x0e, 0x57}, devDIB(ia), svcDIB)
}

// c20OtherFrames: well-formed frames of every service type a describe / discover socket may see
// besides its own responses: the material for the truncations.
func c20OtherFrames(ia uint16) [][]byte {
	h := knxnet.HostInfo{Protocol: knxnet.UDP4, Address: knxnet.Address{192, 0, 2, 1}, Port: 3671}
	return [][]byte{
		pack(&knxnet.TunnelRes{Channel: 1, SeqNumber: 2, Status: 0}),
		pack(&knxnet.ConnStateRes{Channel: 1, Status: 0}),
		pack(&knxnet.ConnRes{Channel: 1, Status: 0, Control: h}),
		pack(&knxnet.DiscReq{Channel: 1, Control: h}),
		pack(&knxnet.DiscRes{Channel: 1}),
		pack(&knxnet.ConnStateReq{Channel: 1, Control: h}),
		pack(&knxnet.TunnelReq{Channel: 1, SeqNumber: 0, Payload: ldata(3)}),
		pack(&knxnet.RoutingInd{Payload: ldata(1)}),
		pack(&knxnet.SearchReq{HostInfo: h}),
	}
}

// Ev is one scheduled environment event (logged when it is injected).
type Ev struct {
	At   mc.Duration
	Kind string // "resp" | "malformed" | "other" | "foreign" | "readerr"
	IA   uint16
	Slot int
}

func (e Ev) String() string { return fmt.Sprintf("EV %s ia=%#x slot=%d", e.Kind, e.IA, e.Slot) }

// CallRet is logged when the call under test returns.
// LateView is logged at the end of a describe scenario: the further description blocks of the value
// that DescribeTunnel returned, as they look after every later datagram has been received.
type LateView struct {
	IA  uint16
	Hex string
}

func (l LateView) String() string {
	return fmt.Sprintf("LATE-VIEW ia=%#x further-DIBs=%s", l.IA, l.Hex)
}

func furtherHex(d *knxnet.DescriptionRes) string {
	var b []byte
	for _, u := range d.UnknownBlocks {
		b = append(b, byte(u.Type))
		b = append(b, u.Data...)
	}
	return hex.EncodeToString(b)
}

type CallRet struct {
	WriteFailed bool
	Further     string
	Timeout     mc.Duration
	What        string
	IAs         []uint16
	Content     []string // per returned response: friendly name and service families
	Err         string
	T0          mc.Duration
	Closed      bool
	Writes      []string
}

func (c CallRet) String() string {
	return fmt.Sprintf("RET %s -> %v err=%q (called %v) socket-closed=%v writes=%v", c.What, c.IAs, c.Err, c.T0, c.Closed, c.Writes)
}

func c20Schedule(ep *vnet.Endpoint, evs []Ev, discover bool) {
	sort.SliceStable(evs, func(i, j int) bool { return evs[i].At < evs[j].At })
	mc.GoEnv("responders", func() {
		for _, e := range evs {
			if d := e.At - mc.Now(); d > 0 {
				mc.Sleep(d)
			}
			mc.Log(e)
			mk := descrRes
			if discover {
				mk = searchRes
			}
			switch e.Kind {
			case "resp":
				ep.Inject(mk(e.IA), nil)
			case "malformed":
				ep.Inject([]byte{6, 0x10, 2, 4, 0, 10, 0, 3, 0, 0}, nil)
				ep.Inject([]byte{6, 0x10, 2}, nil)
				ep.Inject([]byte{6, 0x10, 2, 8, 0, 4, 1, 0}, nil)       // header announces a total length of 4
				ep.Inject([]byte{6, 0x10, 2, 4, 0xFF, 0xFF, 0, 0}, nil) // ... of 65535
				// shaped like the awaited response, but its service-families block announces a length no
				// such block can have (0, 1, odd, beyond the datagram), alone and followed by padding
				for _, l := range []byte{0, 1, 3, 255} {
					for _, pad := range []int{0, 260} {
						blk := append([]byte{l, 2}, make([]byte, pad)...)
						if discover {
							ep.Inject(frame(0x0202, []byte{8, 1, 192, 0, 2, byte(e.IA), 0x0e, 0x57}, devDIB(e.IA), blk), nil)
						} else {
							ep.Inject(frame(0x0204, devDIB(e.IA), blk), nil)
						}
					}
				}
				if discover {
					// the service type of a search response, a valid endpoint, and then no device
					// information at all (nothing / only a block of a type nobody knows): not a
					// search response (seeded change C20-m: a tolerant block parser in SearchRes.Unpack
					// turned these into phantom results)
					hp := []byte{8, 1, 192, 0, 2, byte(e.IA), 0x0e, 0x57}
					ep.Inject(frame(0x0202, hp), nil)
					ep.Inject(frame(0x0202, hp, []byte{4, 0x06, 0, 0}), nil)
					ep.Inject(frame(0x0202, hp, []byte{6, 0xFE, 0, 1, 2, 3}), nil)
				}
			case "truncated":
				// every truncation of frames of the other service types,
				// with the header still announcing the whole frame and with a header that tells the truth
				for _, f := range c20OtherFrames(e.IA) {
					for cut := 6; cut < len(f); cut++ {
						ep.Inject(f[:cut], nil)
						t := append([]byte{}, f[:cut]...)
						t[4], t[5] = byte(cut>>8), byte(cut)
						ep.Inject(t, nil)
					}
					mc.Sleep(100 * time.Microsecond) // (the receiver keeps up: nothing is left to the receive queue's limit)
				}
			case "other":
				ep.Inject(pack(&knxnet.ConnStateRes{Channel: 1}), nil)
				if discover {
					ep.Inject(descrRes(e.IA), nil)
				} else {
					ep.Inject(searchRes(e.IA), nil)
				}
			case "foreign":
				ep.Inject(mk(e.IA), &net.UDPAddr{IP: net.IPv4(192, 0, 2, 55), Port: 3671})
			case "empty":
				ep.Inject([]byte{}, nil) // a datagram without payload is a legitimate datagram
			case "readerr":
				ep.InjectErr(io.ErrUnexpectedEOF)
			}
		}
	})
}

func c20Describe(slots int) func() {
	return func() {
		if slots != 1 {
			defer logChoice()()
		}
		timeout := []mc.Duration{1 * ms, 500 * ms}[mc.Choose(2, mc.Free)]
		w := vnet.Reset()
		var ep *vnet.Endpoint
		var evs []Ev
		for s := 0; s < slots; s++ {
			c := mc.Choose(13, mc.Free)
			ia := uint16(0x1100 + s)
			switch c {
			case 12:
				evs = append(evs, Ev{0, "empty", ia, s})
			case 9: // frames of other service types in the middle of the wait
				evs = append(evs, Ev{timeout / 2, "other", ia, s})
			case 10:
				evs = append(evs, Ev{timeout / 2, "foreign", ia, s})
			case 11: // a steady trickle of foreign traffic up to and beyond the deadline
				for k := 1; k <= 6; k++ {
					evs = append(evs, Ev{mc.Duration(k) * timeout / 4, "other", ia, s})
				}
			case 0: // this responder stays silent
			case 1:
				evs = append(evs, Ev{0, "resp", ia, s})
			case 2:
				evs = append(evs, Ev{timeout - 1*ms, "resp", ia, s})
			case 3:
				evs = append(evs, Ev{timeout, "resp", ia, s})
			case 4:
				evs = append(evs, Ev{timeout + 1*ms, "resp", ia, s})
			case 5:
				evs = append(evs, Ev{0, "malformed", ia, s})
			case 6:
				evs = append(evs, Ev{0, "other", ia, s})
			case 7:
				evs = append(evs, Ev{0, "foreign", ia, s})
			case 8:
				evs = append(evs, Ev{0, "readerr", ia, s})
			}
		}
		writeFails := mc.Choose(2, mc.Free) == 1 // the request cannot be sent (e.g. network unreachable)
		w.OnCreate = func(e *vnet.Endpoint) {
			ep = e
			if writeFails {
				e.WriteErr = errors.New("network is unreachable")
			}
			started := false
			e.OnWrite = func(wr vnet.WriteRec) {
				if !started {
					started = true
					c20Schedule(e, evs, false)
				}
			}
		}
		t0 := mc.Now()
		res, err := knx.DescribeTunnel("192.0.2.99:3671", timeout)
		ret := CallRet{WriteFailed: writeFails, Timeout: timeout, What: fmt.Sprintf("Describe(timeout=%v)", timeout), Err: errStr(err), T0: t0}
		if res != nil {
			ret.IAs = []uint16{uint16(res.DeviceHardware.Source)}
			ret.Content = []string{devContent(res.DeviceHardware.FriendlyName, res.SupportedServices.Families)}
			ret.Further = furtherHex(res)
		}
		if ep != nil {
			ret.Closed = ep.Closed
			for _, wr := range ep.Writes {
				ret.Writes = append(ret.Writes, hex.EncodeToString(wr.Data))
			}
		}
		mc.Log(ret)
		mc.Sleep(timeout + 5*ms)
		if res != nil {
			mc.Log(LateView{uint16(res.DeviceHardware.Source), furtherHex(res)})
		}
		censusNote()
	}
}

func c20Discover(slots int, flat int) func() {
	return func() {
		if slots != 1 {
			defer logChoice()()
		}
		timeout := []mc.Duration{1 * ms, 500 * ms}[mc.Choose(2, mc.Free)]
		w := vnet.Reset()
		var ep *vnet.Endpoint
		var evs []Ev
		for s := 0; s < slots; s++ {
			c := mc.Choose(11, mc.Free)
			ia := uint16(0x1100 + s)
			switch c {
			case 10:
				evs = append(evs, Ev{0, "empty", ia, s})
			case 8:
				evs = append(evs, Ev{timeout / 2, "other", ia, s})
			case 9:
				for k := 1; k <= 6; k++ {
					evs = append(evs, Ev{mc.Duration(k) * timeout / 4, "other", ia, s})
				}
			case 0:
			case 1:
				evs = append(evs, Ev{0, "resp", ia, s})
			case 2:
				evs = append(evs, Ev{timeout - 1*ms, "resp", ia, s})
			case 3:
				evs = append(evs, Ev{timeout, "resp", ia, s})
			case 4:
				evs = append(evs, Ev{timeout + 1*ms, "resp", ia, s})
			case 5:
				evs = append(evs, Ev{0, "resp", ia, s}, Ev{timeout / 2, "resp", ia + 0x80, s})
			case 6:
				evs = append(evs, Ev{0, "malformed", ia, s})
			case 7:
				evs = append(evs, Ev{0, "other", ia, s})
			}
		}
		for i := 0; i < flat; i++ {
			evs = append(evs, Ev{mc.Duration(i) * timeout / 40, "resp", uint16(0x2000 + i), 100 + i})
		}
		writeFails := mc.Choose(2, mc.Free) == 1
		w.OnCreate = func(e *vnet.Endpoint) {
			ep = e
			if writeFails {
				e.WriteErr = errors.New("network is unreachable")
			}
			started := false
			e.OnWrite = func(wr vnet.WriteRec) {
				if !started {
					started = true
					c20Schedule(e, evs, true)
				}
			}
		}
		t0 := mc.Now()
		res, err := knx.DiscoverOnInterface(nil, "224.0.23.12:3671", timeout)
		ret := CallRet{WriteFailed: writeFails, Timeout: timeout, What: fmt.Sprintf("Discover(timeout=%v)", timeout), Err: errStr(err), T0: t0}
		for _, r := range res {
			ret.IAs = append(ret.IAs, uint16(r.DescriptionB.DeviceHardware.Source))
			ret.Content = append(ret.Content, devContent(r.DescriptionB.DeviceHardware.FriendlyName, r.DescriptionB.SupportedServices.Families))
		}
		if ep != nil {
			ret.Closed = ep.Closed
			for _, wr := range ep.Writes {
				ret.Writes = append(ret.Writes, hex.EncodeToString(wr.Data))
			}
		}
		mc.Log(ret)
		mc.Sleep(timeout + 5*ms)
		censusNote()
	}
}

func c20Oracle(discover bool) func(tr *mc.Trace) []h.Violation {
	return func(tr *mc.Trace) []h.Violation {
		vs := generic(tr, "C20", true)
		bad := func(class, format string, a ...interface{}) {
			vs = append(vs, h.Violation{Class: "C20:" + class, Msg: fmt.Sprintf(format, a...)})
		}
		var ret *CallRet
		var retT mc.Duration
		type inj struct {
			t  mc.Duration
			ev Ev
		}
		var injs []inj
		for _, e := range tr.Log {
			switch x := e.V.(type) {
			case CallRet:
				c := x
				ret, retT = &c, e.T
			case Ev:
				injs = append(injs, inj{e.T, x})
			case Census:
				// "release their socket before returning": a receiver goroutine of the call's socket that is
				// still alive one timeout after the call returned keeps the connection object, its buffer
				// and a decoded frame for ever (the socket's Close ends its receiver since fix c31cc9f)
				if x.N > 0 {
					bad("receiver-left-behind", "%d library goroutine(s) of the call are still alive one timeout after it returned: %s", x.N, x.Desc)
				}
			}
		}
		if ret == nil {
			if tr.Reason == "main-returned" {
				bad("no-return", "the call never returned")
			}
			return vs
		}
		timeout := ret.Timeout
		deadline := ret.T0 + timeout
		// matching responses that reached the socket before a read error, in arrival order
		type m struct {
			t  mc.Duration
			ia uint16
		}
		var matching []m
		for _, in := range injs {
			if in.ev.Kind == "readerr" {
				break
			}
			if in.ev.Kind == "resp" {
				matching = append(matching, m{in.t, in.ev.IA})
			}
		}
		hist := fmt.Sprint(injs)
		if ret.WriteFailed {
			// the request could not be sent: the call reports the error - and still releases its socket
			if ret.Err == "" {
				bad("send-error-swallowed", "%s returned no error although its request could not be written", ret.What)
			}
			if !ret.Closed {
				bad("socket-not-released", "%s returned (with the send error) without having closed its socket", ret.What)
			}
			return vs
		}
		if ret.Err != "" {
			bad("error", "%s returned error %q (%s)", ret.What, ret.Err, hist)
		}
		for i, ia := range ret.IAs {
			// "exactly the search responses received" / "the first description response received":
			// the response of responder ia is the one that responder sent
			if i < len(ret.Content) && ret.Content[i] != wantContent(ia) {
				bad("response-content", "%s returned, as the response of device %#x: %s; that device answered: %s", ret.What, ia, ret.Content[i], wantContent(ia))
				break
			}
		}
		if !discover && len(ret.IAs) == 1 {
			want := hex.EncodeToString(append([]byte{0xFE}, furtherDIB(ret.IAs[0])[2:]...))
			if ret.Further != want {
				bad("response-content", "%s returned the response of device %#x with further description blocks %s; that response carried %s", ret.What, ret.IAs[0], ret.Further, want)
			}
			for _, e := range tr.Log {
				if lv, ok := e.V.(LateView); ok && lv.Hex != want {
					bad("response-changes-after-return", "the description response returned for device %#x had further description blocks %s; after later datagrams were received the same value shows %s (the value shares memory with the receive buffer)", lv.IA, want, lv.Hex)
				}
			}
		}
		if retT > deadline {
			bad("late", "%s returned at %v, later than its timeout (%v)", ret.What, retT, deadline)
		}
		if !ret.Closed {
			bad("socket-not-released", "%s returned without having closed its socket", ret.What)
		}
		if len(ret.Writes) != 1 {
			bad("request-count", "%s put %d frames on the wire: %v", ret.What, len(ret.Writes), ret.Writes)
		} else if !discover {
			want := "06100203000e0801c0000207c350"
			if ret.Writes[0] != want {
				bad("request-endpoint", "the description request on the wire is %s; with the socket bound to 192.0.2.7:50000 it must be %s", ret.Writes[0], want)
			}
		} else {
			want := "06100201000e0801e000170c0e57"
			if ret.Writes[0] != want {
				bad("request-shape", "the search request on the wire is %s, want %s", ret.Writes[0], want)
			}
		}
		if !discover {
			var must, may []uint16 // the first response strictly before the deadline / responses exactly at it
			for _, x := range matching {
				if x.t < deadline && len(must) == 0 {
					must = append(must, x.ia)
				}
				if x.t == deadline {
					may = append(may, x.ia)
				}
			}
			switch {
			case len(must) > 0:
				if len(ret.IAs) != 1 || ret.IAs[0] != must[0] {
					bad("wrong-response", "%s returned %#x; the first description response from the queried address arrived from device %#x (%s)", ret.What, ret.IAs, must[0], hist)
				}
			case len(ret.IAs) == 0:
				if retT != deadline {
					bad("early-nil", "%s returned no result at %v, before its timeout %v (%s)", ret.What, retT, deadline, hist)
				}
			default:
				ok := false
				for _, ia := range may {
					if ia == ret.IAs[0] {
						ok = true
					}
				}
				if !ok {
					bad("unexpected-response", "%s returned device %#x which no queried-address response before the deadline explains (%s)", ret.What, ret.IAs, hist)
				}
			}
			if len(must) > 0 && len(ret.IAs) == 1 {
				for _, x := range matching {
					if x.ia == ret.IAs[0] && retT != x.t {
						bad("late-return", "%s returned at %v the response that arrived at %v", ret.What, retT, x.t)
					}
				}
			}
		} else {
			if retT != deadline {
				bad("discover-return-instant", "%s returned at %v; it must return when its timeout elapses (%v)", ret.What, retT, deadline)
			}
			var want []uint16
			var opt []uint16
			for _, x := range matching {
				if x.t < deadline {
					want = append(want, x.ia)
				} else if x.t == deadline {
					opt = append(opt, x.ia)
				}
			}
			got := ret.IAs
			if len(got) < len(want) || fmt.Sprint(got[:len(want)]) != fmt.Sprint(want) {
				bad("discover-results", "%s returned %#x; search responses received before the deadline, in arrival order: %#x (%s)", ret.What, got, want, hist)
			} else {
				extra := got[len(want):]
				if len(extra) > len(opt) || fmt.Sprint(extra) != fmt.Sprint(opt[:len(extra)]) {
					bad("discover-extra", "%s returned %#x beyond the responses received before the deadline %#x (%s)", ret.What, extra, want, hist)
				}
			}
		}
		return vs
	}
}

func init() {
	register("both", &h.Scenario{Name: "C20-describe-2slots", Prop: "C20", Cfg: mc.Config{SpinLimit: 400}, P: 1, F: 0, D: 1, Run: c20Describe(2), Check: c20Oracle(false)})
	// one responder, deeper schedules: the receiver goroutine holds a frame it has read but not yet
	// offered at the very moment the call gives up and closes the socket
	register("both", &h.Scenario{Name: "C20-describe-1slot-P2", Prop: "C20", Cfg: mc.Config{SpinLimit: 400}, P: 2, F: 0, D: 3, Run: c20Describe(1), Check: c20Oracle(false)})
	register("both", &h.Scenario{Name: "C20-discover-1slot-P2", Prop: "C20", Cfg: mc.Config{SpinLimit: 400}, P: 2, F: 0, D: 3, Run: c20Discover(1, 0), Check: c20Oracle(true)})
	register("both", &h.Scenario{Name: "C20-describe-4slots", Prop: "C20", Cfg: mc.Config{SpinLimit: 400}, P: 0, F: 0, D: -1, Run: c20Describe(4), Check: c20Oracle(false)})
	register("both", &h.Scenario{Name: "C20-discover-2slots", Prop: "C20", Cfg: mc.Config{SpinLimit: 400}, P: 1, F: 0, D: 1, Run: c20Discover(2, 0), Check: c20Oracle(true)})
	register("both", &h.Scenario{Name: "C20-discover-4slots", Prop: "C20", Cfg: mc.Config{SpinLimit: 400}, P: 0, F: 0, D: -1, Run: c20Discover(4, 0), Check: c20Oracle(true)})
	register("both", &h.Scenario{Name: "C20-discover-flat20", Prop: "C20", Cfg: mc.Config{SpinLimit: 400}, P: 0, F: 0, D: -1, Run: c20Discover(0, 20), Check: c20Oracle(true)})
	register("thorough", &h.Scenario{Name: "C20-describe-5slots", Prop: "C20", Cfg: mc.Config{SpinLimit: 400}, P: 0, F: 0, D: -1, Run: c20Describe(5), Check: c20Oracle(false)})
	register("thorough", &h.Scenario{Name: "C20-discover-5slots", Prop: "C20", Cfg: mc.Config{SpinLimit: 400}, P: 0, F: 0, D: -1, Run: c20Discover(5, 0), Check: c20Oracle(true)})
	register("thorough", &h.Scenario{Name: "C20-describe-3slots-P2", Prop: "C20", Cfg: mc.Config{SpinLimit: 400}, P: 2, F: 0, D: 2, Run: c20Describe(3), Check: c20Oracle(false)})
}

// c20Truncated: every truncation of well-formed frames of the other service types arrives first
// (none of them is a response, none of them may disturb the call), the response(s) 10 and 20 ms
// later, well inside the 500 ms timeout.
func c20Truncated(discover bool) func() {
	return func() {
		defer logChoice()()
		timeout := 500 * ms
		w := vnet.Reset()
		var ep *vnet.Endpoint
		evs := []Ev{{0, "truncated", 0x1100, 0}, {10 * ms, "resp", 0x1101, 1}, {20 * ms, "resp", 0x1102, 2}}
		w.OnCreate = func(e *vnet.Endpoint) {
			ep = e
			started := false
			e.OnWrite = func(wr vnet.WriteRec) {
				if !started {
					started = true
					c20Schedule(e, evs, discover)
				}
			}
		}
		t0 := mc.Now()
		var ret CallRet
		if discover {
			res, err := knx.DiscoverOnInterface(nil, "224.0.23.12:3671", timeout)
			ret = CallRet{Timeout: timeout, What: fmt.Sprintf("Discover(timeout=%v)", timeout), Err: errStr(err), T0: t0}
			for _, r := range res {
				ret.IAs = append(ret.IAs, uint16(r.DescriptionB.DeviceHardware.Source))
				ret.Content = append(ret.Content, devContent(r.DescriptionB.DeviceHardware.FriendlyName, r.DescriptionB.SupportedServices.Families))
			}
		} else {
			res, err := knx.DescribeTunnel("192.0.2.99:3671", timeout)
			ret = CallRet{Timeout: timeout, What: fmt.Sprintf("Describe(timeout=%v)", timeout), Err: errStr(err), T0: t0}
			if res != nil {
				ret.IAs = []uint16{uint16(res.DeviceHardware.Source)}
				ret.Content = []string{devContent(res.DeviceHardware.FriendlyName, res.SupportedServices.Families)}
				ret.Further = furtherHex(res)
			}
		}
		if ep != nil {
			ret.Closed = ep.Closed
			for _, wr := range ep.Writes {
				ret.Writes = append(ret.Writes, hex.EncodeToString(wr.Data))
			}
		}
		mc.Log(ret)
		mc.Sleep(timeout + 5*ms)
		censusNote()
	}
}

func init() {
	register("both", &h.Scenario{Name: "C20-describe-behind-every-truncation-of-other-frames", Prop: "C20", Cfg: mc.Config{SpinLimit: 400}, P: 0, F: 0, D: -1, Run: c20Truncated(false), Check: c20Oracle(false)})
	register("both", &h.Scenario{Name: "C20-discover-behind-every-truncation-of-other-frames", Prop: "C20", Cfg: mc.Config{SpinLimit: 400}, P: 0, F: 0, D: -1, Run: c20Truncated(true), Check: c20Oracle(true)})
}

// c20DiscoverBesideRouter: the application holds a router client on the multicast group (or runs a
// second discovery) while it discovers: sockets on the group's port are shared between listeners,
// and the call under test returns the responses it received all the same.
func c20DiscoverBesideRouter() func() {
	return func() {
		timeout := 500 * ms
		w := vnet.Reset()
		var eps []*vnet.Endpoint
		w.OnCreate = func(e *vnet.Endpoint) { eps = append(eps, e) }
		other := mc.Choose(2, mc.Free)
		var closeOther func()
		if other == 0 {
			r, err := knx.NewRouter("224.0.23.12:3671", knx.RouterConfig{})
			if err != nil {
				mc.Log(Note("router failed: " + err.Error()))
				return
			}
			closeOther = r.Close
		} else {
			s, err := knxnet.ListenRouter("224.0.23.12:3671")
			if err != nil {
				mc.Log(Note("listener failed: " + err.Error()))
				return
			}
			closeOther = func() { s.Close() }
		}
		evs := []Ev{{10 * ms, "resp", 0x1101, 1}, {20 * ms, "resp", 0x1102, 2}}
		w.OnCreate = func(e *vnet.Endpoint) {
			eps = append(eps, e)
			started := false
			e.OnWrite = func(wr vnet.WriteRec) {
				if !started {
					started = true
					c20Schedule(e, evs, true)
				}
			}
		}
		t0 := mc.Now()
		res, err := knx.DiscoverOnInterface(nil, "224.0.23.12:3671", timeout)
		ret := CallRet{Timeout: timeout, What: fmt.Sprintf("Discover(timeout=%v) beside an open listener on the group", timeout), Err: errStr(err), T0: t0}
		for _, r := range res {
			ret.IAs = append(ret.IAs, uint16(r.DescriptionB.DeviceHardware.Source))
			ret.Content = append(ret.Content, devContent(r.DescriptionB.DeviceHardware.FriendlyName, r.DescriptionB.SupportedServices.Families))
		}
		if len(eps) > 1 {
			ep := eps[len(eps)-1]
			ret.Closed = ep.Closed
			for _, wr := range ep.Writes {
				ret.Writes = append(ret.Writes, hex.EncodeToString(wr.Data))
			}
		} else {
			ret.Closed = true // no socket was opened by the call
		}
		mc.Log(ret)
		closeOther()
		mc.Sleep(timeout + 5*ms)
		censusNote()
	}
}

func c20BesideOracle(tr *mc.Trace) []h.Violation {
	vs := generic(tr, "C20", true)
	for _, e := range tr.Log {
		switch x := e.V.(type) {
		case Note:
			if strings.Contains(string(x), "failed: ") {
				vs = append(vs, h.Violation{Class: "C20:beside-a-listener:setup", Msg: string(x)})
			}
		case CallRet:
			if x.Err != "" || fmt.Sprint(x.IAs) != fmt.Sprint([]uint16{0x1101, 0x1102}) {
				vs = append(vs, h.Violation{Class: "C20:beside-a-listener:discover-results", Msg: fmt.Sprintf("%s returned %#x, error %q; two search responses arrived 10 and 20 ms after the request", x.What, x.IAs, x.Err)})
			}
		}
	}
	return vs
}

func init() {
	register("both", &h.Scenario{Name: "C20-discover-beside-an-open-listener-on-the-group", Prop: "C20", Cfg: mc.Config{SpinLimit: 400}, P: 0, F: 0, D: -1, Run: c20DiscoverBesideRouter(), Check: c20BesideOracle})
}
