//go:build verif

package scen

import (
	"fmt"

	"github.com/vapourismo/knx-go/knx"
	"github.com/vapourismo/knx-go/knx/cemi"
	"github.com/vapourismo/knx-go/knx/knxnet"
	"github.com/vapourismo/knx-go/verifmc/mc"
	"verifh/enum/refenc"
	"verifh/harness/fakesock"
	"verifh/harness/h"
)

// C12 — group events map to/from L_Data frames losslessly; only group traffic surfaces.
// The real GroupTunnel / GroupRouter run on an injected socket under the controlled scheduler;
// inputs are enumerated inside the executions (the space is the Cartesian product listed in the
// scenario names), the emitted bytes are parsed by the independent reference parser (refenc).

// GEvOut is logged before a group event is sent.
type GEvOut struct {
	N       int
	Cmd     uint8
	Src     uint16
	Dst     uint16
	Data    []byte
	Variant string
}

func (g GEvOut) String() string {
	return fmt.Sprintf("GROUP-SEND #%d %s cmd=%d src=%#x dst=%#x data(%d)=% x", g.N, g.Variant, g.Cmd, g.Src, g.Dst, len(g.Data), trunc8(g.Data))
}

// GEvIn is logged for every event read from a group Inbound channel.
type GEvIn struct {
	Cmd  uint8
	Src  uint16
	Dst  uint16
	Data []byte
	From string
}

func (g GEvIn) String() string {
	return fmt.Sprintf("GROUP-RX %s cmd=%d src=%#x dst=%#x data(%d)=% x", g.From, g.Cmd, g.Src, g.Dst, len(g.Data), trunc8(g.Data))
}

// GInj is logged for every cEMI message pushed towards a group client.
type GInj struct {
	N       int
	Kind    string // LDataInd, LDataCon, LDataReq, LRawInd, ...
	Group   bool
	APCI    int // -1: control unit
	Src     uint16
	Dst     uint16
	Data    []byte
	Surface bool // the statement says this one becomes a group event
}

func (g GInj) String() string {
	return fmt.Sprintf("GROUP-INJ #%d %s group=%v apci=%d src=%#x dst=%#x data(%d) surface=%v", g.N, g.Kind, g.Group, g.APCI, g.Src, g.Dst, len(g.Data), g.Surface)
}

func trunc8(b []byte) []byte {
	if len(b) > 8 {
		return b[:8]
	}
	return b
}

var c12Addrs = []uint16{0x0000, 0x0001, 0x00FF, 0x0100, 0x0A03, 0x7FFF, 0x8000, 0xFFFF}

func c12Payload(n int, first byte) []byte {
	d := make([]byte, n)
	for i := range d {
		d[i] = byte(i*13 + 5)
	}
	if n > 0 {
		d[0] = first
	}
	return d
}

// events enumerates the outbound space: commands x lengths 0..254 x first octets x addresses.
func c12Events(visit func(cmd uint8, src, dst uint16, data []byte)) { c12EventsN(false, visit) }

func c12EventsN(reduced bool, visit func(cmd uint8, src, dst uint16, data []byte)) {
	k := 0
	for cmd := uint8(0); cmd < 3; cmd++ {
		for n := 0; n <= 254; n++ {
			if reduced && !(n <= 2 || (n >= 14 && n <= 17) || n == 100 || n == 254) {
				continue
			}
			firsts := []int{0, 1, 0x3F, 0x40, 0x80, 0xFF}
			if n == 0 {
				firsts = []int{0}
			}
			if n == 1 || n == 2 || n == 15 || n == 16 {
				firsts = nil
				for f := 0; f < 256; f++ {
					firsts = append(firsts, f)
				}
			}
			for _, f := range firsts {
				src := c12Addrs[k%len(c12Addrs)]
				dst := c12Addrs[(k/len(c12Addrs))%len(c12Addrs)]
				k++
				visit(cmd, src, dst, c12Payload(n, byte(f)))
			}
		}
	}
	// all address corner pairs at one shape
	for _, s := range c12Addrs {
		for _, d := range c12Addrs {
			visit(2, s, d, []byte{0x2A})
		}
	}
}

func c12Out(tunnel bool) func() {
	return func() {
		sock := fakesock.New("udp")
		var send func(knx.GroupEvent) error
		var closer func()
		if tunnel {
			NewGateway(sock, 7)
			gt, err := knx.NewGroupTunnelOnSocket(sock, TCfg(100, 350, 100000000))
			if err != nil {
				mc.Log(Note("connect failed"))
				return
			}
			send, closer = gt.Send, gt.Close
		} else {
			gr, _ := knx.NewGroupRouterOnSocket(sock, knx.RouterConfig{RetainCount: 1})
			send, closer = gr.Send, gr.Close
		}
		n := 0
		variant := "router"
		if tunnel {
			variant = "tunnel"
		}
		c12Events(func(cmd uint8, src, dst uint16, data []byte) {
			mc.Log(GEvOut{n, cmd, src, dst, data, variant})
			err := send(knx.GroupEvent{Command: knx.GroupCommand(cmd), Source: cemi.IndividualAddr(src), Destination: cemi.GroupAddr(dst), Data: data})
			if err != nil {
				mc.Log(Note(fmt.Sprintf("send #%d failed: %v", n, err)))
			}
			n++
			if tunnel && n%64 == 0 {
				mc.Sleep(400 * ms) // let the exchange timers expire
			}
		})
		closer()
	}
}

// wireData is what the wire format can carry of an event payload.
func wireData(d []byte) []byte {
	if len(d) == 0 {
		return []byte{0}
	}
	r := append([]byte(nil), d...)
	r[0] &= 0x3F
	return r
}

func c12OutOracle(tunnel bool) func(tr *mc.Trace) []h.Violation {
	return func(tr *mc.Trace) []h.Violation {
		vs := generic(tr, "C12", true)
		bad := func(class, format string, a ...interface{}) {
			vs = append(vs, h.Violation{Class: "C12:" + class, Msg: fmt.Sprintf(format, a...)})
		}
		var cur *GEvOut
		frames := 0
		flush := func() {
			if cur != nil && frames != 1 {
				bad("frame-count", "%v produced %d data frames on the wire, want exactly one", *cur, frames)
			}
		}
		for _, e := range tr.Log {
			switch x := e.V.(type) {
			case GEvOut:
				flush()
				c := x
				cur, frames = &c, 0
			case fakesock.Sent:
				var wantSvc uint16 = 0x0530
				var wantCode byte = 0x29
				if tunnel {
					wantSvc, wantCode = 0x0420, 0x11
				}
				if _, isData := x.Svc.(*knxnet.TunnelReq); !isData {
					if _, isRI := x.Svc.(*knxnet.RoutingInd); !isRI {
						continue
					}
				}
				if cur == nil {
					continue
				}
				frames++
				p, err := refenc.Parse(x.Bytes)
				if err != nil || p.CEMI == nil || p.CEMI.TPDU == nil {
					bad("frame-unparsable", "%v: emitted frame % x does not parse as a KNXnet/IP frame carrying L_Data: %v", *cur, x.Bytes, err)
					continue
				}
				c := p.CEMI
				if p.ServiceID != wantSvc || c.Code != wantCode {
					bad("message-kind", "%v: service %#x message code %#x, want %#x / %#x", *cur, p.ServiceID, c.Code, wantSvc, wantCode)
				}
				if c.Ctrl2&0x80 == 0 {
					bad("group-flag", "%v: control field 2 is %#02x, the destination is not flagged as group address", *cur, c.Ctrl2)
				}
				if hops := (c.Ctrl2 >> 4) & 7; hops != 6 {
					bad("hop-count", "%v: hop count %d, want 6 (control field 2 %#02x)", *cur, hops, c.Ctrl2)
				}
				if prio := (c.Ctrl1 >> 2) & 3; prio != 3 {
					bad("priority", "%v: priority bits %02b, want 11 (low) (control field 1 %#02x)", *cur, prio, c.Ctrl1)
				}
				std := c.Ctrl1&0x80 != 0
				if std != (len(cur.Data) <= 15) {
					bad("frame-format", "%v: standard-frame flag is %v for a payload of %d octets", *cur, std, len(cur.Data))
				}
				if c.TPDU.Control || c.TPDU.APCI != cur.Cmd {
					bad("apci", "%v: transport unit control=%v apci=%d, want a data unit with application code %d", *cur, c.TPDU.Control, c.TPDU.APCI, cur.Cmd)
				}
				if c.Src != cur.Src || c.Dst != cur.Dst {
					bad("addresses", "%v: frame carries source %#x destination %#x", *cur, c.Src, c.Dst)
				}
				if string(c.TPDU.Data) != string(wireData(cur.Data)) {
					bad("payload", "%v: frame carries payload (%d octets) % x, want (%d octets) % x", *cur, len(c.TPDU.Data), trunc8(c.TPDU.Data), len(wireData(cur.Data)), trunc8(wireData(cur.Data)))
				}
				if len(c.Info) != 0 {
					bad("additional-info", "%v: frame carries %d octets of additional info", *cur, len(c.Info))
				}
			}
		}
		flush()
		return vs
	}
}

// ---- inbound filter chain and end-to-end ----

func c12Inbound(tunnel bool) func() {
	return func() {
		sock := fakesock.New("udp")
		var in *mc.Chan[knx.GroupEvent]
		var closer func()
		if tunnel {
			NewGateway(sock, 7)
			gt, err := knx.NewGroupTunnelOnSocket(sock, TCfg(100, 350, 100000000))
			if err != nil {
				return
			}
			in, closer = gt.Inbound(), gt.Close
		} else {
			gr, _ := knx.NewGroupRouterOnSocket(sock, knx.RouterConfig{})
			in, closer = gr.Inbound(), gr.Close
		}
		from := "router"
		if tunnel {
			from = "tunnel"
		}
		done := mc.NewChan[int](1, "c12.done")
		mc.GoEnv("reader", func() {
			for {
				ev, ok := in.Recv2()
				if !ok {
					mc.Log(Note("group inbound closed"))
					done.Send(1)
					return
				}
				mc.Log(GEvIn{uint8(ev.Command), uint16(ev.Source), uint16(ev.Destination), ev.Data, from})
			}
		})
		n := 0
		seq := uint8(0)
		push := func(m cemi.Message, g GInj) {
			g.N = n
			n++
			mc.Log(g)
			// the telegram travels as the octets a foreign stack sends (reference encoder) and is
			// decoded by the library's own decoder, as its socket receiver would do; a frame the
			// decoder turns down never reaches the client (the gateway's number is not used up)
			var svc knxnet.Service
			if body, err := refenc.EncodeCEMI(m); err == nil {
				wire := refenc.RoutingInd(body)
				if tunnel {
					wire = refenc.TunnelReq(7, seq, body)
				}
				if _, err := knxnet.Unpack(wire, &svc); err != nil {
					mc.Log(Note(fmt.Sprintf("inbound frame %d rejected by the decoder: %v", g.N, err)))
					mc.Sleep(1 * ms)
					return
				}
			} else if tunnel {
				svc = &knxnet.TunnelReq{Channel: 7, SeqNumber: seq, Payload: m}
			} else {
				svc = &knxnet.RoutingInd{Payload: m}
			}
			sock.Deliver(svc)
			if tunnel {
				seq++
			}
			mc.Sleep(1 * ms) // one telegram at a time: ordering under bursts is C17's subject
		}
		k := 0
		for _, kind := range []string{"LDataInd", "LDataCon", "LDataReq", "LRawInd", "LBusmonInd", "Unsupported"} {
			for _, group := range []bool{true, false} {
				for apci := -1; apci < 16; apci++ {
					lens := []int{1, 2, 15, 16, 254}
					if apci < 0 {
						lens = []int{0}
					}
					for _, ln := range lens {
						for fmtFlip := 0; fmtFlip < 2; fmtFlip++ {
							if fmtFlip == 1 && kind != "LDataInd" && kind != "LDataCon" && kind != "LDataReq" {
								continue
							}
							src := c12Addrs[k%8]
							dst := c12Addrs[(k/8)%8]
							k++
							// the low four bits of control field 2 (extended frame format / LTE) vary: what
							// surfaces depends on the address-type flag alone (seeded change C12-m)
							var c2 cemi.ControlField2 = cemi.Control2Hops(5) | cemi.ControlField2([]uint8{0, 4, 0x0F, 1}[(k/3)%4])
							if group {
								c2 |= cemi.Control2GroupAddr
							}
							var unit cemi.TransportUnit
							var data []byte
							if apci < 0 {
								unit = &cemi.ControlData{Command: 1}
							} else {
								data = c12Payload(ln, byte(0x15+apci))
								data[0] &= 0x3F
								unit = &cemi.AppData{Command: cemi.APCI(apci), Data: data}
							}
							// the frame-format flag as the library itself sets it (standard frame up to 15
							// octets) and the other way round (a foreign stack may put a short telegram into
							// an extended frame): the filter does not depend on it
							c1 := cemi.Control1NoRepeat
							if (ln <= 15) == (fmtFlip == 0) {
								c1 |= cemi.Control1StdFrame
							}
							ld := cemi.LData{Control1: c1, Control2: c2, Source: cemi.IndividualAddr(src), Destination: dst, Data: unit}
							var m cemi.Message
							switch kind {
							case "LDataInd":
								m = &cemi.LDataInd{LData: ld}
							case "LDataCon":
								m = &cemi.LDataCon{LData: ld}
							case "LDataReq":
								m = &cemi.LDataReq{LData: ld}
							case "LRawInd":
								m = &cemi.LRawInd{LRaw: cemi.LRaw{1, 2, 3}}
							case "LBusmonInd":
								lb := cemi.LBusmonInd{1, 2, 3}
								m = &lb
							default:
								m = &cemi.UnsupportedMessage{Code: 0x99, Data: []byte{1}}
							}
							surface := kind == "LDataInd" && group && apci >= 0 && apci <= 2
							push(m, GInj{Kind: kind, Group: group, APCI: apci, Src: src, Dst: dst, Data: data, Surface: surface})
						}
						if kind != "LDataInd" && kind != "LDataCon" && kind != "LDataReq" {
							break
						}
					}
				}
			}
		}
		mc.Sleep(10 * ms)
		closer()
		done.Recv()
	}
}

func c12InOracle(tr *mc.Trace) []h.Violation {
	vs := generic(tr, "C12", true)
	bad := func(class, format string, a ...interface{}) {
		vs = append(vs, h.Violation{Class: "C12:" + class, Msg: fmt.Sprintf(format, a...)})
	}
	var want []GInj
	var got []GEvIn
	closed := false
	for _, e := range tr.Log {
		switch x := e.V.(type) {
		case GInj:
			if x.Surface {
				want = append(want, x)
			}
		case GEvIn:
			got = append(got, x)
		case Note:
			if x == "group inbound closed" {
				closed = true
			}
		}
	}
	if tr.Reason != "main-returned" {
		return vs
	}
	if !closed {
		bad("group-inbound-not-closed", "the group Inbound channel was not closed after the underlying client's Inbound closed")
	}
	i := 0
	for _, g := range got {
		if i < len(want) && g.Cmd == uint8(want[i].APCI) && g.Src == want[i].Src && g.Dst == want[i].Dst && string(g.Data) == string(want[i].Data) {
			i++
			continue
		}
		// which injected message does it correspond to?
		bad("surfaced-unexpected", "group event %v surfaced; the next message the statement lets through is %v", g, at(want, i))
		return vs
	}
	if i < len(want) {
		bad("surfaced-missing", "%v (a group read/response/write L_Data indication to a group address) never became a group event; %d of %d expected events arrived", want[i], i, len(want))
	}
	return vs
}

func at(w []GInj, i int) interface{} {
	if i < len(w) {
		return w[i]
	}
	return "(none)"
}

// end to end: every outbound event of router A is encoded to bytes, decoded, and delivered to
// router B; what B's application reads must equal what A's application sent, up to the two
// conventions of the wire format.
func c12EndToEnd(tunnel bool) func() {
	return func() {
		sa, sb := fakesock.New("udp"), fakesock.New("udp")
		var send func(knx.GroupEvent) error
		var in *mc.Chan[knx.GroupEvent]
		var closeA, closeB func()
		seq := uint8(0)
		if tunnel {
			NewGateway(sa, 7)
			NewGateway(sb, 9)
			a, err := knx.NewGroupTunnelOnSocket(sa, TCfg(100, 350, 100000000))
			if err != nil {
				return
			}
			b, err := knx.NewGroupTunnelOnSocket(sb, TCfg(100, 350, 100000000))
			if err != nil {
				return
			}
			send, in, closeA, closeB = a.Send, b.Inbound(), a.Close, b.Close
		} else {
			a, _ := knx.NewGroupRouterOnSocket(sa, knx.RouterConfig{RetainCount: 1})
			b, _ := knx.NewGroupRouterOnSocket(sb, knx.RouterConfig{RetainCount: 1})
			send, in, closeA, closeB = a.Send, b.Inbound(), a.Close, b.Close
		}
		inner := sa.OnSend
		spareCount := 0
		sa.OnSend = func(s *fakesock.Sent) {
			if inner != nil {
				inner(s)
			}
			// every third / third+1 frame travels with one / two spare octets behind the transport unit
			// (gateway padding; the header's total length covers them)
			wire := append([]byte(nil), s.Bytes...)
			if len(wire) > 6 && (wire[2] == 0x05 || wire[2] == 0x04) && wire[3] != 0x21 {
				for k := 0; k < spareCount%3; k++ {
					wire = append(wire, byte(0xE0+k))
				}
				spareCount++
				wire[4], wire[5] = byte(len(wire)>>8), byte(len(wire))
			}
			var v knxnet.Service
			if _, err := knxnet.Unpack(wire, &v); err != nil {
				mc.Log(Note(fmt.Sprintf("frame with %d spare octets rejected by the decoder: %v", len(wire)-len(s.Bytes), err)))
				return
			}
			switch x := v.(type) {
			case *knxnet.RoutingInd:
				sb.Deliver(x)
			case *knxnet.TunnelReq:
				// the gateway puts the request on the bus; the other gateway indicates it
				if req, ok := x.Payload.(*cemi.LDataReq); ok {
					sb.Deliver(&knxnet.TunnelReq{Channel: 9, SeqNumber: seq, Payload: &cemi.LDataInd{LData: req.LData}})
					seq++
				}
			}
		}
		done := mc.NewChan[int](1, "c12.done")
		mc.GoEnv("reader", func() {
			for {
				ev, ok := in.Recv2()
				if !ok {
					done.Send(1)
					return
				}
				mc.Log(GEvIn{uint8(ev.Command), uint16(ev.Source), uint16(ev.Destination), ev.Data, "peer"})
			}
		})
		n := 0
		c12EventsN(tunnel, func(cmd uint8, src, dst uint16, data []byte) {
			mc.Log(GEvOut{n, cmd, src, dst, data, "e2e"})
			send(knx.GroupEvent{Command: knx.GroupCommand(cmd), Source: cemi.IndividualAddr(src), Destination: cemi.GroupAddr(dst), Data: data})
			n++
			mc.Sleep(1 * ms)
			if n%64 == 0 {
				mc.Sleep(400 * ms)
			}
		})
		mc.Sleep(10 * ms)
		closeA()
		closeB()
		done.Recv()
	}
}

func c12E2EOracle(tr *mc.Trace) []h.Violation {
	vs := generic(tr, "C12", true)
	var outs []GEvOut
	var ins []GEvIn
	for _, e := range tr.Log {
		switch x := e.V.(type) {
		case GEvOut:
			outs = append(outs, x)
		case GEvIn:
			ins = append(ins, x)
		}
	}
	if tr.Reason != "main-returned" {
		return vs
	}
	for i, o := range outs {
		if i >= len(ins) {
			vs = append(vs, h.Violation{Class: "C12:e2e-lost", Msg: fmt.Sprintf("%v never arrived at the other client (%d of %d arrived)", o, len(ins), len(outs))})
			break
		}
		g := ins[i]
		if g.Cmd != o.Cmd || g.Src != o.Src || g.Dst != o.Dst || string(g.Data) != string(wireData(o.Data)) {
			vs = append(vs, h.Violation{Class: "C12:e2e-changed", Msg: fmt.Sprintf("sent %v, the other client received %v", o, g)})
			break
		}
	}
	if len(ins) > len(outs) {
		vs = append(vs, h.Violation{Class: "C12:e2e-extra", Msg: fmt.Sprintf("%d events sent, %d received", len(outs), len(ins))})
	}
	return vs
}

// closing: the group layer on an ordered source channel that closes after k messages
func c12Closing(k int) func() {
	return func() {
		src := mc.NewChan[cemi.Message](0, "c12.src")
		out := mc.NewChan[knx.GroupEvent](0, "c12.group")
		mc.Go("serveGroupInbound", func() { knx.ServeGroupInboundForTest(src, out) })
		mc.GoEnv("feeder", func() {
			for i := 0; i < k; i++ {
				var c2 cemi.ControlField2 = cemi.Control2GroupAddr
				if i == 1 {
					c2 = 0 // one that must not surface
				}
				m := &cemi.LDataInd{LData: cemi.LData{Control2: c2, Source: 0x1101, Destination: uint16(i), Data: &cemi.AppData{Command: cemi.GroupValueWrite, Data: []byte{byte(i)}}}}
				mc.Log(GInj{N: i, Kind: "LDataInd", Group: c2 != 0, APCI: 2, Src: 0x1101, Dst: uint16(i), Data: []byte{byte(i)}, Surface: c2 != 0})
				src.Send(m)
			}
			src.Close()
		})
		slow := mc.Choose(2, mc.Free) == 1
		for {
			if slow {
				mc.Sleep(1 * ms)
			}
			ev, ok := out.Recv2()
			if !ok {
				mc.Log(Note("group inbound closed"))
				break
			}
			mc.Log(GEvIn{uint8(ev.Command), uint16(ev.Source), uint16(ev.Destination), ev.Data, "layer"})
		}
	}
}

// c12Cases counts the group events sent / cEMI messages injected in one execution.
func c12Cases(tr *mc.Trace) int64 {
	var n int64
	for _, e := range tr.Log {
		switch e.V.(type) {
		case GEvOut, GInj:
			n++
		}
	}
	return n
}

func init() {
	big := mc.Config{MaxSteps: 5000000}
	register("both", &h.Scenario{Name: "C12-outbound-tunnel-3cmd-x-len0..254-x-firstoctets", Prop: "C12", P: 0, F: 0, D: -1, Cfg: big, Cases: c12Cases, Run: c12Out(true), Check: c12OutOracle(true)})
	register("both", &h.Scenario{Name: "C12-outbound-router-3cmd-x-len0..254-x-firstoctets", Prop: "C12", P: 0, F: 0, D: -1, Cfg: big, Cases: c12Cases, Run: c12Out(false), Check: c12OutOracle(false)})
	register("both", &h.Scenario{Name: "C12-inbound-tunnel-kinds-x-addrtype-x-apci-x-len", Prop: "C12", P: 0, F: 0, D: -1, Cfg: big, Cases: c12Cases, Run: c12Inbound(true), Check: c12InOracle})
	register("both", &h.Scenario{Name: "C12-inbound-router-kinds-x-addrtype-x-apci-x-len", Prop: "C12", P: 0, F: 0, D: -1, Cfg: big, Cases: c12Cases, Run: c12Inbound(false), Check: c12InOracle})
	register("both", &h.Scenario{Name: "C12-end-to-end-router", Prop: "C12", P: 0, F: 0, D: -1, Cfg: big, Cases: c12Cases, Run: c12EndToEnd(false), Check: c12E2EOracle})
	register("both", &h.Scenario{Name: "C12-end-to-end-tunnel", Prop: "C12", P: 0, F: 0, D: -1, Cfg: big, Cases: c12Cases, Run: c12EndToEnd(true), Check: c12E2EOracle})
	register("both", &h.Scenario{Name: "C12-closing-3msgs-P2", Prop: "C12", P: 2, F: 0, D: 3, Run: c12Closing(3), Check: c12InOracle})
	register("thorough", &h.Scenario{Name: "C12-closing-4msgs-P3", Prop: "C12", P: 3, F: 0, D: 0, Run: c12Closing(4), Check: c12InOracle})
}
