//go:build verif

package scen

import (
	"fmt"
	"strings"

	"github.com/vapourismo/knx-go/knx"
	"github.com/vapourismo/knx-go/knx/knxnet"
	"github.com/vapourismo/knx-go/verifmc/mc"
	"verifh/harness/fakesock"
	"verifh/harness/h"
)

// C05 — exactly once, in order, over a lossy link (direct exploration of the real client against
// a rule-following gateway twin and a network that loses, duplicates and delays datagrams).

// Bus is logged when the gateway twin puts a telegram on the bus.
type Bus struct {
	ID  int
	Seq uint8
}

func (b Bus) String() string { return fmt.Sprintf("BUS id=%d (seq %d)", b.ID, b.Seq) }

// GwAcked is logged when the gateway twin obtained the acknowledgement for its own telegram.
type GwAcked struct{ ID int }

func (g GwAcked) String() string { return fmt.Sprintf("GW-ACKED id=%d", g.ID) }

// GwSeen is logged for every client request that reaches the gateway twin.
type GwSeen struct {
	ID       int
	Seq      uint8
	Accepted bool
	Reacked  bool
}

func (g GwSeen) String() string {
	return fmt.Sprintf("GW-SEEN id=%d seq=%d accepted=%v reacked=%v", g.ID, g.Seq, g.Accepted, g.Reacked)
}

type c05Params struct {
	R, T     int
	out, in  int // telegrams client->bus, bus->client
	prefix   int // acknowledged exchanges in both directions before exploration (wrap)
	dupDelay bool
	apps     int  // concurrent application goroutines sharing the outbound telegrams (default 1)
	ackFails int  // socket writes of the client's acknowledgements that may fail (transient error)
	refuse   bool // the gateway may refuse an in-sequence telegram: it counts it, does not put it on the bus and answers with an error status
	dupNow   bool // the network may duplicate a datagram (both copies at once); no delays: a datagram delayed across a reconnect is outside the statement (numbering restarts, the copy is taken for new by any client)
	reconn   bool // after the first telegram in each direction the gateway ends the connection and accepts the reconnect (numbering restarts)
	away     int  // the application does not read Inbound during the first away ms (longer than every timeout of the client)
}

func c05Run(p c05Params) func() {
	return func() {
		R, T := mc.Duration(p.R)*ms, mc.Duration(p.T)*ms
		sock := fakesock.New("udp")
		const ch = 7
		quietNet := false
		// network: one fault choice per datagram
		net := func(deliver func()) {
			if quietNet {
				deliver()
				return
			}
			n := 2
			if p.dupNow {
				n = 3
			}
			if p.dupDelay {
				n = 4
			}
			switch mc.Choose(n, mc.Fault) {
			case 0:
				deliver()
			case 1: // lost
			case 2:
				deliver()
				deliver()
			case 3:
				After(R+50*ms, "delayed-datagram", deliver)
			}
		}
		// gateway twin
		var gExp, gOut uint8
		gwAck := mc.NewChan[uint8](64, "gw.ack")
		toClient := func(v knxnet.Service) { net(func() { sock.Deliver(v) }) }
		connected := false
		sock.OnSend = func(s *fakesock.Sent) {
			switch x := s.Svc.(type) {
			case *knxnet.ConnReq:
				if !connected {
					connected = true
					sock.Deliver(&knxnet.ConnRes{Channel: ch, Status: 0, Control: knxnet.HostInfo{Protocol: knxnet.UDP4}})
				}
			case *knxnet.ConnStateReq:
				sock.Deliver(&knxnet.ConnStateRes{Channel: x.Channel, Status: 0})
			case *knxnet.TunnelReq:
				req := *x
				net(func() {
					if req.Channel != ch {
						return
					}
					id := MsgID(req.Payload)
					switch req.SeqNumber {
					case gExp:
						if p.refuse && !quietNet && mc.Choose(2, mc.Fault) == 1 {
							// refused (e.g. the bus is down): counted, not forwarded, negative acknowledgement;
							// a repetition of it is answered like any repetition
							mc.Log(GwSeen{id, req.SeqNumber, false, false})
							gExp++
							toClient(&knxnet.TunnelRes{Channel: ch, SeqNumber: req.SeqNumber, Status: knxnet.ErrTunnellingLayer})
							return
						}
						mc.Log(GwSeen{id, req.SeqNumber, true, false})
						mc.Log(Bus{id, req.SeqNumber})
						gExp++
						toClient(&knxnet.TunnelRes{Channel: ch, SeqNumber: req.SeqNumber, Status: 0})
					case gExp - 1:
						mc.Log(GwSeen{id, req.SeqNumber, false, true})
						toClient(&knxnet.TunnelRes{Channel: ch, SeqNumber: req.SeqNumber, Status: 0})
					default:
						mc.Log(GwSeen{id, req.SeqNumber, false, false})
					}
				})
			case *knxnet.TunnelRes:
				res := *x
				net(func() {
					if res.Channel == ch && res.Status == 0 {
						gwAck.Send(res.SeqNumber)
					}
				})
			}
		}
		failLeft := p.ackFails
		sock.FailSend = func(v knxnet.ServicePackable) error {
			if _, isAck := v.(*knxnet.TunnelRes); isAck && failLeft > 0 && !quietNet && mc.Choose(2, mc.Fault) == 1 {
				failLeft--
				return fakesock.ErrSockClosed
			}
			return nil
		}
		t, err := knx.NewTunnelOnSocket(sock, knxnet.TunnelLayerData, TCfg(p.R, p.T, 100000000))
		if err != nil {
			mc.Log(Note("connect failed: " + err.Error()))
			return
		}
		mc.GoEnv("reader", func() {
			if p.away > 0 {
				mc.Sleep(mc.Duration(p.away) * ms)
			}
			for {
				m, ok := t.Inbound().Recv2()
				if !ok {
					return
				}
				mc.Log(Rx{ID: MsgID(m), From: "tunnel"})
			}
		})
		// the gateway's own stop-and-wait sender
		gwSendOne := func(id int) bool {
			// acknowledgements that arrived while the gateway had nothing outstanding were dropped on
			// arrival (the queue only stands for the gateway's receive path)
			for {
				c0 := mc.RecvC(gwAck)
				if mc.Select(true, c0) != 0 {
					break
				}
			}
			deadline := mc.Now() + T
			seq := gOut
			for {
				toClient(&knxnet.TunnelReq{Channel: ch, SeqNumber: seq, Payload: Msg(id)})
				tick := mc.Now() + R
				for {
					c0 := mc.RecvC(gwAck)
					wait := tick
					if deadline < wait {
						wait = deadline
					}
					c1 := mc.RecvC(mc.After(wait - mc.Now()))
					if mc.Select(false, c0, c1) == 0 {
						if c0.V == seq {
							gOut++
							mc.Log(GwAcked{id})
							return true
						}
						continue // stale acknowledgement
					}
					break
				}
				if mc.Now() >= deadline {
					mc.Log(Note(fmt.Sprintf("gateway gave up on id=%d", id)))
					return false
				}
			}
		}
		if p.prefix > 0 {
			mc.SetQuiet(true)
			quietNet = true
			for i := 0; i < p.prefix; i++ {
				t0 := mc.Now()
				err := t.Send(Msg(1000 + i))
				mc.Log(Ret{"Send", 1000 + i, errStr(err), t0})
				gwSendOne(3000 + i)
				mc.Sleep(T + 1*ms)
			}
			quietNet = false
			mc.SetQuiet(false)
		}
		done := mc.NewChan[int](8, "c05.done")
		phase1 := mc.NewChan[int](8, "c05.phase1")
		phase2 := mc.NewChan[int](0, "c05.phase2")
		barrier := func(i int) {
			if p.reconn && i == 0 {
				phase1.Send(1)
				phase2.Recv2()
			}
		}
		mc.GoEnv("gateway-sender", func() {
			for i := 0; i < p.in; i++ {
				ok := gwSendOne(200 + i)
				barrier(i)
				if !ok {
					break // a real gateway would now tear the connection down
				}
			}
			done.Send(1)
		})
		apps := p.apps
		if apps < 1 {
			apps = 1
		}
		for a := 0; a < apps; a++ {
			a := a
			mc.GoEnv(fmt.Sprintf("app%d", a), func() {
				for i := a; i < p.out; i += apps {
					t0 := mc.Now()
					err := t.Send(Msg(i))
					mc.Log(Ret{"Send", i, errStr(err), t0})
					barrier(i)
				}
				done.Send(1)
			})
		}
		if p.reconn {
			for a := 0; a < apps+1; a++ {
				phase1.Recv()
			}
			mc.Sleep(T + 1*ms)
			quietNet, connected = true, false
			mc.Log(Note("the gateway ends the connection"))
			sock.Deliver(&knxnet.DiscReq{Channel: ch})
			mc.Sleep(10 * ms)
			gExp, gOut = 0, 0
			quietNet = false
			phase2.Close()
		}
		for a := 0; a < apps+1; a++ {
			done.Recv()
		}
		mc.Sleep(T + 3*R + mc.Duration(p.away)*ms)
		t.Close()
	}
}

func c05Oracle(p c05Params) func(tr *mc.Trace) []h.Violation {
	return func(tr *mc.Trace) []h.Violation {
		vs := generic(tr, "C05", true)
		bad := func(class, format string, a ...interface{}) {
			vs = append(vs, h.Violation{Class: "C05:" + class, Msg: fmt.Sprintf(format, a...)})
		}
		var bus []int
		busCount := map[int]int{}
		var sendOK []int
		var gwAcked []int
		var accepted []int
		accCount := map[int]int{}
		type sendInfo struct {
			seq     uint8
			hasSeq  bool
			err     string
			gwTook  bool // the gateway accepted (put on the bus) this request
			retired bool
		}
		sends := map[int]*sendInfo{}
		var sendOrder []int
		si := func(id int) *sendInfo {
			if sends[id] == nil {
				sends[id] = &sendInfo{}
				sendOrder = append(sendOrder, id)
			}
			return sends[id]
		}
		// a delivery was parked: the connection server spawned a goroutine while handling a
		// tunnelling request, i.e. its next own event is the transmission of the acknowledgement
		// (recognised by that shape, not by the name of the library function)
		overflow := false
		spawnBy := map[int]bool{}
		for _, e := range tr.Log {
			switch x := e.V.(type) {
			case mc.Spawned:
				if strings.HasPrefix(x.Site, "tunnel.go:") {
					spawnBy[e.G] = true
				}
			case fakesock.Sent:
				if _, isAck := x.Svc.(*knxnet.TunnelRes); isAck && spawnBy[e.G] {
					overflow = true
				}
				spawnBy[e.G] = false
			}
		}
		for _, e := range tr.Log {
			switch x := e.V.(type) {
			case Bus:
				bus = append(bus, x.ID)
				busCount[x.ID]++
				si(x.ID).gwTook = true
			case fakesock.Sent:
				if q, ok := x.Svc.(*knxnet.TunnelReq); ok {
					s := si(MsgID(q.Payload))
					s.seq, s.hasSeq = q.SeqNumber, true
				}
			case Ret:
				if x.Call == "Send" {
					s := si(x.ID)
					s.err, s.retired = x.Err, true
					if x.Err == "" {
						sendOK = append(sendOK, x.ID)
					}
				}
			case GwAcked:
				gwAcked = append(gwAcked, x.ID)
			case Rx:
				accepted = append(accepted, x.ID)
				accCount[x.ID]++
			}
		}
		// the known hazard: an earlier Send timed out although the gateway had accepted its request
		hazardBefore := func(id int) (bool, int) {
			for _, o := range sendOrder {
				if o == id {
					break
				}
				s := sends[o]
				if s.retired && s.err != "" && s.gwTook {
					return true, o
				}
			}
			return false, 0
		}
		for id, n := range busCount {
			if n > 1 {
				bad("bus-duplicate", "telegram %d was put on the bus %d times (bus: %v)", id, n, bus)
			}
		}
		// successful Sends: exactly once on the bus, in completion order
		pos := map[int]int{}
		for i, id := range bus {
			pos[id] = i
		}
		last := -1
		for _, id := range sendOK {
			if busCount[id] == 0 {
				if hz, o := hazardBefore(id); hz {
					bad("success-not-on-bus:after-unacknowledged-accepted-request", "Send of telegram %d reported success but the gateway never put it on the bus; the earlier Send of telegram %d had timed out although the gateway had accepted it, so the number %d was reused and the gateway took telegram %d for a repetition (bus: %v, successful Sends: %v)", id, o, sends[id].seq, id, bus, sendOK)
				} else {
					bad("success-not-on-bus", "Send of telegram %d reported success but the gateway never put it on the bus (bus: %v, successful Sends: %v)", id, bus, sendOK)
				}
				continue
			}
			if pos[id] < last {
				bad("bus-order", "telegrams reached the bus in the order %v but their Sends completed in the order %v", bus, sendOK)
			}
			last = pos[id]
		}
		// symmetric direction
		for id, n := range accCount {
			if n > 1 {
				bad("accepted-twice", "telegram %d from the gateway was handed to the application %d times", id, n)
			}
		}
		apos := map[int]int{}
		for i, id := range accepted {
			apos[id] = i
		}
		last = -1
		for _, id := range gwAcked {
			if accCount[id] == 0 {
				bad("acked-not-accepted", "the gateway obtained an acknowledgement for telegram %d but the client never accepted it (accepted: %v, acknowledged: %v)", id, accepted, gwAcked)
				continue
			}
			if apos[id] < last && !overflow {
				// (with a parked delivery the hand-over order is C17's subject and known finding; the
				// acceptance order itself is fixed by the expected-number rule that C04 checks)
				bad("accept-order", "client handed over %v without parking any delivery, gateway order %v", accepted, gwAcked)
			}
			last = apos[id]
		}
		return vs
	}
}

func init() {
	a := c05Params{R: 100, T: 150, out: 3, in: 2}
	register("both", &h.Scenario{Name: "C05-direct-3out-2in-loss-F4", Prop: "C05", P: 0, F: 4, D: -1, Run: c05Run(a), Check: c05Oracle(a)})
	b := c05Params{R: 100, T: 150, out: 2, in: 2, dupDelay: true}
	register("both", &h.Scenario{Name: "C05-direct-2out-2in-dup-delay-F3", Prop: "C05", P: 0, F: 3, D: -1, Run: c05Run(b), Check: c05Oracle(b)})
	c := c05Params{R: 100, T: 100, out: 2, in: 1, dupDelay: true}
	register("both", &h.Scenario{Name: "C05-direct-T=R-F2-P1", Prop: "C05", P: 1, F: 2, D: 1, Run: c05Run(c), Check: c05Oracle(c)})
	d := c05Params{R: 100, T: 150, out: 2, in: 2, dupDelay: true, prefix: 254}
	register("both", &h.Scenario{Name: "C05-direct-wrap254-F2", Prop: "C05", P: 0, F: 2, D: -1, Run: c05Run(d), Check: c05Oracle(d)})
	af := c05Params{R: 100, T: 250, out: 1, in: 3, ackFails: 2}
	register("both", &h.Scenario{Name: "C05-direct-1out-3in-ack-write-fails-F3", Prop: "C05", P: 0, F: 3, D: -1, Run: c05Run(af), Check: c05Oracle(af)})
	g := c05Params{R: 100, T: 150, out: 4, in: 1, apps: 2}
	register("both", &h.Scenario{Name: "C05-direct-2apps-4out-1in-loss-F1-P2", Prop: "C05", P: 2, F: 1, D: 2, Run: c05Run(g), Check: c05Oracle(g)})
	// the application is away for longer than the response timeout while acknowledged telegrams wait
	aw := c05Params{R: 100, T: 150, out: 1, in: 3, away: 1000}
	register("both", &h.Scenario{Name: "C05-direct-1out-3in-application-away-1s-F2", Prop: "C05", P: 0, F: 2, D: -1, Run: c05Run(aw), Check: c05Oracle(aw)})
	// (refuse is not used by a registered scenario: a gateway that counts a telegram but answers with
	// an error status is outside the statement's gateway - "accept the expected sequence number" -
	// and what it answers to the repetition of a refused telegram is not defined there; with
	// "status 0" the pinned client reports success for a telegram that never reached the bus, which is
	// the gateway's doing. How the client treats error statuses is C03's subject.)
	// a reconnect in the middle of the stream: numbering restarts in both directions
	rc := c05Params{R: 100, T: 150, out: 3, in: 3, reconn: true, dupNow: true}
	register("both", &h.Scenario{Name: "C05-direct-3out-3in-reconnect-after-first-F2", Prop: "C05", P: 0, F: 2, D: -1, Run: c05Run(rc), Check: c05Oracle(rc)})
	e := c05Params{R: 100, T: 350, out: 3, in: 3, dupDelay: true}
	register("thorough", &h.Scenario{Name: "C05-direct-3out-3in-F3", Prop: "C05", P: 0, F: 3, D: -1, Run: c05Run(e), Check: c05Oracle(e)})
	f := c05Params{R: 100, T: 150, out: 3, in: 2, dupDelay: true}
	register("thorough", &h.Scenario{Name: "C05-direct-3out-2in-F3-P1", Prop: "C05", P: 1, F: 3, D: 1, Run: c05Run(f), Check: c05Oracle(f)})
}
