//go:build verif

package scen

import (
	"encoding/hex"
	"fmt"
	"sort"
	"strings"

	"github.com/vapourismo/knx-go/knx"
	"github.com/vapourismo/knx-go/knx/cemi"
	"github.com/vapourismo/knx-go/knx/knxnet"
	"github.com/vapourismo/knx-go/verifmc/mc"
	"github.com/vapourismo/knx-go/verifmc/vnet"
	"verifh/harness/fakesock"
	"verifh/harness/h"
)

// Acknowledgements as datagrams through the real socket layer (C03 / C05). The struct-passing
// socket double hands every acknowledgement to the client as an object of its own; the real UDP
// receiver decodes datagram after datagram, so whatever it does with the objects it decodes into is
// only visible here. The gateway (twin: accepts the expected number on channel 7, repeats its
// acknowledgement for the previous one, ignores everything else) answers Send #0 at once; then the
// network delivers, while no Send is outstanding, a menu of further acknowledgement datagrams: a
// duplicate of the one just consumed, followed or not by acknowledgements that the client must
// ignore (another connection's channel, carrying the next number; the own channel with a number
// that has not been used). Send #1 follows within the resend interval; its first transmission is
// lost. It can only succeed by its retransmission being acknowledged.

// BusPut is logged when the gateway twin accepts a request (puts the telegram on the bus).
type BusPut struct {
	Seq uint8
	ID  int
}

func (b BusPut) String() string { return fmt.Sprintf("BUS seq=%d id=%d", b.Seq, b.ID) }

// AckInjected is logged for every acknowledgement datagram the environment sends.
type AckInjected struct {
	Ch, Seq, Status uint8
	Why             string
}

func (a AckInjected) String() string {
	return fmt.Sprintf("ACK-INJECTED ch=%d seq=%d status=%d (%s)", a.Ch, a.Seq, a.Status, a.Why)
}

func wireAcksRun() func() {
	return func() {
		defer logChoice()()
		w := vnet.Reset()
		var ep *vnet.Endpoint
		expected := uint8(0)
		seen1 := 0
		ack := func(ch, seq, st uint8, why string) {
			mc.Log(AckInjected{ch, seq, st, why})
			ep.Inject(pack(&knxnet.TunnelRes{Channel: ch, SeqNumber: seq, Status: knxnet.ErrCode(st)}), nil)
		}
		w.OnCreate = func(e *vnet.Endpoint) {
			ep = e
			e.OnWrite = func(wr vnet.WriteRec) {
				mc.Log(Wrote{hex.EncodeToString(wr.Data)})
				var v knxnet.Service
				if _, err := knxnet.Unpack(wr.Data, &v); err != nil {
					return
				}
				switch x := v.(type) {
				case *knxnet.ConnReq:
					e.Inject(pack(&knxnet.ConnRes{Channel: 7, Status: 0, Control: knxnet.HostInfo{Protocol: knxnet.UDP4}}), nil)
				case *knxnet.TunnelReq:
					if x.Channel != 7 {
						return
					}
					if x.SeqNumber == 1 {
						seen1++
						if seen1 == 1 {
							return // lost on the way to the gateway
						}
					}
					switch x.SeqNumber {
					case expected:
						mc.Log(BusPut{x.SeqNumber, MsgID(x.Payload)})
						expected++
						ack(7, x.SeqNumber, 0, "accepted")
					case expected - 1:
						ack(7, x.SeqNumber, 0, "repetition")
					}
				}
			}
		}
		t, err := knx.NewTunnel("192.0.2.99:3671", knxnet.TunnelLayerData, TCfg(100, 350, 100000000))
		if err != nil {
			mc.Log(Note("connect failed: " + err.Error()))
			return
		}
		mc.GoEnv("reader", func() {
			for {
				if _, ok := t.Inbound().Recv2(); !ok {
					return
				}
			}
		})
		send := func(i int) {
			mc.Log(Call{"Send", i})
			t0 := mc.Now()
			err := t.Send(Msg(i))
			mc.Log(Ret{"Send", i, errStr(err), t0})
		}
		send(0)
		mc.Sleep(1 * ms)
		if mc.Choose(2, mc.Free) == 1 {
			ack(7, 0, 0, "network duplicate")
			mc.Sleep(1 * ms)
		}
		switch mc.Choose(7, mc.Free) {
		case 5:
			// a datagram that was cut off: the acknowledgement of the next number without its status
			// octet (what lies behind it in the receive buffer is left over from the datagram before)
			b := pack(&knxnet.TunnelRes{Channel: 7, SeqNumber: 1, Status: 0})
			mc.Log(Note("cut-off datagram " + hex.EncodeToString(b[:9])))
			ep.Inject(b[:9], nil)
		case 6:
			b := pack(&knxnet.TunnelRes{Channel: 7, SeqNumber: 1, Status: 0})
			mc.Log(Note("cut-off datagram " + hex.EncodeToString(b[:6])))
			ep.Inject(b[:6], nil)
		case 1:
			ack(9, 1, 0, "another connection's acknowledgement")
		case 2:
			ack(9, 1, 0, "another connection's acknowledgement")
			ack(9, 1, 0, "another connection's acknowledgement")
		case 3:
			ack(9, 0, 0, "another connection's acknowledgement")
		case 4:
			ack(7, 0, 0, "second network duplicate")
			ack(9, 1, 0x29, "another connection's acknowledgement")
		}
		mc.Sleep(1 * ms)
		send(1)
		mc.Sleep(5 * ms)
		send(2)
		mc.Sleep(20 * ms)
		t.Close()
		mc.Sleep(1 * ms)
	}
}

func wireAcksOracle(prop string) func(tr *mc.Trace) []h.Violation {
	return func(tr *mc.Trace) []h.Violation {
		vs := generic(tr, prop, true)
		bad := func(class, format string, a ...interface{}) {
			vs = append(vs, h.Violation{Class: prop + ":" + class, Msg: fmt.Sprintf(format, a...)})
		}
		bus := map[int]int{}
		ownAck := map[uint8]bool{} // own-channel acknowledgements with status OK injected so far, by number
		var hist []string
		for _, e := range tr.Log {
			switch x := e.V.(type) {
			case Note:
				if strings.HasPrefix(string(x), "cut-off datagram") {
					hist = append(hist, string(x))
					continue
				}
				bad("fullstack-setup", "%s", string(x))
			case BusPut:
				bus[x.ID]++
				hist = append(hist, x.String())
			case AckInjected:
				if x.Ch == 7 && x.Status == 0 {
					ownAck[x.Seq] = true
				}
				hist = append(hist, x.String())
			case Call:
				hist = append(hist, fmt.Sprintf("Send(%d) called", x.ID))
			case Ret:
				if x.Call != "Send" {
					continue
				}
				hist = append(hist, fmt.Sprintf("Send(%d) returned %q", x.ID, x.Err))
				if x.Err != "" {
					bad("wire-send-failed", "Send(%d) failed with %q although the gateway acknowledges every request it receives (the first transmission of request 1 is lost, its retransmission is answered); history: %v", x.ID, x.Err, hist)
					continue
				}
				// the application's Send number i carries sequence number i here
				if !ownAck[uint8(x.ID)] {
					bad("success-without-own-ack", "Send(%d) returned success, but no acknowledgement with the connection's channel, number %d and status OK had been sent to the client by then; history: %v", x.ID, x.ID, hist)
				}
				if bus[x.ID] != 1 {
					bad("success-not-on-bus-once", "Send(%d) returned success; the gateway put that telegram on the bus %d times; history: %v", x.ID, bus[x.ID], hist)
				}
			}
		}
		return vs
	}
}

func init() {
	register("both", &h.Scenario{Name: "C03-fullstack-acknowledgement-datagrams-while-idle", Prop: "C03", P: 1, F: 0, D: 1, Run: wireAcksRun(), Check: wireAcksOracle("C03")})
	register("both", &h.Scenario{Name: "C05-fullstack-acknowledgement-datagrams-while-idle", Prop: "C05", P: 1, F: 0, D: 1, Run: wireAcksRun(), Check: wireAcksOracle("C05")})
}

// ---- C05 through the group layer: what reaches the bus is the event that was sent ----

// BusEvent is logged when the gateway twin accepts a request: destination and payload as the
// octets of that request say.
type BusEvent struct {
	Seq  uint8
	Dst  uint16
	Data string
}

func (b BusEvent) String() string {
	return fmt.Sprintf("BUS seq=%d dst=%#04x data=%s", b.Seq, b.Dst, b.Data)
}

// GroupSent is logged when GroupTunnel.Send returns.
type GroupSent struct {
	Dst  uint16
	Data string
	Err  string
}

func (g GroupSent) String() string {
	return fmt.Sprintf("GROUP-SEND dst=%#04x data=%s -> %q", g.Dst, g.Data, g.Err)
}

// groupSendersRun: n application goroutines send one group write each (different destinations,
// payloads of different and of equal lengths) through one group tunnel; the first transmission of
// every request is lost, so every telegram reaches the gateway through a retransmission that is made
// while the other senders have already entered Send. The gateway twin follows the tunnelling rules
// and records what it puts on the bus, octet for octet.
func groupSendersRun(n int) func() {
	return func() {
		sock := fakesock.New("udp")
		expected := uint8(0)
		seen := map[uint8]int{}
		sock.OnSend = func(s *fakesock.Sent) {
			switch x := s.Svc.(type) {
			case *knxnet.ConnReq:
				sock.Deliver(&knxnet.ConnRes{Channel: 7, Status: 0, Control: knxnet.HostInfo{Protocol: knxnet.UDP4}})
			case *knxnet.TunnelReq:
				// the gateway sees the octets of the request as they were at the time of the write
				raw := pack(x)
				var v knxnet.Service
				if _, err := knxnet.Unpack(raw, &v); err != nil {
					return
				}
				req := v.(*knxnet.TunnelReq)
				seen[req.SeqNumber]++
				if seen[req.SeqNumber] == 1 {
					return // lost
				}
				switch req.SeqNumber {
				case expected:
					if ld, ok := req.Payload.(*cemi.LDataReq); ok {
						if app, ok := ld.Data.(*cemi.AppData); ok {
							mc.Log(BusEvent{req.SeqNumber, ld.Destination, hex.EncodeToString(app.Data)})
						}
					}
					expected++
					sock.Deliver(&knxnet.TunnelRes{Channel: 7, SeqNumber: req.SeqNumber, Status: 0})
				case expected - 1:
					sock.Deliver(&knxnet.TunnelRes{Channel: 7, SeqNumber: req.SeqNumber, Status: 0})
				}
			}
		}
		gt, err := knx.NewGroupTunnelOnSocket(sock, TCfg(100, 350, 100000000))
		if err != nil {
			mc.Log(Note("connect failed: " + err.Error()))
			return
		}
		mc.GoEnv("reader", func() {
			for {
				if _, ok := gt.Inbound().Recv2(); !ok {
					return
				}
			}
		})
		lens := [][]int{{2, 2, 2}, {3, 1, 2}, {1, 3, 3}}[mc.Choose(3, mc.Free)]
		done := mc.NewChan[int](n, "c05g.done")
		for i := 0; i < n; i++ {
			i := i
			mc.GoEnv(fmt.Sprintf("app%d", i), func() {
				data := make([]byte, lens[i%3])
				for k := range data {
					data[k] = byte(0x10*(i+1) + k)
				}
				dst := uint16(0x0A00 + i)
				err := gt.Send(knx.GroupEvent{Command: knx.GroupWrite, Destination: cemi.GroupAddr(dst), Data: data})
				mc.Log(GroupSent{dst, hex.EncodeToString(data), errStr(err)})
				done.Send(1)
			})
		}
		for i := 0; i < n; i++ {
			done.Recv()
		}
		mc.Sleep(10 * ms)
		gt.Close()
	}
}

func groupSendersOracle(tr *mc.Trace) []h.Violation {
	vs := generic(tr, "C05", true)
	bad := func(class, format string, a ...interface{}) {
		vs = append(vs, h.Violation{Class: "C05:" + class, Msg: fmt.Sprintf(format, a...)})
	}
	bus := map[string]int{}
	var busList, sent []string
	for _, e := range tr.Log {
		switch x := e.V.(type) {
		case Note:
			bad("setup", "%s", string(x))
		case BusEvent:
			k := fmt.Sprintf("%#04x=%s", x.Dst, x.Data)
			bus[k]++
			busList = append(busList, k)
		case GroupSent:
			if x.Err != "" {
				bad("group-send-failed", "Send of %#04x=%s failed (%s) although the gateway acknowledges every retransmission", x.Dst, x.Data, x.Err)
				continue
			}
			sent = append(sent, fmt.Sprintf("%#04x=%s", x.Dst, x.Data))
		}
	}
	if tr.Reason != "main-returned" {
		return vs
	}
	for _, k := range sent {
		if bus[k] != 1 {
			bad("sent-telegram-not-on-the-bus-once", "Send of %s succeeded; the gateway put it on the bus %d times. Bus, in order: %v; successful Sends: %v", k, bus[k], busList, sent)
			break
		}
	}
	if len(busList) != len(sent) {
		bad("bus-carries-what-nobody-sent", "bus, in order: %v; successful Sends: %v", busList, sent)
	}
	return vs
}

func init() {
	register("both", &h.Scenario{Name: "C05-group-tunnel-2senders-every-first-transmission-lost", Prop: "C05", P: 2, F: 0, D: 2, Run: groupSendersRun(2), Check: groupSendersOracle})
	register("both", &h.Scenario{Name: "C05-group-tunnel-3senders-every-first-transmission-lost", Prop: "C05", P: 1, F: 0, D: 1, Run: groupSendersRun(3), Check: groupSendersOracle})
}

// ---- C05, gateway -> application, through the real UDP receiver ----

// inboundWireRun: the gateway sends three telegrams stop-and-wait (the next one only after the
// acknowledgement of the one before), in one of three shapes (L_Data with additional
// information, bus-monitor indication on a bus-monitor tunnel, raw frame on a raw tunnel); the
// application picks them up afterwards, or one behind. "Every telegram for which the gateway
// obtained an acknowledgement has been accepted for delivery to the application exactly once and in
// the gateway's order": what the application gets is compared octet for octet with what was sent.
func inboundWireRun() func() {
	return func() {
		defer logChoice()()
		shape := mc.Choose(3, mc.Free)
		mk := func(i int) cemi.Message {
			switch shape {
			case 1:
				m := cemi.LBusmonInd{0x03, 0x01, byte(i), 0xBC, 0x11, byte(i), 0x0A, byte(0x30 + i), 0xE1, 0x00, 0x81}
				return &m
			case 2:
				return &cemi.LRawInd{LRaw: cemi.LRaw{0xBC, 0x11, byte(i), 0x0A, byte(0x40 + i), 0xE1, 0x00, 0x81}}
			}
			return MsgTagged(i)
		}
		layer := []knxnet.TunnelLayer{knxnet.TunnelLayerData, knxnet.TunnelLayerBusmon, knxnet.TunnelLayerRaw}[shape]
		w := vnet.Reset()
		var ep *vnet.Endpoint
		acked := mc.NewChan[int](8, "inboundwire.acked")
		w.OnCreate = func(e *vnet.Endpoint) {
			ep = e
			e.OnWrite = func(wr vnet.WriteRec) {
				var v knxnet.Service
				if _, err := knxnet.Unpack(wr.Data, &v); err != nil {
					return
				}
				switch x := v.(type) {
				case *knxnet.ConnReq:
					e.Inject(pack(&knxnet.ConnRes{Channel: 7, Status: 0, Control: knxnet.HostInfo{Protocol: knxnet.UDP4}}), nil)
				case *knxnet.TunnelRes:
					if x.Channel == 7 && x.Status == 0 {
						mc.Log(GwAcked{int(x.SeqNumber)})
						acked.Send(int(x.SeqNumber))
					}
				}
			}
		}
		t, err := knx.NewTunnel("192.0.2.99:3671", layer, TCfg(100, 350, 100000000))
		if err != nil {
			mc.Log(Note("connect failed: " + err.Error()))
			return
		}
		const n = 3
		lag := mc.Choose(2, mc.Free) // 0: the application reads after all three were acknowledged; 1: it reads each one when the next has been acknowledged
		var have []cemi.Message
		read := func() {
			c0 := mc.RecvC(t.Inbound())
			c1 := mc.RecvC(mc.After(100 * ms))
			if mc.Select(false, c0, c1) == 0 && c0.Ok {
				have = append(have, c0.V)
			}
		}
		for i := 0; i < n; i++ {
			mc.Log(WireSent{i, deepDump(mk(i))})
			ep.Inject(pack(&knxnet.TunnelReq{Channel: 7, SeqNumber: uint8(i), Payload: mk(i)}), nil)
			acked.Recv()
			if lag == 1 && i > 0 {
				read()
			}
		}
		for len(have) < n {
			k := len(have)
			read()
			if len(have) == k {
				break
			}
		}
		for i, m := range have {
			mc.Log(WireGot{i, deepDump(m)})
		}
		t.Close()
		mc.Sleep(1 * ms)
	}
}

// WireSent / WireGot: the i-th telegram the gateway sent / the application holds at the end.
type WireSent struct {
	I    int
	Dump string
}
type WireGot struct {
	I    int
	Dump string
}

func (w WireSent) String() string { return fmt.Sprintf("GW-SENT #%d %s", w.I, w.Dump) }
func (w WireGot) String() string  { return fmt.Sprintf("APP-HOLDS #%d %s", w.I, w.Dump) }

func inboundWireOracle(prop string) func(tr *mc.Trace) []h.Violation {
	return func(tr *mc.Trace) []h.Violation { return inboundWireJudge(prop, tr) }
}

func inboundWireJudge(prop string, tr *mc.Trace) []h.Violation {
	vs := generic(tr, prop, true)
	bad := func(class, format string, a ...interface{}) {
		vs = append(vs, h.Violation{Class: prop + ":" + class, Msg: fmt.Sprintf(format, a...)})
	}
	var sent, got []string
	acks := 0
	for _, e := range tr.Log {
		switch x := e.V.(type) {
		case Note:
			bad("setup", "%s", string(x))
		case WireSent:
			sent = append(sent, x.Dump)
		case WireGot:
			got = append(got, x.Dump)
		case GwAcked:
			acks++
		}
	}
	if tr.Reason != "main-returned" {
		return vs
	}
	if acks != len(sent) {
		bad("inbound-wire:acknowledgements", "the gateway sent %d telegrams stop-and-wait and obtained %d acknowledgements", len(sent), acks)
	}
	// (the order in which waiting telegrams are handed over is C17's subject and known finding; here:
	// each acknowledged telegram exactly once, octet for octet)
	s2, g2 := append([]string{}, sent...), append([]string{}, got...)
	sort.Strings(s2)
	sort.Strings(g2)
	if fmt.Sprint(g2) != fmt.Sprint(s2) {
		bad("inbound-wire:acknowledged-telegrams-differ-from-what-the-application-holds", "acknowledged, in the gateway's order: %v; the application holds: %v", sent, got)
	}
	return vs
}

func init() {
	register("both", &h.Scenario{Name: "C05-fullstack-inbound-stop-and-wait-three-shapes", Prop: "C05", P: 1, F: 0, D: 1, Run: inboundWireRun(), Check: inboundWireOracle("C05")})
	// C04's "delivered exactly once ... no accepted telegram is lost, however slowly the application
	// reads" for telegrams of every shape a tunnel of the matching layer carries
	register("both", &h.Scenario{Name: "C04-fullstack-inbound-stop-and-wait-three-shapes", Prop: "C04", P: 1, F: 0, D: 1, Run: inboundWireRun(), Check: inboundWireOracle("C04")})
	// C17's "handed to the application in the order accepted, whatever the pace at which it reads":
	// what is handed over is what was accepted, for every telegram shape (seeded change C17-l: a
	// bus-monitor / raw frame that aliases the UDP receive buffer shows the latest datagram's octets
	// in every telegram the application still holds)
	register("both", &h.Scenario{Name: "C17-fullstack-inbound-stop-and-wait-three-shapes", Prop: "C17", P: 1, F: 0, D: 1, Run: inboundWireRun(), Check: inboundWireOracle("C17")})
}

// ---- C12: group events after a rejected one ----

// groupRejectRun: four group writes in a row through a group tunnel; the gateway (rule-following:
// it numbers every request it has answered, accepted or not - C03's "consecutive" clause) rejects
// one of them with an error status. The events after the rejected one must still go out as one
// L_Data request each and reach the bus, each once, with their own payload.
func groupRejectRun() func() {
	return func() {
		sock := fakesock.New("udp")
		expected := uint8(0)
		rejectAt := 1 + mc.Choose(2, mc.Free)
		status := []uint8{0x27, 0x29, 0x30}[mc.Choose(3, mc.Free)]
		n := 0
		sock.OnSend = func(s *fakesock.Sent) {
			switch x := s.Svc.(type) {
			case *knxnet.ConnReq:
				sock.Deliver(&knxnet.ConnRes{Channel: 7, Status: 0, Control: knxnet.HostInfo{Protocol: knxnet.UDP4}})
			case *knxnet.TunnelReq:
				switch x.SeqNumber {
				case expected:
					expected++
					if n == rejectAt {
						n++
						sock.Deliver(&knxnet.TunnelRes{Channel: 7, SeqNumber: x.SeqNumber, Status: knxnet.ErrCode(status)})
						return
					}
					n++
					if ld, ok := x.Payload.(*cemi.LDataReq); ok {
						if app, ok := ld.Data.(*cemi.AppData); ok {
							mc.Log(BusEvent{x.SeqNumber, ld.Destination, hex.EncodeToString(app.Data)})
						}
					}
					sock.Deliver(&knxnet.TunnelRes{Channel: 7, SeqNumber: x.SeqNumber, Status: 0})
				case expected - 1:
					sock.Deliver(&knxnet.TunnelRes{Channel: 7, SeqNumber: x.SeqNumber, Status: 0})
				}
			}
		}
		gt, err := knx.NewGroupTunnelOnSocket(sock, TCfg(100, 350, 100000000))
		if err != nil {
			mc.Log(Note("connect failed: " + err.Error()))
			return
		}
		mc.GoEnv("reader", func() {
			for {
				if _, ok := gt.Inbound().Recv2(); !ok {
					return
				}
			}
		})
		for i := 0; i < 4; i++ {
			data := []byte{byte(i + 1), byte(0x50 + i)}
			dst := uint16(0x0B00 + i)
			err := gt.Send(knx.GroupEvent{Command: knx.GroupWrite, Destination: cemi.GroupAddr(dst), Data: data})
			e := errStr(err)
			if i == rejectAt && e != "" {
				e = "" // the rejected event: Send reports the rejection, nothing to judge here
				continue
			}
			mc.Log(GroupSent{dst, hex.EncodeToString(data), e})
		}
		mc.Sleep(10 * ms)
		gt.Close()
	}
}

func groupRejectOracle(tr *mc.Trace) []h.Violation {
	vs := groupSendersOracle(tr)
	for i := range vs {
		vs[i].Class = strings.Replace(vs[i].Class, "C05:", "C12:after-a-rejected-event:", 1)
	}
	return vs
}

func init() {
	register("both", &h.Scenario{Name: "C12-group-writes-after-a-rejected-one", Prop: "C12", P: 0, F: 0, D: -1, Run: groupRejectRun(), Check: groupRejectOracle})
}

// ---- inbound group telegrams that look alike ----

// groupAlikeRun: four group writes from one device to one group address arrive through a group
// tunnel: value 1; value 2 in a frame marked as a bus repetition; the same frame again; value 3 (the
// repeat flag of each chosen by the environment). Each is acknowledged by the client, each targets a
// group address with a group command: each becomes a group event, in that order - how much a
// telegram resembles the one before is not a criterion.
func groupAlikeRun() func() {
	return func() {
		sock := fakesock.New("udp")
		NewGateway(sock, 7)
		gt, err := knx.NewGroupTunnelOnSocket(sock, TCfg(100, 350, 100000000))
		if err != nil {
			mc.Log(Note("connect failed: " + err.Error()))
			return
		}
		flags := mc.Choose(8, mc.Free) // bit i: telegram i+1 is marked as repeated
		vals := []byte{1, 2, 2, 3}
		done := mc.NewChan[int](1, "alike.done")
		mc.GoEnv("app", func() {
			for {
				ev, ok := gt.Inbound().Recv2()
				if !ok {
					done.Send(1)
					return
				}
				mc.Log(GroupRx{uint16(ev.Destination), hex.EncodeToString(ev.Data)})
			}
		})
		for i, v := range vals {
			c1 := cemi.Control1StdFrame | cemi.Control1NoRepeat
			if i > 0 && flags&(1<<(i-1)) != 0 {
				c1 = cemi.Control1StdFrame // repeat flag cleared: "this frame is a repetition"
			}
			m := &cemi.LDataInd{LData: cemi.LData{Control1: c1, Control2: cemi.Control2GroupAddr | cemi.Control2Hops(6),
				Source: 0x1105, Destination: 0x0A03, Data: &cemi.AppData{Command: cemi.GroupValueWrite, Data: []byte{v}}}}
			mc.Log(Injected{i, hex.EncodeToString([]byte{v})})
			sock.Deliver(&knxnet.TunnelReq{Channel: 7, SeqNumber: uint8(i), Payload: m})
			mc.Sleep(5 * ms)
		}
		mc.Sleep(20 * ms)
		gt.Close()
		done.Recv()
	}
}

func groupAlikeOracle(prop string) func(tr *mc.Trace) []h.Violation {
	return func(tr *mc.Trace) []h.Violation {
		vs := generic(tr, prop, true)
		var want, got []string
		for _, e := range tr.Log {
			switch x := e.V.(type) {
			case Injected:
				want = append(want, x.Hex)
			case GroupRx:
				got = append(got, x.Hex)
			case Note:
				vs = append(vs, h.Violation{Class: prop + ":setup", Msg: string(x)})
			}
		}
		if tr.Reason == "main-returned" && fmt.Sprint(got) != fmt.Sprint(want) {
			vs = append(vs, h.Violation{Class: prop + ":group-telegrams-that-look-alike", Msg: fmt.Sprintf("group writes 1.1.5 -> 1/2/3 with values %v were accepted from the gateway (some marked as bus repetitions); group events received: %v", want, got)})
		}
		return vs
	}
}

func init() {
	register("both", &h.Scenario{Name: "C12-inbound-group-writes-that-look-alike", Prop: "C12", P: 0, F: 0, D: -1, Run: groupAlikeRun(), Check: groupAlikeOracle("C12")})
	register("both", &h.Scenario{Name: "C05-inbound-group-writes-that-look-alike", Prop: "C05", P: 0, F: 0, D: -1, Run: groupAlikeRun(), Check: groupAlikeOracle("C05")})
}

// ---- router client: three routing indications of one shape through the real UDP receiver ----

// routerWireRun: as inboundWireRun for the router client (no acknowledgements: the indications
// arrive 1 ms apart); the application reads them afterwards or one behind. What it holds at the end
// is compared octet for octet with what the routers sent (C14: "every received routing indication
// is handed to Inbound exactly once"; C17: handed over as accepted).
func routerWireRun() func() {
	return func() {
		defer logChoice()()
		shape := mc.Choose(3, mc.Free)
		mk := func(i int) cemi.Message {
			switch shape {
			case 1:
				m := cemi.LBusmonInd{0x03, 0x01, byte(i), 0xBC, 0x11, byte(i), 0x0A, byte(0x30 + i), 0xE1, 0x00, 0x81}
				return &m
			case 2:
				return &cemi.LRawInd{LRaw: cemi.LRaw{0xBC, 0x11, byte(i), 0x0A, byte(0x40 + i), 0xE1, 0x00, 0x81}}
			}
			return MsgTagged(i)
		}
		w := vnet.Reset()
		var ep *vnet.Endpoint
		w.OnCreate = func(e *vnet.Endpoint) { ep = e }
		r, err := knx.NewRouter("224.0.23.12:3671", knx.RouterConfig{RetainCount: 2})
		if err != nil {
			mc.Log(Note("router failed: " + err.Error()))
			return
		}
		const n = 3
		lag := mc.Choose(2, mc.Free)
		var have []cemi.Message
		read := func() {
			c0 := mc.RecvC(r.Inbound())
			c1 := mc.RecvC(mc.After(100 * ms))
			if mc.Select(false, c0, c1) == 0 && c0.Ok {
				have = append(have, c0.V)
			}
		}
		for i := 0; i < n; i++ {
			mc.Log(WireSent{i, deepDump(mk(i))})
			ep.Inject(pack(&knxnet.RoutingInd{Payload: mk(i)}), nil)
			mc.Sleep(1 * ms)
			if lag == 1 && i > 0 {
				read()
			}
		}
		for len(have) < n {
			k := len(have)
			read()
			if len(have) == k {
				break
			}
		}
		for i, m := range have {
			mc.Log(WireGot{i, deepDump(m)})
		}
		r.Close()
		mc.Sleep(1 * ms)
	}
}

func routerWireOracle(prop string) func(tr *mc.Trace) []h.Violation {
	return func(tr *mc.Trace) []h.Violation {
		vs := generic(tr, prop, true)
		var sent, got []string
		for _, e := range tr.Log {
			switch x := e.V.(type) {
			case Note:
				vs = append(vs, h.Violation{Class: prop + ":setup", Msg: string(x)})
			case WireSent:
				sent = append(sent, x.Dump)
			case WireGot:
				got = append(got, x.Dump)
			}
		}
		if tr.Reason != "main-returned" {
			return vs
		}
		s2, g2 := append([]string{}, sent...), append([]string{}, got...)
		sort.Strings(s2)
		sort.Strings(g2)
		if fmt.Sprint(g2) != fmt.Sprint(s2) {
			vs = append(vs, h.Violation{Class: prop + ":inbound-wire:received-indications-differ-from-what-the-application-holds", Msg: fmt.Sprintf("routing indications received, in order: %v; the application holds: %v", sent, got)})
		}
		return vs
	}
}

func init() {
	register("both", &h.Scenario{Name: "C17-fullstack-router-inbound-three-shapes", Prop: "C17", P: 1, F: 0, D: 1, Run: routerWireRun(), Check: routerWireOracle("C17")})
	register("both", &h.Scenario{Name: "C14-fullstack-router-inbound-three-shapes", Prop: "C14", P: 1, F: 0, D: 1, Run: routerWireRun(), Check: routerWireOracle("C14")})
}
