//go:build verif

package scen

import (
	"encoding/hex"
	"fmt"

	"github.com/vapourismo/knx-go/knx"
	"github.com/vapourismo/knx-go/knx/knxnet"
	"github.com/vapourismo/knx-go/verifmc/mc"
	"github.com/vapourismo/knx-go/verifmc/vnet"
	"verifh/harness/h"
)

// Acknowledgements as datagrams through the real socket layer (C03 / C05). The struct-passing
// socket double hands every acknowledgement to the client as an object of its own; the real UDP
// receiver decodes datagram after datagram, so whatever it does with the objects it decodes into is
// only visible here. The gateway (twin: accepts the expected number on channel 7, repeats its
// acknowledgement for the previous one, ignores everything else) answers Send #0 at once; then the
// network delivers, while no Send is outstanding, a menu of further acknowledgement datagrams: a
// duplicate of the one just consumed, followed or not by acknowledgements that the client must
// ignore (another connection's channel, carrying the next number; the own channel with a number
// that has not been used). Send #1 follows within the resend interval; its first transmission is
// lost. It can only succeed by its retransmission being acknowledged.

// BusPut is logged when the gateway twin accepts a request (puts the telegram on the bus).
type BusPut struct {
	Seq uint8
	ID  int
}

func (b BusPut) String() string { return fmt.Sprintf("BUS seq=%d id=%d", b.Seq, b.ID) }

// AckInjected is logged for every acknowledgement datagram the environment sends.
type AckInjected struct {
	Ch, Seq, Status uint8
	Why             string
}

func (a AckInjected) String() string {
	return fmt.Sprintf("ACK-INJECTED ch=%d seq=%d status=%d (%s)", a.Ch, a.Seq, a.Status, a.Why)
}

func wireAcksRun() func() {
	return func() {
		defer logChoice()()
		w := vnet.Reset()
		var ep *vnet.Endpoint
		expected := uint8(0)
		seen1 := 0
		ack := func(ch, seq, st uint8, why string) {
			mc.Log(AckInjected{ch, seq, st, why})
			ep.Inject(pack(&knxnet.TunnelRes{Channel: ch, SeqNumber: seq, Status: knxnet.ErrCode(st)}), nil)
		}
		w.OnCreate = func(e *vnet.Endpoint) {
			ep = e
			e.OnWrite = func(wr vnet.WriteRec) {
				mc.Log(Wrote{hex.EncodeToString(wr.Data)})
				var v knxnet.Service
				if _, err := knxnet.Unpack(wr.Data, &v); err != nil {
					return
				}
				switch x := v.(type) {
				case *knxnet.ConnReq:
					e.Inject(pack(&knxnet.ConnRes{Channel: 7, Status: 0, Control: knxnet.HostInfo{Protocol: knxnet.UDP4}}), nil)
				case *knxnet.TunnelReq:
					if x.Channel != 7 {
						return
					}
					if x.SeqNumber == 1 {
						seen1++
						if seen1 == 1 {
							return // lost on the way to the gateway
						}
					}
					switch x.SeqNumber {
					case expected:
						mc.Log(BusPut{x.SeqNumber, MsgID(x.Payload)})
						expected++
						ack(7, x.SeqNumber, 0, "accepted")
					case expected - 1:
						ack(7, x.SeqNumber, 0, "repetition")
					}
				}
			}
		}
		t, err := knx.NewTunnel("192.0.2.99:3671", knxnet.TunnelLayerData, TCfg(100, 350, 100000000))
		if err != nil {
			mc.Log(Note("connect failed: " + err.Error()))
			return
		}
		mc.GoEnv("reader", func() {
			for {
				if _, ok := t.Inbound().Recv2(); !ok {
					return
				}
			}
		})
		send := func(i int) {
			mc.Log(Call{"Send", i})
			t0 := mc.Now()
			err := t.Send(Msg(i))
			mc.Log(Ret{"Send", i, errStr(err), t0})
		}
		send(0)
		mc.Sleep(1 * ms)
		if mc.Choose(2, mc.Free) == 1 {
			ack(7, 0, 0, "network duplicate")
			mc.Sleep(1 * ms)
		}
		switch mc.Choose(5, mc.Free) {
		case 1:
			ack(9, 1, 0, "another connection's acknowledgement")
		case 2:
			ack(9, 1, 0, "another connection's acknowledgement")
			ack(9, 1, 0, "another connection's acknowledgement")
		case 3:
			ack(9, 0, 0, "another connection's acknowledgement")
		case 4:
			ack(7, 0, 0, "second network duplicate")
			ack(9, 1, 0x29, "another connection's acknowledgement")
		}
		mc.Sleep(1 * ms)
		send(1)
		mc.Sleep(5 * ms)
		send(2)
		mc.Sleep(20 * ms)
		t.Close()
		mc.Sleep(1 * ms)
	}
}

func wireAcksOracle(prop string) func(tr *mc.Trace) []h.Violation {
	return func(tr *mc.Trace) []h.Violation {
		vs := generic(tr, prop, true)
		bad := func(class, format string, a ...interface{}) {
			vs = append(vs, h.Violation{Class: prop + ":" + class, Msg: fmt.Sprintf(format, a...)})
		}
		bus := map[int]int{}
		ownAck := map[uint8]bool{} // own-channel acknowledgements with status OK injected so far, by number
		var hist []string
		for _, e := range tr.Log {
			switch x := e.V.(type) {
			case Note:
				bad("fullstack-setup", "%s", string(x))
			case BusPut:
				bus[x.ID]++
				hist = append(hist, x.String())
			case AckInjected:
				if x.Ch == 7 && x.Status == 0 {
					ownAck[x.Seq] = true
				}
				hist = append(hist, x.String())
			case Call:
				hist = append(hist, fmt.Sprintf("Send(%d) called", x.ID))
			case Ret:
				if x.Call != "Send" {
					continue
				}
				hist = append(hist, fmt.Sprintf("Send(%d) returned %q", x.ID, x.Err))
				if x.Err != "" {
					bad("wire-send-failed", "Send(%d) failed with %q although the gateway acknowledges every request it receives (the first transmission of request 1 is lost, its retransmission is answered); history: %v", x.ID, x.Err, hist)
					continue
				}
				// the application's Send number i carries sequence number i here
				if !ownAck[uint8(x.ID)] {
					bad("success-without-own-ack", "Send(%d) returned success, but no acknowledgement with the connection's channel, number %d and status OK had been sent to the client by then; history: %v", x.ID, x.ID, hist)
				}
				if bus[x.ID] != 1 {
					bad("success-not-on-bus-once", "Send(%d) returned success; the gateway put that telegram on the bus %d times; history: %v", x.ID, bus[x.ID], hist)
				}
			}
		}
		return vs
	}
}

func init() {
	register("both", &h.Scenario{Name: "C03-fullstack-acknowledgement-datagrams-while-idle", Prop: "C03", P: 1, F: 0, D: 1, Run: wireAcksRun(), Check: wireAcksOracle("C03")})
	register("both", &h.Scenario{Name: "C05-fullstack-acknowledgement-datagrams-while-idle", Prop: "C05", P: 1, F: 0, D: 1, Run: wireAcksRun(), Check: wireAcksOracle("C05")})
}
