//go:build verif

package scen

import (
	"fmt"
	"sort"
	"strings"

	"github.com/vapourismo/knx-go/knx"
	"github.com/vapourismo/knx-go/knx/cemi"
	"github.com/vapourismo/knx-go/knx/knxnet"
	"github.com/vapourismo/knx-go/verifmc/mc"
	"verifh/harness/fakesock"
	"verifh/harness/h"
)

// C03 — the tunnel sender is stop-and-wait.
//
// The oracle is wire-level and implementation-agnostic: it sees the TunnelReq frames that left the
// socket (with virtual timestamps), the acknowledgements the harness delivered (AckInj) and the
// returns of Send (Ret). Clauses (DESIGN §5 C03):
//   (i)   one request in flight: between the first transmission of a request and the return of its
//         Send no different request leaves the socket;
//   (ii)  retransmissions are identical to the first transmission and occur exactly at t0+k·R
//         strictly before the return (an instant equal to the return instant is a tie: either);
//   (iii) Send returns at the first instant a matching acknowledgement (channel, the request's
//         sequence number) is available to it; an acknowledgement delivered at ta is available
//         during [ta, ta+R]; the result is success iff the consumed acknowledgement has status 0;
//         nothing else influences outcome or timing;
//   (iv)  without one, Send fails with a timeout exactly T after the first transmission;
//   (v)   the sequence number of a request equals the number of previously acknowledged requests
//         modulo 256;
//   (vi)  TCP: one transmission per Send, sequence number 0, return at the same instant.

// AckInj is logged whenever the gateway side hands an acknowledgement to the client's socket.
type AckInj struct {
	Ch, Seq, St uint8
}

func (a AckInj) String() string {
	return fmt.Sprintf("INJ TunnelRes ch=%d seq=%d st=%#x", a.Ch, a.Seq, a.St)
}

type c03Params struct {
	R, T        int
	senders     int // concurrent sender goroutines
	perSender   int // Sends per sender
	tcp         bool
	prefix      int  // acknowledged Sends before exploration starts (wrap)
	menu        bool // gateway answer menu (faults) per transmission
	pauses      bool // application pause between sequential Sends chosen from {0, R/2, 3R}
	lossOnly    bool // menu reduced to {ack, lose}
	flat        int  // flat run: that many extra Sends at the default schedule, no choices
	ackWhatever bool
	group       bool // send through GroupTunnel.Send (the frame is built by the group layer)
	conf        bool // the gateway tunnels an L_Data.con for every telegram it has acknowledged; the first transmission of every later request is lost
	everyPair   bool // the first transmission is answered with status OK for every (channel, number) in turn
	allStatus   bool // the first request is acknowledged with an error status, every one of the 255 in turn
}

const c03Channel = 7

func c03Deliver(sock *fakesock.Sock, ch, seq, st uint8) {
	mc.Log(AckInj{ch, seq, st})
	sock.Deliver(&knxnet.TunnelRes{Channel: ch, SeqNumber: seq, Status: knxnet.ErrCode(st)})
}

func c03Later(sock *fakesock.Sock, d mc.Duration, ch, seq, st uint8) {
	After(d, "late-ack", func() { c03Deliver(sock, ch, seq, st) })
}

func c03Run(p c03Params) func() {
	return func() {
		network := "udp"
		if p.tcp {
			network = "tcp"
		}
		R, T := mc.Duration(p.R)*ms, mc.Duration(p.T)*ms
		if p.allStatus || p.everyPair {
			defer logChoice()()
		}
		sock := fakesock.New(network)
		gw := NewGateway(sock, c03Channel)
		firstTx := map[string]mc.Duration{}
		menu := p.menu
		errStatusSent := false
		txs := map[string]int{}
		confSeq := uint8(0)
		gw.OnTunnelReq = func(req *knxnet.TunnelReq, s *fakesock.Sent) {
			if p.tcp {
				return
			}
			key := fakesock.PayloadID(req.Payload)
			if _, ok := firstTx[key]; !ok {
				firstTx[key] = s.T
			}
			ch, seq := req.Channel, req.SeqNumber
			if p.conf {
				// a gateway reports what became of a telegram with a confirmation frame of its own (an
				// inbound tunnelling request carrying L_Data.con): that is a telegram for the
				// application, not an acknowledgement of anything
				txs[key]++
				if len(txs) > 1 && txs[key] == 1 {
					return // lost on the way
				}
				c03Deliver(sock, ch, seq, 0)
				if txs[key] == 1 || len(txs) > 1 {
					var ld cemi.LData
					switch m := req.Payload.(type) {
					case *cemi.LDataReq:
						ld = m.LData
					case *cemi.LDataInd:
						ld = m.LData
					}
					sock.Deliver(&knxnet.TunnelReq{Channel: ch, SeqNumber: confSeq, Payload: &cemi.LDataCon{LData: ld}})
					confSeq++
				}
				return
			}
			if p.everyPair && !errStatusSent {
				// "every status / channel / sequence-number combination": all 65536 (channel, number)
				// pairs with status OK; only (connection's channel, request's number) may end the Send
				errStatusSent = true
				pair := mc.Choose(65536, mc.Free)
				c03Deliver(sock, uint8(pair>>8), uint8(pair), 0)
				return
			}
			if p.allStatus && !errStatusSent {
				// "acknowledgements with every status": codes the standard defines, and all the others
				errStatusSent = true
				c03Deliver(sock, ch, seq, uint8(1+mc.Choose(255, mc.Free)))
				return
			}
			if !menu {
				c03Deliver(sock, ch, seq, 0)
				return
			}
			n := 13
			if p.lossOnly {
				n = 2
			}
			switch mc.Choose(n, mc.Fault) {
			case 0:
				c03Deliver(sock, ch, seq, 0)
			case 1: // lost
			case 2:
				c03Deliver(sock, ch, seq+1, 0)
			case 3:
				c03Deliver(sock, ch, seq-1, 0)
			case 4:
				c03Deliver(sock, ch+1, seq, 0)
			case 5:
				c03Deliver(sock, ch, seq, 0x29)
			case 6:
				c03Deliver(sock, ch, seq, 0)
				c03Deliver(sock, ch, seq, 0)
			case 7:
				c03Later(sock, R/2, ch, seq, 0)
			case 8:
				c03Later(sock, R, ch, seq, 0)
			case 9:
				c03Later(sock, R+1*ms, ch, seq, 0)
			case 10: // exactly at the timeout instant of this Send
				c03Later(sock, firstTx[key]+T-s.T, ch, seq, 0)
			case 11: // error and OK acknowledgement at the same instant
				c03Deliver(sock, ch, seq, 0x21)
				c03Deliver(sock, ch, seq, 0)
			case 12: // OK now, and a stale copy that lands in a later exchange
				c03Deliver(sock, ch, seq, 0)
				c03Later(sock, 3*R/2, ch, seq, 0)
			}
		}
		cfg := TCfg(p.R, p.T, 100000000)
		cfg.UseTCP = p.tcp
		if p.tcp {
			// an option that has nothing to do with the exchange: whether the connect request
			// advertises the local address
			cfg.SendLocalAddress = mc.Choose(2, mc.Free) == 1
		}
		gt, err := knx.NewGroupTunnelOnSocket(sock, cfg)
		if err != nil {
			mc.Log(Note("connect failed: " + err.Error()))
			return
		}
		t := &c03Sender{gt: &gt, group: p.group}
		id := 0
		if p.prefix > 0 {
			mc.SetQuiet(true)
			menu = false
			for i := 0; i < p.prefix; i++ {
				t0 := mc.Now()
				err := t.Send(Msg(1000 + i))
				mc.Log(Ret{"Send", 1000 + i, errStr(err), t0})
				mc.Sleep(T + 1*ms) // let this exchange's timers expire (they would all tie later)
			}
			menu = p.menu
			mc.SetQuiet(false)
		}
		done := mc.NewChan[int](p.senders, "c03.done")
		for sidx := 0; sidx < p.senders; sidx++ {
			base := id
			id += p.perSender
			body := func() {
				for k := 0; k < p.perSender; k++ {
					if p.pauses && k > 0 {
						switch mc.Choose(3, mc.Free) {
						case 1:
							mc.Sleep(R / 2)
						case 2:
							mc.Sleep(3 * R)
						}
					}
					t0 := mc.Now()
					err := t.Send(Msg(base + k))
					mc.Log(Ret{"Send", base + k, errStr(err), t0})
				}
				done.Send(1)
			}
			if p.senders == 1 {
				body()
			} else {
				mc.GoEnv(fmt.Sprintf("sender%d", sidx), body)
			}
		}
		for sidx := 0; sidx < p.senders; sidx++ {
			done.Recv()
		}
		if p.flat > 0 {
			mc.SetQuiet(true)
			menu = false
			for i := 0; i < p.flat; i++ {
				t0 := mc.Now()
				err := t.Send(Msg(2000 + i))
				mc.Log(Ret{"Send", 2000 + i, errStr(err), t0})
				if i%8 == 7 {
					mc.Sleep(T + 1*ms)
				}
			}
			mc.SetQuiet(false)
		}
		// let late acknowledgements land while nothing is pending, then stop
		mc.Sleep(T + 3*R)
		t.Close()
	}
}

// c03Sender sends telegram number id either as a ready-made cEMI message through Tunnel.Send or as
// a group event through GroupTunnel.Send (the id travels in the destination address either way).
type c03Sender struct {
	gt    *knx.GroupTunnel
	group bool
}

func (s *c03Sender) Send(m cemi.Message) error {
	if !s.group {
		return s.gt.Tunnel.Send(m)
	}
	id := MsgID(m)
	return s.gt.Send(knx.GroupEvent{Command: knx.GroupWrite, Source: 0x1101, Destination: cemi.GroupAddr(id), Data: []byte{byte(id & 63), byte(id)}})
}

func (s *c03Sender) Close() { s.gt.Close() }

type c03Req struct {
	id      int
	seq, ch uint8
	txs     []mc.Duration
	txIdx   []int // log positions
	bytes   [][]byte
	ret     mc.Duration
	retIdx  int
	hasRet  bool
	err     string
}

type c03Ack struct {
	t       mc.Duration
	ch, seq uint8
	st      uint8
	idx     int
}

func c03Oracle(p c03Params) func(tr *mc.Trace) []h.Violation {
	R, T := mc.Duration(p.R)*ms, mc.Duration(p.T)*ms
	return func(tr *mc.Trace) []h.Violation {
		vs := generic(tr, "C03", true)
		reqs := map[int]*c03Req{}
		var order []*c03Req
		var acks []c03Ack
		var current *c03Req
		bad := func(class, format string, a ...interface{}) {
			vs = append(vs, h.Violation{Class: "C03:" + class, Msg: fmt.Sprintf(format, a...)})
		}
		for i, e := range tr.Log {
			switch x := e.V.(type) {
			case fakesock.Sent:
				tq, ok := x.Svc.(*knxnet.TunnelReq)
				if !ok || x.Err != nil {
					continue
				}
				id := MsgID(tq.Payload)
				r := reqs[id]
				if r == nil {
					r = &c03Req{id: id, seq: tq.SeqNumber, ch: tq.Channel}
					reqs[id] = r
					order = append(order, r)
				}
				if r.hasRet {
					bad("transmission-after-return", "request id=%d transmitted at %v after its Send returned at %v", id, e.T, r.ret)
				}
				if current != nil && current != r && !current.hasRet {
					bad("two-in-flight", "request id=%d (seq %d) left the socket at %v while request id=%d (seq %d, first sent %v) was still unacknowledged and its Send had not returned", id, tq.SeqNumber, e.T, current.id, current.seq, current.txs[0])
				}
				current = r
				if tq.SeqNumber != r.seq || tq.Channel != r.ch {
					bad("retransmission-differs", "request id=%d first sent as (ch %d, seq %d), repeated as (ch %d, seq %d)", id, r.ch, r.seq, tq.Channel, tq.SeqNumber)
				}
				if len(r.bytes) > 0 && string(r.bytes[0]) != string(x.Bytes) {
					bad("retransmission-differs", "request id=%d: repetition bytes % x differ from first transmission % x", id, x.Bytes, r.bytes[0])
				}
				r.txs = append(r.txs, e.T)
				r.txIdx = append(r.txIdx, i)
				r.bytes = append(r.bytes, x.Bytes)
			case Ret:
				if x.Call != "Send" {
					continue
				}
				r := reqs[x.ID]
				if r == nil {
					// Send returned without transmitting anything
					r = &c03Req{id: x.ID}
					reqs[x.ID] = r
					bad("send-without-transmission", "Send of id=%d returned %q without any transmission", x.ID, x.Err)
				}
				r.hasRet, r.ret, r.retIdx, r.err = true, e.T, i, x.Err
			case AckInj:
				acks = append(acks, c03Ack{e.T, x.Ch, x.Seq, x.St, i})
			}
		}
		if p.tcp {
			for _, r := range order {
				if len(r.txs) != 1 || r.seq != 0 || !r.hasRet || r.ret != r.txs[0] || r.err != "" {
					bad("tcp", "TCP Send id=%d: %d transmissions, seq %d, returned %q at %v (sent %v); want exactly one transmission, seq 0, immediate success", r.id, len(r.txs), r.seq, r.err, r.ret, r.txs)
				}
			}
			return vs
		}
		acked := 0 // requests acknowledged so far (clause v)
		for ri, r := range order {
			if len(r.txs) == 0 {
				continue
			}
			t0 := r.txs[0]
			if !r.hasRet {
				bad("send-never-returned", "Send of id=%d (first sent %v) had not returned when the scenario ended at %v", r.id, t0, tr.End)
				continue
			}
			if r.ch != c03Channel {
				bad("wrong-channel", "request id=%d carries channel %d, connection has %d", r.id, r.ch, c03Channel)
			}
			// (v)
			if r.seq != uint8(acked) {
				bad("sequence-number", "request id=%d carries sequence number %d; %d requests were acknowledged before it, so it must carry %d", r.id, r.seq, acked, uint8(acked))
			}
			// (iv) upper bound
			if r.ret > t0+T {
				bad("late-return", "Send id=%d first transmitted %v returned %v, later than the response timeout %v", r.id, t0, r.ret, T)
			}
			// (iii) availability analysis
			// An acknowledgement on offer while an earlier Send was waiting was taken by that Send
			// (as its own, or dropped as a mismatch); at an instant shared with that Send's start or
			// return either order is possible.
			gone := func(a c03Ack) (definitely, possibly bool) {
				for _, q := range order[:ri] {
					if len(q.txs) == 0 || !q.hasRet {
						continue
					}
					at := a.t
					if q.txs[0] > at {
						at = q.txs[0]
					}
					if at < q.ret && a.t+R > q.txs[0] {
						return true, true
					}
					if at <= q.ret && a.t+R >= q.txs[0] {
						possibly = true
					}
				}
				return false, possibly
			}
			var strict, loose []c03Ack
			for _, a := range acks {
				if a.ch != c03Channel || a.seq != r.seq {
					continue
				}
				def, poss := gone(a)
				if def {
					continue
				}
				if a.t+R >= t0 && a.t <= t0+T {
					loose = append(loose, a)
					if a.t+R > t0 && a.t < t0+T && !poss {
						strict = append(strict, a)
					}
				}
			}
			at := func(a c03Ack) mc.Duration {
				if a.t < t0 {
					return t0
				}
				return a.t
			}
			rStrict := t0 + T
			for _, a := range strict {
				if at(a) < rStrict {
					rStrict = at(a)
				}
			}
			timeout := strings.Contains(r.err, "timeout")
			switch {
			case r.ret > rStrict:
				bad("ack-not-consumed", "Send id=%d (seq %d, first sent %v) returned %q at %v although a matching acknowledgement was available to it from %v", r.id, r.seq, t0, r.err, r.ret, rStrict)
			case timeout:
				if r.ret != t0+T {
					bad("timeout-instant", "Send id=%d timed out at %v; first transmission %v + response timeout %v = %v", r.id, r.ret, t0, T, t0+T)
				}
				if len(strict) > 0 {
					// covered by ack-not-consumed unless the only strict ack is at exactly ret, impossible (a.t < t0+T)
				}
			default:
				// must be explained by a possibly-available matching ack present at ret
				okStatus := map[uint8]bool{}
				for _, a := range loose {
					if at(a) <= r.ret && r.ret <= a.t+R {
						okStatus[a.st] = true
					}
				}
				if len(okStatus) == 0 {
					cls := "success-without-ack"
					if r.err != "" {
						cls = "failure-without-ack"
					}
					bad(cls, "Send id=%d (seq %d, first sent %v) returned %q at %v but no acknowledgement with channel %d and sequence number %d was available then (delivered acknowledgements: %v)", r.id, r.seq, t0, r.err, r.ret, c03Channel, r.seq, acks)
				} else if r.err == "" && !okStatus[0] {
					bad("success-on-error-status", "Send id=%d returned success at %v but every matching acknowledgement available then carried an error status", r.id, r.ret)
				} else if r.err != "" {
					nonzero := false
					for s := range okStatus {
						if s != 0 {
							nonzero = true
						}
					}
					if !nonzero {
						bad("failure-on-ok-ack", "Send id=%d returned %q at %v although the matching acknowledgement available then had status OK", r.id, r.err, r.ret)
					}
				}
				// earliest possible return must not be undercut
				first := t0 + T
				for _, a := range loose {
					if at(a) < first {
						first = at(a)
					}
				}
				if r.ret < first {
					bad("early-return", "Send id=%d returned at %v before any matching acknowledgement was available (%v)", r.id, r.ret, first)
				}
				acked++
			}
			// (ii) retransmission instants
			want := map[mc.Duration]bool{}
			for k := 1; t0+mc.Duration(k)*R <= r.ret; k++ {
				want[t0+mc.Duration(k)*R] = true
			}
			seen := map[mc.Duration]int{}
			for _, x := range r.txs[1:] {
				seen[x]++
			}
			for x, n := range seen {
				if !want[x] || n > 1 {
					bad("retransmission-instant", "request id=%d (first sent %v, Send returned %v): %d retransmission(s) at %v; retransmissions belong at first+k*%v only", r.id, t0, r.ret, n, x, R)
				}
			}
			var missing []string
			for x := range want {
				if seen[x] == 0 && x < r.ret {
					missing = append(missing, x.String())
				}
			}
			if len(missing) > 0 {
				sort.Strings(missing)
				bad("retransmission-missing", "request id=%d (first sent %v, Send returned %v at %q): no retransmission at %v", r.id, t0, r.ret, r.err, missing)
			}
		}
		return vs
	}
}

// c03AcrossReconnect: a Send is unacknowledged when the gateway ends the connection and the client
// reconnects; an acknowledgement for (new channel, 0) arrives while that Send still waits. The Send
// must not succeed through it (it carries neither its request's channel nor its number), and the
// first request after the reconnect starts at 0 on the new channel.
func c03AcrossReconnect() func() {
	return func() {
		sock := fakesock.New("udp")
		gw := NewGateway(sock, c03Channel)
		acked := map[int]bool{}
		gw.OnTunnelReq = func(req *knxnet.TunnelReq, s *fakesock.Sent) {
			id := MsgID(req.Payload)
			if id == 1 {
				return // the second telegram is never acknowledged
			}
			if !acked[id] {
				acked[id] = true
				c03Deliver(sock, req.Channel, req.SeqNumber, 0)
			}
		}
		t, err := knx.NewTunnelOnSocket(sock, knxnet.TunnelLayerData, TCfg(100, 350, 100000000))
		if err != nil {
			return
		}
		gw.NextChannel = c03Channel + 1
		send := func(id int) {
			t0 := mc.Now()
			err := t.Send(Msg(id))
			mc.Log(Ret{"Send", id, errStr(err), t0})
		}
		send(0)
		mc.GoEnv("gateway-events", func() {
			mc.Sleep(mc.Duration(30+40*mc.Choose(3, mc.Free)) * ms)
			mc.Log(Note("disconnect request"))
			sock.Deliver(&knxnet.DiscReq{Channel: c03Channel})
			mc.Sleep(mc.Duration(10+50*mc.Choose(2, mc.Free)) * ms)
			stray := mc.Choose(3, mc.Free) // acknowledgement (new channel, 0): none / OK / error status
			if stray > 0 {
				st := uint8(0)
				if stray == 2 {
					st = 0x29
				}
				c03Deliver(sock, c03Channel+1, 0, st)
			}
		})
		// a second application goroutine calls Send while telegram 1 is pending: it queues behind it
		// and makes its first transmission after the reconnect - on the new channel
		done5 := mc.NewChan[int](1, "c03.done5")
		mc.GoEnv("app2", func() {
			mc.Sleep(3 * ms)
			send(5)
			done5.Send(1)
		})
		mc.Sleep(1 * ms)
		send(1) // pending across the reconnect
		done5.Recv()
		mc.Sleep(500 * ms)
		send(2)
		send(3)
		mc.Sleep(500 * ms)
		t.Close()
	}
}

func c03AcrossReconnectOracle(tr *mc.Trace) []h.Violation {
	vs := generic(tr, "C03", true)
	bad := func(class, format string, a ...interface{}) {
		vs = append(vs, h.Violation{Class: "C03:" + class, Msg: fmt.Sprintf(format, a...)})
	}
	reconnected := mc.Duration(-1)
	var afterSeqs []uint8
	seen := map[int]bool{}
	for _, e := range tr.Log {
		switch x := e.V.(type) {
		case fakesock.Sent:
			switch y := x.Svc.(type) {
			case *knxnet.ConnReq:
				if e.T > 0 {
					reconnected = e.T
				}
			case *knxnet.TunnelReq:
				id := MsgID(y.Payload)
				if id == 5 && !seen[id] {
					// (its sequence number is not judged: it may run before the counter is reset, which
					// is the known finding of C09)
					seen[id] = true
					if reconnected >= 0 && y.Channel != c03Channel+1 {
						bad("stale-channel:queued-send", "request id=5, queued behind the pending Send and first transmitted at %v, after the reconnect at %v, carries channel %d; the connection's channel is %d", e.T, reconnected, y.Channel, c03Channel+1)
					}
					continue
				}
				if id >= 2 && !seen[id] {
					seen[id] = true
					if y.Channel != c03Channel+1 {
						bad("stale-channel-after-reconnect", "request id=%d sent at %v carries channel %d; the reconnect assigned %d", id, e.T, y.Channel, c03Channel+1)
					}
					afterSeqs = append(afterSeqs, y.SeqNumber)
				}
			}
		case Ret:
			if x.Call == "Send" && x.ID == 1 && x.Err == "" {
				bad("success-without-ack:across-reconnect", "Send of telegram 1 (request channel %d, sequence number 1) reported success although no acknowledgement for that channel and number was ever delivered; the only acknowledgement around was for the new connection (channel %d, number 0)", c03Channel, c03Channel+1)
			}
			// (telegram 5 is not judged here: queued behind telegram 1 it holds the sender's lock while the
			// connection server waits for that lock and reads no acknowledgements - C09's known finding)
			if x.Call == "Send" && x.ID >= 2 && x.ID != 5 && x.Err != "" {
				bad("send-fails-after-reconnect", "Send of telegram %d after the reconnect failed: %s", x.ID, x.Err)
			}
		}
	}
	if tr.Reason != "main-returned" || reconnected < 0 {
		return vs
	}
	if fmt.Sprint(afterSeqs) != fmt.Sprint([]uint8{0, 1}) {
		bad("sequence-not-restarted", "the requests sent after the reconnect carry the sequence numbers %v; numbering must restart at 0 and continue consecutively", afterSeqs)
	}
	return vs
}

func init() {
	register("both", &h.Scenario{Name: "C03-S6-send-pending-across-reconnect", Prop: "C03", P: 2, F: 0, D: 2, Run: c03AcrossReconnect(), Check: c03AcrossReconnectOracle})
	s1 := c03Params{R: 100, T: 350, senders: 1, perSender: 2, menu: true, pauses: true}
	register("both", &h.Scenario{Name: "C03-S1-menu-2sends-F2", Prop: "C03", P: 1, F: 2, D: 1, Run: c03Run(s1), Check: c03Oracle(s1)})
	s1b := c03Params{R: 100, T: 100, senders: 1, perSender: 2, menu: true, pauses: true}
	register("both", &h.Scenario{Name: "C03-S1-menu-T=R-F2", Prop: "C03", P: 1, F: 2, D: 1, Run: c03Run(s1b), Check: c03Oracle(s1b)})
	s1c := c03Params{R: 100, T: 350, senders: 1, perSender: 3, menu: true, pauses: true}
	register("thorough", &h.Scenario{Name: "C03-S1-menu-3sends-F3", Prop: "C03", P: 1, F: 3, D: 1, Run: c03Run(s1c), Check: c03Oracle(s1c)})
	s1d := c03Params{R: 100, T: 350, senders: 1, perSender: 1, menu: true}
	register("thorough", &h.Scenario{Name: "C03-S1-menu-1send-allF", Prop: "C03", P: 2, F: 4, D: 2, Run: c03Run(s1d), Check: c03Oracle(s1d)})
	s2 := c03Params{R: 100, T: 350, senders: 2, perSender: 2, menu: true, lossOnly: true}
	register("both", &h.Scenario{Name: "C03-S2-2senders-loss", Prop: "C03", P: 2, F: 1, D: 2, Run: c03Run(s2), Check: c03Oracle(s2)})
	s2b := c03Params{R: 100, T: 350, senders: 3, perSender: 1, menu: true}
	register("both", &h.Scenario{Name: "C03-S2-3senders-menu-F1", Prop: "C03", P: 1, F: 1, D: 1, Run: c03Run(s2b), Check: c03Oracle(s2b)})
	s2c := c03Params{R: 100, T: 350, senders: 3, perSender: 2, menu: true, lossOnly: true}
	register("thorough", &h.Scenario{Name: "C03-S2-3senders-2each-loss-P3", Prop: "C03", P: 3, F: 2, D: 3, Run: c03Run(s2c), Check: c03Oracle(s2c)})
	s3 := c03Params{R: 100, T: 350, senders: 1, perSender: 3, menu: true, prefix: 254}
	register("both", &h.Scenario{Name: "C03-S3-wrap254+3sends-F1", Prop: "C03", P: 1, F: 1, D: 1, Run: c03Run(s3), Check: c03Oracle(s3)})
	s3b := c03Params{R: 100, T: 350, senders: 1, perSender: 3, menu: true, prefix: 254}
	register("thorough", &h.Scenario{Name: "C03-S3-wrap254+3sends-F2", Prop: "C03", P: 1, F: 2, D: 1, Run: c03Run(s3b), Check: c03Oracle(s3b)})
	fl := c03Params{R: 100, T: 350, senders: 8, perSender: 2, flat: 584}
	register("both", &h.Scenario{Name: "C03-flat-8senders-600sends", Prop: "C03", P: 0, F: 0, D: -1, Run: c03Run(fl), Check: c03Oracle(fl)})
	sg := c03Params{R: 100, T: 350, senders: 2, perSender: 2, menu: true, lossOnly: true, group: true}
	register("both", &h.Scenario{Name: "C03-S2-group-tunnel-2senders-loss", Prop: "C03", P: 2, F: 2, D: 2, Run: c03Run(sg), Check: c03Oracle(sg)})
	as := c03Params{R: 100, T: 350, senders: 1, perSender: 2, allStatus: true}
	register("both", &h.Scenario{Name: "C03-every-error-status-in-the-acknowledgement", Prop: "C03", P: 0, F: 0, D: -1, Run: c03Run(as), Check: c03Oracle(as)})
	cf := c03Params{R: 100, T: 350, senders: 1, perSender: 3, conf: true, pauses: true}
	register("both", &h.Scenario{Name: "C03-confirmation-frames-between-sends", Prop: "C03", P: 1, F: 0, D: 1, Run: c03Run(cf), Check: c03Oracle(cf)})
	ep := c03Params{R: 100, T: 350, senders: 1, perSender: 2, everyPair: true}
	register("both", &h.Scenario{Name: "C03-every-channel-and-number-in-the-acknowledgement", Prop: "C03", P: 0, F: 0, D: -1, Run: c03Run(ep), Check: c03Oracle(ep)})
	s5 := c03Params{R: 100, T: 350, senders: 3, perSender: 2, tcp: true}
	register("both", &h.Scenario{Name: "C03-S5-tcp-3senders", Prop: "C03", P: 2, F: 0, D: 2, Run: c03Run(s5), Check: c03Oracle(s5)})
}
