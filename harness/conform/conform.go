//go:build verif

// Package conform binds the TLA+ model TunnelLink.tla to the code: it drives the real (rewritten)
// tunnel client along paths of the model's state graph under the controlled scheduler and, after
// every step, compares what the client did (frames emitted, Sends returned, telegrams accepted)
// with the model's next state. The gateway side is a Go twin of the model's gateway that uses the
// real modulus-256 numbering.
package conform

import (
	"encoding/json"
	"fmt"
	"os"
	"strings"
	"time"

	"github.com/vapourismo/knx-go/knx"
	"github.com/vapourismo/knx-go/knx/cemi"
	"github.com/vapourismo/knx-go/knx/knxnet"
	"github.com/vapourismo/knx-go/verifmc/mc"
	"verifh/harness/fakesock"
)

const ms = time.Millisecond

// State is the part of a model state the replayer needs.
type State struct {
	Phase    int     `json:"phase"`
	Period   int     `json:"period"`
	Last     []int   `json:"last"`
	Csnd     []int   `json:"csnd"`
	Gsnd     []int   `json:"gsnd"`
	GStopped int     `json:"gStopped"`
	C2G      [][]int `json:"c2g"`
	G2C      [][]int `json:"g2c"`
	Bus      []int   `json:"bus"`
	SendOK   []int   `json:"sendOK"`
	SendFail []int   `json:"sendFail"`
	Accepted []int   `json:"accepted"`
	GwAcked  []int   `json:"gwAcked"`
}

// Graph is the output of tla/graph.py.
type Graph struct {
	Init     int     `json:"init"`
	States   []State `json:"states"`
	Paths    [][]int `json:"paths"`
	NStates  int     `json:"n_states"`
	NEdges   int     `json:"n_edges"`
	Capped   bool    `json:"capped"`
	MaxDepth int     `json:"max_depth"`
}

// Load reads a graph file.
func Load(path string) (*Graph, error) {
	b, err := os.ReadFile(path)
	if err != nil {
		return nil, err
	}
	g := &Graph{}
	return g, json.Unmarshal(b, g)
}

// Mismatch is logged when the client and the model disagree.
type Mismatch struct {
	Step   int
	Action string
	What   string
}

func (m Mismatch) String() string {
	return fmt.Sprintf("MISMATCH at step %d (%s): %s", m.Step, m.Action, m.What)
}

// StepDone is logged after every step that matched.
type StepDone struct {
	Step   int
	Action string
}

func (s StepDone) String() string { return fmt.Sprintf("STEP %d %s ok", s.Step, s.Action) }

var actionNames = map[int]string{0: "Init", 1: "CSend", 2: "DeliverToGw", 3: "DeliverToClient", 4: "LoseC2G", 5: "LoseG2C", 6: "DupC2G", 7: "DupG2C", 8: "GSend", 9: "Advance"}

// ActionName renders a model step.
func ActionName(last []int) string {
	if len(last) < 2 {
		return "?"
	}
	return fmt.Sprintf("%s(%d)", actionNames[last[0]], last[1])
}

func msg(id int) cemi.Message {
	return &cemi.LDataInd{LData: cemi.LData{
		Control1: cemi.Control1StdFrame | cemi.Control1NoRepeat, Control2: cemi.Control2GroupAddr | cemi.Control2Hops(6),
		Source: cemi.IndividualAddr(0x1101), Destination: uint16(id),
		Data: &cemi.AppData{Command: cemi.GroupValueWrite, Data: []byte{byte(id & 63)}},
	}}
}

func msgID(m interface{}) int {
	switch x := m.(type) {
	case *cemi.LDataInd:
		return int(x.Destination)
	case *cemi.LDataReq:
		return int(x.Destination)
	}
	return -1
}

type frame struct {
	kind int // 1 request, 2 acknowledgement
	seq  uint8
	pl   int
	age  int
}

// Scenario returns the closed driver that replays one path (states[0] is the initial state).
// prefix acknowledged exchanges in both directions are run first, so that the real counters sit
// just before the 255->0 wrap while the model's start at 0 (compared modulo 4 with an offset).
func Scenario(steps []State, prefix int, maxAge int) func() {
	return func() {
		const R, T = 100 * ms, 250 * ms
		const ch = 7
		sock := fakesock.New("udp")
		var c2g, g2c []frame
		connected := false
		capture := true
		sock.OnSend = func(s *fakesock.Sent) {
			switch x := s.Svc.(type) {
			case *knxnet.ConnReq:
				if !connected {
					connected = true
					sock.Deliver(&knxnet.ConnRes{Channel: ch, Status: 0, Control: knxnet.HostInfo{Protocol: knxnet.UDP4}})
				}
			case *knxnet.TunnelReq:
				if capture {
					c2g = append(c2g, frame{1, x.SeqNumber, msgID(x.Payload), 0})
				} else {
					sock.Deliver(&knxnet.TunnelRes{Channel: ch, SeqNumber: x.SeqNumber, Status: 0})
				}
			case *knxnet.TunnelRes:
				if capture {
					c2g = append(c2g, frame{2, x.SeqNumber, 0, 0})
				}
			}
		}
		t, err := knx.NewTunnelOnSocket(sock, knxnet.TunnelLayerData, knx.TunnelConfig{ResendInterval: R, ResponseTimeout: T, HeartbeatInterval: 100000000 * ms})
		if err != nil {
			mc.Log(Mismatch{0, "connect", err.Error()})
			return
		}
		var accepted, sendOK, sendFail, bus, gwAcked []int
		mc.GoEnv("reader", func() {
			for {
				m, ok := t.Inbound().Recv2()
				if !ok {
					return
				}
				if capture {
					accepted = append(accepted, msgID(m))
				}
			}
		})
		cmd := mc.NewChan[int](0, "conform.cmd")
		sending := false
		mc.GoEnv("app", func() {
			for {
				pl, ok := cmd.Recv2()
				if !ok {
					return
				}
				sending = true
				err := t.Send(msg(pl))
				sending = false
				if !capture {
					continue
				}
				if err == nil {
					sendOK = append(sendOK, pl)
				} else {
					sendFail = append(sendFail, pl)
				}
			}
		})
		settle := func() { mc.Sleep(0) }
		// gateway twin (real numbering)
		var gExp, gSeq uint8
		gsndPl, gsndAge := -1, 0
		off := 0
		if prefix > 0 {
			capture = false
			for i := 0; i < prefix; i++ {
				cmd.Send(5000 + i)
				settle()
				sock.Deliver(&knxnet.TunnelReq{Channel: ch, SeqNumber: gSeq, Payload: msg(6000 + i)})
				settle()
				gSeq++
				gExp++
				mc.Sleep(T + 10*ms)
			}
			capture = true
			off = prefix % 4
		}
		base := mc.Now() + 1000*ms
		mc.Sleep(1000 * ms)
		gwReceive := func(f frame) {
			if f.kind == 1 {
				switch f.seq {
				case gExp:
					bus = append(bus, f.pl)
					gExp++
					g2c = append(g2c, frame{2, f.seq, 0, 0})
				case gExp - 1:
					g2c = append(g2c, frame{2, f.seq, 0, 0})
				}
				return
			}
			if gsndPl >= 0 && f.seq == gSeq {
				gwAcked = append(gwAcked, gsndPl)
				gSeq++
				gsndPl = -1
			}
		}
		aged := func(fs []frame) []frame {
			var r []frame
			for _, f := range fs {
				f.age++
				if f.age <= maxAge {
					r = append(r, f)
				}
			}
			return r
		}
		period := 0
		cmpFrames := func(name string, real []frame, model [][]int) string {
			if len(real) != len(model) {
				return fmt.Sprintf("%s: client side has %d frames %v, the model has %v", name, len(real), real, model)
			}
			for i, f := range real {
				m := model[i]
				if f.kind != m[0] || int(f.seq)%4 != (m[1]+off)%4 || f.pl != m[2] {
					return fmt.Sprintf("%s[%d]: real frame (kind %d, seq %d, payload %d), model frame %v (sequence numbers are compared modulo 4, offset %d)", name, i+1, f.kind, f.seq, f.pl, m, off)
				}
			}
			return ""
		}
		cmpList := func(name string, real, model []int) string {
			if fmt.Sprint(real) != fmt.Sprint(model) && !(len(real) == 0 && len(model) == 0) {
				return fmt.Sprintf("%s: real %v, model %v", name, real, model)
			}
			return ""
		}
		for i := 1; i < len(steps); i++ {
			s := steps[i]
			act, arg := s.Last[0], s.Last[1]
			name := ActionName(s.Last)
			switch act {
			case 1:
				cmd.Send(arg)
			case 2:
				f := c2g[arg-1]
				c2g = append(c2g[:arg-1:arg-1], c2g[arg:]...)
				gwReceive(f)
			case 3:
				f := g2c[arg-1]
				g2c = append(g2c[:arg-1:arg-1], g2c[arg:]...)
				if f.kind == 2 {
					sock.Deliver(&knxnet.TunnelRes{Channel: ch, SeqNumber: f.seq, Status: 0})
				} else {
					sock.Deliver(&knxnet.TunnelReq{Channel: ch, SeqNumber: f.seq, Payload: msg(f.pl)})
				}
			case 4:
				c2g = append(c2g[:arg-1:arg-1], c2g[arg:]...)
			case 5:
				g2c = append(g2c[:arg-1:arg-1], g2c[arg:]...)
			case 6:
				c2g = append(c2g, c2g[arg-1])
			case 7:
				g2c = append(g2c, g2c[arg-1])
			case 8:
				g2c = append(g2c, frame{1, gSeq, 100 + arg, 0})
				gsndPl, gsndAge = 100+arg, 0
			case 9:
				switch arg {
				case 0: // next period: frames age before the client's resend tick is observed
					period++
					g2c = aged(g2c)
					c2g = aged(c2g)
				case 3: // the gateway's own sender
					if gsndPl >= 0 {
						if gsndAge < 2 {
							g2c = append(g2c, frame{1, gSeq, gsndPl, 0})
							gsndAge++
						} else {
							gsndPl = -1
						}
					}
				}
				target := base + mc.Duration(period)*R + mc.Duration(arg)*R/4
				if d := target - mc.Now(); d > 0 {
					mc.Sleep(d)
				}
			}
			settle()
			var diff []string
			add := func(x string) {
				if x != "" {
					diff = append(diff, x)
				}
			}
			add(cmpFrames("client->gateway frames", c2g, s.C2G))
			add(cmpFrames("gateway->client frames", g2c, s.G2C))
			add(cmpList("successful Sends", sendOK, s.SendOK))
			add(cmpList("failed Sends", sendFail, s.SendFail))
			add(cmpList("telegrams accepted by the client", accepted, s.Accepted))
			add(cmpList("bus", bus, s.Bus))
			add(cmpList("telegrams acknowledged to the gateway", gwAcked, s.GwAcked))
			if sending != (len(s.Csnd) > 0) {
				add(fmt.Sprintf("a Send is pending in the client: %v, in the model: %v", sending, len(s.Csnd) > 0))
			}
			if len(diff) > 0 {
				mc.Log(Mismatch{i, name, strings.Join(diff, "; ")})
				break
			}
			mc.Log(StepDone{i, name})
		}
		cmd.Close()
		t.Close()
	}
}
