//go:build verif

// Package fakesock is the socket seam: a knxnet.Socket whose traffic the harness controls.
package fakesock

import (
	"errors"
	"fmt"
	"net"

	"github.com/vapourismo/knx-go/knx/knxnet"
	"github.com/vapourismo/knx-go/verifmc/mc"
	"verifh/enum/refenc"
)

// Sent is one frame handed to the socket by the library.
type Sent struct {
	T0    mc.Duration // the write was entered
	T     mc.Duration // the write returned (the frame has left)
	G     int
	GSite string
	Svc   knxnet.Service // shallow copy
	Bytes []byte
	Err   error // what Send returned
	Idx   int
}

func (s Sent) String() string {
	e := ""
	if s.Err != nil {
		e = " ERR=" + s.Err.Error()
	}
	return fmt.Sprintf("TX %s%s", Describe(s.Svc), e)
}

// Describe renders a service value compactly (payload pointers resolved).
func Describe(v knxnet.Service) string {
	switch x := v.(type) {
	case *knxnet.TunnelReq:
		return fmt.Sprintf("TunnelReq{ch=%d seq=%d pl=%s}", x.Channel, x.SeqNumber, PayloadID(x.Payload))
	case *knxnet.TunnelRes:
		return fmt.Sprintf("TunnelRes{ch=%d seq=%d st=%#x}", x.Channel, x.SeqNumber, uint8(x.Status))
	case *knxnet.RoutingInd:
		return fmt.Sprintf("RoutingInd{pl=%s}", PayloadID(x.Payload))
	case *knxnet.ConnReq:
		return fmt.Sprintf("ConnReq{%+v}", *x)
	case *knxnet.ConnRes:
		return fmt.Sprintf("ConnRes{ch=%d st=%#x}", x.Channel, uint8(x.Status))
	case *knxnet.ConnStateReq:
		return fmt.Sprintf("ConnStateReq{ch=%d}", x.Channel)
	case *knxnet.ConnStateRes:
		return fmt.Sprintf("ConnStateRes{ch=%d st=%#x}", x.Channel, uint8(x.Status))
	case *knxnet.DiscReq:
		return fmt.Sprintf("DiscReq{ch=%d}", x.Channel)
	case *knxnet.DiscRes:
		return fmt.Sprintf("DiscRes{ch=%d st=%d}", x.Channel, x.Status)
	case *knxnet.RoutingBusy:
		return fmt.Sprintf("RoutingBusy{wait=%v ctl=%d}", x.WaitTime, x.Control)
	case *knxnet.RoutingLost:
		return fmt.Sprintf("RoutingLost{n=%d}", x.Count)
	}
	return fmt.Sprintf("%T", v)
}

// PayloadID extracts the harness' telegram id from a cEMI message built by h.Msg.
var PayloadID = func(m interface{}) string { return fmt.Sprintf("%T", m) }

// Sock implements knxnet.Socket.
type Sock struct {
	Network    string // "udp" or "tcp"
	Local      net.Addr
	in         *mc.Chan[knxnet.Service]
	q          *mc.Chan[knxnet.Service]
	Log        []Sent
	OnSend     func(s *Sent) // gateway reaction, runs in the sender's goroutine right after the frame "left"
	FailSend   func(p knxnet.ServicePackable) error
	WriteTime  func(p knxnet.ServicePackable) mc.Duration // how long this write blocks (nil: not at all)
	Closed     bool
	CloseN     int
	Usable     bool // Send succeeds
	LogHandoff bool // log a Handed event when the client took a frame from Inbound
	// hand-off bookkeeping
	Delivered int // frames taken from the queue by the receiver
}

var ErrSockClosed = errors.New("fakesock: use of closed socket")

type addr struct{ network, s string }

func (a addr) Network() string { return a.network }
func (a addr) String() string  { return a.s }

// New creates a socket and starts its receiver goroutine (the stand-in of serveUDPSocket).
func New(network string) *Sock {
	s := &Sock{Network: network, Usable: true, Local: addr{network, "192.0.2.7:50000"}}
	s.in = mc.NewChan[knxnet.Service](0, "sock.inbound")
	s.q = mc.NewChan[knxnet.Service](1<<20, "sock.queue")
	mc.GoEnv("sock-receiver", func() {
		for {
			v, ok := s.q.Recv2()
			if !ok || s.Closed {
				break
			}
			s.Delivered++
			s.in.Send(v)
			if s.LogHandoff {
				mc.Log(Handed{v})
			}
			if s.Closed {
				break
			}
		}
		s.in.Close()
	})
	return s
}

// Deliver queues a frame from the network for the client.
func (s *Sock) Deliver(v knxnet.Service) {
	if s.Closed {
		return
	}
	defer func() { recover() }() // the socket may be closed while the queue operation is pending
	// The frame as the octets a foreign stack puts on the wire (independent reference encoder): if
	// the library's decoder turns those down, the real receiver drops the frame and the client never
	// sees it - so it is dropped here too, and the event is judged by every scenario's oracle.
	if raw, err := refenc.Encode(v); err == nil {
		var d knxnet.Service
		if _, err := knxnet.Unpack(raw, &d); err != nil {
			mc.Log(WireRejected{Describe(v), err.Error()})
			return
		}
	}
	s.q.Send(v)
}

// WireRejected: a well-formed frame (reference encoding of the value the scenario delivers) was
// rejected by the library's decoder.
type WireRejected struct{ Frame, Err string }

func (w WireRejected) String() string { return "WIRE-REJECTED " + w.Frame + ": " + w.Err }

// Kill simulates the death of the socket (read error): Inbound closes, later sends fail.
func (s *Sock) Kill() {
	if s.Closed {
		return
	}
	s.Closed = true
	s.Usable = false
	s.q.Close()
}

func copySvc(p knxnet.ServicePackable) knxnet.Service {
	switch x := p.(type) {
	case *knxnet.TunnelReq:
		c := *x
		return &c
	case *knxnet.TunnelRes:
		c := *x
		return &c
	case *knxnet.RoutingInd:
		c := *x
		return &c
	case *knxnet.ConnReq:
		c := *x
		return &c
	case *knxnet.ConnStateReq:
		c := *x
		return &c
	case *knxnet.DiscReq:
		c := *x
		return &c
	case *knxnet.DiscRes:
		c := *x
		return &c
	}
	return p
}

func pack(p knxnet.ServicePackable) (b []byte) {
	defer func() {
		if r := recover(); r != nil {
			b = nil
		}
	}()
	return knxnet.AllocAndPack(p)
}

func (s *Sock) Send(p knxnet.ServicePackable) error {
	mc.Yield()
	t0 := mc.Now()
	if s.WriteTime != nil {
		// a write that blocks (full send buffer, slow interface): the frame has left when it returns
		if d := s.WriteTime(p); d > 0 {
			mc.Sleep(d)
		}
	}
	rec := Sent{T: mc.Now(), T0: t0, G: mc.GID(), Svc: copySvc(p), Idx: len(s.Log)}
	if s.Closed || !s.Usable {
		rec.Err = ErrSockClosed
	} else if s.FailSend != nil {
		rec.Err = s.FailSend(p)
	}
	if rec.Err == nil {
		rec.Bytes = pack(p)
	}
	s.Log = append(s.Log, rec)
	mc.Log(rec)
	if rec.Err == nil && s.OnSend != nil {
		s.OnSend(&rec)
	}
	return rec.Err
}

func (s *Sock) Inbound() *mc.Chan[knxnet.Service] { return s.in }

func (s *Sock) Close() error {
	mc.Yield()
	s.CloseN++
	if s.Closed {
		return ErrSockClosed
	}
	s.Closed = true
	s.Usable = false
	s.q.Close()
	mc.Log(SockClosed{})
	return nil
}

type SockClosed struct{}

func (SockClosed) String() string { return "SOCK-CLOSED" }

func (s *Sock) LocalAddr() net.Addr { return s.Local }

// Handed is logged (if LogHandoff) at the instant the client took a frame from Inbound().
type Handed struct{ Svc knxnet.Service }

func (h Handed) String() string { return "HANDED " + Describe(h.Svc) }
