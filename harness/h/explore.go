//go:build verif

// Package h is the exploration driver: deviation-bounded depth-first search over the choice
// vector of mc executions, sharded over worker processes, plus evidence and replay files.
package h

import (
	"bufio"
	"encoding/json"
	"fmt"
	"hash/fnv"
	"os"
	"os/exec"
	"regexp"
	"sort"
	"strings"
	"sync"
	"time"

	"github.com/vapourismo/knx-go/verifmc/mc"
)

// Violation is one oracle verdict.
type Violation struct {
	Class string // structural signature (matched against known findings)
	Msg   string
}

// Scenario is a closed driver plus oracle.
type Scenario struct {
	Name   string
	Prop   string
	Run    func()
	Check  func(tr *mc.Trace) []Violation
	P, F   int // preemption / fault bounds
	D      int // delay bound: any non-default scheduling choice costs one delay (0 = unbounded, i.e. classic preemption bounding; <0 = default schedule only)
	S      int // bound on non-default select choices (which ready case of a select is taken) per execution; 0 = unbounded
	Cfg    mc.Config
	MaxExe int64                    // execution cap for this scenario (0 = none); hitting it makes the run non-exhaustive
	Cases  func(tr *mc.Trace) int64 // optional: input cases enumerated inside one execution (for the evidence)
	Note   string
}

// Found is a violation with its replay information.
type Found struct {
	Scenario string   `json:"scenario"`
	Class    string   `json:"class"`
	Msg      string   `json:"msg"`
	Choices  []int    `json:"choices"`
	Log      []string `json:"log"`
	Pre      int      `json:"preemptions"`
	Faults   int      `json:"faults"`
}

// Stats accumulates coverage of one scenario.
type Stats struct {
	Scenario    string         `json:"scenario"`
	Execs       int64          `json:"executions"`
	Steps       int64          `json:"transitions"`
	States      int64          `json:"states"`
	Outcomes    map[uint64]int `json:"-"`
	NOutcomes   int            `json:"distinct_outcomes"`
	P           int            `json:"preemption_bound"`
	F           int            `json:"fault_bound"`
	D           int            `json:"delay_bound"`                      // 0 = unbounded, <0 = default schedule only
	S           int            `json:"select_deviation_bound,omitempty"` // 0 = unbounded
	MaxPre      int            `json:"max_preemptions_used"`
	MaxFault    int            `json:"max_faults_used"`
	Exhaustive  bool           `json:"exhaustive"`
	Capped      string         `json:"capped,omitempty"`
	Found       []Found        `json:"-"`
	ClassCount  map[string]int `json:"violation_classes,omitempty"`
	Reasons     map[string]int `json:"end_reasons"`
	Sample      []string       `json:"-"`
	SampleLong  []string       `json:"-"`
	WallS       float64        `json:"wall_s"`
	Note        string         `json:"note,omitempty"`
	Cases       int64          `json:"input_cases_inside_executions,omitempty"`
	MaxDepth    int            `json:"max_choice_depth"`
	Stalls      int            `json:"worker_stalls_not_reproduced,omitempty"` // workers that stopped for the watchdog period but whose execution ran to its end when repeated
	fpSet       map[uint64]struct{}
	shardStates int64
	outcomeSeen map[uint64]struct{}
}

func newStats(sc *Scenario) *Stats {
	return &Stats{Scenario: sc.Name, P: sc.P, F: sc.F, D: sc.D, S: sc.S, Outcomes: map[uint64]int{}, ClassCount: map[string]int{}, Reasons: map[string]int{}, Exhaustive: true}
}

func cost(points []mc.Point, upto int) (pre, faults int) {
	pre, _, faults = cost3(points, upto)
	return
}

func cost3(points []mc.Point, upto int) (pre, delays, faults int) {
	for j := 0; j < upto && j < len(points); j++ {
		p := points[j]
		if p.Chosen > 0 {
			if p.Kind == 0 {
				delays++
				if p.Preempt {
					pre++
				}
			}
			if p.Kind == 3 {
				faults++
			}
		}
	}
	return
}

func logStrings(tr *mc.Trace) []string {
	r := make([]string, 0, len(tr.Log)+2)
	for _, e := range tr.Log {
		r = append(r, e.String())
	}
	r = append(r, fmt.Sprintf("END reason=%s t=%v steps=%d", tr.Reason, tr.End, tr.Steps))
	for _, g := range tr.Live {
		r = append(r, fmt.Sprintf("LIVE g%d %s env=%v %s", g.ID, g.Site, g.Env, g.Pending))
	}
	return r
}

func outcomeHash(tr *mc.Trace) uint64 {
	h := fnv.New64a()
	for _, e := range tr.Log {
		fmt.Fprintf(h, "%d|%d|%v\n", e.T, e.G, e.V)
	}
	fmt.Fprintf(h, "%s", tr.Reason)
	return h.Sum64()
}

func choices(points []mc.Point) []int {
	r := make([]int, len(points))
	for i, p := range points {
		r[i] = p.Chosen
	}
	return r
}

// runOne executes one prefix, judges it, and returns the trace.
func runOne(sc *Scenario, prefix []int, st *Stats) *mc.Trace {
	cfg := sc.Cfg
	cfg.TrackFP = true
	tr := mc.Run(&cfg, prefix, sc.Run)
	st.Execs++
	st.Steps += int64(tr.Steps)
	st.Reasons[tr.Reason]++
	if len(tr.Points) > st.MaxDepth {
		st.MaxDepth = len(tr.Points)
	}
	if sc.Cases != nil {
		st.Cases += sc.Cases(tr)
	}
	pre, fl := cost(tr.Points, len(tr.Points))
	if pre > st.MaxPre {
		st.MaxPre = pre
	}
	if fl > st.MaxFault {
		st.MaxFault = fl
	}
	if st.fpSet == nil {
		st.fpSet = map[uint64]struct{}{}
	}
	if len(st.fpSet) < 4000000 {
		for k := range tr.FPs {
			st.fpSet[k] = struct{}{}
		}
	}
	st.States = int64(len(st.fpSet))
	oh := outcomeHash(tr)
	st.Outcomes[oh]++
	if st.Sample == nil {
		st.Sample = logStrings(tr)
	}
	if st.Outcomes[oh] == 1 && len(st.Outcomes) == 2 {
		st.SampleLong = logStrings(tr)
	}
	var vs []Violation
	if tr.Diverged != "" {
		vs = append(vs, Violation{"INFRA:diverged", tr.Diverged})
	}
	vs = append(vs, sc.Check(tr)...)
	for _, v := range vs {
		st.ClassCount[v.Class]++
		if st.ClassCount[v.Class] <= 1 {
			st.Found = append(st.Found, Found{Scenario: sc.Name, Class: v.Class, Msg: v.Msg, Choices: choices(tr.Points), Log: logStrings(tr), Pre: pre, Faults: fl})
		}
	}
	return tr
}

// children lists the prefixes that extend tr below prefix within the bounds.
func children(sc *Scenario, tr *mc.Trace, prefixLen int) [][]int {
	var out [][]int
	ch := choices(tr.Points)
	pre, dl, fl := cost3(tr.Points, prefixLen)
	sel := 0
	for j := 0; j < prefixLen && j < len(tr.Points); j++ {
		if tr.Points[j].Kind == 1 && tr.Points[j].Chosen > 0 {
			sel++
		}
	}
	for i := prefixLen; i < len(tr.Points); i++ {
		p := tr.Points[i]
		if i > prefixLen && tr.Points[i-1].Chosen > 0 {
			// (cannot happen: beyond the prefix every choice is the default)
		}
		for alt := 1; alt < p.N; alt++ {
			np, nd, nf := pre, dl, fl
			if p.Kind == 0 {
				nd++
				if p.Preempt {
					np++
				}
			}
			if p.Kind == 3 {
				nf++
			}
			if np > sc.P || nf > sc.F || (sc.D > 0 && nd > sc.D) || (sc.D < 0 && p.Kind == 0) {
				continue
			}
			if p.Kind == 1 && sc.S > 0 && sel+1 > sc.S {
				continue
			}
			c := make([]int, i+1)
			copy(c, ch[:i])
			c[i] = alt
			out = append(out, c)
		}
		// cost of the default continuation never increases
	}
	return out
}

// Subtree explores everything at and below prefix, depth first.
func Subtree(sc *Scenario, prefix []int, st *Stats, deadline time.Time) {
	stack := [][]int{prefix}
	for len(stack) > 0 {
		if sc.MaxExe > 0 && st.Execs >= sc.MaxExe {
			st.Exhaustive = false
			st.Capped = fmt.Sprintf("execution cap %d", sc.MaxExe)
			return
		}
		if !deadline.IsZero() && st.Execs%64 == 0 && time.Now().After(deadline) {
			st.Exhaustive = false
			st.Capped = "time budget"
			return
		}
		p := stack[len(stack)-1]
		stack = stack[:len(stack)-1]
		if os.Getenv("MC_DEBUG") != "" {
			fmt.Fprintf(os.Stderr, "run %v\n", p)
		}
		tr := runOne(sc, p, st)
		if tr.Diverged != "" {
			continue
		}
		kids := children(sc, tr, len(p))
		for i := len(kids) - 1; i >= 0; i-- {
			stack = append(stack, kids[i])
		}
	}
}

// ---------------------------------------------------------------------------------------------
// worker protocol

type taskMsg struct {
	Scenario string `json:"scenario"`
	Prefix   []int  `json:"prefix"`
	Deadline int64  `json:"deadline_unix_ms"`
	Expand   int    `json:"expand,omitempty"` // >0: run the determinism guard and expand the frontier to this width
}

type resultMsg struct {
	Stats    *Stats   `json:"stats"`
	Found    []Found  `json:"found"`
	Outcomes []uint64 `json:"outcomes"`
	FPs      int64    `json:"fps"`
}

// WorkerLoop serves tasks from stdin until EOF.
func WorkerLoop(reg map[string]*Scenario) {
	in := bufio.NewReaderSize(os.Stdin, 1<<20)
	out := bufio.NewWriter(os.Stdout)
	for {
		line, err := in.ReadBytes('\n')
		if len(line) == 0 && err != nil {
			return
		}
		var t taskMsg
		if json.Unmarshal(line, &t) != nil {
			return
		}
		sc := reg[t.Scenario]
		if t.Expand > 0 {
			b, _ := json.Marshal(expandLocal(sc, t.Expand))
			out.Write(b)
			out.WriteByte('\n')
			out.Flush()
			continue
		}
		st := newStats(sc)
		var dl time.Time
		if t.Deadline > 0 {
			dl = time.UnixMilli(t.Deadline)
		}
		Subtree(sc, t.Prefix, st, dl)
		res := resultMsg{Stats: st, Found: st.Found}
		for k := range st.Outcomes {
			if len(res.Outcomes) < 20000 {
				res.Outcomes = append(res.Outcomes, k)
			}
		}
		b, _ := json.Marshal(res)
		out.Write(b)
		out.WriteByte('\n')
		out.Flush()
	}
}

// expandMsg is the worker's answer to an "expand" task: the frontier after breadth-first expansion.
type expandMsg struct {
	Stats      *Stats   `json:"stats"`
	Found      []Found  `json:"found"`
	Outcomes   []uint64 `json:"outcomes"`
	Frontier   [][]int  `json:"frontier"`
	Sample     []string `json:"sample"`
	SampleLong []string `json:"sample_long"`
	Nondet     bool     `json:"nondet"`
	NondetLog  []string `json:"nondet_log"`
}

// expandLocal runs the determinism guard and the breadth-first frontier expansion (in a worker).
func expandLocal(sc *Scenario, target int) *expandMsg {
	st := newStats(sc)
	m := &expandMsg{Stats: st}
	a := mc.Run(cfgOf(sc), nil, sc.Run)
	b := mc.Run(cfgOf(sc), nil, sc.Run)
	if outcomeHash(a) != outcomeHash(b) || len(a.Points) != len(b.Points) {
		m.Nondet = true
		m.NondetLog = append(logStrings(a), logStrings(b)...)
		return m
	}
	frontier := [][]int{{}}
	for len(frontier) > 0 && len(frontier) < target {
		p := frontier[0]
		frontier = frontier[1:]
		tr := runOne(sc, p, st)
		if tr.Diverged == "" {
			frontier = append(frontier, children(sc, tr, len(p))...)
		}
		if sc.MaxExe > 0 && st.Execs >= sc.MaxExe {
			break
		}
	}
	m.Frontier = frontier
	m.Sample, m.SampleLong = st.Sample, st.SampleLong
	m.Found = st.Found
	for k := range st.Outcomes {
		if len(m.Outcomes) < 20000 {
			m.Outcomes = append(m.Outcomes, k)
		}
	}
	st.States = int64(len(st.fpSet))
	return m
}

// worker is one supervised child process.
type worker struct {
	cmd   *exec.Cmd
	stdin interface {
		Write([]byte) (int, error)
		Close() error
	}
	rd *bufio.Reader
}

func startWorker(selfArgs []string, perWorkerCap int64) (*worker, error) {
	args := append(append([]string{}, selfArgs...), "-worker")
	if perWorkerCap > 0 {
		args = append(args, fmt.Sprintf("-workercap=%d", perWorkerCap))
	}
	cmd := exec.Command(os.Args[0], args...)
	cmd.Env = append(os.Environ(), "GOMAXPROCS=2")
	cmd.Stderr = os.Stderr
	stdin, _ := cmd.StdinPipe()
	stdout, _ := cmd.StdoutPipe()
	if err := cmd.Start(); err != nil {
		return nil, err
	}
	return &worker{cmd: cmd, stdin: stdin, rd: bufio.NewReaderSize(stdout, 1<<20)}, nil
}

// call sends one task and reads one line; died reports that the process ended instead of answering
// (rest holds whatever it printed, e.g. the MC-HANG line).
func (w *worker) call(t taskMsg) (line []byte, died bool, rest string) {
	b, _ := json.Marshal(t)
	w.stdin.Write(append(b, '\n'))
	for {
		l, err := w.rd.ReadBytes('\n')
		if err != nil {
			w.cmd.Wait()
			return nil, true, rest + string(l)
		}
		if len(l) > 0 && l[0] == '{' {
			return l, false, rest
		}
		rest += string(l)
	}
}

func (w *worker) stop() {
	w.stdin.Close()
	w.cmd.Wait()
}

var hangRe = regexp.MustCompile(`MC-HANG prefix=\[([0-9 ]*)\] steps=(\d+)(?: in=(\S+))?`)

// hangFound turns the last words of a dead worker into a finding.
func hangFound(sc *Scenario, below []int, rest string) Found {
	if m := hangRe.FindStringSubmatch(rest); m != nil {
		var ch []int
		for _, f := range strings.Fields(m[1]) {
			var v int
			fmt.Sscan(f, &v)
			ch = append(ch, v)
		}
		fn := m[3]
		if fn == "" {
			fn = "unknown"
		}
		return Found{Scenario: sc.Name, Class: sc.Prop + ":hang:" + fn, Msg: fmt.Sprintf("an execution stopped reaching visible operations for the whole watchdog period (a loop that never blocks) in %s after %s visible steps; choice prefix %v", fn, m[2], ch), Choices: ch}
	}
	return Found{Scenario: sc.Name, Class: "HANG-OR-CRASH", Msg: fmt.Sprintf("worker died exploring below prefix %v: %s", below, rest), Choices: below}
}

// confirmHang re-runs the execution a dead worker was in (its choice prefix, then default choices)
// in a fresh worker, once. A loop that never blocks is deterministic and hangs again; a worker that
// was starved by the machine or stopped from outside is not. Only a confirmed hang is a finding.
func confirmHang(sc *Scenario, selfArgs []string, rest string) (Found, bool) {
	f := hangFound(sc, nil, rest)
	if !strings.Contains(f.Class, ":hang:") {
		return f, true // a crash (no MC-HANG line): reported as it is
	}
	w, err := startWorker(selfArgs, 1)
	if err != nil {
		return f, true
	}
	_, died, rest2 := w.call(taskMsg{Scenario: sc.Name, Prefix: f.Choices})
	if died {
		return hangFound(sc, f.Choices, rest2), true
	}
	w.stop()
	return f, false
}

// Explore runs one scenario completely. The supervising process never executes scenario code:
// the determinism guard, the frontier expansion and the subtrees all run in worker processes, so
// code under test that loops without yielding, or crashes the runtime, becomes a finding.
func Explore(sc *Scenario, workers int, deadline time.Time, selfArgs []string) *Stats {
	t0 := time.Now()
	st := newStats(sc)
	if workers < 1 {
		workers = 1
	}
	target := workers * 24
	if workers <= 1 {
		target = 1
	}
	w0, err := startWorker(selfArgs, 0)
	if err != nil {
		st.Found = append(st.Found, Found{Scenario: sc.Name, Class: "INFRA:worker", Msg: err.Error()})
		st.ClassCount["INFRA:worker"]++
		return st
	}
	line, died, rest := w0.call(taskMsg{Scenario: sc.Name, Expand: target})
	if died {
		if _, confirmed := confirmHang(sc, selfArgs, rest); !confirmed {
			st.Stalls++
			if w0, err = startWorker(selfArgs, 0); err == nil {
				line, died, rest = w0.call(taskMsg{Scenario: sc.Name, Expand: target})
			}
		}
	}
	if died {
		f := hangFound(sc, nil, rest)
		st.Found = append(st.Found, f)
		st.ClassCount[f.Class]++
		st.Exhaustive = false
		st.Capped = "expansion aborted: " + f.Class
		finish(st, t0)
		return st
	}
	w0.stop()
	var ex expandMsg
	if err := json.Unmarshal(line, &ex); err != nil {
		st.Found = append(st.Found, Found{Scenario: sc.Name, Class: "INFRA:worker", Msg: "bad expand result: " + err.Error()})
		st.ClassCount["INFRA:worker"]++
		return st
	}
	if ex.Nondet {
		st.Found = append(st.Found, Found{Scenario: sc.Name, Class: "INFRA:nondeterministic", Msg: "two runs of the empty prefix differ", Log: ex.NondetLog})
		st.ClassCount["INFRA:nondeterministic"]++
		return st
	}
	merge(st, &resultMsg{Stats: ex.Stats, Found: ex.Found, Outcomes: ex.Outcomes})
	st.Sample, st.SampleLong = ex.Sample, ex.SampleLong
	frontier := ex.Frontier
	if len(frontier) == 0 {
		finish(st, t0)
		return st
	}
	tasks := make(chan []int, len(frontier))
	for _, p := range frontier {
		tasks <- p
	}
	close(tasks)
	var mu sync.Mutex
	var wg sync.WaitGroup
	perWorkerCap := int64(0)
	if sc.MaxExe > 0 {
		perWorkerCap = (sc.MaxExe - st.Execs) / int64(workers)
		if perWorkerCap < 1 {
			perWorkerCap = 1
		}
	}
	infra := ""
	deaths := 0
	for w := 0; w < workers; w++ {
		wg.Add(1)
		go func(w int) {
			defer wg.Done()
			wk, err := startWorker(selfArgs, perWorkerCap)
			if err != nil {
				mu.Lock()
				infra = err.Error()
				mu.Unlock()
				return
			}
			for p := range tasks {
				if !deadline.IsZero() && time.Now().After(deadline) {
					mu.Lock()
					st.Exhaustive = false
					st.Capped = "time budget"
					mu.Unlock()
					continue
				}
				mu.Lock()
				tooMany := deaths >= 6
				mu.Unlock()
				if tooMany {
					mu.Lock()
					st.Exhaustive = false
					st.Capped = "stopped after 6 worker deaths"
					mu.Unlock()
					continue
				}
				var dl int64
				if !deadline.IsZero() {
					dl = deadline.UnixMilli()
				}
				line, died, rest := wk.call(taskMsg{Scenario: sc.Name, Prefix: p, Deadline: dl})
				for retry := 0; died && retry < 2; retry++ {
					if _, confirmed := confirmHang(sc, selfArgs, rest); confirmed {
						break
					}
					// not reproduced: the worker was stalled, not the code; redo the subtree
					mu.Lock()
					st.Stalls++
					mu.Unlock()
					if wk, err = startWorker(selfArgs, perWorkerCap); err != nil {
						return
					}
					line, died, rest = wk.call(taskMsg{Scenario: sc.Name, Prefix: p, Deadline: dl})
				}
				if died {
					f := hangFound(sc, p, rest)
					mu.Lock()
					deaths++
					if st.ClassCount[f.Class] == 0 {
						st.Found = append(st.Found, f)
					}
					st.ClassCount[f.Class]++
					st.Exhaustive = false
					st.Capped = "subtree below a hanging execution not explored"
					mu.Unlock()
					wk, err = startWorker(selfArgs, perWorkerCap)
					if err != nil {
						return
					}
					continue
				}
				var res resultMsg
				if err := json.Unmarshal(line, &res); err != nil {
					mu.Lock()
					infra = "bad worker result: " + err.Error()
					mu.Unlock()
					continue
				}
				mu.Lock()
				merge(st, &res)
				mu.Unlock()
			}
			wk.stop()
		}(w)
	}
	wg.Wait()
	if infra != "" {
		st.Found = append(st.Found, Found{Scenario: sc.Name, Class: "INFRA:worker", Msg: infra})
		st.ClassCount["INFRA:worker"]++
	}
	finish(st, t0)
	return st
}

func cfgOf(sc *Scenario) *mc.Config { c := sc.Cfg; return &c }

func merge(st *Stats, r *resultMsg) {
	s := r.Stats
	st.Execs += s.Execs
	st.Steps += s.Steps
	st.Cases += s.Cases
	st.shardStates += s.States
	if s.MaxPre > st.MaxPre {
		st.MaxPre = s.MaxPre
	}
	if s.MaxFault > st.MaxFault {
		st.MaxFault = s.MaxFault
	}
	if s.MaxDepth > st.MaxDepth {
		st.MaxDepth = s.MaxDepth
	}
	if !s.Exhaustive {
		st.Exhaustive = false
		st.Capped = s.Capped
	}
	for k, v := range s.Reasons {
		st.Reasons[k] += v
	}
	for k, v := range s.ClassCount {
		st.ClassCount[k] += v
	}
	for _, o := range r.Outcomes {
		st.Outcomes[o]++
	}
	have := map[string]bool{}
	for _, f := range st.Found {
		have[f.Class] = true
	}
	for _, f := range r.Found {
		if !have[f.Class] {
			st.Found = append(st.Found, f)
			have[f.Class] = true
		}
	}
}

func finish(st *Stats, t0 time.Time) {
	st.States = int64(len(st.fpSet)) + st.shardStates
	st.NOutcomes = len(st.Outcomes)
	st.WallS = time.Since(t0).Seconds()
	sort.Slice(st.Found, func(i, j int) bool { return st.Found[i].Class < st.Found[j].Class })
}

// Replay runs one choice vector with step tracing and prints the interleaved log.
func Replay(sc *Scenario, ch []int) (*mc.Trace, []Violation) {
	cfg := sc.Cfg
	cfg.TraceSteps = true
	tr := mc.Run(&cfg, ch, sc.Run)
	// judge on a log without the step-trace lines
	clean := *tr
	clean.Log = nil
	for _, e := range tr.Log {
		if strings.HasPrefix(fmt.Sprint(e.V), "  . ") {
			continue
		}
		clean.Log = append(clean.Log, e)
	}
	return tr, sc.Check(&clean)
}
