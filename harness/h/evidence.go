//go:build verif

package h

import (
	"encoding/json"
	"fmt"
	"os"
	"path/filepath"
	"regexp"
	"strings"
	"time"

	"verifh/lib/common"
)

// Report is the outcome of a property check.
type Report struct {
	Prop       string
	Tier       string
	Seed       int64
	Level      string
	Stats      []*Stats
	Assume     []string
	Extra      map[string]interface{}
	T0         time.Time
	VerifDir   string
	Rule       string
	Violations int
	// explicit-state model checked alongside (C05): added to states / transitions of the evidence
	ModelStates, ModelTransitions int64
}

var baseAssumptions = []string{
	"A1: library code between visible operations takes zero virtual time; the clock advances only when every goroutine is blocked",
	"A2: sequentially consistent interleavings at visible operations (channel, select, mutex, once, waitgroup, timer, socket I/O); weak-memory effects are not explored; data races are detected by vector clocks on instrumented struct fields only",
	"A3: network/kernel behaviour is whatever the harness environment enumerates (loss, duplication, delay, reordering, errors, segmentation)",
	"goroutines blocked on the same channel or mutex are served in the order they reached the operation (Go runtime FIFO queues; mutex modelled as FIFO hand-off, no barging)",
	"the rewritten sources are produced mechanically by mcgen from /repo's working tree at check time; a construct mcgen cannot rewrite fails the build (INFRA-ERROR), it is never skipped",
}

// Finish classifies violations against the known-findings file, writes evidence and replays,
// prints the verdict lines and returns the exit code.
func (r *Report) Finish() int {
	known := common.LoadKnown(r.VerifDir)
	os.MkdirAll(filepath.Join(common.OutDir(r.VerifDir), "replays"), 0o755)
	os.MkdirAll(filepath.Join(common.OutDir(r.VerifDir), "evidence"), 0o755)
	exit := 0
	var execs, steps, states, cases int64
	outcomes := 0
	exhaustive := true
	var samples []interface{}
	var perScenario []interface{}
	printedKnown := map[string]bool{}
	infra := false
	for _, st := range r.Stats {
		execs += st.Execs
		cases += st.Cases
		steps += st.Steps
		states += st.States
		outcomes += st.NOutcomes
		if !st.Exhaustive {
			exhaustive = false
		}
		perScenario = append(perScenario, st)
		if len(samples) < 6 && st.Sample != nil {
			samples = append(samples, map[string]interface{}{"scenario": st.Scenario, "choices": "default schedule (all zero)", "event_log": trunc(st.Sample, 40)})
			if st.SampleLong != nil && len(samples) < 6 {
				samples = append(samples, map[string]interface{}{"scenario": st.Scenario, "choices": "first execution with a different outcome", "event_log": trunc(st.SampleLong, 40)})
			}
		}
		for _, f := range st.Found {
			if strings.HasPrefix(f.Class, "INFRA:") {
				fmt.Printf("INFRA-ERROR property=%s scenario=%s %s: %s\n", r.Prop, f.Scenario, f.Class, f.Msg)
				infra = true
				continue
			}
			kf := common.MatchKnown(known, r.Prop, f.Class)
			if kf != nil {
				if !printedKnown[kf.ID] {
					printedKnown[kf.ID] = true
					fmt.Printf("KNOWN-FINDING: property=%s %s [%s; first seen in scenario %s, %d executions]\n", r.Prop, kf.What, kf.ID, f.Scenario, st.ClassCount[f.Class])
				}
				continue
			}
			r.Violations++
			name := fmt.Sprintf("%s-%s-%s.json", r.Prop, sanitize(f.Scenario), sanitize(f.Class))
			path := filepath.Join(common.OutDir(r.VerifDir), "replays", name)
			b, _ := json.MarshalIndent(f, "", " ")
			os.WriteFile(path, b, 0o644)
			fmt.Printf("VIOLATION property=%s replay=%s\n", r.Prop, path)
			fmt.Printf("  scenario=%s class=%s preemptions=%d faults=%d count=%d\n  %s\n", f.Scenario, f.Class, f.Pre, f.Faults, st.ClassCount[f.Class], f.Msg)
			exit = 1
		}
	}
	if infra {
		exit = 2
	}
	if len(samples) == 0 {
		samples = append(samples, "(no sample execution recorded)")
	}
	states += r.ModelStates
	steps += r.ModelTransitions
	cov := map[string]interface{}{
		"states":                        states,
		"transitions":                   steps,
		"traces_validated_against_impl": execs,
		"executions":                    execs,
		"evaluations":                   execs,
		"distinct_nontrivial":           outcomes,
		"distinct_outcomes":             outcomes,
		"rule":                          r.Rule,
		"samples":                       samples,
		"exhaustive":                    exhaustive,
		"scenarios":                     perScenario,
		"states_note":                   "distinct happens-before fingerprints of the global state after each scheduling step, summed over scenarios and worker shards (duplicates across shards are not merged)",
	}
	if cases > 0 {
		cov["input_cases_inside_executions"] = cases
		cov["input_cases_note"] = "scenarios that enumerate an input space inside one execution (a loop over commands x lengths x octets ...) report the number of cases here; 'executions' counts schedules"
	}
	for k, v := range r.Extra {
		cov[k] = v
	}
	ev := map[string]interface{}{
		"property_id": r.Prop,
		"tier":        r.Tier,
		"seed":        r.Seed,
		"level":       r.Level,
		"coverage":    cov,
		"assumptions": append(append([]string{}, baseAssumptions...), r.Assume...),
		"wall_s":      time.Since(r.T0).Seconds(),
		"violations":  r.Violations,
	}
	if os.Getenv("VERIF_EVIDENCE_MERGE") != "" {
		// this run is the second half of a property whose first half (input-space enumeration)
		// already wrote the evidence file: nest this run's coverage under one key
		if old, err := os.ReadFile(filepath.Join(common.OutDir(r.VerifDir), "evidence", r.Prop+".json")); err == nil {
			var prev map[string]interface{}
			if json.Unmarshal(old, &prev) == nil {
				if pc, ok := prev["coverage"].(map[string]interface{}); ok {
					pc["schedule_exploration"] = cov
					if ex, ok := pc["exhaustive"].(bool); ok {
						pc["exhaustive"] = ex && exhaustive
					}
				}
				if v, ok := prev["violations"].(float64); ok {
					prev["violations"] = int(v) + r.Violations
				}
				if w, ok := prev["wall_s"].(float64); ok {
					prev["wall_s"] = w + time.Since(r.T0).Seconds()
				}
				if as, ok := prev["assumptions"].([]interface{}); ok {
					for _, a := range baseAssumptions {
						as = append(as, "schedule exploration: "+a)
					}
					prev["assumptions"] = as
				}
				ev = prev
			}
		}
	}
	b, _ := json.MarshalIndent(ev, "", " ")
	if err := os.WriteFile(filepath.Join(common.OutDir(r.VerifDir), "evidence", r.Prop+".json"), b, 0o644); err != nil {
		fmt.Println("INFRA-ERROR cannot write evidence:", err)
		return 2
	}
	fmt.Printf("property=%s tier=%s executions=%d transitions=%d states=%d distinct_outcomes=%d exhaustive=%v violations=%d wall=%.1fs\n",
		r.Prop, r.Tier, execs, steps, states, outcomes, exhaustive, r.Violations, time.Since(r.T0).Seconds())
	return exit
}

func trunc(s []string, n int) []string {
	if len(s) <= n {
		return s
	}
	return append(append([]string{}, s[:n]...), fmt.Sprintf("... (%d more lines)", len(s)-n))
}

func sanitize(s string) string {
	re := regexp.MustCompile(`[^A-Za-z0-9_.-]+`)
	s = re.ReplaceAllString(s, "_")
	if len(s) > 80 {
		s = s[:80]
	}
	return s
}
