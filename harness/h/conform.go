//go:build verif

package h

import (
	"encoding/json"
	"fmt"
	"os"
	"os/exec"
	"strings"
	"sync"
	"time"

	"github.com/vapourismo/knx-go/verifmc/mc"
	"verifh/harness/conform"
)

// ConformResult is what one shard reports.
type ConformResult struct {
	Paths       int64    `json:"paths"`
	Steps       int64    `json:"steps"`
	Transitions int64    `json:"transitions"`
	Mismatches  int64    `json:"mismatches"`
	First       *Found   `json:"first,omitempty"`
	Sample      []string `json:"sample,omitempty"`
	Edges       int64    `json:"edges"`
}

// ConformReplayFile is the self-contained replay artefact of a conformance mismatch.
type ConformReplayFile struct {
	Scenario string          `json:"scenario"`
	Class    string          `json:"class"`
	Msg      string          `json:"msg"`
	Prefix   int             `json:"wrap_prefix"`
	MaxAge   int             `json:"max_age"`
	Steps    []conform.State `json:"conform_steps"`
	Log      []string        `json:"log"`
}

func runPath(g *conform.Graph, path []int, prefix, maxAge int) (*mc.Trace, []conform.State) {
	steps := make([]conform.State, len(path))
	for i, id := range path {
		steps[i] = g.States[id]
	}
	cfg := &mc.Config{Horizon: 3600 * time.Second}
	return mc.Run(cfg, nil, conform.Scenario(steps, prefix, maxAge)), steps
}

func judgeConform(tr *mc.Trace) (string, string) {
	for _, e := range tr.Log {
		switch x := e.V.(type) {
		case conform.Mismatch:
			act := x.Action
			if i := strings.Index(act, "("); i > 0 {
				act = act[:i]
			}
			return "C05:conformance:" + act, x.String()
		case mc.PanicEscaped:
			return "C05:conformance:panic", x.Value
		case mc.Fatal:
			return "C05:conformance:fatal", x.Msg
		}
	}
	if tr.Reason != "main-returned" {
		return "C05:conformance:" + tr.Reason, "replay ended with " + tr.Reason
	}
	return "", ""
}

// ConformShard replays the paths with index % of == shard and prints one JSON line.
func ConformShard(graphPath string, prefix, maxAge, shard, of, stride int) {
	if stride < 1 {
		stride = 1
	}
	g, err := conform.Load(graphPath)
	if err != nil {
		fmt.Println(`{"error":"` + err.Error() + `"}`)
		return
	}
	res := ConformResult{}
	for i, p := range g.Paths {
		if i%of != shard || (i/of)%stride != 0 {
			continue
		}
		tr, steps := runPath(g, p, prefix, maxAge)
		res.Paths++
		res.Steps += int64(len(p) - 1)
		res.Transitions += int64(tr.Steps)
		if res.Sample == nil && len(p) > 8 {
			res.Sample = trunc(logStrings(tr), 40)
		}
		if cls, msg := judgeConform(tr); cls != "" {
			res.Mismatches++
			if res.First == nil {
				b, _ := json.Marshal(ConformReplayFile{Scenario: "C05-conformance-replay", Class: cls, Msg: msg, Prefix: prefix, MaxAge: maxAge, Steps: steps, Log: logStrings(tr)})
				res.First = &Found{Scenario: "C05-conformance-replay", Class: cls, Msg: msg, Log: []string{string(b)}}
			}
		}
	}
	b, _ := json.Marshal(res)
	fmt.Println(string(b))
}

// Conform runs every path of the graph on `workers` shard processes and folds the result into a Stats.
func Conform(name, graphPath string, prefix, maxAge, workers, stride int, selfArgs []string) (*Stats, *conform.Graph) {
	t0 := time.Now()
	st := &Stats{Scenario: name, Outcomes: map[uint64]int{}, ClassCount: map[string]int{}, Reasons: map[string]int{}, Exhaustive: true}
	g, err := conform.Load(graphPath)
	if err != nil {
		st.Found = append(st.Found, Found{Scenario: name, Class: "INFRA:conform", Msg: err.Error()})
		st.ClassCount["INFRA:conform"]++
		return st, nil
	}
	if g.Capped {
		st.Exhaustive = false
		st.Capped = "path set capped"
	}
	if stride > 1 {
		st.Note = fmt.Sprintf("every %d-th path of the edge cover", stride)
	}
	var mu sync.Mutex
	var wg sync.WaitGroup
	for w := 0; w < workers; w++ {
		wg.Add(1)
		go func(w int) {
			defer wg.Done()
			args := append(append([]string{}, selfArgs...), "-conform", graphPath, "-conformshard", fmt.Sprint(w), "-of", fmt.Sprint(workers), "-wrapprefix", fmt.Sprint(prefix), "-maxage", fmt.Sprint(maxAge), "-stride", fmt.Sprint(stride))
			cmd := exec.Command(os.Args[0], args...)
			cmd.Env = append(os.Environ(), "GOMAXPROCS=2")
			cmd.Stderr = os.Stderr
			out, err := cmd.Output()
			mu.Lock()
			defer mu.Unlock()
			var r ConformResult
			lines := strings.Split(strings.TrimSpace(string(out)), "\n")
			if err != nil || json.Unmarshal([]byte(lines[len(lines)-1]), &r) != nil {
				f := hangFound(&Scenario{Name: name, Prop: "C05"}, nil, string(out))
				if st.ClassCount[f.Class] == 0 {
					st.Found = append(st.Found, f)
				}
				st.ClassCount[f.Class]++
				st.Exhaustive = false
				st.Capped = "a shard died"
				return
			}
			st.Execs += r.Paths
			st.Steps += r.Transitions
			st.shardStates += r.Steps
			if st.Sample == nil {
				st.Sample = r.Sample
			}
			if r.First != nil {
				if st.ClassCount[r.First.Class] == 0 {
					st.Found = append(st.Found, *r.First)
				}
				st.ClassCount[r.First.Class] += int(r.Mismatches)
			}
		}(w)
	}
	wg.Wait()
	st.States = int64(g.NStates)
	st.NOutcomes = int(st.Execs)
	st.WallS = time.Since(t0).Seconds()
	return st, g
}

// ConformReplay replays a stored mismatch file.
func ConformReplay(path string) int {
	b, err := os.ReadFile(path)
	if err != nil {
		fmt.Println("INFRA-ERROR", err)
		return 2
	}
	var f ConformReplayFile
	if err := json.Unmarshal(b, &f); err != nil {
		fmt.Println("INFRA-ERROR", err)
		return 2
	}
	cfg := &mc.Config{Horizon: 3600 * time.Second, TraceSteps: false}
	tr := mc.Run(cfg, nil, conform.Scenario(f.Steps, f.Prefix, f.MaxAge))
	for _, l := range logStrings(tr) {
		fmt.Println(l)
	}
	if cls, msg := judgeConform(tr); cls != "" {
		fmt.Printf("VERDICT %s: %s\n", cls, msg)
		return 1
	}
	fmt.Println("VERDICT not reproduced")
	return 0
}
