//go:build verif

// Package decode: see DESIGN.md (E5).
package decode
