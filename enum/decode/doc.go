//go:build verif

// Package decode is the bounded exhaustive check of C01, parts (a)-(c) of DESIGN.md section 5:
// decoding untrusted octets never panics, hangs, over-reads or depends on octets beyond the input.
//
//	corpus.go  corpus G, built octet by octet from DESIGN Appendix C
//	spaces.go  the enumerated spaces; case (space, index) is regenerated identically everywhere
//	judge.go   decoding one case from the four buffer backings, the oracle, reproducing tests
//	worker.go  the worker processes (bulk enumeration, single case) and the in-process hang monitor
//	proc.go    child process plumbing
//	check.go   the parent: scheduling, watchdog, confirmation of hangs, aggregation, replay
//	fixes/     one minimal repair per defect found on the pinned tree (git -C /repo apply)
package decode
