//go:build verif

package decode

// Child process plumbing of the parent: bulk workers with a line reader and a progress file,
// single-case processes with a hard kill.

import (
	"bufio"
	"bytes"
	"encoding/binary"
	"encoding/json"
	"fmt"
	"io"
	"os"
	"os/exec"
	"strings"
	"sync"
	"time"
)

type capBuf struct {
	mu sync.Mutex
	b  []byte
}

func (c *capBuf) Write(p []byte) (int, error) {
	c.mu.Lock()
	if len(c.b) < 1<<16 {
		c.b = append(c.b, p...)
	}
	c.mu.Unlock()
	return len(p), nil
}

func (c *capBuf) String() string {
	c.mu.Lock()
	defer c.mu.Unlock()
	return string(c.b)
}

type proc struct {
	cmd      *exec.Cmd
	in       io.WriteCloser
	lines    chan string
	progPath string
	stderr   *capBuf
}

func childEnv(role string, extra ...string) []string {
	var env []string
	for _, e := range os.Environ() {
		if !strings.HasPrefix(e, "ENUM_WORKER=") && !strings.HasPrefix(e, "GOMAXPROCS=") {
			env = append(env, e)
		}
	}
	return append(append(env, "ENUM_WORKER="+role), extra...)
}

func spawnWorker(exe, tier, progPath, loopersPath, fp string, nspaces int) (*proc, error) {
	w := &proc{progPath: progPath, stderr: &capBuf{}, lines: make(chan string, 256)}
	w.resetProgress()
	w.cmd = exec.Command(exe)
	w.cmd.Env = childEnv("c01", "C01_TIER="+tier, "C01_PROGRESS="+progPath, "C01_LOOPERS="+loopersPath, "GOMAXPROCS="+workerGoProc)
	w.cmd.Stderr = w.stderr
	in, err := w.cmd.StdinPipe()
	if err != nil {
		return nil, err
	}
	out, err := w.cmd.StdoutPipe()
	if err != nil {
		return nil, err
	}
	w.in = in
	if err := w.cmd.Start(); err != nil {
		return nil, err
	}
	go func() {
		sc := bufio.NewScanner(out)
		sc.Buffer(make([]byte, 1<<16), 1<<24)
		for sc.Scan() {
			w.lines <- sc.Text()
		}
		close(w.lines)
	}()
	select {
	case ln, ok := <-w.lines:
		want := fmt.Sprintf("R %s %d", fp, nspaces)
		if !ok || ln != want {
			w.kill()
			return nil, fmt.Errorf("worker greeted with %q (expected %q): parent and worker disagree about the corpus; stderr: %s", ln, want, tail(w.stderr.String(), 400))
		}
	case <-time.After(30 * time.Second):
		w.kill()
		return nil, fmt.Errorf("worker did not start within 30 s")
	}
	return w, nil
}

func (w *proc) resetProgress() {
	var b [8]byte
	binary.LittleEndian.PutUint64(b[:], ^uint64(0))
	if f, err := os.OpenFile(w.progPath, os.O_RDWR|os.O_CREATE, 0o600); err == nil { // never truncated: a worker may have it mapped
		f.WriteAt(b[:], 0)
		f.Close()
	}
}

// progress returns the index of the case the worker stored last (-1: none).
func (w *proc) progress() int64 {
	b, err := os.ReadFile(w.progPath)
	if err != nil || len(b) < 8 {
		return -1
	}
	return int64(binary.LittleEndian.Uint64(b))
}

func (w *proc) kill() string {
	w.in.Close()
	w.cmd.Process.Kill()
	go func() {
		for range w.lines {
		}
	}()
	w.cmd.Wait()
	return w.stderr.String()
}

// runSingle judges one case in a process of its own. Status "crash" means the process ended
// without a result (fatal error, signal); stderr is returned alongside.
func runSingle(exe, entry, hx string, limitMs int) (singleRes, string) {
	rq, _ := json.Marshal(singleReq{Entry: entry, Hex: hx, LimitMs: limitMs})
	cmd := exec.Command(exe)
	cmd.Env = childEnv("c01-single", "GOMAXPROCS=2")
	cmd.Stdin = bytes.NewReader(rq)
	var out, errb bytes.Buffer
	cmd.Stdout, cmd.Stderr = &out, &errb
	if err := cmd.Start(); err != nil {
		return singleRes{Status: "error"}, err.Error()
	}
	done := make(chan error, 1)
	go func() { done <- cmd.Wait() }()
	select {
	case <-done:
	case <-time.After(time.Duration(limitMs)*time.Millisecond + 10*time.Second):
		cmd.Process.Kill()
		<-done
		return singleRes{Status: "hang"}, errb.String() // not even the sampler got to run
	}
	var res singleRes
	if err := json.Unmarshal(bytes.TrimSpace(out.Bytes()), &res); err != nil || res.Status == "" {
		return singleRes{Status: "crash"}, errb.String()
	}
	return res, errb.String()
}
