//go:build verif

package decode

// The enumerated spaces. Every space is a finite, totally ordered list of cases; case number idx
// is regenerated from (space, idx) alone, identically in the parent and in every worker process.

import (
	"fmt"
	"sort"
)

// 16-value alphabet of the second octet of a double substitution
var alpha16 = [16]byte{0x00, 0x01, 0x02, 0x03, 0x04, 0x05, 0x06, 0x07, 0x08, 0x0F, 0x10, 0x36, 0x7F, 0x80, 0xFE, 0xFF}

// 6-value alphabet of the extension octets
var alpha6 = [6]byte{0x00, 0x01, 0x02, 0x08, 0x36, 0xFF}

const (
	famCorpus      = iota // (a) the seeds themselves (+ sanity: valid seeds decode without error)
	famAfterHeader        // (c) all byte strings of length <= L after each of the 16 headers
	famAfterCode          // (c) all byte strings of length <= L after each of the 8 cEMI codes
	famTrunc              // (b) all truncations s[:k], k = 0..len
	famExt                // (b) all extensions by 1..3 octets of alpha6
	famSub1               // (b) all single-octet substitutions
	famSub2               // (b) all double substitutions on structure octets: 0..255 x alpha16, ordered pairs
)

type space struct {
	id     int
	name   string
	fam    int
	s0, s1 int     // seed range (seed families)
	cum    []int64 // cum[i] = number of cases of seeds s0..s0+i-1
	maxLen int     // (c): maximal number of octets after the header / code
	size   int64
	note   string
}

func powSum(maxLen int) int64 { // sum_{l=0..maxLen} 256^l
	var n, p int64 = 0, 1
	for l := 0; l <= maxLen; l++ {
		n += p
		p *= 256
	}
	return n
}

// seedCases is the number of cases seed s contributes to a family. The seeds that are malformed on
// purpose (a zero-length DIB) are truncated in both tiers but substituted and extended in the
// thorough tier only: decoding stops at the malformed DIB, so their mutations add little, and as
// long as the library loops on that DIB every one of them costs a hang detection.
func seedCases(fam int, s *seed, thorough bool) int64 {
	l, m := int64(len(s.b)), int64(len(s.st))
	if !s.valid && !thorough && (fam == famExt || fam == famSub1 || fam == famSub2) {
		return 0
	}
	switch fam {
	case famCorpus:
		return 1
	case famTrunc:
		return l + 1
	case famExt:
		return 6 + 36 + 216
	case famSub1:
		return l * 256
	case famSub2:
		return m * (m - 1) * 256 * 16
	}
	return 0
}

func buildSpaces(c *corpus, thorough bool) []*space {
	var sp []*space
	add := func(name string, fam, s0, s1, maxLen int, note string) {
		s := &space{id: len(sp), name: name, fam: fam, s0: s0, s1: s1, maxLen: maxLen, note: note}
		switch fam {
		case famAfterHeader:
			s.size = 16 * powSum(maxLen)
		case famAfterCode:
			s.size = 8 * powSum(maxLen)
		default:
			s.cum = make([]int64, s1-s0+1)
			for i := s0; i < s1; i++ {
				s.cum[i-s0+1] = s.cum[i-s0] + seedCases(fam, &c.seeds[i], thorough)
			}
			s.size = s.cum[s1-s0]
		}
		sp = append(sp, s)
	}
	nf, ns := c.nFrames, len(c.seeds)
	maxLen := 2
	which := "every well-formed seed (the seeds with a zero-length DIB are mutated in the thorough tier): "
	if thorough {
		maxLen = 3
		which = "every seed: "
	}
	add("a:corpus", famCorpus, 0, ns, 0, fmt.Sprintf("%d frames built octet by octet from DESIGN Appendix C + %d sub-structure seeds cut from them", nf, ns-nf))
	add(fmt.Sprintf("c:all-bodies-len<=%d-after-16-headers", maxLen), famAfterHeader, 0, 0, maxLen, "15 service ids + 0x0310, total length truthful; knxnet.Unpack")
	add(fmt.Sprintf("c:all-strings-len<=%d-after-8-cemi-codes", maxLen), famAfterCode, 0, 0, maxLen, "7 message codes + 0xFC; cemi.Unpack")
	add("b:truncations:frames", famTrunc, 0, nf, 0, "g[:k] for k = 0..len(g)")
	add("b:truncations:substructures", famTrunc, nf, ns, 0, "s[:k] for k = 0..len(s), every seed")
	add("b:extensions:frames", famExt, 0, nf, 0, which+"g + w, w in {00,01,02,08,36,FF}^1..3 (total length field left as is)")
	add("b:extensions:substructures", famExt, nf, ns, 0, which+"as above")
	add("b:single-substitutions:frames", famSub1, 0, nf, 0, which+"every position x every value 0..255")
	add("b:single-substitutions:substructures", famSub1, nf, ns, 0, which+"as above")
	add("b:double-substitutions:frames", famSub2, 0, nf, 0, which+"ordered pairs (p,q) of structure octets, g[p] in 0..255, g[q] in {00..08,0F,10,36,7F,80,FE,FF}")
	add("b:double-substitutions:substructures", famSub2, nf, ns, 0, which+"as above")
	return sp
}

// acase is one generated case.
type acase struct {
	kind     int
	x        []byte
	seed     int  // -1 for (c)
	identity bool // the mutation reproduced the seed (counted once only, in a:corpus)
}

// gen regenerates case idx of space sp into buf (which must hold 512 octets).
func (c *corpus) gen(sp *space, idx int64, buf []byte) acase {
	switch sp.fam {
	case famAfterHeader, famAfterCode:
		per := powSum(sp.maxLen)
		h, j := int(idx/per), idx%per
		l := 0
		for p := int64(1); j >= p; p *= 256 {
			j -= p
			l++
		}
		var x []byte
		if sp.fam == famAfterHeader {
			id := headerIDs[h]
			x = append(buf[:0], 0x06, 0x10, byte(id>>8), byte(id), 0, byte(6+l))
		} else {
			x = append(buf[:0], cemiCodes[h])
		}
		for i := l - 1; i >= 0; i-- {
			x = append(x, byte(j>>(8*uint(i))))
		}
		if sp.fam == famAfterHeader {
			return acase{kind: kKnxnet, x: x, seed: -1}
		}
		return acase{kind: kCemi, x: x, seed: -1}
	}
	i := sort.Search(len(sp.cum)-1, func(i int) bool { return sp.cum[i+1] > idx })
	si := sp.s0 + i
	s := &c.seeds[si]
	j := idx - sp.cum[i]
	x := append(buf[:0], s.b...)
	ac := acase{kind: s.kind, seed: si}
	switch sp.fam {
	case famCorpus:
	case famTrunc:
		x = x[:j]
		ac.identity = int(j) == len(s.b)
	case famExt:
		n := 1
		for p := int64(6); j >= p; p *= 6 {
			j -= p
			n++
		}
		for k := 0; k < n; k++ {
			x = append(x, alpha6[j%6])
			j /= 6
		}
	case famSub1:
		p, v := int(j/256), byte(j%256)
		ac.identity = x[p] == v
		x[p] = v
	case famSub2:
		m := int64(len(s.st))
		pi, r := j/4096, j%4096
		p, q := pi/(m-1), pi%(m-1)
		if q >= p {
			q++
		}
		va, vb := byte(r/16), alpha16[r%16]
		pp, qq := s.st[p], s.st[q]
		ac.identity = x[pp] == va && x[qq] == vb
		x[pp], x[qq] = va, vb
	}
	ac.x = x
	return ac
}
