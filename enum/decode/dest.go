//go:build verif

package decode

import (
	"encoding/hex"
	"encoding/json"
	"fmt"
	"time"

	"github.com/vapourismo/knx-go/knx/cemi"
	"github.com/vapourismo/knx-go/knx/knxnet"
	"verifh/enum/enumlib"
)

// Destination reuse: "the outcome is a function of the input bytes alone" also when the caller
// decodes datagram after datagram into ONE variable, as a receive loop does. The two entry points
// that take a destination (knxnet.Unpack(data, &srv), cemi.Unpack(data, &msg)) are called with a
// destination that still holds the result of an earlier datagram A, for every ordered pair (A, B)
// of corpus elements of that entry point and every truncation of B:
//
//	(i)  (err == nil, n, deep value) must equal the outcome of decoding the same octets into a
//	     fresh destination;
//	(ii) the value that was returned for A (kept by the caller) must still be the value it was
//	     before B was decoded: A's outcome is a function of A's octets, not of what came later.
//
// The pass runs in-process after the bulk enumeration (which has established termination for
// these inputs on a fresh destination); a watchdog covers the pass as a whole.

type destInput struct {
	Entry  string `json:"entry"`
	First  string `json:"first"`
	Second string `json:"second"`
}

type destOutcome struct {
	n        uint
	ok       bool
	errText  string
	val      string
	panicked string
}

func (o destOutcome) String() string {
	switch {
	case o.panicked != "":
		return "PANIC " + o.panicked
	case !o.ok:
		return fmt.Sprintf("n=%d err=%q", o.n, o.errText)
	}
	return fmt.Sprintf("n=%d err=nil value=%s", o.n, o.val)
}

func (o destOutcome) same(p destOutcome) bool {
	if o.panicked != "" || p.panicked != "" {
		return (o.panicked != "") == (p.panicked != "")
	}
	if o.ok != p.ok || o.n != p.n {
		return false
	}
	return !o.ok || o.val == p.val
}

// destDecode decodes b into a destination that holds the result of a (a == nil: fresh). It
// returns the outcome for b, and the rendering of a's value before and after b was decoded.
func destDecode(kind int, a, b []byte) (out destOutcome, firstBefore, firstAfter string) {
	defer func() {
		if p := recover(); p != nil {
			out.panicked = fmt.Sprint(p)
		}
	}()
	var n uint
	var err error
	switch kind {
	case kKnxnet:
		var v knxnet.Service
		var first knxnet.Service
		if a != nil {
			knxnet.Unpack(a, &v)
			first = v
			firstBefore = dump(first)
		}
		n, err = knxnet.Unpack(b, &v)
		if a != nil {
			firstAfter = dump(first)
		}
		if err == nil {
			out.val = dump(v)
		}
	case kCemi:
		var v cemi.Message
		var first cemi.Message
		if a != nil {
			cemi.Unpack(a, &v)
			first = v
			firstBefore = dump(first)
		}
		n, err = cemi.Unpack(b, &v)
		if a != nil {
			firstAfter = dump(first)
		}
		if err == nil {
			out.val = dump(v)
		}
	}
	out.n, out.ok = n, err == nil
	if err != nil {
		out.errText = err.Error()
	}
	return
}

func destGoTest(kind int, a, b []byte, rewritten bool) string {
	pkg, typ := "knxnet", "knxnet.Service"
	if kind == kCemi {
		pkg, typ = "cemi", "cemi.Message"
	}
	if rewritten {
		return fmt.Sprintf("// imports: encoding/hex, fmt, testing, %s\nfunc TestC01EarlierResultRewritten(t *testing.T) {\n\ta, _ := hex.DecodeString(%q)\n\tb, _ := hex.DecodeString(%q)\n\tvar v %s\n\t%s.Unpack(a, &v)\n\tfirst := v\n\twant := fmt.Sprintf(\"%%+v\", first)\n\t%s.Unpack(b, &v)\n\tif got := fmt.Sprintf(\"%%+v\", first); got != want {\n\t\tt.Fatalf(\"the value decoded first changed from %%s to %%s\", want, got)\n\t}\n}",
			pkg, hex.EncodeToString(a), hex.EncodeToString(b), typ, pkg, pkg)
	}
	return fmt.Sprintf("// imports: encoding/hex, reflect, testing, %s\nfunc TestC01DestinationReuse(t *testing.T) {\n\ta, _ := hex.DecodeString(%q)\n\tb, _ := hex.DecodeString(%q)\n\tvar fresh, reused %s\n\tn1, e1 := %s.Unpack(b, &fresh)\n\t%s.Unpack(a, &reused)\n\tn2, e2 := %s.Unpack(b, &reused)\n\tif n1 != n2 || (e1 == nil) != (e2 == nil) || (e1 == nil && !reflect.DeepEqual(fresh, reused)) {\n\t\tt.Fatalf(\"same octets, different result: n=%%d err=%%v %%+v / n=%%d err=%%v %%+v\", n1, e1, fresh, n2, e2, reused)\n\t}\n}",
		pkg, hex.EncodeToString(a), hex.EncodeToString(b), typ, pkg, pkg, pkg)
}

func destPass(r *enumlib.Run, c *corpus) {
	type res struct {
		total, nontrivial int64
		viol              map[string][]interface{} // class -> msg, input, test, count
	}
	doneCh := make(chan res, 1)
	go func() {
		out := res{viol: map[string][]interface{}{}}
		report := func(class, msg string, in destInput, test string) {
			if v, ok := out.viol[class]; ok {
				v[3] = v[3].(int64) + 1
				return
			}
			out.viol[class] = []interface{}{msg, in, test, int64(1)}
		}
		for _, kind := range []int{kKnxnet, kCemi} {
			var seeds []seed
			for _, s := range c.seeds {
				if s.kind == kind {
					seeds = append(seeds, s)
				}
			}
			for _, sb := range seeds {
				for l := len(sb.b); l >= 0; l-- {
					b := sb.b[:l:l]
					fresh, _, _ := destDecode(kind, nil, b)
					for _, sa := range seeds {
						out.total++
						got, before, after := destDecode(kind, sa.b, b)
						if fresh.ok {
							out.nontrivial++
						}
						in := destInput{kindNames[kind], hex.EncodeToString(sa.b), hex.EncodeToString(b)}
						if !got.same(fresh) {
							report("C01:outcome-depends-on-destination:"+decoderOf(kind, b),
								fmt.Sprintf("%s(%s) (%d octets) into a fresh destination: %s  BUT  into the destination that held the result of %s: %s", kindNames[kind], in.Second, len(b), fresh, in.First, got),
								in, destGoTest(kind, sa.b, b, false))
						}
						if got.panicked == "" && before != after { // (a panic of the second decode is reported by (i); the first value was not looked at again)
							report("C01:earlier-result-rewritten:"+decoderOf(kind, sa.b),
								fmt.Sprintf("%s(%s) returned %s; after the caller decoded %s into the same variable, the value it had been given for the first datagram reads %s", kindNames[kind], in.First, before, in.Second, after),
								in, destGoTest(kind, sa.b, b, true))
						}
					}
				}
			}
		}
		doneCh <- out
	}()
	select {
	case out := <-doneCh:
		r.Space("e:destination-reuse", out.total, out.nontrivial, true,
			"every ordered pair (A, B) of corpus elements of knxnet.Unpack and of cemi.Unpack, B and every truncation of B decoded into the destination that holds A's result; compared with a fresh destination, and A's value compared before/after")
		r.Eval(out.total)
		for cl, v := range out.viol {
			r.ViolationWithTest(cl, v[0].(string), v[1], v[2].(string))
			for i := int64(1); i < v[3].(int64); i++ {
				r.Violation(cl, "", nil)
			}
		}
	case <-time.After(10 * time.Minute):
		r.Violation("C01:hang:destination-reuse", "decoding into a destination that holds an earlier result did not finish within 10 minutes (the same inputs terminate on a fresh destination)", nil)
	}
}

func replayDest(raw json.RawMessage) (string, bool) {
	var in destInput
	if err := json.Unmarshal(raw, &in); err != nil {
		return "cannot decode input: " + err.Error(), false
	}
	kind := kindByName(in.Entry)
	a, _ := hex.DecodeString(in.First)
	b, _ := hex.DecodeString(in.Second)
	if kind != kKnxnet && kind != kCemi {
		return "unknown entry point " + in.Entry, false
	}
	fresh, _, _ := destDecode(kind, nil, b)
	got, before, after := destDecode(kind, a, b)
	desc := fmt.Sprintf("%s: first %s, then %s\n  fresh destination:  %s\n  reused destination: %s\n  first value before: %s\n  first value after:  %s", in.Entry, in.First, in.Second, fresh, got, before, after)
	return desc, !got.same(fresh) || (got.panicked == "" && before != after)
}
