//go:build verif

package decode

// The two subprocess roles (enumlib.RegisterWorker / ENUM_WORKER):
//
//	c01        bulk worker: reads "B <space> <lo> <hi> <trip-us>" lines, enumerates the cases of the
//	           batch, answers with V/H/X lines and a final D line. Before every case it stores the
//	           case index in an mmap'ed progress file, so that the parent knows which case a dead or
//	           stuck worker was on.
//	c01-single one case, generously timed: used to confirm hangs and crashes (twice) and by --replay.
//
// Hang detection inside the bulk worker ("fast path"): a monitor thread watches the CPU time the
// decoding thread spends inside one call of the library. Past the allowance it revokes access to
// the mmap'ed input arena; a decoder that loops over its input faults on its next read, the fault
// becomes a panic (debug.SetPanicOnFault) and is recovered. The case is run a second time - with 5
// times the allowance if a function the parent has already confirmed to loop is on the faulting
// stack, with 25 times the allowance otherwise - and only if that run ends the same way it is a hang *candidate* and is
// skipped; the parent confirms one representative per stack signature in c01-single processes with
// a 5 s limit (twice) before it counts any of them. A loop that never touches its input again is
// caught by the parent's watchdog (worker silent for 20 s, progress file, confirmation).

import (
	"bufio"
	"encoding/hex"
	"encoding/json"
	"fmt"
	"os"
	"runtime"
	"runtime/debug"
	"strconv"
	"strings"
	"sync/atomic"
	"syscall"
	"time"
	"unsafe"

	"verifh/enum/enumlib"
)

func init() {
	enumlib.RegisterWorker("c01", workerMain)
	enumlib.RegisterWorker("c01-single", singleMain)
}

// threadCPU returns the CPU time consumed by thread tid in nanoseconds (-1 if unavailable).
func threadCPU(tid int) int64 {
	clockid := int32((^tid)<<3 | 6) // MAKE_THREAD_CPUCLOCK(tid, CPUCLOCK_SCHED)
	var ts syscall.Timespec
	_, _, e := syscall.Syscall(syscall.SYS_CLOCK_GETTIME, uintptr(int64(clockid)), uintptr(unsafe.Pointer(&ts)), 0)
	if e != 0 {
		return -1
	}
	return ts.Sec*1e9 + ts.Nsec
}

type vagg struct {
	Class  string `json:"class"`
	Count  int64  `json:"count"`
	Idx    int64  `json:"idx"`
	Kind   int    `json:"kind"`
	Hex    string `json:"hex"`
	Msg    string `json:"msg"`
	GoTest string `json:"go_test"`
}

type hagg struct {
	count, idx int64
}

type bulk struct {
	c      *corpus
	sps    []*space
	e      *evaluator
	prog   []byte
	out    *bufio.Writer
	tripNs atomic.Int64 // CPU time one decoder call may take before access to its input is revoked (0: never)

	loopersPath string
	loopers     map[string]bool
}

func envInt(name string, def int) int {
	if v, err := strconv.Atoi(os.Getenv(name)); err == nil {
		return v
	}
	return def
}

func workerMain() {
	w := &bulk{c: buildCorpus(), out: bufio.NewWriterSize(os.Stdout, 1<<16), loopersPath: os.Getenv("C01_LOOPERS"), loopers: map[string]bool{}}
	w.sps = buildSpaces(w.c, os.Getenv("C01_TIER") == "thorough")
	if p := os.Getenv("C01_PROGRESS"); p != "" {
		f, err := os.OpenFile(p, os.O_RDWR, 0)
		if err == nil {
			w.prog, err = syscall.Mmap(int(f.Fd()), 0, 8, syscall.PROT_READ|syscall.PROT_WRITE, syscall.MAP_SHARED)
		}
		if err != nil {
			fmt.Println("E cannot map the progress file:", err)
			os.Exit(3)
		}
	} else {
		w.prog = make([]byte, 8)
	}
	runtime.LockOSThread()
	debug.SetPanicOnFault(true)
	w.e = newEvaluator()
	tid := syscall.Gettid()
	if threadCPU(tid) >= 0 {
		go w.monitor(tid)
	}
	fmt.Fprintf(w.out, "R %s %d\n", w.c.fp, len(w.sps))
	w.out.Flush()
	in := bufio.NewScanner(os.Stdin)
	for in.Scan() {
		var sp int
		var lo, hi int64
		var tripUs int64
		if _, err := fmt.Sscanf(in.Text(), "B %d %d %d %d", &sp, &lo, &hi, &tripUs); err != nil || sp < 0 || sp >= len(w.sps) {
			fmt.Fprintf(w.out, "E bad request %q\n", in.Text())
			w.out.Flush()
			os.Exit(3)
		}
		w.tripNs.Store(tripUs * 1000)
		w.batch(w.sps[sp], lo, hi)
	}
}

// rawSleep blocks the calling thread in nanosleep. (time.Sleep is useless here: an idle P waits
// for its timers in epoll with a granularity of 1 ms. Not RawSyscall: the garbage collector could
// not stop a goroutine that spends its life inside a system call the scheduler does not know of.)
func rawSleep(us int64) {
	ts := syscall.Timespec{Sec: 0, Nsec: us * 1000}
	syscall.Syscall(syscall.SYS_NANOSLEEP, uintptr(unsafe.Pointer(&ts)), 0, 0)
}

// monitor revokes access to the input arena when one call of a decoder has consumed more CPU time
// than allowed. It runs on a thread of its own. It only counts CPU time it has seen pass between
// two of its own polls during the same call, so it under-estimates. It polls faster for a while
// after a trip (hangs come in runs).
func (w *bulk) monitor(tid int) {
	runtime.LockOSThread()
	var last uint64
	var acc, lastCPU int64
	hot := 0
	for {
		if hot > 0 {
			hot--
			rawSleep(40)
		} else {
			rawSleep(250)
		}
		s := w.e.seq.Load()
		limit := w.tripNs.Load()
		if s&1 == 0 || limit == 0 {
			last = s
			continue
		}
		now := threadCPU(tid)
		if s != last {
			last, acc, lastCPU = s, 0, now
			continue
		}
		acc += now - lastCPU
		lastCPU = now
		if acc >= limit && !w.e.tripped.Load() {
			w.e.tripped.Store(true)
			w.e.a.protect(true)
			hot = 5000
			acc = 0
		}
	}
}

// knownLoopers re-reads the list of confirmed looping functions the parent maintains.
func (w *bulk) knownLoopers() {
	if w.loopersPath == "" {
		return
	}
	b, err := os.ReadFile(w.loopersPath)
	if err != nil {
		return
	}
	for _, fn := range strings.Fields(string(b)) {
		w.loopers[fn] = true
	}
}

func (w *bulk) hasLooper(frames []string) bool {
	for _, f := range frames {
		if w.loopers[f] {
			return true
		}
	}
	return false
}

func trippedIn(res *[nBackings]result) []string {
	for b := 0; b < nBackings; b++ {
		if res[b].tripped {
			return res[b].frames
		}
	}
	return nil
}

// A tripped case is run again with a multiple of the CPU allowance: 5 times when a function
// already confirmed to loop is on the faulting stack, 25 times otherwise.
const (
	patienceKnown = 5
	patience      = 25
)

func (w *bulk) batch(sp *space, lo, hi int64) {
	c := w.c
	viol := map[string]*vagg{}
	var violOrder []string
	hangs := map[string]*hagg{}
	var hangOrder []string
	var rejected []int64
	var evals, success, ident, spurious int64
	buf := make([]byte, 0, maxCase)
	prog := (*int64)(unsafe.Pointer(&w.prog[0]))
	beat := time.Now()
	fast := w.tripNs.Load()
	w.knownLoopers()
	heartbeat := func(idx int64) {
		if time.Since(beat) > time.Second {
			beat = time.Now()
			fmt.Fprintf(w.out, "P %d\n", idx)
			w.out.Flush()
		}
	}
	record := func(cl string, idx int64, ac *acase, rem []byte, res *[nBackings]result) {
		if v := viol[cl]; v != nil {
			v.Count++
			return
		}
		v := &vagg{Class: cl, Count: 1, Idx: idx, Kind: ac.kind, Hex: hex.EncodeToString(ac.x)}
		for _, vd := range judge(ac.kind, ac.x, rem, res) {
			if vd.Class == cl {
				v.Msg, v.GoTest = vd.Msg, vd.GoTest
			}
		}
		viol[cl] = v
		violOrder = append(violOrder, cl)
	}
	unknownTrips := 0
	for idx := lo; idx < hi; idx++ {
		atomic.StoreInt64(prog, idx)
		ac := c.gen(sp, idx, buf)
		rem := c.seeds[c.remnant[ac.kind]].b
		res := w.e.eval(ac.kind, ac.x, rem)
		evals++
		if ac.identity {
			ident++
		}
		if fr := trippedIn(&res); fr != nil {
			// A trip is a hang candidate only if it repeats: at once when the stack holds a
			// function already confirmed to loop, with a much larger allowance otherwise.
			known := w.hasLooper(fr)
			if !known {
				if unknownTrips++; unknownTrips%16 == 1 {
					w.knownLoopers()
					known = w.hasLooper(fr)
				}
			}
			if known {
				w.tripNs.Store(fast * patienceKnown)
			} else {
				w.tripNs.Store(fast * patience)
			}
			res = w.e.eval(ac.kind, ac.x, rem)
			w.tripNs.Store(fast)
			heartbeat(idx)
			if fr2 := trippedIn(&res); fr2 != nil {
				key := strings.Join(fr2, ";")
				if h := hangs[key]; h != nil {
					h.count++
				} else {
					hangs[key] = &hagg{1, idx}
					hangOrder = append(hangOrder, key)
					if !known { // let the parent start the confirmation now
						fmt.Fprintf(w.out, "C %d %s\n", idx, key)
						w.out.Flush()
					}
				}
				continue
			}
			spurious++
		}
		if res[0].ok && !res[0].panicked {
			if !ac.identity {
				success++
			}
		} else if sp.fam == famCorpus && c.seeds[ac.seed].valid {
			rejected = append(rejected, idx)
		}
		if c1, c2 := classify(ac.kind, ac.x, &res); c1 != "" {
			record(c1, idx, &ac, rem, &res)
			if c2 != "" {
				record(c2, idx, &ac, rem, &res)
			}
		}
		if idx&1023 == 0 {
			heartbeat(idx)
		}
	}
	atomic.StoreInt64(prog, -1)
	for _, cl := range violOrder {
		b, _ := json.Marshal(viol[cl])
		w.out.WriteString("V ")
		w.out.Write(b)
		w.out.WriteByte('\n')
	}
	for _, k := range hangOrder {
		fmt.Fprintf(w.out, "H %d %d %s\n", hangs[k].count, hangs[k].idx, k)
	}
	for _, i := range rejected {
		fmt.Fprintf(w.out, "X %d\n", i)
	}
	fmt.Fprintf(w.out, "D %d %d %d %d\n", evals, success, ident, spurious)
	w.out.Flush()
}

// ---------------------------------------------------------------------------------------------
// single-case process

type singleReq struct {
	Entry   string `json:"entry"`
	Hex     string `json:"hex"`
	LimitMs int    `json:"limit_ms"`
}

type singleRes struct {
	Status   string    `json:"status"` // "done" | "hang"
	Success  bool      `json:"success"`
	Results  []string  `json:"results,omitempty"`
	Verdicts []verdict `json:"verdicts,omitempty"`
	Looper   string    `json:"looper,omitempty"` // innermost library function common to all stack samples
	Frames   []string  `json:"frames,omitempty"`
	Samples  int       `json:"samples,omitempty"`
}

// sampleLibFrames returns the library functions on the stack of the decoding goroutine,
// outermost first, from a dump of all goroutines.
func sampleLibFrames() []string {
	buf := make([]byte, 1<<18)
	buf = buf[:runtime.Stack(buf, true)]
	for _, g := range strings.Split(string(buf), "\n\n") {
		if !strings.Contains(g, "decode.(*evaluator).evalOnce") {
			continue
		}
		var fr []string
		for _, ln := range strings.Split(g, "\n") {
			if strings.HasPrefix(ln, modPrefix) {
				if i := strings.LastIndexByte(ln, '('); i > 0 {
					fr = append([]string{shortName(ln[:i])}, fr...)
				}
			}
		}
		return fr
	}
	return nil
}

func singleMain() {
	var rq singleReq
	if err := json.NewDecoder(os.Stdin).Decode(&rq); err != nil {
		fmt.Println(`{"status":"error"}`)
		os.Exit(3)
	}
	kind := kindByName(rq.Entry)
	x, err := hex.DecodeString(rq.Hex)
	if kind < 0 || err != nil || len(x) > maxCase {
		fmt.Println(`{"status":"error"}`)
		os.Exit(3)
	}
	c := buildCorpus()
	rem := c.seeds[c.remnant[kind]].b
	e := newEvaluator()
	var res [nBackings]result
	done := make(chan struct{})
	go func() {
		res = e.eval(kind, x, rem)
		close(done)
	}()
	limit := time.Duration(rq.LimitMs) * time.Millisecond
	if limit <= 0 {
		limit = 5 * time.Second
	}
	t0 := time.Now()
	out := singleRes{}
	var common []string
	for {
		wait := 300 * time.Millisecond
		if out.Samples > 0 {
			wait = 20 * time.Millisecond
		}
		select {
		case <-done:
			out.Status = "done"
			out.Success = res[0].ok && !res[0].panicked
			for b := 0; b < nBackings; b++ {
				out.Results = append(out.Results, "["+backingNames[b]+"] "+res[b].String())
			}
			out.Verdicts = judge(kind, x, rem, &res)
			b, _ := json.Marshal(out)
			fmt.Println(string(b))
			return
		case <-time.After(wait):
		}
		if fr := sampleLibFrames(); len(fr) > 0 {
			if out.Samples == 0 {
				common = fr
			} else {
				k := 0
				for k < len(common) && k < len(fr) && common[k] == fr[k] {
					k++
				}
				common = common[:k]
			}
			out.Samples++
			out.Frames = fr
		}
		if time.Since(t0) >= limit {
			out.Status = "hang"
			if len(common) > 0 {
				out.Looper = common[len(common)-1]
			}
			b, _ := json.Marshal(out)
			fmt.Println(string(b))
			os.Exit(0)
		}
	}
}
