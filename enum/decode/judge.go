//go:build verif

package decode

// Decoding one case from the four buffer backings and judging the outcomes. Shared by the worker
// processes (bulk enumeration) and by the single-case process (confirmation of hangs, --replay).

import (
	"encoding/hex"
	"fmt"
	"reflect"
	"runtime"
	"strings"
	"sync/atomic"
	"syscall"
	"unsafe"

	"github.com/vapourismo/knx-go/knx/cemi"
	"github.com/vapourismo/knx-go/knx/knxnet"
	"github.com/vapourismo/knx-go/knx/util"
)

const modPrefix = "github.com/vapourismo/knx-go/"

// buffer backings every case is decoded from
const (
	bExact   = iota // fresh region with cap == len
	bA5             // x is the prefix of a 2 KiB buffer filled with 0xA5
	b00             // ... filled with 0x00
	bRemnant        // ... holding the octets of a longer valid datagram (at their own offsets), then 0xFF
	nBackings
)

var backingNames = [nBackings]string{"cap==len", "prefix of 2KiB filled with A5", "prefix of 2KiB filled with 00", "prefix of 2KiB holding an earlier longer datagram then FF"}

const (
	padSize   = 2048
	pageSize  = 4096
	arenaSize = 4 * pageSize
	maxCase   = 1024 // longest case the arena takes
)

// arena is the memory the decoders read their input from. It is mmap'ed (outside the Go heap) so
// that the hang monitor can revoke access to it: the next read of a decoder that loops over its
// input then faults, the fault is turned into a panic (debug.SetPanicOnFault) and the case ends.
type arena struct {
	mem     []byte
	prevLen int // extent of the pads that does not hold the fill pattern
}

func newArena() *arena {
	m, err := syscall.Mmap(-1, 0, arenaSize, syscall.PROT_READ|syscall.PROT_WRITE, syscall.MAP_ANON|syscall.MAP_PRIVATE)
	if err != nil {
		panic("mmap: " + err.Error())
	}
	a := &arena{mem: m}
	for i := 0; i < padSize; i++ {
		m[1*pageSize+i] = 0xA5
		m[2*pageSize+i] = 0x00
		m[3*pageSize+i] = 0xFF
	}
	return a
}

func (a *arena) protect(on bool) {
	p := syscall.PROT_READ | syscall.PROT_WRITE
	if on {
		p = syscall.PROT_NONE
	}
	if err := syscall.Mprotect(a.mem, p); err != nil {
		panic("mprotect: " + err.Error())
	}
}

func (a *arena) contains(addr uintptr) bool {
	base := uintptr(unsafe.Pointer(&a.mem[0]))
	return addr >= base && addr < base+arenaSize
}

// remnantTail returns what follows x in the remnant backing: the octets [len(x):] of the earlier,
// longer datagram rem (the rest of the buffer is 0xFF).
func remnantTail(x, rem []byte) []byte {
	if len(x) >= len(rem) {
		return nil
	}
	return rem[len(x):]
}

// load places x under the four backings. rem is the earlier, longer datagram of the remnant backing.
func (a *arena) load(x, rem []byte) (bk [nBackings][]byte) {
	l := len(x)
	if l > maxCase || len(rem) > maxCase {
		panic("case longer than the arena allows")
	}
	m := a.mem
	copy(m[0:], x)
	bk[bExact] = m[0:l:l]
	for i, fill := range [...]byte{0xA5, 0x00, 0xFF} {
		p := m[(i+1)*pageSize : (i+1)*pageSize+padSize : (i+1)*pageSize+padSize]
		for j := 0; j < a.prevLen; j++ {
			p[j] = fill
		}
		if i == 2 {
			copy(p, rem)
		}
		copy(p, x)
		bk[bA5+i] = p[:l]
	}
	a.prevLen = l
	if len(rem) > l {
		a.prevLen = len(rem)
	}
	return
}

// result is the outcome of decoding from one backing.
type result struct {
	ran      bool
	panicked bool
	pval     string
	frames   []string // knx-go functions on the panicking stack, innermost first (short names)
	tripped  bool     // ended by the hang monitor (access to the input revoked)
	ok       bool     // err == nil
	errText  string
	n        uint
	val      interface{}
}

// decodeCall hands data to the library entry point of the kind.
func decodeCall(kind int, data []byte) (n uint, err error, val interface{}) {
	switch kind {
	case kKnxnet:
		var v knxnet.Service
		n, err = knxnet.Unpack(data, &v)
		val = v
	case kCemi:
		var v cemi.Message
		n, err = cemi.Unpack(data, &v)
		val = v
	case kHostInfo:
		v := &knxnet.HostInfo{}
		n, err = v.Unpack(data)
		val = v
	case kDevInfo:
		v := &knxnet.DeviceInformationBlock{}
		n, err = v.Unpack(data)
		val = v
	case kSuppSvc:
		v := &knxnet.SupportedServicesDIB{}
		n, err = v.Unpack(data)
		val = v
	case kDescrBlock:
		v := &knxnet.DescriptionBlock{}
		n, err = v.Unpack(data)
		val = v
	case kInfo:
		v := &cemi.Info{}
		n, err = v.Unpack(data)
		val = v
	case kLData:
		v := &cemi.LData{}
		n, err = v.Unpack(data)
		val = v
	case kString:
		v := new(string)
		n, err = util.UnpackString(data, 30, v)
		val = v
	default:
		panic("unknown decoder kind")
	}
	return
}

// goCall is the source text of decodeCall for the reproducing test.
func goCall(kind int, data, v string) (decl, call string) {
	switch kind {
	case kKnxnet:
		return "var " + v + " knxnet.Service", "knxnet.Unpack(" + data + ", &" + v + ")"
	case kCemi:
		return "var " + v + " cemi.Message", "cemi.Unpack(" + data + ", &" + v + ")"
	case kHostInfo:
		return "var " + v + " knxnet.HostInfo", v + ".Unpack(" + data + ")"
	case kDevInfo:
		return "var " + v + " knxnet.DeviceInformationBlock", v + ".Unpack(" + data + ")"
	case kSuppSvc:
		return "var " + v + " knxnet.SupportedServicesDIB", v + ".Unpack(" + data + ")"
	case kDescrBlock:
		return "var " + v + " knxnet.DescriptionBlock", v + ".Unpack(" + data + ")"
	case kInfo:
		return "var " + v + " cemi.Info", v + ".Unpack(" + data + ")"
	case kLData:
		return "var " + v + " cemi.LData", v + ".Unpack(" + data + ")"
	}
	return "var " + v + " string", "util.UnpackString(" + data + ", 30, &" + v + ")"
}

// stack symbolisation --------------------------------------------------------------------------

// shortName turns "github.com/vapourismo/knx-go/knx/knxnet.(*ConnRes).Unpack" into
// "ConnRes.Unpack" and ".../knx/util.UnpackString" into "util.UnpackString".
func shortName(fn string) string {
	if i := strings.LastIndexByte(fn, '/'); i >= 0 {
		fn = fn[i+1:]
	}
	dot := strings.IndexByte(fn, '.')
	if dot < 0 {
		return fn
	}
	pkg, rest := fn[:dot], fn[dot+1:]
	rest = strings.ReplaceAll(strings.ReplaceAll(rest, "(*", ""), ")", "")
	if strings.IndexByte(rest, '.') >= 0 { // method: Type.Method
		return rest
	}
	return pkg + "." + rest
}

type pcKey [12]uintptr

type symCache map[pcKey][]string

// libFrames lists the functions of the library under test on the current stack, innermost first.
func (c symCache) libFrames(skip int) []string {
	var key pcKey
	n := runtime.Callers(skip+1, key[:])
	if fr, ok := c[key]; ok {
		return fr
	}
	pcs := make([]uintptr, 64)
	pcs = pcs[:runtime.Callers(skip+1, pcs)]
	var out []string
	it := runtime.CallersFrames(pcs)
	for {
		f, more := it.Next()
		if strings.HasPrefix(f.Function, modPrefix) {
			out = append(out, shortName(f.Function))
		}
		if !more {
			break
		}
	}
	if n > 0 {
		c[key] = out
	}
	return out
}

// evaluator decodes cases. tripped is set by the hang monitor before it revokes access.
type evaluator struct {
	a       *arena
	sym     symCache
	tripped atomic.Bool
	seq     atomic.Uint64 // odd while the library is executing (what the hang monitor times)
}

func newEvaluator() *evaluator { return &evaluator{a: newArena(), sym: symCache{}} }

type addrError interface{ Addr() uintptr }

// decodeGuarded runs one decode; a panic of the library is part of the result.
func (e *evaluator) decodeGuarded(kind int, data []byte) (res result) {
	res.ran = true
	defer func() {
		if p := recover(); p != nil {
			e.seq.Add(1)
			res.frames = e.sym.libFrames(1)
			if ae, ok := p.(addrError); ok && e.tripped.Load() && e.a.contains(ae.Addr()) {
				e.a.protect(false)
				e.tripped.Store(false)
				res.tripped = true
				return
			}
			res.panicked = true
			res.pval = fmt.Sprint(p)
		}
	}()
	e.seq.Add(1)
	n, err, val := decodeCall(kind, data)
	e.seq.Add(1)
	res.n, res.ok, res.val = n, err == nil, val
	if err != nil {
		res.errText = err.Error()
	}
	return
}

// eval decodes x from all backings. A fault of the harness itself on the revoked arena (the
// monitor fired just after the decoder returned) is undone and the case is evaluated again.
func (e *evaluator) eval(kind int, x, rem []byte) (res [nBackings]result) {
	for {
		if e.evalOnce(kind, x, rem, &res) {
			return
		}
	}
}

func (e *evaluator) evalOnce(kind int, x, rem []byte, res *[nBackings]result) (done bool) {
	defer func() {
		if p := recover(); p != nil {
			if ae, ok := p.(addrError); ok && e.tripped.Load() && e.a.contains(ae.Addr()) {
				e.a.protect(false)
				e.tripped.Store(false)
				done = false
				return
			}
			panic(p)
		}
	}()
	*res = [nBackings]result{}
	bk := e.a.load(x, rem)
	for b := 0; b < nBackings; b++ {
		res[b] = e.decodeGuarded(kind, bk[b])
		if res[b].tripped {
			break
		}
	}
	return true
}

// naming ----------------------------------------------------------------------------------------

func cemiDecoder(code byte) string {
	switch code {
	case 0x11, 0x29, 0x2E:
		return "LData.Unpack"
	case 0x10, 0x2D, 0x2F:
		return "LRaw.Unpack"
	case 0x2B:
		return "LBusmonInd.Unpack"
	}
	return "UnsupportedMessage.Unpack"
}

// decoderOf names the decoder a case is addressed to, from the wire format alone (service
// identifier, message code). It is the class suffix of findings that have no panic stack.
func decoderOf(kind int, x []byte) string {
	switch kind {
	case kKnxnet:
		if len(x) < 6 || x[0] != 0x06 || x[1] != 0x10 {
			return "knxnet.UnpackHeader"
		}
		id := uint16(x[2])<<8 | uint16(x[3])
		switch id {
		case 0x0420:
			if len(x) > 10 && x[6] == 4 {
				return cemiDecoder(x[10])
			}
		case 0x0530:
			if len(x) > 6 {
				return cemiDecoder(x[6])
			}
		case 0x0204:
			return "DescriptionBlock.Unpack"
		}
		if n, ok := serviceNames[id]; ok {
			return n + ".Unpack"
		}
		return "UnknownService.Unpack"
	case kCemi:
		if len(x) == 0 {
			return "cemi.Unpack"
		}
		return cemiDecoder(x[0])
	case kString:
		return "util.UnpackString"
	}
	return kindNames[kind]
}

// deep rendering --------------------------------------------------------------------------------

func dump(v interface{}) string {
	var b strings.Builder
	dumpValue(&b, reflect.ValueOf(v), 0)
	return b.String()
}

func dumpValue(b *strings.Builder, v reflect.Value, depth int) {
	if !v.IsValid() {
		b.WriteString("nil")
		return
	}
	if depth > 12 {
		b.WriteString("...")
		return
	}
	switch v.Kind() {
	case reflect.Ptr:
		if v.IsNil() {
			b.WriteString("nil")
			return
		}
		b.WriteByte('&')
		dumpValue(b, v.Elem(), depth+1)
	case reflect.Interface:
		if v.IsNil() {
			b.WriteString("nil")
			return
		}
		dumpValue(b, v.Elem(), depth+1)
	case reflect.Struct:
		b.WriteString(v.Type().Name())
		b.WriteByte('{')
		for i := 0; i < v.NumField(); i++ {
			if i > 0 {
				b.WriteString(", ")
			}
			b.WriteString(v.Type().Field(i).Name)
			b.WriteByte(':')
			dumpValue(b, v.Field(i), depth+1)
		}
		b.WriteByte('}')
	case reflect.Slice, reflect.Array:
		if v.Kind() == reflect.Slice && v.IsNil() {
			b.WriteString("nil")
			return
		}
		if v.Type().Elem().Kind() == reflect.Uint8 {
			fmt.Fprintf(b, "[%d]x", v.Len())
			for i := 0; i < v.Len(); i++ {
				fmt.Fprintf(b, "%02x", v.Index(i).Uint())
			}
			return
		}
		b.WriteByte('[')
		for i := 0; i < v.Len(); i++ {
			if i > 0 {
				b.WriteString(", ")
			}
			dumpValue(b, v.Index(i), depth+1)
		}
		b.WriteByte(']')
	case reflect.String:
		fmt.Fprintf(b, "%q", v.String())
	case reflect.Bool:
		fmt.Fprintf(b, "%v", v.Bool())
	case reflect.Int, reflect.Int8, reflect.Int16, reflect.Int32, reflect.Int64:
		fmt.Fprintf(b, "%d", v.Int())
	case reflect.Uint, reflect.Uint8, reflect.Uint16, reflect.Uint32, reflect.Uint64, reflect.Uintptr:
		fmt.Fprintf(b, "%d", v.Uint())
	default:
		fmt.Fprintf(b, "<%s>", v.Kind())
	}
}

func (r *result) frames0() string {
	if len(r.frames) > 0 {
		return r.frames[0]
	}
	return "unknown"
}

func (r *result) String() string {
	switch {
	case !r.ran:
		return "(not run)"
	case r.tripped:
		return "did not return (loops in " + strings.Join(r.frames, " < ") + ")"
	case r.panicked:
		fn := "?"
		if len(r.frames) > 0 {
			fn = r.frames[0]
		}
		return fmt.Sprintf("PANIC in %s: %s", fn, r.pval)
	case !r.ok:
		return fmt.Sprintf("n=%d err=%q", r.n, r.errText)
	}
	return fmt.Sprintf("n=%d err=nil value=%s", r.n, dump(r.val))
}

func sameOutcome(a, b *result) bool {
	if a.panicked != b.panicked || a.ok != b.ok || a.n != b.n {
		return false
	}
	if a.panicked || !a.ok {
		return true
	}
	return reflect.DeepEqual(a.val, b.val)
}

// oracle ----------------------------------------------------------------------------------------

type verdict struct {
	Class  string `json:"class"`
	Msg    string `json:"msg"`
	GoTest string `json:"go_test,omitempty"`
}

// classify is the cheap part of the oracle: it returns the classes violated by the outcomes
// ("" for none); at most two (over-read of the length and dependence on stale bytes).
func classify(kind int, x []byte, res *[nBackings]result) (c1, c2 string) {
	for b := 0; b < nBackings; b++ {
		if res[b].panicked {
			fn := "unknown"
			if len(res[b].frames) > 0 {
				fn = res[b].frames[0]
			}
			return "C01:panic:" + fn + ":" + panicShape(res[b].pval), ""
		}
	}
	for b := 0; b < nBackings; b++ {
		if res[b].ok && res[b].n > uint(len(x)) {
			c1 = "C01:overread-length:" + decoderOf(kind, x)
			break
		}
	}
	for b := 1; b < nBackings; b++ {
		if !sameOutcome(&res[0], &res[b]) {
			c2 = "C01:stale-bytes:" + decoderOf(kind, x)
			break
		}
	}
	if c1 == "" {
		c1, c2 = c2, ""
	}
	return
}

// panicShape reduces a panic value to its form: "runtime error: slice bounds out of range [60:59]"
// becomes "slice-bounds-out-of-range-N-N", "... [:30] with capacity 0" becomes
// "slice-bounds-out-of-range-N-with-capacity-N". Two faults in one function differ in it.
func panicShape(pval string) string {
	pval = strings.TrimPrefix(pval, "runtime error: ")
	var b strings.Builder
	last := byte('-')
	for i := 0; i < len(pval) && b.Len() < 60; i++ {
		c := pval[i]
		switch {
		case c >= '0' && c <= '9':
			c = 'N'
			if last == 'N' {
				continue
			}
		case c >= 'a' && c <= 'z' || c >= 'A' && c <= 'Z':
		default:
			c = '-'
			if last == '-' {
				continue
			}
		}
		b.WriteByte(c)
		last = c
	}
	return strings.TrimSuffix(b.String(), "-")
}

// judge is the full oracle with messages and reproducing tests.
func judge(kind int, x, rem []byte, res *[nBackings]result) []verdict {
	c1, c2 := classify(kind, x, res)
	if c1 == "" {
		return nil
	}
	entry, hx := kindNames[kind], hex.EncodeToString(x)
	var out []verdict
	for _, cl := range []string{c1, c2} {
		switch {
		case cl == "":
		case strings.HasPrefix(cl, "C01:panic:"):
			var pb, other []string
			first := -1
			for b := 0; b < nBackings; b++ {
				if res[b].panicked {
					pb = append(pb, backingNames[b])
					if first < 0 {
						first = b
					}
				} else {
					other = append(other, fmt.Sprintf("[%s] %s", backingNames[b], res[b].String()))
				}
			}
			msg := fmt.Sprintf("%s(%s) (%d octets) panics in %s: %s  [stack, innermost first: %s]; panicking backings: %s",
				entry, hx, len(x), res[first].frames0(), res[first].pval, strings.Join(res[first].frames, " < "), strings.Join(pb, "; "))
			if len(other) > 0 {
				msg += ". From the other backings the same octets give: " + strings.Join(other, " | ")
				if res[bExact].panicked {
					msg += " - inside spare capacity the decoder reads octets beyond the input's length instead of panicking"
				} else {
					msg += " - the outcome depends on octets beyond the input's length"
				}
			}
			out = append(out, verdict{cl, msg, goTestPlain(kind, x, first, rem, "panics on the unchanged library: "+res[first].pval)})
		case strings.HasPrefix(cl, "C01:overread-length:"):
			b := 0
			for ; b < nBackings; b++ {
				if res[b].ok && res[b].n > uint(len(x)) {
					break
				}
			}
			msg := fmt.Sprintf("%s(%s) returns success with consumed length n=%d for an input of %d octets [%s]: %s",
				entry, hx, res[b].n, len(x), backingNames[b], res[b].String())
			out = append(out, verdict{cl, msg, goTestPlain(kind, x, b, rem, "reports n > len(data) on the unchanged library")})
		default:
			b := 1
			for ; b < nBackings; b++ {
				if !sameOutcome(&res[0], &res[b]) {
					break
				}
			}
			msg := fmt.Sprintf("%s(%s) (%d octets) depends on octets beyond the input's length: [%s] %s  BUT  [%s] %s",
				entry, hx, len(x), backingNames[0], res[0].String(), backingNames[b], res[b].String())
			out = append(out, verdict{cl, msg, goTestStale(kind, x, b, rem)})
		}
	}
	return out
}

// reproducing tests -------------------------------------------------------------------------------

func goBacking(x []byte, b int, rem []byte) string {
	switch b {
	case bA5:
		return "append(data, bytes.Repeat([]byte{0xA5}, 2048-len(data))...)[:len(data)] // prefix of a larger buffer"
	case b00:
		return "append(data, make([]byte, 2048-len(data))...)[:len(data)] // prefix of a larger zeroed buffer"
	case bRemnant:
		t := remnantTail(x, rem)
		if len(t) > 64 {
			t = t[:64]
		}
		return fmt.Sprintf("append(data, append(unhex(%q), bytes.Repeat([]byte{0xFF}, 1024)...)...)[:len(data)] // prefix of a buffer that held a longer datagram", hex.EncodeToString(t))
	}
	return "data[:len(data):len(data)] // capacity == length"
}

func goImports(kind int) string {
	switch kind {
	case kCemi, kInfo, kLData:
		return "github.com/vapourismo/knx-go/knx/cemi"
	case kString:
		return "github.com/vapourismo/knx-go/knx/util"
	}
	return "github.com/vapourismo/knx-go/knx/knxnet"
}

const goUnhex = "\tunhex := func(s string) []byte { b, _ := hex.DecodeString(s); return b }\n"

func goTestPlain(kind int, x []byte, b int, rem []byte, what string) string {
	decl, call := goCall(kind, "in", "v")
	return fmt.Sprintf("// imports: bytes, encoding/hex, testing, %s\nfunc TestC01Repro(t *testing.T) {\n%s\tdata := unhex(%q)\n\tin := %s\n\t%s\n\tn, err := %s // %s\n\tif err == nil && n > uint(len(in)) {\n\t\tt.Fatalf(\"consumed %%d octets of a %%d-octet input: %%#v\", n, len(in), v)\n\t}\n\t_ = bytes.Repeat\n}",
		goImports(kind), goUnhex, hex.EncodeToString(x), goBacking(x, b, rem), decl, call, what)
}

func goTestStale(kind int, x []byte, b int, rem []byte) string {
	d1, c1 := goCall(kind, "data[:len(data):len(data)]", "v1")
	d2, c2 := goCall(kind, "in2", "v2")
	return fmt.Sprintf("// imports: bytes, encoding/hex, reflect, testing, %s\nfunc TestC01Repro(t *testing.T) {\n%s\tdata := unhex(%q)\n\tin2 := %s\n\t%s\n\t%s\n\tn1, e1 := %s\n\tn2, e2 := %s\n\tif n1 != n2 || (e1 == nil) != (e2 == nil) || (e1 == nil && !reflect.DeepEqual(v1, v2)) {\n\t\tt.Fatalf(\"same octets, different result: n=%%d err=%%v %%#v / n=%%d err=%%v %%#v\", n1, e1, v1, n2, e2, v2)\n\t}\n\t_ = bytes.Repeat\n}",
		goImports(kind), goUnhex, hex.EncodeToString(x), goBacking(x, b, rem), d1, d2, c1, c2)
}

func goTestHang(kind int, x []byte) string {
	decl, call := goCall(kind, "data", "v")
	return fmt.Sprintf("// imports: encoding/hex, testing, time, %s\nfunc TestC01Repro(t *testing.T) {\n\tdata, _ := hex.DecodeString(%q)\n\tdone := make(chan struct{})\n\tgo func() {\n\t\t%s\n\t\t%s // never returns on the unchanged library\n\t\tclose(done)\n\t}()\n\tselect {\n\tcase <-done:\n\tcase <-time.After(2 * time.Second):\n\t\tt.Fatal(\"the decoder did not return within 2 s\")\n\t}\n}",
		goImports(kind), hex.EncodeToString(x), decl, call)
}
