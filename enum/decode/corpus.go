//go:build verif

package decode

// Corpus G: valid (and a few intentionally malformed) KNXnet/IP frames assembled octet by octet
// from the layouts of DESIGN.md Appendix C. Nothing here calls the library (no Pack, no Size):
// the builder is the independent side of the check. Every frame carries the positions of its
// structure octets (length / type / version octets) and the regions of its sub-structures, from
// which the seeds for the directly exported sub-decoders are cut.

import (
	"crypto/sha256"
	"encoding/hex"
	"fmt"
	"sort"
)

// decoder kinds (which exported entry point of the library a case is handed to)
const (
	kKnxnet     = iota // knxnet.Unpack(data, &srv)
	kCemi              // cemi.Unpack(data, &msg)
	kHostInfo          // (*knxnet.HostInfo).Unpack
	kDevInfo           // (*knxnet.DeviceInformationBlock).Unpack
	kSuppSvc           // (*knxnet.SupportedServicesDIB).Unpack
	kDescrBlock        // (*knxnet.DescriptionBlock).Unpack
	kInfo              // (*cemi.Info).Unpack
	kLData             // (*cemi.LData).Unpack
	kString            // util.UnpackString(data, 30, &s)
	nKinds
)

var kindNames = [nKinds]string{
	"knxnet.Unpack", "cemi.Unpack", "HostInfo.Unpack", "DeviceInformationBlock.Unpack",
	"SupportedServicesDIB.Unpack", "DescriptionBlock.Unpack", "Info.Unpack", "LData.Unpack", "UnpackString30",
}

func kindByName(s string) int {
	for i, n := range kindNames {
		if n == s {
			return i
		}
	}
	return -1
}

type region struct {
	kind     int
	off, end int
}

// seed is one corpus element: bytes for one decoder kind.
type seed struct {
	kind   int
	name   string
	b      []byte
	st     []int // structure octet positions (sorted, unique)
	valid  bool  // meant to be well-formed: must decode without an error
	frame  bool  // a complete KNXnet/IP frame (as opposed to a cut-out sub-structure)
	parent int   // index of the frame a sub-structure seed was cut from (-1 for frames)
}

// ---------------------------------------------------------------------------------------------
// frame builder

type fb struct {
	name  string
	b     []byte
	st    []int
	rg    []region
	valid bool
}

// header: 06 10 | service id (2) | total length (2) = 6 + body
func newFrame(name string, svc uint16) *fb {
	return &fb{name: name, b: []byte{0x06, 0x10, byte(svc >> 8), byte(svc), 0, 0}, st: []int{0, 1, 4, 5}, valid: true}
}

func (f *fb) done() *fb {
	n := len(f.b)
	f.b[4], f.b[5] = byte(n>>8), byte(n)
	return f
}

func (f *fb) raw(b ...byte) *fb { f.b = append(f.b, b...); return f }

// lenOctet appends a structure octet.
func (f *fb) sOctet(v byte) *fb { f.st = append(f.st, len(f.b)); f.b = append(f.b, v); return f }

// HPAI: 08 | protocol 01=UDP4 02=TCP4 | IPv4 (4) | port (2)
func (f *fb) hpai(proto byte, a, b, c, d byte, port uint16) *fb {
	off := len(f.b)
	f.sOctet(8).raw(proto, a, b, c, d, byte(port>>8), byte(port))
	f.rg = append(f.rg, region{kHostInfo, off, off + 8})
	return f
}

// DIB device-info: 36 01 | medium | status | ia (2) | project id (2) | serial (6) | mcast (4) | MAC (6) | name (30)
func (f *fb) dibDevInfo(name []byte) *fb {
	off := len(f.b)
	f.sOctet(0x36).sOctet(0x01)
	f.raw(0x02, 0x01, 0x11, 0x05, 0x00, 0x11) // TP1, programming mode, 1.1.5, project 0x0011
	f.raw(0x00, 0xC5, 0x01, 0x02, 0xD8, 0x7B) // serial
	f.raw(0xE0, 0x00, 0x17, 0x0C)             // 224.0.23.12
	f.raw(0x00, 0x24, 0x6D, 0x01, 0xD8, 0x7B) // MAC
	nm := make([]byte, 30)                    // NUL padded
	copy(nm, name)
	f.raw(nm...)
	f.rg = append(f.rg, region{kDevInfo, off, off + 54}, region{kString, off + 24, off + 54})
	return f
}

// DIB service families: len 02 | (family, version)*
func (f *fb) dibSvc(k int) *fb {
	off := len(f.b)
	fams := [][2]byte{{0x02, 0x01}, {0x04, 0x01}, {0x05, 0x02}}
	f.sOctet(byte(2 + 2*k)).sOctet(0x02)
	for i := 0; i < k; i++ {
		f.raw(fams[i][0], fams[i][1])
	}
	f.rg = append(f.rg, region{kSuppSvc, off, off + 2 + 2*k})
	return f
}

// other DIB: len type data[len-2]; the declared length is written as given (0 = malformed on purpose)
func (f *fb) dibRaw(length, typ byte, payload int) *fb {
	f.sOctet(length).sOctet(typ)
	for i := 0; i < payload; i++ {
		f.raw(byte(0xD0 + i))
	}
	return f
}

// cEMI bodies ---------------------------------------------------------------------------------

type cemiBody struct {
	name string
	b    []byte
	st   []int
	rg   []region
}

// L_Data: mc | addIL | add.info | ctrl1 | ctrl2 | src (2) | dst (2) | TPDU
func lData(mc byte, mcName string, info []byte, tpduName string, tpdu []byte, ctrl1 byte) cemiBody {
	c := cemiBody{name: fmt.Sprintf("%s/info%d/%s", mcName, len(info), tpduName)}
	c.b = append(c.b, mc, byte(len(info)))
	c.st = append(c.st, 1)
	c.b = append(c.b, info...)
	c.b = append(c.b, ctrl1, 0xE0, 0x11, 0x05, 0x09, 0x01)
	t := len(c.b)
	c.st = append(c.st, t, t+1) // TPDU length octet, TPCI octet
	c.b = append(c.b, tpdu...)
	c.rg = []region{{kCemi, 0, len(c.b)}, {kLData, 1, len(c.b)}, {kInfo, 1, 2 + len(info)}}
	return c
}

func appTPDU(l int) []byte {
	// L | TPCI (data, unnumbered) | APCI GroupValueWrite + data[0] | data[1..]
	t := []byte{byte(l), 0x00, 0x80 | 0x01}
	for i := 1; i < l; i++ {
		t = append(t, byte(0x10+i))
	}
	return t
}

func cemiBodies() []cemiBody {
	var out []cemiBody
	infos := [][]byte{nil, {0x7F}, {0x03, 0x01, 0xAA}}
	type tp struct {
		name  string
		b     []byte
		ctrl1 byte
	}
	tpdus := []tp{
		{"ctl", []byte{0x00, 0xC6}, 0xBC}, // L=0, control, numbered, seq 1, code 2
		{"app1", appTPDU(1), 0xBC},
		{"app2", appTPDU(2), 0xBC},
		{"app15", appTPDU(15), 0xBC},
		{"app16", appTPDU(16), 0x3C}, // extended frame format bit for > 15 octets
	}
	for _, mc := range []struct {
		c byte
		n string
	}{{0x11, "L_Data.req"}, {0x29, "L_Data.ind"}, {0x2E, "L_Data.con"}} {
		for _, in := range infos {
			for _, t := range tpdus {
				out = append(out, lData(mc.c, mc.n, in, t.name, t.b, t.ctrl1))
			}
		}
	}
	rawOctets := []byte{0xBC, 0x11, 0x05, 0x09, 0x01, 0xE1, 0x00, 0x81}
	for _, mc := range []struct {
		c byte
		n string
	}{{0x10, "L_Raw.req"}, {0x2D, "L_Raw.ind"}, {0x2F, "L_Raw.con"}, {0x2B, "L_Busmon.ind"}, {0xFC, "unsupported-FC"}} {
		for _, l := range []int{0, 8} {
			c := cemiBody{name: fmt.Sprintf("%s/raw%d", mc.n, l)}
			c.b = append([]byte{mc.c}, rawOctets[:l]...)
			c.rg = []region{{kCemi, 0, len(c.b)}}
			out = append(out, c)
		}
	}
	return out
}

func (f *fb) cemi(c cemiBody) *fb {
	off := len(f.b)
	for _, p := range c.st {
		f.st = append(f.st, off+p)
	}
	for _, r := range c.rg {
		f.rg = append(f.rg, region{r.kind, off + r.off, off + r.end})
	}
	f.b = append(f.b, c.b...)
	return f
}

// ---------------------------------------------------------------------------------------------

var (
	nameShort = []byte("KNX IP BAOS 777")
	nameFull  = []byte("ABCDEFGHIJKLMNOPQRSTUVWXYZ0123") // 30 characters, no padding
	nameHigh  = []byte{'G', 0xE4, 'r', 0xE4, 't', ' ', 0xDF, 0xA0, 0xFF}
)

func buildFrames() []*fb {
	var fs []*fb
	add := func(f *fb) { fs = append(fs, f.done()) }

	// SEARCH_REQ 0201 HPAI
	add(newFrame("SearchReq/udp", 0x0201).hpai(1, 192, 168, 1, 20, 3671))
	add(newFrame("SearchReq/tcp", 0x0201).hpai(2, 10, 0, 0, 1, 50100))
	// SEARCH_RES 0202 HPAI | DIB device-info | DIB service-families
	for _, k := range []int{0, 1, 3} {
		add(newFrame(fmt.Sprintf("SearchRes/fam%d", k), 0x0202).hpai(1, 192, 168, 1, 7, 3671).dibDevInfo(nameShort).dibSvc(k))
	}
	add(newFrame("SearchRes/name30", 0x0202).hpai(1, 192, 168, 1, 7, 3671).dibDevInfo(nameFull).dibSvc(1))
	add(newFrame("SearchRes/name-latin1", 0x0202).hpai(1, 192, 168, 1, 7, 3671).dibDevInfo(nameHigh).dibSvc(3))
	// search responses that carry further description blocks behind the two mandatory ones (extended
	// search responses do): the truncations and length substitutions of these reach whatever a decoder
	// does with the rest of the frame
	add(newFrame("SearchRes/+ipcfg", 0x0202).hpai(1, 192, 168, 1, 7, 3671).dibDevInfo(nameShort).dibSvc(2).dibRaw(8, 0x03, 6))
	add(newFrame("SearchRes/+mfr+knxaddr", 0x0202).hpai(1, 192, 168, 1, 7, 3671).dibDevInfo(nameShort).dibSvc(1).dibRaw(6, 0xFE, 4).dibRaw(4, 0x05, 2))
	// DESCR_REQ 0203 HPAI
	add(newFrame("DescrReq", 0x0203).hpai(1, 192, 168, 1, 20, 3671))
	// DESCR_RES 0204 DIB device-info | DIB service-families | [further DIBs]
	descr := func(n string) *fb {
		f := newFrame("DescrRes/"+n, 0x0204)
		return f
	}
	for _, k := range []int{0, 1, 3} {
		add(descr(fmt.Sprintf("D,S%d", k)).dibDevInfo(nameShort).dibSvc(k))
	}
	for _, ty := range []byte{0x03, 0x04, 0x05, 0xFE} {
		for _, l := range []int{2, 3, 4, 8} {
			add(descr(fmt.Sprintf("D,S1,K%02X/%d", ty, l)).dibDevInfo(nameShort).dibSvc(1).dibRaw(byte(l), ty, l-2))
		}
	}
	add(descr("S1,D").dibSvc(1).dibDevInfo(nameShort))
	add(descr("K03/8,D,S1").dibRaw(8, 0x03, 6).dibDevInfo(nameShort).dibSvc(1))
	add(descr("D,U08/4,S1").dibDevInfo(nameShort).dibRaw(4, 0x08, 2).dibSvc(1))
	add(descr("D,S1,U08/4").dibDevInfo(nameShort).dibSvc(1).dibRaw(4, 0x08, 2))
	add(descr("U07/6").dibRaw(6, 0x07, 4))
	add(descr("D-name30,S1").dibDevInfo(nameFull).dibSvc(1))
	add(descr("D-noname,S1").dibDevInfo(nil).dibSvc(1))
	add(descr("D-latin1,S3").dibDevInfo(nameHigh).dibSvc(3))
	add(descr("D,S3,K03/8,K04/4,K05/2,KFE/8,U08/4").dibDevInfo(nameShort).dibSvc(3).dibRaw(8, 0x03, 6).dibRaw(4, 0x04, 2).dibRaw(2, 0x05, 0).dibRaw(8, 0xFE, 6).dibRaw(4, 0x08, 2))
	// zero-length DIBs: malformed on purpose
	for _, z := range []struct {
		n string
		f *fb
	}{
		{"D,S1,Z-FE", descr("D,S1,Z-FE").dibDevInfo(nameShort).dibSvc(1).dibRaw(0, 0xFE, 0)},
		{"D,Z-08,S1", descr("D,Z-08,S1").dibDevInfo(nameShort).dibRaw(0, 0x08, 0).dibSvc(1)},
		{"Z-03", descr("Z-03").dibRaw(0, 0x03, 0)},
		{"D,S1,Z-01", descr("D,S1,Z-01").dibDevInfo(nameShort).dibSvc(1).dibRaw(0, 0x01, 0)},
	} {
		z.f.valid = false
		add(z.f)
	}
	// CONNECT_REQ 0205 HPAI control | HPAI data | 04 04 <layer> 00
	for _, layer := range []byte{0x02, 0x04, 0x80} {
		add(newFrame(fmt.Sprintf("ConnReq/layer%02X", layer), 0x0205).hpai(1, 192, 168, 1, 20, 3671).hpai(1, 192, 168, 1, 20, 3672).sOctet(4).raw(4, layer, 0))
	}
	// CONNECT_RES 0206 channel | status | [status==0: HPAI data | CRD 04 04 <ia hi> <ia lo>]
	add(newFrame("ConnRes/ok", 0x0206).raw(0x15, 0x00).hpai(1, 192, 168, 1, 7, 3671).sOctet(4).raw(4, 0x11, 0x0A))
	add(newFrame("ConnRes/ok-crd0", 0x0206).raw(0x01, 0x00).hpai(2, 0, 0, 0, 0, 0).sOctet(4).raw(4, 0, 0))
	add(newFrame("ConnRes/no-more-connections", 0x0206).raw(0x00, 0x24))
	// CONNSTATE_REQ 0207 channel | 00 | HPAI     CONNSTATE_RES 0208 channel | status
	add(newFrame("ConnStateReq", 0x0207).raw(0x15, 0x00).hpai(1, 192, 168, 1, 20, 3671))
	add(newFrame("ConnStateRes/ok", 0x0208).raw(0x15, 0x00))
	add(newFrame("ConnStateRes/err21", 0x0208).raw(0x15, 0x21))
	// DISCONNECT_REQ 0209 channel | 00 | HPAI     DISCONNECT_RES 020A channel | status
	add(newFrame("DiscReq", 0x0209).raw(0x15, 0x00).hpai(1, 192, 168, 1, 20, 3671))
	add(newFrame("DiscRes", 0x020A).raw(0x15, 0x00))
	// TUNNEL_REQ 0420 04 | channel | seq | 00 | cEMI
	for _, c := range cemiBodies() {
		add(newFrame("TunnelReq/"+c.name, 0x0420).sOctet(4).raw(0x15, 0x2A, 0x00).cemi(c))
	}
	// TUNNEL_ACK 0421 04 | channel | seq | status
	add(newFrame("TunnelRes/ok", 0x0421).sOctet(4).raw(0x15, 0x2A, 0x00))
	add(newFrame("TunnelRes/err29", 0x0421).sOctet(4).raw(0x15, 0xFF, 0x29))
	// ROUTING_IND 0530 cEMI
	for _, c := range cemiBodies() {
		add(newFrame("RoutingInd/"+c.name, 0x0530).cemi(c))
	}
	// ROUTING_LOST 0531 04 | state | lost (2)      ROUTING_BUSY 0532 06 | state | wait ms (2) | control (2)
	add(newFrame("RoutingLost", 0x0531).sOctet(4).raw(0x00, 0x00, 0x05))
	add(newFrame("RoutingBusy", 0x0532).sOctet(6).raw(0x00, 0x00, 0x64, 0x00, 0x00))
	// unknown service identifier (device configuration request, which the library does not know)
	add(newFrame("Unknown0310/body", 0x0310).raw(0x04, 0x15, 0x00, 0x00, 0xFC, 0x00, 0x08, 0x01, 0x40, 0x10, 0x01))
	add(newFrame("Unknown0310/empty", 0x0310))
	return fs
}

// the service identifiers of (c): the 15 known ones plus one unknown
var headerIDs = [16]uint16{0x0201, 0x0202, 0x0203, 0x0204, 0x0205, 0x0206, 0x0207, 0x0208, 0x0209, 0x020A, 0x0420, 0x0421, 0x0530, 0x0531, 0x0532, 0x0310}

var serviceNames = map[uint16]string{0x0201: "SearchReq", 0x0202: "SearchRes", 0x0203: "DescriptionReq", 0x0204: "DescriptionRes", 0x0205: "ConnReq",
	0x0206: "ConnRes", 0x0207: "ConnStateReq", 0x0208: "ConnStateRes", 0x0209: "DiscReq", 0x020A: "DiscRes", 0x0420: "TunnelReq", 0x0421: "TunnelRes",
	0x0530: "RoutingInd", 0x0531: "RoutingLost", 0x0532: "RoutingBusy"}

// the cEMI message codes of (c): the 7 known ones plus one unsupported
var cemiCodes = [8]byte{0x11, 0x29, 0x2E, 0x10, 0x2D, 0x2F, 0x2B, 0xFC}

var cemiCodeNames = map[byte]string{0x11: "LDataReq", 0x29: "LDataInd", 0x2E: "LDataCon", 0x10: "LRawReq", 0x2D: "LRawInd", 0x2F: "LRawCon", 0x2B: "LBusmonInd"}

type corpus struct {
	seeds   []seed
	nFrames int
	fp      string      // fingerprint, compared between parent and worker
	remnant [nKinds]int // per kind: index of the longest valid seed (the "earlier, longer datagram")
}

func buildCorpus() *corpus {
	c := &corpus{}
	frames := buildFrames()
	for _, f := range frames {
		st := append([]int(nil), f.st...)
		sort.Ints(st)
		c.seeds = append(c.seeds, seed{kind: kKnxnet, name: f.name, b: f.b, st: st, valid: f.valid, frame: true, parent: -1})
	}
	c.nFrames = len(c.seeds)
	// sub-structure seeds: the exact structure and "structure up to the end of the datagram"
	// (the slice the library hands on when it passes data[n:]); de-duplicated by (kind, bytes).
	seen := map[string]bool{}
	addSub := func(fi int, f *fb, kind, off, end int, tag string) {
		b := append([]byte(nil), f.b[off:end]...)
		key := fmt.Sprintf("%d:%x", kind, b)
		if seen[key] {
			return
		}
		seen[key] = true
		var st []int
		for _, p := range f.st {
			if p >= off && p < end {
				st = append(st, p-off)
			}
		}
		sort.Ints(st)
		c.seeds = append(c.seeds, seed{kind: kind, name: fmt.Sprintf("%s<-%s[%d:%d]%s", kindNames[kind], f.name, off, end, tag), b: b, st: st, valid: f.valid, parent: fi})
	}
	for fi, f := range frames {
		if f.b[2] == 0x02 && f.b[3] == 0x04 {
			addSub(fi, f, kDescrBlock, 6, len(f.b), "")
		}
		for _, r := range f.rg {
			addSub(fi, f, r.kind, r.off, r.end, "")
			if r.end != len(f.b) && f.valid {
				addSub(fi, f, r.kind, r.off, len(f.b), "+rest")
			}
		}
	}
	h := sha256.New()
	for _, s := range c.seeds {
		fmt.Fprintf(h, "%d|%s|%x|%v|%v\n", s.kind, s.name, s.b, s.st, s.valid)
	}
	c.fp = hex.EncodeToString(h.Sum(nil))[:16]
	for k := 0; k < nKinds; k++ {
		c.remnant[k] = -1
		for i, s := range c.seeds {
			if s.kind == k && s.valid && (c.remnant[k] < 0 || len(s.b) > len(c.seeds[c.remnant[k]].b)) {
				c.remnant[k] = i
			}
		}
	}
	return c
}
