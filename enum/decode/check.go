//go:build verif

package decode

// C01, parts (a) (b) (c): the parent process. It owns the list of spaces, hands batches of case
// indices to 16 worker processes (worker.go), watches them, confirms hangs and crashes in
// single-case processes, aggregates the verdicts deterministically (the reported example of a
// class is the case with the smallest (space, index)) and records the spaces.

import (
	"encoding/hex"
	"encoding/json"
	"fmt"
	"os"
	"path/filepath"
	"sort"
	"strings"
	"sync"
	"sync/atomic"
	"time"

	"verifh/enum/enumlib"
)

func init() {
	enumlib.Register(&enumlib.Check{
		Prop:   "C01",
		Run:    run,
		Replay: replay,
		Rule: "every space is enumerated completely in index order, cut into batches that 16 worker processes pull from one queue. " +
			"(a) corpus G: KNXnet/IP frames built octet by octet from the layouts of DESIGN Appendix C (all 15 service identifiers + an unknown one; the 7 cEMI codes + an unsupported one inside TUNNELLING_REQUEST and ROUTING_INDICATION; L_Data with control unit / data units of 1, 2, 15, 16 octets x additional info of 0, 1, 3 octets; description and search responses over DIB sequences incl. zero-length DIBs) plus every sub-structure cut from them for the exported sub-decoders (HostInfo, DeviceInformationBlock, SupportedServicesDIB, DescriptionBlock, cemi.Info, cemi.LData, util.UnpackString, cemi.Unpack). " +
			"(b) for every element of G: all truncations, all single-octet substitutions (every position x 0..255), all ordered double substitutions on structure octets (header length, version, total length, HPAI/CRI/CRD/DIB length and type, additional-info length, TPDU length, TPCI) with 0..255 x a 16-value alphabet, all extensions by 1..3 octets of a 6-value alphabet; the seeds that are malformed on purpose (a zero-length DIB) are truncated in both tiers but substituted and extended in the thorough tier only. " +
			"(c) all octet strings of length <= 2 (quick) / <= 3 (thorough) after each of 16 valid headers (total length truthful) and after each of 8 cEMI message codes. " +
			"(e) destination reuse: every ordered pair (A, B) of corpus elements of knxnet.Unpack and of cemi.Unpack, B and every truncation of B decoded into the destination variable that still holds A's result: same outcome as into a fresh destination, and the value returned for A unchanged afterwards. " +
			"Every case of (a)-(c) is decoded four times: from a region with cap == len and as the prefix of a 2 KiB buffer filled with 0xA5, with 0x00, and holding the octets of a longer valid datagram of the same kind followed by 0xFF. " +
			"Oracle: no panic; termination; on success n <= len(input); (err == nil, n, deep value) identical across the four backings. " +
			"distinct_nontrivial = cases on which the decoder returned success (err == nil, decoding from the cap == len backing), not counting mutations that reproduce their seed (those are counted once, in a:corpus).",
		Assume: []string{
			"the frames of corpus G (enum/decode/corpus.go) follow DESIGN Appendix C; they are built without calling the library",
			"termination oracle: a hang class is reported only after its example case ran for 5 s without returning in two separate single-case processes, and it is named after the innermost library function common to all stack samples taken there. The other members of the class are counted by the bulk workers: a decoder call that burns more than C01_TRIP_US (default 200) microseconds of thread CPU time has the access to its input revoked (mprotect; the next read faults and the fault is recovered as a panic); the case counts as a hang (and is skipped) if that happens again on a second run with 5 times the allowance and a function already confirmed to loop on the stack, or on a second run with 25 times the allowance when no such function is on the stack (the parent then confirms that case in single-case processes before anything is counted). A worker silent for 20 s is killed, the case it was on (read from its progress file) is confirmed the same way and skipped",
			"part (d) of the design (histories through the live socket receivers) is checked by the model-checking engine, not here",
			"the decoders do not retain references to their input across calls (each case overwrites the shared input arena)",
		},
	})
}

const (
	batchSize    = 1 << 14
	singleLimit  = 5000 // ms
	maxUnrepro   = 8
	workerGoProc = "3" // decoder, hang monitor (blocks its P), garbage collector
)

func stallLimit() time.Duration { return time.Duration(envInt("C01_STALL_S", 20)) * time.Second }

type caseInput struct {
	Entry string `json:"entry"`
	Hex   string `json:"hex"`
	Len   int    `json:"len"`
	Space string `json:"space,omitempty"`
	Index int64  `json:"index"`
	Seed  string `json:"seed,omitempty"`
}

type batch struct {
	sp     int
	lo, hi int64
	trip   int // fast-path escalation level: index into tripLevels
}

// CPU time (microseconds) a single decoder call may take in a bulk worker before the access to its
// input is revoked (the worker repeats such a case before it calls it a hang candidate, see
// worker.go); a batch with a candidate that turns out not to hang on its own is run again with the
// fast path off (0), when only the parent's watchdog remains.
func tripLevels() [2]int {
	return [2]int{envInt("C01_TRIP_US", 200), 0}
}

func (b batch) escalated() batch {
	b.trip = 1
	return b
}

var debugOn = os.Getenv("C01_DEBUG") != ""

func debugf(f string, a ...interface{}) {
	if debugOn {
		fmt.Fprintf(os.Stderr, "c01 "+time.Now().Format("15:04:05.000")+" "+f+"\n", a...)
	}
}

type spaceAgg struct {
	evals, success, ident, hangs int64
}

type pviol struct {
	count  int64
	sp     int
	idx    int64
	msg    string
	goTest string
	input  caseInput
}

type parent struct {
	r    *enumlib.Run
	c    *corpus
	sps  []*space
	exe  string
	tmp  string
	tier string

	batches []batch
	next    int64

	mu       sync.Mutex
	requeued []batch
	inFlight int
	agg      []spaceAgg
	viol     map[string]*pviol
	rejected []string
	stats    map[string]int64
	infra    []string

	confirmMu  sync.Mutex
	loopers    map[string]string // confirmed looping function -> class
	frameClass map[string]string // stack signature of a fast trip -> class
}

func (p *parent) stat(k string, n int64) {
	p.mu.Lock()
	p.stats[k] += n
	p.mu.Unlock()
}

func (p *parent) infraErr(s string) {
	p.mu.Lock()
	p.infra = append(p.infra, s)
	p.mu.Unlock()
}

func (p *parent) describe(sp int, idx int64) (acase, caseInput) {
	buf := make([]byte, 0, maxCase)
	ac := p.c.gen(p.sps[sp], idx, buf)
	in := caseInput{Entry: kindNames[ac.kind], Hex: hex.EncodeToString(ac.x), Len: len(ac.x), Space: p.sps[sp].name, Index: idx}
	if ac.seed >= 0 {
		in.Seed = p.c.seeds[ac.seed].name
	}
	return ac, in
}

func (p *parent) addViolation(class string, count int64, sp int, idx int64, msg, goTest string) {
	p.mu.Lock()
	defer p.mu.Unlock()
	v := p.viol[class]
	if v == nil {
		v = &pviol{sp: -1}
		p.viol[class] = v
	}
	v.count += count
	if v.sp < 0 || sp < v.sp || (sp == v.sp && idx < v.idx) {
		_, in := p.describe(sp, idx)
		v.sp, v.idx, v.msg, v.goTest, v.input = sp, idx, msg, goTest, in
	}
}

// nextBatch hands out work; ok=false when nothing is left (or the budget is used up).
func (p *parent) nextBatch() (batch, bool) {
	for {
		p.mu.Lock()
		if n := len(p.requeued); n > 0 {
			b := p.requeued[n-1]
			p.requeued = p.requeued[:n-1]
			p.inFlight++
			p.mu.Unlock()
			return b, true
		}
		waiting := p.inFlight > 0
		p.mu.Unlock()
		if !p.r.Expired() {
			if i := atomic.AddInt64(&p.next, 1) - 1; i < int64(len(p.batches)) {
				p.mu.Lock()
				p.inFlight++
				p.mu.Unlock()
				return p.batches[i], true
			}
		}
		if !waiting {
			return batch{}, false
		}
		time.Sleep(20 * time.Millisecond) // somebody may still requeue pieces of a failed batch
	}
}

func (p *parent) requeue(bs ...batch) {
	p.mu.Lock()
	for _, b := range bs {
		if b.hi > b.lo {
			p.requeued = append(p.requeued, b)
		}
	}
	p.mu.Unlock()
}

func (p *parent) batchDone() {
	p.mu.Lock()
	p.inFlight--
	p.mu.Unlock()
}

// confirm runs the case twice in single-case processes. kind is "hang", "crash" or "".
func (p *parent) confirm(sp int, idx int64) (kind, detail string, res singleRes) {
	_, in := p.describe(sp, idx)
	var wg sync.WaitGroup
	var rs [2]singleRes
	var errs [2]string
	for i := 0; i < 2; i++ {
		wg.Add(1)
		go func(i int) {
			defer wg.Done()
			rs[i], errs[i] = runSingle(p.exe, in.Entry, in.Hex, singleLimit)
		}(i)
	}
	wg.Wait()
	switch {
	case rs[0].Status == "hang" && rs[1].Status == "hang":
		return "hang", "", rs[0]
	case rs[0].Status == "crash" && rs[1].Status == "crash":
		return "crash", errs[0], rs[0]
	}
	return "", "", rs[0]
}

// publishLoopers rewrites the file the workers read the confirmed looping functions from
// (confirmMu held).
func (p *parent) publishLoopers() {
	var fns []string
	for fn := range p.loopers {
		fns = append(fns, fn)
	}
	sort.Strings(fns)
	tmp := filepath.Join(p.tmp, "loopers.new")
	if os.WriteFile(tmp, []byte(strings.Join(fns, "\n")+"\n"), 0o600) == nil {
		os.Rename(tmp, filepath.Join(p.tmp, "loopers"))
	}
}

func (p *parent) reportHang(looper string, count int64, sp int, idx int64, res singleRes) string {
	ac, in := p.describe(sp, idx)
	if looper == "" {
		looper = decoderOf(ac.kind, ac.x)
	}
	class := "C01:hang:" + looper
	p.confirmMu.Lock()
	if p.loopers[looper] == "" {
		p.loopers[looper] = class
		p.publishLoopers()
	}
	p.confirmMu.Unlock()
	msg := fmt.Sprintf("%s(%s) (%d octets) does not return; the goroutine loops in %s (stack, outermost first: %s)",
		in.Entry, in.Hex, in.Len, looper, strings.Join(res.Frames, " > "))
	p.addViolation(class, count, sp, idx, msg, goTestHang(ac.kind, ac.x))
	return class
}

// resolveTrip maps the stack signature of a fast-path trip to a confirmed hang class ("" if the
// representative case does not hang).
func (p *parent) resolveTrip(key string, sp int, idx int64) string {
	p.confirmMu.Lock()
	defer p.confirmMu.Unlock()
	if cl, ok := p.frameClass[key]; ok {
		return cl
	}
	for _, fn := range strings.Split(key, ";") {
		if cl, ok := p.loopers[fn]; ok {
			p.frameClass[key] = cl
			return cl
		}
	}
	kind, _, res := p.confirm(sp, idx)
	p.stat("hang_confirmations", 1)
	if kind != "hang" {
		return ""
	}
	_, in := p.describe(sp, idx)
	k := kindByName(in.Entry)
	x, _ := hex.DecodeString(in.Hex)
	looper := res.Looper
	if looper == "" {
		looper = decoderOf(k, x)
	}
	cl := "C01:hang:" + looper
	p.loopers[looper] = cl
	p.frameClass[key] = cl
	p.publishLoopers()
	debugf("hang confirmed: %s loops in %s (stack signature %s)", in.Hex, looper, key)
	return cl
}

type tripLine struct {
	count, idx int64
	key        string
}

// runBatch gives one batch to the worker of the shard and handles its death or silence.
func (p *parent) runBatch(w **proc, shard int, b batch) {
	defer p.batchDone()
	for attempt := 0; ; attempt++ {
		if *w == nil {
			nw, err := spawnWorker(p.exe, p.tier, filepath.Join(p.tmp, fmt.Sprintf("progress-%d", shard)), filepath.Join(p.tmp, "loopers"), p.c.fp, len(p.sps))
			if err != nil {
				p.infraErr("cannot start a worker: " + err.Error())
				return
			}
			*w = nw
			p.stat("worker_starts", 1)
		}
		fmt.Fprintf((*w).in, "B %d %d %d %d\n", b.sp, b.lo, b.hi, tripLevels()[b.trip])
		var viols []vagg
		var trips []tripLine
		var rej []int64
		var evals, success, ident, spurious int64
		done, failed, why := false, false, ""
		timer := time.NewTimer(stallLimit())
		for !done && !failed {
			select {
			case ln, ok := <-(*w).lines:
				if !ok {
					failed, why = true, "exited"
					break
				}
				if !timer.Stop() {
					select {
					case <-timer.C:
					default:
					}
				}
				timer.Reset(stallLimit())
				switch {
				case strings.HasPrefix(ln, "P "):
				case strings.HasPrefix(ln, "V "):
					var v vagg
					if err := json.Unmarshal([]byte(ln[2:]), &v); err == nil {
						viols = append(viols, v)
					}
				case strings.HasPrefix(ln, "H "):
					var t tripLine
					f := strings.SplitN(ln, " ", 4)
					if len(f) >= 3 {
						fmt.Sscan(f[1], &t.count)
						fmt.Sscan(f[2], &t.idx)
						if len(f) == 4 {
							t.key = f[3]
						}
						trips = append(trips, t)
					}
				case strings.HasPrefix(ln, "C "):
					if f := strings.SplitN(ln, " ", 3); len(f) == 3 {
						var i int64
						fmt.Sscan(f[1], &i)
						go p.resolveTrip(f[2], b.sp, i) // confirm while the worker goes on
					}
				case strings.HasPrefix(ln, "X "):
					var i int64
					fmt.Sscan(ln[2:], &i)
					rej = append(rej, i)
				case strings.HasPrefix(ln, "D "):
					fmt.Sscan(ln[2:], &evals, &success, &ident, &spurious)
					done = true
				default:
					failed, why = true, "said "+ln
				}
			case <-timer.C:
				failed, why = true, fmt.Sprintf("silent for %v", stallLimit())
			}
		}
		timer.Stop()
		if done {
			// fast-path trips: every stack signature must belong to a confirmed hang
			var hangs int64
			classes := make([]string, len(trips))
			for i, t := range trips {
				classes[i] = p.resolveTrip(t.key, b.sp, t.idx)
				if classes[i] == "" {
					p.stat("fast_trips_not_confirmed", t.count)
					debugf("trip not confirmed: %s case %d level %d stack %s", p.sps[b.sp].name, t.idx, b.trip, t.key)
					p.requeue(b.escalated()) // again, with a more patient fast path
					return
				}
				hangs += t.count
			}
			for i, t := range trips {
				p.reportHang(strings.TrimPrefix(classes[i], "C01:hang:"), t.count, b.sp, t.idx, singleRes{Frames: reverse(strings.Split(t.key, ";"))})
			}
			for _, v := range viols {
				p.addViolation(v.Class, v.Count, b.sp, v.Idx, v.Msg, v.GoTest)
			}
			p.mu.Lock()
			a := &p.agg[b.sp]
			a.evals += evals
			a.success += success
			a.ident += ident
			a.hangs += hangs
			for _, i := range rej {
				p.rejected = append(p.rejected, p.c.seeds[p.sps[b.sp].s0+int(i)].name)
			}
			p.stats["fast_trips"] += hangs
			p.stats["fast_trips_not_repeated"] += spurious
			p.mu.Unlock()
			return
		}
		// the worker died or went silent
		idx := (*w).progress()
		stderr := (*w).kill()
		*w = nil
		p.stat("worker_failures", 1)
		debugf("worker %s: %s batch [%d:%d) level %d, was on case %d", why, p.sps[b.sp].name, b.lo, b.hi, b.trip, idx)
		if idx < b.lo || idx >= b.hi {
			if attempt >= 2 {
				p.infraErr(fmt.Sprintf("worker %s outside any case of batch %s[%d:%d] three times; stderr: %s", why, p.sps[b.sp].name, b.lo, b.hi, tail(stderr, 600)))
				return
			}
			continue
		}
		kind, detail, res := p.confirm(b.sp, idx)
		switch kind {
		case "hang":
			p.reportHang(res.Looper, 1, b.sp, idx, res)
			p.mu.Lock()
			p.agg[b.sp].evals++
			p.agg[b.sp].hangs++
			p.stats["watchdog_hangs"]++
			p.mu.Unlock()
			p.requeue(batch{b.sp, b.lo, idx, b.trip}, batch{b.sp, idx + 1, b.hi, b.trip})
		case "crash":
			ac, in := p.describe(b.sp, idx)
			fn := crashFunction(detail)
			if fn == "" {
				fn = decoderOf(ac.kind, ac.x)
			}
			p.addViolation("C01:crash:"+fn, 1, b.sp, idx,
				fmt.Sprintf("%s(%s) (%d octets) kills the process (not a recoverable panic), twice in separate processes: %s", in.Entry, in.Hex, in.Len, tail(detail, 800)),
				goTestPlain(ac.kind, ac.x, bExact, nil, "kills the process on the unchanged library"))
			p.mu.Lock()
			p.agg[b.sp].evals++
			p.mu.Unlock()
			p.requeue(batch{b.sp, b.lo, idx, b.trip}, batch{b.sp, idx + 1, b.hi, b.trip})
		default:
			p.mu.Lock()
			p.stats["worker_failures_not_reproduced"]++
			n := p.stats["worker_failures_not_reproduced"]
			p.mu.Unlock()
			if n > maxUnrepro {
				p.infraErr(fmt.Sprintf("worker %s on %s case %d, which runs fine on its own (more than %d such failures); stderr: %s", why, p.sps[b.sp].name, idx, maxUnrepro, tail(stderr, 600)))
				return
			}
			p.requeue(b.escalated())
		}
		return
	}
}

func reverse(s []string) []string {
	out := make([]string, len(s))
	for i, x := range s {
		out[len(s)-1-i] = x
	}
	return out
}

func tail(s string, n int) string {
	s = strings.TrimSpace(s)
	if len(s) > n {
		s = "..." + s[len(s)-n:]
	}
	return s
}

// crashFunction finds the innermost library function in a fatal-error goroutine trace.
func crashFunction(stderr string) string {
	for _, ln := range strings.Split(stderr, "\n") {
		if strings.HasPrefix(ln, modPrefix) {
			if i := strings.LastIndexByte(ln, '('); i > 0 {
				return shortName(ln[:i])
			}
		}
	}
	return ""
}

func run(r *enumlib.Run) {
	exe, err := os.Executable()
	if err != nil {
		r.Violation("INFRA:c01-no-executable", err.Error(), nil)
		return
	}
	tmp, err := os.MkdirTemp("", "c01-")
	if err != nil {
		r.Violation("INFRA:c01-tmp", err.Error(), nil)
		return
	}
	defer os.RemoveAll(tmp)
	c := buildCorpus()
	p := &parent{r: r, c: c, sps: buildSpaces(c, r.Thorough()), exe: exe, tmp: tmp, tier: r.Tier,
		viol: map[string]*pviol{}, stats: map[string]int64{}, loopers: map[string]string{}, frameClass: map[string]string{}}
	p.agg = make([]spaceAgg, len(p.sps))
	for _, sp := range p.sps {
		for lo := int64(0); lo < sp.size; lo += batchSize {
			hi := lo + batchSize
			if hi > sp.size {
				hi = sp.size
			}
			p.batches = append(p.batches, batch{sp.id, lo, hi, 0})
		}
	}
	r.Parallel(func(shard, n int) {
		var w *proc
		defer func() {
			if w != nil {
				w.kill()
			}
		}()
		for {
			b, ok := p.nextBatch()
			if !ok {
				return
			}
			p.runBatch(&w, shard, b)
		}
	})

	// bookkeeping
	var evals, success int64
	perKind := map[string]int64{}
	for i, sp := range p.sps {
		a := p.agg[i]
		evals += a.evals
		success += a.success
		note := sp.note
		if a.ident > 0 {
			note += fmt.Sprintf("; %d of the cases reproduce their seed (evaluated, not counted as non-trivial)", a.ident)
		}
		if a.hangs > 0 {
			note += fmt.Sprintf("; %d cases did not terminate (reported, then skipped)", a.hangs)
		}
		if a.evals < sp.size {
			note += fmt.Sprintf("; CUT SHORT by the time budget after %d cases", a.evals)
		}
		r.Space(sp.name, sp.size, a.success, a.evals >= sp.size, strings.TrimPrefix(note, "; "))
	}
	for _, s := range c.seeds {
		perKind[kindNames[s.kind]]++
	}
	r.Eval(evals)
	r.Nontrivial(success)
	r.Extra("corpus", map[string]interface{}{"frames": c.nFrames, "seeds": len(c.seeds), "seeds_per_entry_point": perKind, "fingerprint": c.fp})
	sort.Strings(p.rejected)
	if len(p.rejected) == 0 {
		p.rejected = []string{}
	}
	r.Extra("valid_seeds_not_decoded", p.rejected)
	r.Extra("valid_seeds_not_decoded_note", "seeds meant to be well-formed on which the library returned an error or panicked (acceptance is not part of C01; listed for information)")
	if len(p.stats) == 0 {
		p.stats["worker_starts"] = 0
	}
	r.Extra("process_statistics", p.stats)

	destPass(r, c)

	// samples: the middle case of some spaces, judged on its own
	for i, sp := range p.sps {
		if i >= 11 || sp.size == 0 {
			break
		}
		_, in := p.describe(i, sp.size/2)
		res, _ := runSingle(exe, in.Entry, in.Hex, 1000)
		out := res.Status
		if len(res.Results) > 0 {
			out = res.Results[0]
		}
		r.Sample(map[string]interface{}{"space": sp.name, "index": in.Index, "entry": in.Entry, "hex": in.Hex, "outcome": out})
	}

	// verdicts, in a fixed order
	var classes []string
	for cl := range p.viol {
		classes = append(classes, cl)
	}
	sort.Strings(classes)
	// the reported example of a hang class is itself confirmed: twice, in processes of its own
	var wg sync.WaitGroup
	for _, cl := range classes {
		if v := p.viol[cl]; strings.HasPrefix(cl, "C01:hang:") {
			wg.Add(1)
			go func(cl string, v *pviol) {
				defer wg.Done()
				kind, _, res := p.confirm(v.sp, v.idx)
				if kind != "hang" {
					p.infraErr(fmt.Sprintf("the example of %s (%s case %d, %s) returned when run on its own: %v", cl, p.sps[v.sp].name, v.idx, v.input.Hex, res.Results))
					return
				}
				v.msg = fmt.Sprintf("%s(%s) (%d octets) does not return: it ran for %d ms without returning in two separate processes; the goroutine loops in %s (innermost library function common to %d stack samples; last sample, outermost first: %s)",
					v.input.Entry, v.input.Hex, v.input.Len, singleLimit, res.Looper, res.Samples, strings.Join(res.Frames, " > "))
			}(cl, v)
		}
	}
	wg.Wait()
	for i, s := range p.infra {
		r.Violation(fmt.Sprintf("INFRA:c01-worker-%d", i), s, nil)
	}
	for _, cl := range classes {
		v := p.viol[cl]
		r.ViolationWithTest(cl, v.msg, v.input, v.goTest)
		for i := int64(1); i < v.count; i++ {
			r.Violation(cl, "", nil)
		}
	}
}

// replay re-judges one stored case in a single-case process.
func replay(class string, raw json.RawMessage) (string, bool) {
	if strings.HasPrefix(class, "C01:outcome-depends-on-destination") || strings.HasPrefix(class, "C01:earlier-result-rewritten") {
		return replayDest(raw)
	}
	var in caseInput
	if err := json.Unmarshal(raw, &in); err != nil {
		return "cannot decode input: " + err.Error(), false
	}
	if kindByName(in.Entry) < 0 {
		return "unknown entry point " + in.Entry, false
	}
	exe, err := os.Executable()
	if err != nil {
		return err.Error(), false
	}
	res, stderr := runSingle(exe, in.Entry, in.Hex, singleLimit)
	desc := fmt.Sprintf("%s(%s) (%d octets)", in.Entry, in.Hex, len(in.Hex)/2)
	switch res.Status {
	case "hang":
		return desc + fmt.Sprintf("\ndid not return within %d ms; loops in %s (stack, outermost first: %s)\nC01:hang:%s", singleLimit, res.Looper, strings.Join(res.Frames, " > "), res.Looper), true
	case "crash":
		return desc + "\nthe process died: " + tail(stderr, 1500), true
	case "done":
		for _, s := range res.Results {
			desc += "\n  " + s
		}
		same := false
		for _, v := range res.Verdicts {
			desc += "\n" + v.Class + ": " + v.Msg
			if v.Class == class {
				same = true
			}
		}
		if len(res.Verdicts) > 0 && !same {
			desc += "\n(the stored class " + class + " is not among them, but the property is still violated on this input)"
		}
		return desc, len(res.Verdicts) > 0
	}
	return desc + "\nthe single-case process failed: " + res.Status + " " + tail(stderr, 500), false
}
