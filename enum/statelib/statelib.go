// Package statelib saves, restores and fingerprints the state reachable from a set of variables
// (the package-level variables of a library package): an explicit-state search over the real code
// needs "the state" as a value. Locations are walked through pointers, slices, arrays, structs,
// maps and interfaces; functions, channels and unsafe pointers are treated as opaque scalars.
package statelib

import (
	"encoding/binary"
	"fmt"
	"hash/fnv"
	"math"
	"reflect"
	"sort"
	"unsafe"
)

type key struct {
	addr unsafe.Pointer
	typ  reflect.Type
}

type loc struct {
	addr  unsafe.Pointer
	typ   reflect.Type
	saved reflect.Value // shallow copy of the value at addr
	// maps: the entries at the time of the snapshot
	mkeys, mvals []reflect.Value
}

// Snap is a snapshot of everything reachable from the roots.
type Snap struct{ locs []loc }

func at(addr unsafe.Pointer, t reflect.Type) reflect.Value { return reflect.NewAt(t, addr).Elem() }

// opaque: objects owned by the runtime or the reflection machinery (type descriptors live in
// read-only memory) are identities, not state of the package under test.
func opaque(t reflect.Type) bool {
	if t.Kind() == reflect.Interface {
		return false // the variable holding such an object is state; the object it refers to is not
	}
	switch t.PkgPath() {
	case "reflect", "runtime", "internal/abi", "internal/reflectlite", "unsafe":
		return true
	}
	return false
}

func sameBytes(a, b unsafe.Pointer, n uintptr) bool {
	if n == 0 {
		return true
	}
	x, y := unsafe.Slice((*byte)(a), n), unsafe.Slice((*byte)(b), n)
	for i := range x {
		if x[i] != y[i] {
			return false
		}
	}
	return true
}

func hasPointers(t reflect.Type) bool {
	switch t.Kind() {
	case reflect.Ptr, reflect.Slice, reflect.Map, reflect.Interface, reflect.String, reflect.Chan, reflect.Func, reflect.UnsafePointer:
		return t.Kind() != reflect.String
	case reflect.Array:
		return hasPointers(t.Elem())
	case reflect.Struct:
		for i := 0; i < t.NumField(); i++ {
			if hasPointers(t.Field(i).Type) {
				return true
			}
		}
	}
	return false
}

// Take snapshots the state reachable from roots (each root is a pointer to a variable).
func Take(roots []interface{}) *Snap {
	s := &Snap{}
	seen := map[key]bool{}
	var visit func(addr unsafe.Pointer, t reflect.Type)
	var follow func(v reflect.Value) // v: a readable value; follows the pointers inside it
	follow = func(v reflect.Value) {
		switch v.Kind() {
		case reflect.Ptr:
			if !v.IsNil() {
				visit(v.UnsafePointer(), v.Type().Elem())
			}
		case reflect.Interface:
			if !v.IsNil() {
				follow(v.Elem())
			}
		case reflect.Slice:
			et := v.Type().Elem()
			for i := 0; i < v.Len(); i++ {
				visit(unsafe.Pointer(uintptr(v.UnsafePointer())+uintptr(i)*et.Size()), et)
			}
		case reflect.Array:
			if hasPointers(v.Type().Elem()) {
				for i := 0; i < v.Len(); i++ {
					follow(v.Index(i))
				}
			}
		case reflect.Struct:
			for i := 0; i < v.NumField(); i++ {
				if hasPointers(v.Type().Field(i).Type) {
					follow(v.Field(i))
				}
			}
		case reflect.Map:
			it := v.MapRange()
			for it.Next() {
				follow(it.Key())
				follow(it.Value())
			}
		}
	}
	visit = func(addr unsafe.Pointer, t reflect.Type) {
		if addr == nil || t.Size() == 0 && t.Kind() != reflect.Map || opaque(t) {
			return
		}
		k := key{addr, t}
		if seen[k] {
			return
		}
		seen[k] = true
		v := at(addr, t)
		l := loc{addr: addr, typ: t, saved: reflect.New(t).Elem()}
		l.saved.Set(v)
		if t.Kind() == reflect.Map && !v.IsNil() {
			it := v.MapRange()
			for it.Next() {
				kc, vc := reflect.New(t.Key()).Elem(), reflect.New(t.Elem()).Elem()
				kc.Set(it.Key())
				vc.Set(it.Value())
				l.mkeys, l.mvals = append(l.mkeys, kc), append(l.mvals, vc)
			}
		}
		s.locs = append(s.locs, l)
		follow(v)
	}
	for _, r := range roots {
		rv := reflect.ValueOf(r)
		if rv.Kind() == reflect.Ptr && !rv.IsNil() {
			visit(rv.UnsafePointer(), rv.Type().Elem())
		}
	}
	return s
}

// Restore writes every saved location back in place.
func (s *Snap) Restore() {
	for _, l := range s.locs {
		v := at(l.addr, l.typ)
		// write only what changed (a location in read-only memory never changes and must not be written)
		if !sameBytes(l.addr, l.saved.Addr().UnsafePointer(), l.typ.Size()) {
			v.Set(l.saved)
		}
		if l.typ.Kind() == reflect.Map && !l.saved.IsNil() {
			m := v
			if mapUnchanged(m, &l) {
				continue
			}
			for _, k := range m.MapKeys() {
				m.SetMapIndex(k, reflect.Value{})
			}
			for i := range l.mkeys {
				m.SetMapIndex(l.mkeys[i], l.mvals[i])
			}
		}
	}
}

// mapUnchanged: same number of entries, and every saved key still maps to a value with the same
// bytes (interface and pointer values compare by identity, which is what the snapshot holds).
func mapUnchanged(m reflect.Value, l *loc) bool {
	if m.Len() != len(l.mkeys) {
		return false
	}
	et := l.typ.Elem()
	tmp := reflect.New(et).Elem()
	for i, k := range l.mkeys {
		cur := m.MapIndex(k)
		if !cur.IsValid() {
			return false
		}
		tmp.Set(cur)
		if !sameBytes(tmp.Addr().UnsafePointer(), l.mvals[i].Addr().UnsafePointer(), et.Size()) {
			return false
		}
	}
	return true
}

// Size is the number of saved locations.
func (s *Snap) Size() int { return len(s.locs) }

// Hash fingerprints the state reachable from roots canonically (pointer identity by visiting
// order, map entries in the order of their rendered keys).
func Hash(roots []interface{}) uint64 {
	h := fnv.New64a()
	var b8 [8]byte
	w64 := func(x uint64) { binary.LittleEndian.PutUint64(b8[:], x); h.Write(b8[:]) }
	ids := map[key]uint64{}
	var walk func(v reflect.Value)
	visit := func(addr unsafe.Pointer, t reflect.Type) {
		if addr == nil {
			w64(0)
			return
		}
		if opaque(t) {
			w64(uint64(uintptr(addr))) // identity (stable within the process)
			return
		}
		k := key{addr, t}
		if id, ok := ids[k]; ok {
			w64(id)
			return
		}
		ids[k] = uint64(len(ids) + 1)
		w64(^uint64(0))
		walk(at(addr, t))
	}
	walk = func(v reflect.Value) {
		switch v.Kind() {
		case reflect.Bool:
			if v.Bool() {
				w64(1)
			} else {
				w64(0)
			}
		case reflect.Int, reflect.Int8, reflect.Int16, reflect.Int32, reflect.Int64:
			w64(uint64(v.Int()))
		case reflect.Uint, reflect.Uint8, reflect.Uint16, reflect.Uint32, reflect.Uint64, reflect.Uintptr:
			w64(v.Uint())
		case reflect.Float32, reflect.Float64:
			w64(math.Float64bits(v.Float()))
		case reflect.Complex64, reflect.Complex128:
			c := v.Complex()
			w64(math.Float64bits(real(c)))
			w64(math.Float64bits(imag(c)))
		case reflect.String:
			w64(uint64(v.Len()))
			h.Write([]byte(v.String()))
		case reflect.Ptr:
			if v.IsNil() {
				w64(0)
			} else {
				visit(v.UnsafePointer(), v.Type().Elem())
			}
		case reflect.Interface:
			if v.IsNil() {
				w64(0)
			} else {
				h.Write([]byte(v.Elem().Type().String()))
				walk(v.Elem())
			}
		case reflect.Slice:
			w64(uint64(v.Len()))
			et := v.Type().Elem()
			for i := 0; i < v.Len(); i++ {
				walk(at(unsafe.Pointer(uintptr(v.UnsafePointer())+uintptr(i)*et.Size()), et))
			}
		case reflect.Array:
			for i := 0; i < v.Len(); i++ {
				walk(v.Index(i))
			}
		case reflect.Struct:
			for i := 0; i < v.NumField(); i++ {
				walk(v.Field(i))
			}
		case reflect.Map:
			if v.IsNil() {
				w64(0)
				return
			}
			type ent struct {
				k string
				v reflect.Value
			}
			var es []ent
			it := v.MapRange()
			for it.Next() {
				es = append(es, ent{render(it.Key()), it.Value()})
			}
			sort.Slice(es, func(i, j int) bool { return es[i].k < es[j].k })
			w64(uint64(len(es)))
			for _, e := range es {
				h.Write([]byte(e.k))
				walk(e.v)
			}
		default: // Func, Chan, UnsafePointer: identity only
			if v.IsNil() {
				w64(0)
			} else {
				w64(1)
			}
		}
	}
	for _, r := range roots {
		rv := reflect.ValueOf(r)
		if rv.Kind() == reflect.Ptr && !rv.IsNil() {
			visit(rv.UnsafePointer(), rv.Type().Elem())
		}
	}
	return h.Sum64()
}

func render(v reflect.Value) string {
	switch v.Kind() {
	case reflect.String:
		return v.String()
	case reflect.Int, reflect.Int8, reflect.Int16, reflect.Int32, reflect.Int64:
		return fmt.Sprintf("%020d", v.Int())
	case reflect.Uint, reflect.Uint8, reflect.Uint16, reflect.Uint32, reflect.Uint64:
		return fmt.Sprintf("%020d", v.Uint())
	}
	return fmt.Sprintf("%v", v)
}

// ---------------------------------------------------------------------------------------------
// explicit-state search

// Transition is one labelled call of the code under test; Run returns a rendering of everything
// the call yields (verdict, value, re-encoding).
type Transition struct {
	Label string
	Run   func() string
}

// Witness: transition Index yields Want in the initial state and Got after Path.
type Witness struct {
	Index     int
	Path      []int
	Want, Got string
}

// Result of a search.
type Result struct {
	States      int
	Transitions int64
	Compared    int64
	Capped      string
	Witnesses   []Witness // at most one per class (see Search)
	Locations   int
}

// Search explores the states of the variables under roots that the transitions can reach, breadth
// first from the current (initial) state, and checks the invariant "every transition yields in
// every reachable state what it yields in the initial state". class(i) groups transitions for
// reporting (one witness per class). The initial state is restored before Search returns.
func Search(roots []interface{}, ts []Transition, maxStates, maxDepth int, class func(i int) string) Result {
	type node struct {
		snap  *Snap
		path  []int
		depth int
	}
	s0 := Take(roots)
	h0 := Hash(roots)
	res := Result{Locations: s0.Size()}
	nodes := []*node{{snap: s0}}
	seen := map[uint64]bool{h0: true}
	base := make([]string, len(ts))
	reported := map[string]bool{}
	for qi := 0; qi < len(nodes); qi++ {
		nd := nodes[qi]
		nd.snap.Restore()
		cur := Hash(roots)
		last := cur
		for i := range ts {
			if last != cur {
				nd.snap.Restore()
			}
			r := ts[i].Run()
			res.Transitions++
			if qi == 0 {
				base[i] = r
			} else {
				res.Compared++
				if r != base[i] {
					if c := class(i); !reported[c] {
						reported[c] = true
						res.Witnesses = append(res.Witnesses, Witness{Index: i, Path: append([]int(nil), nd.path...), Want: base[i], Got: r})
					}
				}
			}
			h := Hash(roots)
			last = h
			if h != cur && !seen[h] {
				seen[h] = true
				switch {
				case nd.depth+1 > maxDepth:
					res.Capped = fmt.Sprintf("states deeper than %d steps not expanded", maxDepth)
				case len(nodes) >= maxStates:
					res.Capped = fmt.Sprintf("more than %d distinct states: further ones not expanded", maxStates)
				default:
					nodes = append(nodes, &node{snap: Take(roots), path: append(append([]int(nil), nd.path...), i), depth: nd.depth + 1})
				}
			}
		}
	}
	s0.Restore()
	res.States = len(seen)
	return res
}
