//go:build verif

package cemilayout

import (
	"fmt"
)

// Reference bit layout of a cEMI L_Data message, written from the octet/bit table of DESIGN.md
// Appendix C (which restates the cEMI specification). Nothing here calls into, or is derived
// from, the library under test.
//
//	octet          content
//	0              message code: 0x11 L_Data.req, 0x29 L_Data.ind, 0x2E L_Data.con
//	1              additional-info length n (0..255)
//	2 .. 1+n       additional info
//	2+n            control field 1: b7 standard frame | b6 reserved | b5 do not repeat |
//	               b4 broadcast (not system broadcast) | b3..2 priority | b1 acknowledge request |
//	               b0 error / confirm
//	3+n            control field 2: b7 destination is a group address | b6..4 hop count |
//	               b3..0 extended frame format (b2 = LTE)
//	4+n, 5+n       source address, high octet first
//	6+n, 7+n       destination address, high octet first
//	8+n            L: number of data octets (data unit, >= 1) or 0 (control unit)
//	9+n            transport control: b7 control unit | b6 numbered | b5..2 sequence number |
//	               b1..0 = APCI bits 3..2 (data unit) or the control code (control unit)
//	10+n           data unit only: b7..6 = APCI bits 1..0 | b5..0 = six-bit short data (data[0])
//	11+n ..        data unit only: data[1], data[2], ...

// bitField is one row of the tables above: a named field in bits hi..lo of an octet.
type bitField struct {
	name   string
	hi, lo uint
}

func (b bitField) width() uint   { return b.hi - b.lo + 1 }
func (b bitField) max() int      { return 1<<b.width() - 1 }
func (b bitField) ownBits() byte { return byte(b.max()) << b.lo }

// put places v in the field; a value too wide for the field is cut to the field width here, and
// the caller removes the field's own bits from the comparison (see refOctet).
func (b bitField) put(v int) byte { return byte(v&b.max()) << b.lo }
func (b bitField) get(o byte) int { return int(o>>b.lo) & b.max() }

var (
	fStd       = bitField{"standard-frame", 7, 7}
	fRsv6      = bitField{"reserved-b6", 6, 6}
	fNoRepeat  = bitField{"do-not-repeat", 5, 5}
	fBroadcast = bitField{"broadcast", 4, 4}
	fPrio      = bitField{"priority", 3, 2}
	fAck       = bitField{"ack-request", 1, 1}
	fErr       = bitField{"error", 0, 0}
	ctrl1Table = []bitField{fStd, fRsv6, fNoRepeat, fBroadcast, fPrio, fAck, fErr}

	fGroup     = bitField{"group-address", 7, 7}
	fHops      = bitField{"hop-count", 6, 4}
	fEFF       = bitField{"extended-format", 3, 0}
	fLTE       = bitField{"lte", 2, 2} // one bit of the extended frame format
	ctrl2Table = []bitField{fGroup, fHops, fEFF}

	fTControl  = bitField{"control-flag", 7, 7}
	fTNumbered = bitField{"numbered", 6, 6}
	fTSeq      = bitField{"sequence", 5, 2}
	fTLow      = bitField{"apci-high", 1, 0} // APCI bits 3..2 / control code
	tpciTable  = []bitField{fTControl, fTNumbered, fTSeq, fTLow}

	fALow    = bitField{"apci-low", 7, 6} // APCI bits 1..0
	fShort   = bitField{"short-data", 5, 0}
	apciData = []bitField{fALow, fShort}
)

// Message codes of the three L_Data services.
const (
	codeReq byte = 0x11
	codeInd byte = 0x29
	codeCon byte = 0x2E
)

var codes = []byte{codeReq, codeInd, codeCon}

func codeName(c byte) string {
	switch c {
	case codeReq:
		return "L_Data.req"
	case codeInd:
		return "L_Data.ind"
	case codeCon:
		return "L_Data.con"
	}
	return fmt.Sprintf("0x%02X", c)
}

// fields is an L_Data frame value in terms of the specification's fields.
type fields struct {
	Code byte   `json:"code"`
	Info []byte `json:"-"`
	// control field 1
	Std       bool `json:"std"`
	Rsv6      bool `json:"rsv6"`
	NoRepeat  bool `json:"norepeat"`
	Broadcast bool `json:"broadcast"`
	Prio      int  `json:"prio"`
	Ack       bool `json:"ack"`
	Err       bool `json:"err"`
	// control field 2
	Group bool `json:"group"`
	Hops  int  `json:"hops"`
	EFF   int  `json:"eff"`
	// addresses
	Src int `json:"src"`
	Dst int `json:"dst"`
	// transport unit
	Control  bool   `json:"control"`
	Numbered bool   `json:"numbered"`
	Seq      int    `json:"seq"`
	APCI     int    `json:"apci"` // data unit: 4-bit APCI; control unit: 2-bit control code
	Data     []byte `json:"-"`    // data unit only; Data[0] is the six-bit short data
}

func b2i(b bool) int {
	if b {
		return 1
	}
	return 0
}

// refOctet composes one octet from (field, value) pairs. mask has the own bits of every field whose
// value does not fit the field cleared: for such a value the specification says nothing about the
// field itself, but the other fields of the octet must still be where they belong.
func refOctet(table []bitField, vals ...int) (o, mask byte) {
	mask = 0xFF
	for i, f := range table {
		v := vals[i]
		if v < 0 || v > f.max() {
			mask &^= f.ownBits()
		}
		o |= f.put(v)
	}
	return
}

// refLData is the reference encoding. mask is 0xFF for every octet except where a field value is
// outside its field (see refOctet). For an unnumbered unit the sequence bits are reserved and zero.
func refLData(f *fields) (out, mask []byte) {
	n := len(f.Info)
	if n > 255 {
		panic("refLData: info longer than the length octet can express")
	}
	tl := 2
	if !f.Control {
		if len(f.Data) < 1 || len(f.Data) > 255 {
			panic("refLData: data length outside 1..255")
		}
		tl = 2 + len(f.Data)
	}
	out = make([]byte, 0, 2+n+6+tl)
	out = append(out, f.Code, byte(n))
	out = append(out, f.Info...)
	c1, m1 := refOctet(ctrl1Table, b2i(f.Std), b2i(f.Rsv6), b2i(f.NoRepeat), b2i(f.Broadcast), f.Prio, b2i(f.Ack), b2i(f.Err))
	c2, m2 := refOctet(ctrl2Table, b2i(f.Group), f.Hops, f.EFF)
	out = append(out, c1, c2, byte(f.Src>>8), byte(f.Src), byte(f.Dst>>8), byte(f.Dst))
	seq := f.Seq
	if !f.Numbered {
		seq = 0
	}
	var t, mt, a, ma byte
	if f.Control {
		t, mt = refOctet(tpciTable, 1, b2i(f.Numbered), seq, f.APCI)
		out = append(out, 0, t)
	} else {
		if f.APCI < 0 || f.APCI > 15 {
			panic("refLData: APCI outside 0..15")
		}
		t, mt = refOctet(tpciTable, 0, b2i(f.Numbered), seq, f.APCI>>2)
		a, ma = refOctet(apciData, f.APCI&3, int(f.Data[0]))
		out = append(out, byte(len(f.Data)), t, a)
		out = append(out, f.Data[1:]...)
	}
	mask = make([]byte, len(out))
	for i := range mask {
		mask[i] = 0xFF
	}
	mask[2+n], mask[3+n], mask[9+n] = m1, m2, mt
	if !f.Control {
		mask[10+n] = ma
	}
	return
}

// rawLayout builds the octets of a layout exactly as the fields say, i.e. also with sequence bits
// in an unnumbered unit ("any such layout" of the decoding half of the property). All values must
// fit their fields.
func rawLayout(f *fields) []byte {
	g := *f
	g.Numbered = true // keeps the sequence bits
	out, _ := refLData(&g)
	if !f.Numbered {
		out[9+len(f.Info)] &^= fTNumbered.ownBits()
	}
	return out
}

// refParse is the reference decoding of an exact L_Data layout.
func refParse(b []byte) (*fields, error) {
	if len(b) < 2 {
		return nil, fmt.Errorf("%d octets", len(b))
	}
	f := &fields{Code: b[0]}
	if f.Code != codeReq && f.Code != codeInd && f.Code != codeCon {
		return nil, fmt.Errorf("message code 0x%02X is not L_Data", f.Code)
	}
	n := int(b[1])
	if len(b) < 2+n+8 {
		return nil, fmt.Errorf("%d octets with info length %d", len(b), n)
	}
	f.Info = append([]byte(nil), b[2:2+n]...)
	r := b[2+n:]
	c1, c2 := r[0], r[1]
	f.Std, f.Rsv6, f.NoRepeat, f.Broadcast = fStd.get(c1) == 1, fRsv6.get(c1) == 1, fNoRepeat.get(c1) == 1, fBroadcast.get(c1) == 1
	f.Prio, f.Ack, f.Err = fPrio.get(c1), fAck.get(c1) == 1, fErr.get(c1) == 1
	f.Group, f.Hops, f.EFF = fGroup.get(c2) == 1, fHops.get(c2), fEFF.get(c2)
	f.Src = int(r[2])<<8 | int(r[3])
	f.Dst = int(r[4])<<8 | int(r[5])
	l, t := int(r[6]), r[7]
	f.Control, f.Numbered, f.Seq = fTControl.get(t) == 1, fTNumbered.get(t) == 1, fTSeq.get(t)
	if f.Control {
		if l != 0 || len(r) != 8 {
			return nil, fmt.Errorf("control unit with L=%d and %d octets", l, len(r)-6)
		}
		f.APCI = fTLow.get(t)
		return f, nil
	}
	if l < 1 || len(r) != 8+l {
		return nil, fmt.Errorf("data unit with L=%d and %d octets after L", l, len(r)-7)
	}
	f.APCI = fTLow.get(t)<<2 | fALow.get(r[8])
	f.Data = append([]byte(nil), r[8:]...)
	f.Data[0] = byte(fShort.get(r[8]))
	return f, nil
}

// region names the field that owns bit `bit` of octet i of a layout with info length n and whether
// it is a control unit.
func region(n int, control bool, i int, diff byte) string {
	sub := func(octet string, table []bitField) string {
		for _, f := range table {
			if diff&f.ownBits() != 0 {
				return octet + "." + f.name
			}
		}
		return octet
	}
	switch {
	case i == 0:
		return "message-code"
	case i == 1:
		return "info-length"
	case i < 2+n:
		return "info"
	}
	switch i - 2 - n {
	case 0:
		return sub("ctrl1", ctrl1Table)
	case 1:
		return sub("ctrl2", ctrl2Table)
	case 2, 3:
		return "source"
	case 4, 5:
		return "destination"
	case 6:
		return "length"
	case 7:
		return sub("tpci", tpciTable)
	case 8:
		if !control {
			return sub("apci-octet", apciData)
		}
	}
	return "data"
}

// isGroupCommandRef: the application control codes 0000 A_GroupValue_Read, 0001 A_GroupValue_Response
// and 0010 A_GroupValue_Write are the group commands.
func isGroupCommandRef(apci int) bool { return apci == 0 || apci == 1 || apci == 2 }
