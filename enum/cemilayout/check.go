//go:build verif

package cemilayout

import (
	"bytes"
	"encoding/hex"
	"encoding/json"
	"fmt"
	"sort"
	"strings"
	"sync"
	"sync/atomic"

	"github.com/vapourismo/knx-go/knx/cemi"

	"verifh/enum/enumlib"
)

func init() {
	enumlib.Register(&enumlib.Check{
		Prop:   "C11",
		Run:    run,
		Replay: replay,
		Rule: "every space is a full Cartesian product enumerated in index order (case i goes to shard i % shards). A frame case is one L_Data frame value given by its specification fields; " +
			"it is judged in both directions: (a) the library value is built with the library's own flag constants and constructors (Control1StdFrame ... Control1Prio, Control2GroupAddr, Control2Hops, Control2LTEFrame; " +
			"bits without a library name are set as raw bits), packed with cemi.Pack into a fresh zeroed buffer of cemi.Size octets and compared octet by octet with refLData(fields); " +
			"(b) the raw layout of the fields (sequence bits present also in an unnumbered unit) is given to cemi.Unpack and every decoded field, and every flag test / accessor on the decoded control octets " +
			"(Hops, IsGroupAddr, IsGroupCommand, the flag constants, Control1Prio as a matcher), is compared with refParse(layout). " +
			"A helper case is one function on one element of its complete 8-bit domain. " +
			"Non-trivial: frame case - both directions ran to their final field comparison (no panic, no decode error, all field values inside their fields); helper case - the argument is inside the documented domain of the field " +
			"(priority 0..3, hop count 0..7 for exactness, any octet for accessors, APCI 0..15), so the comparison is exact and not only the no-leak test. " +
			"A field value wider than its field (control code 4..15, short data 64..255, priority 4..255) is judged only on the bits of the *other* fields (nothing may leak); what the library puts into the field itself is reported in out_of_domain, not judged; " +
			"hop count 8..255 must saturate to 7 (DESIGN: Hops(Control2Hops(h)) == min(h,7)).",
		Assume: []string{
			"the bit table in enum/cemilayout/ref.go restates the cEMI L_Data layout of DESIGN.md Appendix C correctly",
			"cemi.Pack is called the way the library's own callers do (buffer = make([]byte, cemi.Size(m)), zeroed) and once more into a buffer of the same size that held 0xFF octets (a field counts as placed when the encoder writes it)",
			"only exact layouts are decoded (length octet consistent with the octets present); truncated or over-long input is property C01/C02",
			"the number of octets cemi.Unpack reports as consumed is counted (unpack_consumed_not_whole_layout), not judged: the statement speaks of fields only",
			"IsGroupCommand on the values 16..255 (no 4-bit code) is counted in out_of_domain, not judged",
			"for an unnumbered unit the reference encoder writes zero sequence bits (they are reserved there); the decoder half is given layouts with arbitrary sequence bits and must return them as the sequence field",
		},
	})
}

// ---------------------------------------------------------------------------------------------
// replayable input

type caseInput struct {
	Op      string  `json:"op"` // "frame" | "helper"
	Fields  *fields `json:"fields,omitempty"`
	InfoHex string  `json:"info_hex,omitempty"`
	DataHex string  `json:"data_hex,omitempty"`
	Fn      string  `json:"fn,omitempty"`
	Arg     int     `json:"arg"`
}

func frameInput(f *fields) caseInput {
	g := *f
	return caseInput{Op: "frame", Fields: &g, InfoHex: hex.EncodeToString(f.Info), DataHex: hex.EncodeToString(f.Data)}
}

// outcome is one verdict; the message is built only when somebody asks for it (most cases of a
// class that occurs millions of times are only counted).
type outcome struct {
	Class string
	msg   func() string
}

func (o outcome) Msg() string { return o.msg() }

// ---------------------------------------------------------------------------------------------
// building the library value from fields with the library's own vocabulary

func buildControl1(f *fields) cemi.ControlField1 {
	var c cemi.ControlField1
	if f.Std {
		c |= cemi.Control1StdFrame
	}
	if f.Rsv6 {
		c |= cemi.ControlField1(fRsv6.put(1)) // the library has no name for the reserved bit
	}
	if f.NoRepeat {
		c |= cemi.Control1NoRepeat
	}
	if f.Broadcast {
		c |= cemi.Control1NoSysBroadcast
	}
	c |= cemi.Control1Prio(cemi.Priority(f.Prio))
	if f.Ack {
		c |= cemi.Control1WantAck
	}
	if f.Err {
		c |= cemi.Control1HasError
	}
	return c
}

func buildControl2(f *fields) cemi.ControlField2 {
	var c cemi.ControlField2
	if f.Group {
		c |= cemi.Control2GroupAddr
	}
	c |= cemi.Control2Hops(uint8(f.Hops))
	if fLTE.get(byte(f.EFF)) == 1 {
		c |= cemi.Control2LTEFrame
	}
	c |= cemi.ControlField2(byte(f.EFF) &^ fLTE.ownBits()) // the other format bits have no library name
	return c
}

func build(f *fields) cemi.Message {
	l := cemi.LData{
		Info:        cemi.Info(f.Info),
		Control1:    buildControl1(f),
		Control2:    buildControl2(f),
		Source:      cemi.IndividualAddr(f.Src),
		Destination: uint16(f.Dst),
	}
	if f.Control {
		l.Data = &cemi.ControlData{Numbered: f.Numbered, SeqNumber: uint8(f.Seq), Command: uint8(f.APCI)}
	} else {
		l.Data = &cemi.AppData{Numbered: f.Numbered, SeqNumber: uint8(f.Seq), Command: cemi.APCI(f.APCI), Data: f.Data}
	}
	switch f.Code {
	case codeReq:
		return &cemi.LDataReq{LData: l}
	case codeInd:
		return &cemi.LDataInd{LData: l}
	case codeCon:
		return &cemi.LDataCon{LData: l}
	}
	panic(fmt.Sprintf("check bug: message code 0x%02X", f.Code))
}

func inDomain(f *fields) bool {
	if f.Prio > fPrio.max() || f.Hops > fHops.max() || f.EFF > fEFF.max() || f.Seq > fTSeq.max() {
		return false
	}
	if f.Control {
		return f.APCI <= fTLow.max()
	}
	return f.APCI <= 15 && int(f.Data[0]) <= fShort.max()
}

func describe(f *fields) string {
	t := fmt.Sprintf("data unit numbered=%v seq=%d APCI=%d data=% x", f.Numbered, f.Seq, f.APCI, f.Data)
	if len(f.Data) > 8 {
		t = fmt.Sprintf("data unit numbered=%v seq=%d APCI=%d data=% x.. (%d octets)", f.Numbered, f.Seq, f.APCI, f.Data[:8], len(f.Data))
	}
	if f.Control {
		t = fmt.Sprintf("control unit numbered=%v seq=%d code=%d", f.Numbered, f.Seq, f.APCI)
	}
	return fmt.Sprintf("%s info=%d octets ctrl1{std=%v rsv6=%v norepeat=%v broadcast=%v prio=%d ack=%v err=%v} ctrl2{group=%v hops=%d eff=%d} src=0x%04X dst=0x%04X %s",
		codeName(f.Code), len(f.Info), f.Std, f.Rsv6, f.NoRepeat, f.Broadcast, f.Prio, f.Ack, f.Err, f.Group, f.Hops, f.EFF, f.Src, f.Dst, t)
}

// stats are tallies that are reported, not judged.
type stats struct {
	consumedMismatch int64
	oodControlCode   map[string]int64
}

// judgeFrame judges one frame value in both directions. nontrivial tells that both directions ran
// to their last comparison.
func judgeFrame(f *fields, st *stats) (out []outcome, nontrivial bool) {
	add := func(class, format string, a ...interface{}) {
		out = append(out, outcome{class, func() string { return fmt.Sprintf(format, a...) + "\n  frame: " + describe(f) }})
	}
	packed := false

	// (a) value -> octets
	ref, mask := refLData(f)
	var buf []byte
	if p, pv := enumlib.Try(func() {
		m := build(f)
		buf = make([]byte, cemi.Size(m))
		cemi.Pack(buf, m)
	}); p {
		add("C11:panic:Pack", "cemi.Pack panicked: %s", pv)
	} else if len(buf) != len(ref) {
		add("C11:pack-layout:size", "cemi.Size = %d octets, the layout has %d", len(buf), len(ref))
	} else {
		packed = true
		for i := range ref {
			if d := (buf[i] ^ ref[i]) & mask[i]; d != 0 {
				reg := region(len(f.Info), f.Control, i, d)
				add("C11:pack-layout:"+reg, "octet %d (%s) is 0x%02X, the specification puts 0x%02X there (compared bits 0x%02X)\n  packed    % x\n  reference % x",
					i, reg, buf[i], ref[i], mask[i], clip(buf), clip(ref))
				break
			}
		}
		// a field is placed when the encoder writes it: the same frame into a buffer that held 0xFF
		// octets must show the same specified bits (in a zeroed buffer a field the encoder forgot
		// reads as 0 and goes unnoticed wherever 0 is the right value)
		dirty := make([]byte, len(ref))
		for i := range dirty {
			dirty[i] = 0xFF
		}
		if p, pv := enumlib.Try(func() { cemi.Pack(dirty, build(f)) }); p {
			add("C11:panic:Pack", "cemi.Pack into a used buffer panicked: %s", pv)
		} else {
			for i := range ref {
				if d := (dirty[i] ^ ref[i]) & mask[i]; d != 0 && (buf[i]^ref[i])&mask[i] == 0 {
					reg := region(len(f.Info), f.Control, i, d)
					add("C11:pack-layout-in-a-used-buffer:"+reg, "packed into a buffer that held 0xFF octets, octet %d (%s) is 0x%02X; the specification puts 0x%02X there (compared bits 0x%02X): the encoder does not write that field\n  packed    % x\n  reference % x",
						i, reg, dirty[i], ref[i], mask[i], clip(dirty), clip(ref))
					break
				}
			}
		}
		if st != nil && f.Control && f.APCI > fTLow.max() {
			st.oodControlCode[fmt.Sprintf("control code %d packed as %d", f.APCI, fTLow.get(buf[9+len(f.Info)]))]++
		}
	}

	// (b) octets -> fields
	if !inDomain(f) {
		return out, false
	}
	raw := rawLayout(f)
	want, err := refParse(raw)
	if err != nil {
		panic("check bug: refParse rejects a reference layout: " + err.Error())
	}
	if !sameFields(want, f) {
		panic(fmt.Sprintf("check bug: refParse(rawLayout(f)) != f:\n %+v\n %+v", want, f))
	}
	var m cemi.Message
	var n uint
	if p, pv := enumlib.Try(func() { n, err = cemi.Unpack(raw, &m) }); p {
		add("C11:panic:Unpack", "cemi.Unpack(% x) panicked: %s", clip(raw), pv)
		return out, false
	}
	if err != nil {
		add("C11:unpack-error", "cemi.Unpack(% x) = error %q on an exact L_Data layout", clip(raw), err.Error())
		return out, false
	}
	var ld *cemi.LData
	var gotCode byte
	switch m := m.(type) {
	case *cemi.LDataReq:
		ld, gotCode = &m.LData, codeReq
	case *cemi.LDataInd:
		ld, gotCode = &m.LData, codeInd
	case *cemi.LDataCon:
		ld, gotCode = &m.LData, codeCon
	}
	if ld == nil || gotCode != want.Code {
		add("C11:unpack-field:message-code", "cemi.Unpack of a %s layout produced a %T", codeName(want.Code), m)
		return out, false
	}
	if m.MessageCode() != cemi.MessageCode(want.Code) {
		add("C11:unpack-field:message-code", "%T.MessageCode() = 0x%02X, layout has 0x%02X", m, uint8(m.MessageCode()), want.Code)
	}
	if st != nil && int(n) != len(raw) {
		st.consumedMismatch++
	}
	off := 2 + len(want.Info)
	if !bytes.Equal(ld.Info, want.Info) {
		add("C11:unpack-field:info", "decoded additional info is %d octets % x, layout has %d octets % x", len(ld.Info), clip(ld.Info), len(want.Info), clip(want.Info))
	}
	c1ok, c2ok := byte(ld.Control1) == raw[off], byte(ld.Control2) == raw[off+1]
	if !c1ok {
		add("C11:unpack-field:ctrl1", "decoded control field 1 = 0x%02X, layout octet %d = 0x%02X", byte(ld.Control1), off, raw[off])
	}
	if !c2ok {
		add("C11:unpack-field:ctrl2", "decoded control field 2 = 0x%02X, layout octet %d = 0x%02X", byte(ld.Control2), off+1, raw[off+1])
	}
	if int(ld.Source) != want.Src {
		add("C11:unpack-field:source", "decoded source 0x%04X, layout octets %02X %02X", uint16(ld.Source), raw[off+2], raw[off+3])
	}
	if int(ld.Destination) != want.Dst {
		add("C11:unpack-field:destination", "decoded destination 0x%04X, layout octets %02X %02X", ld.Destination, raw[off+4], raw[off+5])
	}
	gotAPCI := -1
	switch u := ld.Data.(type) {
	case *cemi.ControlData:
		if !want.Control {
			add("C11:unpack-field:tpdu-kind", "layout with b7 of the transport control octet clear decoded as control unit")
			break
		}
		if u.Numbered != want.Numbered {
			add("C11:unpack-field:numbered", "control unit: decoded Numbered=%v, b6 of octet 0x%02X says %v", u.Numbered, raw[off+7], want.Numbered)
		}
		if int(u.SeqNumber) != want.Seq {
			add("C11:unpack-field:sequence", "control unit: decoded SeqNumber=%d, b5..2 of octet 0x%02X are %d", u.SeqNumber, raw[off+7], want.Seq)
		}
		if int(u.Command) != want.APCI {
			add("C11:unpack-field:control-code", "control unit: decoded Command=%d, b1..0 of octet 0x%02X are %d", u.Command, raw[off+7], want.APCI)
		}
	case *cemi.AppData:
		if want.Control {
			add("C11:unpack-field:tpdu-kind", "layout with b7 of the transport control octet set decoded as data unit")
			break
		}
		gotAPCI = int(u.Command)
		if u.Numbered != want.Numbered {
			add("C11:unpack-field:numbered", "data unit: decoded Numbered=%v, b6 of octet 0x%02X says %v", u.Numbered, raw[off+7], want.Numbered)
		}
		if int(u.SeqNumber) != want.Seq {
			add("C11:unpack-field:sequence", "data unit: decoded SeqNumber=%d, b5..2 of octet 0x%02X are %d", u.SeqNumber, raw[off+7], want.Seq)
		}
		if int(u.Command) != want.APCI {
			add("C11:unpack-field:apci", "data unit: decoded Command=%d, b1..0 of 0x%02X and b7..6 of 0x%02X are %d", u.Command, raw[off+7], raw[off+8], want.APCI)
		}
		if !bytes.Equal(u.Data, want.Data) {
			what := "data"
			if len(u.Data) > 0 && len(u.Data) == len(want.Data) && bytes.Equal(u.Data[1:], want.Data[1:]) {
				what = "short-data"
			}
			add("C11:unpack-field:"+what, "data unit: decoded data %d octets % x, layout has %d octets % x (first octet = six-bit short data)", len(u.Data), clip(u.Data), len(want.Data), clip(want.Data))
		}
	default:
		add("C11:unpack-field:tpdu-kind", "decoded transport unit has type %T", ld.Data)
	}

	// flag tests and accessors on the decoded control octets
	if c1ok {
		c := ld.Control1
		flag := func(name string, k cemi.ControlField1, want bool) {
			if (c&k != 0) != want || (c&k == k) != want {
				add("C11:flag-constant:"+name, "control field 1 = 0x%02X: test with cemi.%s (0x%02X) says %v, the layout says %v", byte(c), name, byte(k), c&k != 0, want)
			}
		}
		flag("Control1StdFrame", cemi.Control1StdFrame, want.Std)
		flag("Control1NoRepeat", cemi.Control1NoRepeat, want.NoRepeat)
		flag("Control1NoSysBroadcast", cemi.Control1NoSysBroadcast, want.Broadcast)
		flag("Control1WantAck", cemi.Control1WantAck, want.Ack)
		flag("Control1HasError", cemi.Control1HasError, want.Err)
		all := cemi.Control1Prio(0) | cemi.Control1Prio(1) | cemi.Control1Prio(2) | cemi.Control1Prio(3)
		match := -1
		for p := 0; p <= 3; p++ {
			if c&all == cemi.Control1Prio(cemi.Priority(p)) {
				match = p
				break
			}
		}
		if match != want.Prio {
			add("C11:prio-constructor", "control field 1 = 0x%02X carries priority %d in b3..2; its priority bits equal Control1Prio(%d) (-1: none)", byte(c), want.Prio, match)
		}
	}
	if c2ok {
		c := ld.Control2
		if got := int(c.Hops()); got != want.Hops {
			add("C11:hops-accessor", "ControlField2(0x%02X).Hops() = %d, b6..4 of the octet are %d", byte(c), got, want.Hops)
		}
		if got := c.IsGroupAddr(); got != want.Group {
			add("C11:group-flag-accessor", "ControlField2(0x%02X).IsGroupAddr() = %v, b7 of the octet says %v", byte(c), got, want.Group)
		}
		if got := c&cemi.Control2LTEFrame != 0; got != (fLTE.get(raw[off+1]) == 1) {
			add("C11:flag-constant:Control2LTEFrame", "control field 2 = 0x%02X: test with cemi.Control2LTEFrame (0x%02X) says %v, b2 of the octet is %d", byte(c), byte(cemi.Control2LTEFrame), got, fLTE.get(raw[off+1]))
		}
	}
	if gotAPCI == want.APCI && !want.Control {
		if got := cemi.APCI(gotAPCI).IsGroupCommand(); got != isGroupCommandRef(want.APCI) {
			add("C11:group-command-test", "APCI(%d).IsGroupCommand() = %v; the group commands are the codes 0, 1, 2", gotAPCI, got)
		}
	}
	return out, packed
}

func clip(b []byte) []byte {
	if len(b) > 24 {
		return b[:24]
	}
	return b
}

func sameFields(a, b *fields) bool {
	return a.Code == b.Code && a.Std == b.Std && a.Rsv6 == b.Rsv6 && a.NoRepeat == b.NoRepeat && a.Broadcast == b.Broadcast &&
		a.Prio == b.Prio && a.Ack == b.Ack && a.Err == b.Err && a.Group == b.Group && a.Hops == b.Hops && a.EFF == b.EFF &&
		a.Src == b.Src && a.Dst == b.Dst && a.Control == b.Control && a.Numbered == b.Numbered && a.Seq == b.Seq && a.APCI == b.APCI &&
		bytes.Equal(a.Info, b.Info) && (b.Control || bytes.Equal(a.Data, b.Data))
}

// ---------------------------------------------------------------------------------------------
// helper functions over their whole domains

type flagConst struct {
	name  string
	got   byte
	field bitField
}

func flagConsts() []flagConst {
	return []flagConst{
		{"Control1StdFrame", byte(cemi.Control1StdFrame), fStd},
		{"Control1NoRepeat", byte(cemi.Control1NoRepeat), fNoRepeat},
		{"Control1NoSysBroadcast", byte(cemi.Control1NoSysBroadcast), fBroadcast},
		{"Control1WantAck", byte(cemi.Control1WantAck), fAck},
		{"Control1HasError", byte(cemi.Control1HasError), fErr},
		{"Control2GroupAddr", byte(cemi.Control2GroupAddr), fGroup},
		{"Control2LTEFrame", byte(cemi.Control2LTEFrame), fLTE},
		{"GroupValueRead", byte(cemi.GroupValueRead), bitField{"apci 0000", 3, 0}},
		{"GroupValueResponse", byte(cemi.GroupValueResponse), bitField{"apci 0001", 3, 0}},
		{"GroupValueWrite", byte(cemi.GroupValueWrite), bitField{"apci 0010", 3, 0}},
		{"LDataReqCode", byte(cemi.LDataReqCode), bitField{"0x11", 7, 0}},
		{"LDataIndCode", byte(cemi.LDataIndCode), bitField{"0x29", 7, 0}},
		{"LDataConCode", byte(cemi.LDataConCode), bitField{"0x2E", 7, 0}},
	}
}

func flagConstWant(i int, c flagConst) byte {
	switch c.name {
	case "GroupValueRead":
		return 0
	case "GroupValueResponse":
		return 1
	case "GroupValueWrite":
		return 2
	case "LDataReqCode":
		return codeReq
	case "LDataIndCode":
		return codeInd
	case "LDataConCode":
		return codeCon
	}
	return c.field.put(1)
}

// judgeHelper judges function fn on argument arg (0..255). inDom: the argument is inside the
// documented domain (exact comparison); ood: a note for the out_of_domain tally.
func judgeHelper(fn string, arg int) (out []outcome, inDom bool, ood string) {
	add := func(class, format string, a ...interface{}) {
		out = append(out, outcome{class, func() string { return fmt.Sprintf(format, a...) }})
	}
	var p bool
	var pv string
	switch fn {
	case "Control1Prio":
		var got byte
		p, pv = enumlib.Try(func() { got = byte(cemi.Control1Prio(cemi.Priority(arg))) })
		if p {
			break
		}
		inDom = arg <= fPrio.max()
		if got&^fPrio.ownBits() != 0 {
			add("C11:prio-constructor", "Control1Prio(%d) = 0x%02X sets bits outside b3..2", arg, got)
		} else if inDom && got != fPrio.put(arg) {
			add("C11:prio-constructor", "Control1Prio(%d) = 0x%02X; priority %d in b3..2 is 0x%02X", arg, got, arg, fPrio.put(arg))
		}
		if !inDom {
			if fPrio.get(got) == arg&fPrio.max() {
				ood = "Control1Prio(4..255): low two bits of the argument"
			} else {
				ood = fmt.Sprintf("Control1Prio(%d) -> priority %d", arg, fPrio.get(got))
			}
		}
	case "Control2Hops":
		var got byte
		p, pv = enumlib.Try(func() { got = byte(cemi.Control2Hops(uint8(arg))) })
		if p {
			break
		}
		inDom = arg <= fHops.max()
		switch {
		case got&^fHops.ownBits() != 0:
			add("C11:hops-constructor", "Control2Hops(%d) = 0x%02X sets bits outside b6..4", arg, got)
		case inDom && got != fHops.put(arg):
			add("C11:hops-constructor", "Control2Hops(%d) = 0x%02X; hop count %d in b6..4 is 0x%02X", arg, got, arg, fHops.put(arg))
		case !inDom && fHops.get(got) != fHops.max():
			add("C11:hops-constructor:saturation", "Control2Hops(%d) = 0x%02X encodes hop count %d; a count above 7 must saturate to 7", arg, got, fHops.get(got))
		}
	case "Hops":
		var got int
		p, pv = enumlib.Try(func() { got = int(cemi.ControlField2(arg).Hops()) })
		if p {
			break
		}
		inDom = true
		if got != fHops.get(byte(arg)) {
			add("C11:hops-accessor", "ControlField2(0x%02X).Hops() = %d, b6..4 of the octet are %d", arg, got, fHops.get(byte(arg)))
		}
	case "Hops(Control2Hops)":
		var enc byte
		var got int
		p, pv = enumlib.Try(func() {
			c := cemi.Control2Hops(uint8(arg))
			enc, got = byte(c), int(c.Hops())
		})
		if p {
			break
		}
		inDom = arg <= fHops.max()
		want := arg
		if want > 7 {
			want = 7
		}
		if got != want {
			// attribute to the half that disagrees with the layout
			if fHops.get(enc) != got {
				add("C11:hops-accessor", "Control2Hops(%d).Hops() = %d, want %d: the constructor encoded 0x%02X (hop count %d in b6..4), the accessor returns %d", arg, got, want, enc, fHops.get(enc), got)
			} else {
				add("C11:hops-constructor", "Control2Hops(%d).Hops() = %d, want %d: the constructor encoded 0x%02X", arg, got, want, enc)
			}
		}
	case "IsGroupAddr":
		var got bool
		p, pv = enumlib.Try(func() { got = cemi.ControlField2(arg).IsGroupAddr() })
		if p {
			break
		}
		inDom = true
		if got != (fGroup.get(byte(arg)) == 1) {
			add("C11:group-flag-accessor", "ControlField2(0x%02X).IsGroupAddr() = %v, b7 of the octet is %d", arg, got, fGroup.get(byte(arg)))
		}
	case "IsGroupCommand":
		var got bool
		p, pv = enumlib.Try(func() { got = cemi.APCI(arg).IsGroupCommand() })
		if p {
			break
		}
		inDom = arg <= 15
		if inDom {
			if got != isGroupCommandRef(arg) {
				add("C11:group-command-test", "APCI(%d).IsGroupCommand() = %v; the group commands are the codes 0, 1, 2", arg, got)
			}
		} else {
			ood = fmt.Sprintf("IsGroupCommand(16..255) = %v", got)
		}
	case "constant":
		cs := flagConsts()
		if arg < 0 || arg >= len(cs) {
			return nil, false, ""
		}
		c := cs[arg]
		inDom = true
		if want := flagConstWant(arg, c); c.got != want {
			add("C11:flag-constant:"+c.name, "cemi.%s = 0x%02X, the specification value (%s) is 0x%02X", c.name, c.got, c.field.name, want)
		}
	default:
		return nil, false, ""
	}
	if p {
		add("C11:panic:"+fn, "%s on %d panicked: %s", fn, arg, pv)
	}
	return
}

// ---------------------------------------------------------------------------------------------
// plain Go test bodies

func goBytes(p []byte) string {
	parts := make([]string, len(p))
	for i, x := range p {
		parts[i] = fmt.Sprintf("0x%02x", x)
	}
	return "[]byte{" + strings.Join(parts, ", ") + "}"
}

func goBool(b bool, s string) string {
	if b {
		return s
	}
	return ""
}

func goValue(f *fields) string {
	var c1 []string
	for _, s := range []string{goBool(f.Std, "cemi.Control1StdFrame"), goBool(f.Rsv6, "1<<6"), goBool(f.NoRepeat, "cemi.Control1NoRepeat"),
		goBool(f.Broadcast, "cemi.Control1NoSysBroadcast"), fmt.Sprintf("cemi.Control1Prio(%d)", f.Prio), goBool(f.Ack, "cemi.Control1WantAck"), goBool(f.Err, "cemi.Control1HasError")} {
		if s != "" {
			c1 = append(c1, s)
		}
	}
	var c2 []string
	for _, s := range []string{goBool(f.Group, "cemi.Control2GroupAddr"), fmt.Sprintf("cemi.Control2Hops(%d)", f.Hops), goBool(fLTE.get(byte(f.EFF)) == 1, "cemi.Control2LTEFrame"),
		goBool(byte(f.EFF)&^fLTE.ownBits() != 0, fmt.Sprintf("0x%02x", byte(f.EFF)&^fLTE.ownBits()))} {
		if s != "" {
			c2 = append(c2, s)
		}
	}
	unit := fmt.Sprintf("&cemi.AppData{Numbered: %v, SeqNumber: %d, Command: %d, Data: %s}", f.Numbered, f.Seq, f.APCI, goBytes(f.Data))
	if f.Control {
		unit = fmt.Sprintf("&cemi.ControlData{Numbered: %v, SeqNumber: %d, Command: %d}", f.Numbered, f.Seq, f.APCI)
	}
	typ := map[byte]string{codeReq: "LDataReq", codeInd: "LDataInd", codeCon: "LDataCon"}[f.Code]
	return fmt.Sprintf("&cemi.%s{LData: cemi.LData{Info: cemi.Info(%s), Control1: %s, Control2: %s,\n\t\tSource: 0x%04x, Destination: 0x%04x, Data: %s}}",
		typ, goBytes(f.Info), strings.Join(c1, " | "), strings.Join(c2, " | "), f.Src, f.Dst, unit)
}

// frameGoTest: imports testing, bytes, github.com/vapourismo/knx-go/knx/cemi.
func frameGoTest(f *fields, class string) string {
	if strings.HasPrefix(class, "C11:pack-layout") || class == "C11:panic:Pack" {
		ref, _ := refLData(f)
		return fmt.Sprintf(`func TestC11PackLayout(t *testing.T) {
	m := %s
	buf := make([]byte, cemi.Size(m))
	cemi.Pack(buf, m)
	want := %s // cEMI layout of these fields
	if !bytes.Equal(buf, want) {
		t.Fatalf("packed %% x, layout %% x", buf, want)
	}
}`, goValue(f), goBytes(ref))
	}
	raw := rawLayout(f)
	off := 2 + len(f.Info)
	return fmt.Sprintf(`func TestC11UnpackFields(t *testing.T) {
	var m cemi.Message
	if _, err := cemi.Unpack(%s, &m); err != nil {
		t.Fatal(err)
	}
	l := m.(*cemi.%s)
	t.Logf("%%T info=%% x ctrl1=%%#02x ctrl2=%%#02x src=%%#04x dst=%%#04x unit=%%+v", m, l.Info, l.Control1, l.Control2, uint16(l.Source), l.Destination, l.Data)
	// layout: %s
	if l.Control1 != %#02x || l.Control2 != %#02x || l.Control2.Hops() != %d || l.Control2.IsGroupAddr() != %v || uint16(l.Source) != %#04x || l.Destination != %#04x {
		t.Fatalf("decoded fields or accessors disagree with the layout (Hops()=%%d IsGroupAddr()=%%v)", l.Control2.Hops(), l.Control2.IsGroupAddr())
	}
}`, goBytes(raw), map[byte]string{codeReq: "LDataReq", codeInd: "LDataInd", codeCon: "LDataCon"}[f.Code], describe(f), raw[off], raw[off+1], f.Hops, f.Group, f.Src, f.Dst)
}

// helperGoTest: imports testing, github.com/vapourismo/knx-go/knx/cemi.
func helperGoTest(fn string, arg int) string {
	switch fn {
	case "Hops":
		return fmt.Sprintf(`func TestC11HopsAccessor(t *testing.T) {
	c := cemi.ControlField2(%#02x) // hop count lives in bits 6..4
	if got := c.Hops(); got != %d {
		t.Fatalf("ControlField2(%%#02x).Hops() = %%d, want %d", uint8(c), got)
	}
}`, arg, fHops.get(byte(arg)), fHops.get(byte(arg)))
	case "Hops(Control2Hops)":
		want := arg
		if want > 7 {
			want = 7
		}
		return fmt.Sprintf(`func TestC11HopsRoundTrip(t *testing.T) {
	c := cemi.Control2Hops(%d)
	if got := c.Hops(); got != %d {
		t.Fatalf("Control2Hops(%d) = %%#02x, Hops() = %%d, want %d", uint8(c), got)
	}
}`, arg, want, arg, want)
	case "Control1Prio":
		return fmt.Sprintf(`func TestC11Prio(t *testing.T) {
	if got := cemi.Control1Prio(%d); got != %#02x {
		t.Fatalf("Control1Prio(%d) = %%#02x, want %#02x (priority in bits 3..2)", uint8(got))
	}
}`, arg, fPrio.put(arg), arg, fPrio.put(arg))
	case "Control2Hops":
		h := arg
		if h > 7 {
			h = 7
		}
		return fmt.Sprintf(`func TestC11HopsConstructor(t *testing.T) {
	if got := cemi.Control2Hops(%d); got != %#02x {
		t.Fatalf("Control2Hops(%d) = %%#02x, want %#02x (hop count in bits 6..4)", uint8(got))
	}
}`, arg, fHops.put(h), arg, fHops.put(h))
	case "IsGroupAddr":
		return fmt.Sprintf(`func TestC11IsGroupAddr(t *testing.T) {
	if got := cemi.ControlField2(%#02x).IsGroupAddr(); got != %v {
		t.Fatalf("IsGroupAddr() = %%v, bit 7 says %v", got)
	}
}`, arg, fGroup.get(byte(arg)) == 1, fGroup.get(byte(arg)) == 1)
	case "IsGroupCommand":
		return fmt.Sprintf(`func TestC11IsGroupCommand(t *testing.T) {
	if got := cemi.APCI(%d).IsGroupCommand(); got != %v {
		t.Fatalf("APCI(%d).IsGroupCommand() = %%v", got)
	}
}`, arg, isGroupCommandRef(arg), arg)
	case "constant":
		c := flagConsts()[arg]
		return fmt.Sprintf(`func TestC11Constant(t *testing.T) {
	if got := uint8(cemi.%s); got != %#02x {
		t.Fatalf("cemi.%s = %%#02x, specification value %#02x", got)
	}
}`, c.name, flagConstWant(arg, c), c.name, flagConstWant(arg, c))
	}
	return ""
}

// ---------------------------------------------------------------------------------------------
// Replay

func replay(class string, raw json.RawMessage) (string, bool) {
	if class == "C11:unpack-message-reuse" {
		return replayMessageReuse(raw)
	}
	if class == "C11:unpack-trailing-octets" {
		return replayTrailing(raw)
	}
	if class == "C11:unpack-receiver-reuse" {
		return replayReuse(raw)
	}
	var in caseInput
	if err := json.Unmarshal(raw, &in); err != nil {
		return "cannot decode input: " + err.Error(), false
	}
	var out []outcome
	var desc string
	switch in.Op {
	case "frame":
		if in.Fields == nil {
			return "no fields in input", false
		}
		f := *in.Fields
		var err error
		if f.Info, err = hex.DecodeString(in.InfoHex); err != nil {
			return "bad info_hex", false
		}
		if f.Data, err = hex.DecodeString(in.DataHex); err != nil {
			return "bad data_hex", false
		}
		if len(f.Info) > 255 || (!f.Control && (len(f.Data) < 1 || len(f.Data) > 255 || f.APCI < 0 || f.APCI > 15)) || (f.Code != codeReq && f.Code != codeInd && f.Code != codeCon) {
			return "input outside the enumerated domain", false
		}
		out, _ = judgeFrame(&f, nil)
		ref, _ := refLData(&f)
		desc = fmt.Sprintf("frame: %s\nreference layout: % x", describe(&f), ref)
	case "helper":
		out, _, _ = judgeHelper(in.Fn, in.Arg)
		desc = fmt.Sprintf("%s on %d", in.Fn, in.Arg)
	default:
		return "unknown op " + in.Op, false
	}
	bad := false
	for _, o := range out {
		mark := "  (other class) "
		if o.Class == class {
			bad = true
			mark = "  "
		}
		desc += "\n" + mark + o.Class + ": " + o.Msg()
	}
	if !bad && len(out) > 0 && class == "" {
		bad = true
	}
	return desc, bad
}

// ---------------------------------------------------------------------------------------------
// Run

type found struct {
	count int64
	index int64 // smallest case index of the class
	msg   string
	input caseInput
	test  string
}

type ctx struct {
	r   *enumlib.Run
	mu  sync.Mutex
	ood map[string]int64
	cm  int64
}

func merge(dst map[string]*found, src map[string]*found) {
	for cl, f := range src {
		d := dst[cl]
		if d == nil {
			dst[cl] = f
			continue
		}
		d.count += f.count
		if f.index < d.index {
			f.count = d.count
			dst[cl] = f
		}
	}
}

// flush hands the classes of one space to the run in class order, first case = smallest index.
func (c *ctx) flush(all map[string]*found) {
	var classes []string
	for cl := range all {
		classes = append(classes, cl)
	}
	sort.Strings(classes)
	for _, cl := range classes {
		f := all[cl]
		c.r.ViolationWithTest(cl, f.msg, f.input, f.test)
		for i := int64(1); i < f.count; i++ {
			c.r.Violation(cl, "", nil)
		}
	}
}

func pattern(n int, mul, add byte) []byte {
	p := make([]byte, n)
	for i := range p {
		p[i] = byte(i)*mul + add
	}
	return p
}

func dataOf(n int, d0 byte) []byte {
	p := pattern(n, 37, 0xC3)
	p[0] = d0
	return p
}

func infoOf(n int) []byte { return pattern(n, 29, 0x81) }

// frameSpace enumerates gen(0..total-1).
func (c *ctx) frameSpace(name string, total int64, note string, gen func(i int64) *fields) {
	var done, nontriv int64
	var expired int32
	var mu sync.Mutex
	all := map[string]*found{}
	c.r.Parallel(func(shard, n int) {
		var ev, nt int64
		st := &stats{oodControlCode: map[string]int64{}}
		mine := map[string]*found{}
		for i := int64(shard); i < total; i += int64(n) {
			if (i/int64(n))&0xFFF == 0 && c.r.Expired() {
				atomic.StoreInt32(&expired, 1)
				break
			}
			f := gen(i)
			out, ok := judgeFrame(f, st)
			ev++
			if ok {
				nt++
			}
			for _, o := range out {
				fd := mine[o.Class]
				if fd == nil {
					mine[o.Class] = &found{count: 1, index: i, msg: o.Msg(), input: frameInput(f), test: frameGoTest(f, o.Class)}
				} else {
					fd.count++
				}
			}
			if i == total/2 {
				ref, _ := refLData(f)
				c.r.Sample(map[string]interface{}{"space": name, "index": i, "frame": describe(f), "reference_layout": hex.EncodeToString(clip(ref))})
			}
		}
		atomic.AddInt64(&done, ev)
		atomic.AddInt64(&nontriv, nt)
		mu.Lock()
		merge(all, mine)
		mu.Unlock()
		c.mu.Lock()
		c.cm += st.consumedMismatch
		for k, v := range st.oodControlCode {
			c.ood[k] += v
		}
		c.mu.Unlock()
	})
	c.flush(all)
	c.r.Eval(done)
	c.r.Nontrivial(nontriv)
	if expired != 0 {
		note += fmt.Sprintf("; CUT SHORT by the time budget after %d cases", done)
	}
	c.r.Space(name, total, nontriv, expired == 0, note)
}

func (c *ctx) helperSpace(fn string, size int, note string) {
	all := map[string]*found{}
	var nt int64
	for arg := 0; arg < size; arg++ {
		out, inDom, ood := judgeHelper(fn, arg)
		if inDom {
			nt++
		}
		if ood != "" {
			c.ood[ood]++
		}
		for _, o := range out {
			fd := all[o.Class]
			if fd == nil {
				all[o.Class] = &found{count: 1, index: int64(arg), msg: o.Msg(), input: caseInput{Op: "helper", Fn: fn, Arg: arg}, test: helperGoTest(fn, arg)}
			} else {
				fd.count++
			}
		}
	}
	c.flush(all)
	c.r.Eval(int64(size))
	c.r.Nontrivial(nt)
	c.r.Space("helper-"+fn, int64(size), nt, true, note)
}

// shape is a transport unit shape used where the transport unit is not the varied part.
type shape struct {
	control, numbered bool
	seq, apci, dlen   int
	d0                byte
}

var shapes = []shape{
	{false, false, 0, 2, 1, 0x01},  // GroupValueWrite, one short datum
	{true, true, 5, 2, 0, 0},       // numbered control unit
	{false, true, 15, 15, 2, 0x3F}, // numbered, all APCI bits set
	{true, false, 0, 1, 0, 0},      // unnumbered control unit
	{false, true, 9, 10, 16, 0x2A}, // 16 data octets
	{false, false, 0, 0, 1, 0x00},  // GroupValueRead
	{false, false, 0, 5, 254, 0x15},
	{true, true, 0, 3, 0, 0},
}

func (s shape) apply(f *fields) {
	f.Control, f.Numbered, f.Seq, f.APCI = s.control, s.numbered, s.seq, s.apci
	if !s.control {
		f.Data = dataOf(s.dlen, s.d0)
	}
}

func setCtrl1(f *fields, i int) {
	f.Std, f.Rsv6, f.NoRepeat, f.Broadcast = i&1 != 0, i&2 != 0, i&4 != 0, i&8 != 0
	f.Prio = i >> 4 & 3
	f.Ack, f.Err = i&64 != 0, i&128 != 0
}

func setCtrl2(f *fields, i int) {
	f.Group = i&1 != 0
	f.Hops = i >> 1 & 7
	f.EFF = i >> 4 & 15
}

// typical control fields used where they are not the varied part.
func typical(f *fields) {
	f.Std, f.NoRepeat, f.Broadcast, f.Prio = true, true, true, 3
	f.Group, f.Hops = true, 6
	f.Src, f.Dst = 0x1234, 0x5678
}

var addrCorners = []int{0x0000, 0x0001, 0x00FF, 0x0100, 0x0101, 0x0FFF, 0x1000, 0x1234, 0x7FFF, 0x8000, 0x8001, 0xABCD, 0xFEFF, 0xFF00, 0xFFFE, 0xFFFF}

func run(r *enumlib.Run) {
	c := &ctx{r: r, ood: map[string]int64{}}
	thorough := r.Thorough()

	// helper functions over their complete domains
	c.helperSpace("constant", len(flagConsts()), "the flag constants Control1StdFrame, Control1NoRepeat, Control1NoSysBroadcast, Control1WantAck, Control1HasError, Control2GroupAddr, Control2LTEFrame, the three group APCI constants and the three L_Data message codes against the specification values")
	c.helperSpace("Control1Prio", 256, "Control1Prio(p) for p = 0..255: nothing outside b3..2; p in b3..2 for p = 0..3")
	c.helperSpace("Control2Hops", 256, "Control2Hops(h) for h = 0..255: nothing outside b6..4; h in b6..4 for h = 0..7; 7 for h > 7")
	c.helperSpace("Hops", 256, "ControlField2(o).Hops() for all 256 octets = b6..4")
	c.helperSpace("Hops(Control2Hops)", 256, "Control2Hops(h).Hops() == min(h,7) for h = 0..255")
	c.helperSpace("IsGroupAddr", 256, "ControlField2(o).IsGroupAddr() for all 256 octets = b7")
	c.helperSpace("IsGroupCommand", 256, "APCI(v).IsGroupCommand() for v = 0..255; judged for the 16 four-bit codes (true exactly for 0, 1, 2)")

	c.reuseSpace()
	c.trailingSpace()

	// all control octet pairs
	nsh, infoLens := 2, []int{0}
	if thorough {
		nsh, infoLens = len(shapes), []int{0, 4}
	}
	nil_ := int64(len(infoLens))
	c.frameSpace("control-pairs", 65536*3*int64(nsh)*nil_,
		fmt.Sprintf("all 2^8 field combinations of control field 1 x all 2^8 of control field 2 x 3 message codes x %d transport unit shapes x info lengths %v", nsh, infoLens),
		func(i int64) *fields {
			f := &fields{Src: 0x1234, Dst: 0x5678}
			setCtrl1(f, int(i&255))
			setCtrl2(f, int(i>>8&255))
			i >>= 16
			f.Code = codes[i%3]
			i /= 3
			shapes[i%int64(nsh)].apply(f)
			i /= int64(nsh)
			f.Info = infoOf(infoLens[i])
			return f
		})

	// transport units
	lens := []int{1, 2, 3, 15, 16, 254}
	if thorough {
		lens = nil
		for l := 1; l <= 254; l++ {
			lens = append(lens, l)
		}
	}
	nl := int64(len(lens))
	c.frameSpace("tpdu-data", 16*16*2*64*nl*3,
		fmt.Sprintf("data units: 16 APCI x 16 sequence numbers x numbered/unnumbered x all 64 short-data values x %d data lengths %s x 3 message codes", nl, lensNote(lens)),
		func(i int64) *fields {
			f := &fields{}
			typical(f)
			f.APCI = int(i & 15)
			f.Seq = int(i >> 4 & 15)
			f.Numbered = i>>8&1 != 0
			d0 := byte(i >> 9 & 63)
			i >>= 15
			f.Data = dataOf(lens[i%nl], d0)
			f.Code = codes[i/nl]
			return f
		})
	c.frameSpace("tpdu-control", 16*16*2*3,
		"control units: command 0..15 (0..3 are control codes; 4..15 do not fit the two-bit field: only the other bits are judged) x 16 sequence numbers x numbered/unnumbered x 3 message codes",
		func(i int64) *fields {
			f := &fields{Control: true}
			typical(f)
			f.APCI = int(i & 15)
			f.Seq = int(i >> 4 & 15)
			f.Numbered = i>>8&1 != 0
			f.Code = codes[i>>9]
			return f
		})
	c.frameSpace("short-data-overflow", 192*16*2,
		"data units whose first data octet is 64..255 (does not fit the six-bit field) x 16 APCI x data length {1, 3}: the APCI bits of the shared octet and all other octets are judged, the six data bits are not; no decode direction",
		func(i int64) *fields {
			f := &fields{Code: codeReq}
			typical(f)
			f.APCI = int(i & 15)
			i >>= 4
			f.Data = dataOf([]int{1, 3}[i/192], byte(64+i%192))
			return f
		})
	c.frameSpace("data-lengths", 254*16*2*2,
		"all data lengths 1..254 x 16 APCI x numbered/unnumbered x short data {0x00, 0x3F}",
		func(i int64) *fields {
			f := &fields{Code: codeInd}
			typical(f)
			f.APCI = int(i & 15)
			f.Numbered = i>>4&1 != 0
			d0 := byte(i>>5&1) * 0x3F
			f.Seq = 11
			f.Data = dataOf(int(i>>6)+1, d0)
			return f
		})
	c.frameSpace("info-lengths", 256*3*int64(len(shapes)),
		fmt.Sprintf("all additional-info lengths 0..255 x 3 message codes x %d transport unit shapes", len(shapes)),
		func(i int64) *fields {
			f := &fields{}
			typical(f)
			f.Info = infoOf(int(i & 255))
			i >>= 8
			f.Code = codes[i%3]
			shapes[i/3].apply(f)
			return f
		})

	// addresses
	nc := int64(len(addrCorners))
	addrGen := func(src, dst int, i int64) *fields {
		f := &fields{Std: true, Prio: 1, Hops: 5, Src: src, Dst: dst}
		f.Group = i&1 != 0
		i >>= 1
		f.Code = codes[i%3]
		shapes[i/3].apply(f)
		return f
	}
	c.frameSpace("addresses-corners", nc*nc*2*3*2,
		fmt.Sprintf("source x destination over the corner alphabet %04X squared x destination-is-group flag x 3 message codes x 2 transport unit shapes", addrCorners),
		func(i int64) *fields {
			k := i / (nc * nc)
			return addrGen(addrCorners[i%nc], addrCorners[i/nc%nc], k)
		})
	if thorough {
		c.frameSpace("addresses-all-source", 65536*nc*2*3*2, "all 2^16 source addresses x destination over the corner alphabet x group flag x 3 message codes x 2 shapes",
			func(i int64) *fields { return addrGen(int(i&0xFFFF), addrCorners[i>>16%nc], i>>16/nc) })
		c.frameSpace("addresses-all-destination", 65536*nc*2*3*2, "source over the corner alphabet x all 2^16 destination addresses x group flag x 3 message codes x 2 shapes",
			func(i int64) *fields { return addrGen(addrCorners[i>>16%nc], int(i&0xFFFF), i>>16/nc) })
	}

	if len(c.ood) == 0 {
		c.ood["(none)"] = 0
	}
	r.Extra("out_of_domain", c.ood)
	r.Extra("out_of_domain_note", "what the library does with a value that does not fit its field (reported, not judged): key = behaviour, value = number of enumerated cases")
	r.Extra("unpack_consumed_not_whole_layout", c.cm)
}

func lensNote(l []int) string {
	if len(l) > 8 {
		return fmt.Sprintf("%d..%d", l[0], l[len(l)-1])
	}
	return fmt.Sprint(l)
}
