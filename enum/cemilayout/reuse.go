//go:build verif

package cemilayout

import (
	"encoding/hex"
	"encoding/json"
	"fmt"
	"reflect"

	"github.com/vapourismo/knx-go/knx/cemi"
)

// Receiver reuse: "decoding extracts exactly those fields from any such layout" must not depend
// on what the receiving value held before. Every ordered pair (A, B) of a set of layouts that
// differ in every variable part (info length 0/1/4, control unit / data unit of 1, 5, 20 octets,
// numbered or not) is decoded into ONE value, A first, then B; the result must equal B decoded
// into a fresh value.
func (c *ctx) reuseSpace() {
	var shapes []*fields
	for _, info := range []int{0, 1, 4} {
		for _, unit := range []int{-1, 1, 5, 20} {
			for _, numbered := range []bool{false, true} {
				f := &fields{Code: codeInd, Info: infoOf(info), Std: unit <= 15, Prio: 3, Group: true, Hops: 6, Src: 0x1101 + info, Dst: 0x0A03 + unit + 2,
					Numbered: numbered, Seq: 5}
				if unit < 0 {
					f.Control, f.APCI = true, 1
				} else {
					f.APCI = 2
					f.Data = dataOf(unit, 0x15)
				}
				if !numbered {
					f.Seq = 0
				}
				shapes = append(shapes, f)
			}
		}
	}
	var total, nontrivial int64
	for _, a := range shapes {
		la, _ := refLData(a)
		for _, b := range shapes {
			lb, _ := refLData(b)
			total++
			var fresh, reused cemi.LData
			if _, err := fresh.Unpack(lb[1:]); err != nil {
				continue
			}
			if _, err := reused.Unpack(la[1:]); err != nil {
				continue
			}
			if _, err := reused.Unpack(lb[1:]); err != nil {
				c.r.Violation("C11:unpack-receiver-reuse", fmt.Sprintf("layout %s decodes into a fresh LData but is rejected by an LData that held %s before: %v", hex.EncodeToString(lb), hex.EncodeToString(la), err), map[string]string{"first": hex.EncodeToString(la), "second": hex.EncodeToString(lb)})
				continue
			}
			nontrivial++
			if len(fresh.Info) == 0 && len(reused.Info) == 0 {
				fresh.Info, reused.Info = nil, nil
			}
			if !reflect.DeepEqual(fresh, reused) {
				c.r.ViolationWithTest("C11:unpack-receiver-reuse",
					fmt.Sprintf("decoding layout B = %s into an LData that was decoded from A = %s before yields info=% x control1=%#02x control2=%#02x src=%#x dst=%#x unit=%+v; decoding B into a fresh LData yields info=% x control1=%#02x control2=%#02x src=%#x dst=%#x unit=%+v",
						hex.EncodeToString(lb), hex.EncodeToString(la), []byte(reused.Info), uint8(reused.Control1), uint8(reused.Control2), uint16(reused.Source), reused.Destination, reused.Data,
						[]byte(fresh.Info), uint8(fresh.Control1), uint8(fresh.Control2), uint16(fresh.Source), fresh.Destination, fresh.Data),
					map[string]string{"first": hex.EncodeToString(la), "second": hex.EncodeToString(lb)},
					fmt.Sprintf("func TestC11ReceiverReuse(t *testing.T) {\n\ta, _ := hex.DecodeString(%q)\n\tb, _ := hex.DecodeString(%q)\n\tvar fresh, reused cemi.LData\n\tfresh.Unpack(b[1:])\n\treused.Unpack(a[1:])\n\treused.Unpack(b[1:])\n\tif len(fresh.Info) != len(reused.Info) || !reflect.DeepEqual(fresh.Data, reused.Data) {\n\t\tt.Fatalf(\"reused receiver: %%+v, fresh receiver: %%+v\", reused, fresh)\n\t}\n}", hex.EncodeToString(la), hex.EncodeToString(lb)))
			}
		}
	}
	c.r.Eval(total)
	c.r.Nontrivial(nontrivial)
	c.r.Space("receiver-reuse", total, nontrivial, true, "every ordered pair of 24 L_Data layouts (info length 0/1/4 x control unit, data unit of 1/5/20 octets x numbered) decoded into one LData value one after the other; the second result must equal a fresh decode")
}

func replayReuse(raw []byte) (string, bool) {
	var in struct{ First, Second string }
	if err := json.Unmarshal(raw, &in); err != nil {
		return "cannot decode input: " + err.Error(), false
	}
	la, _ := hex.DecodeString(in.First)
	lb, _ := hex.DecodeString(in.Second)
	var fresh, reused cemi.LData
	fresh.Unpack(lb[1:])
	reused.Unpack(la[1:])
	_, err := reused.Unpack(lb[1:])
	if len(fresh.Info) == 0 && len(reused.Info) == 0 {
		fresh.Info, reused.Info = nil, nil
	}
	desc := fmt.Sprintf("A=%s then B=%s into one LData: err=%v info=% x unit=%+v; B into a fresh LData: info=% x unit=%+v", in.First, in.Second, err, []byte(reused.Info), reused.Data, []byte(fresh.Info), fresh.Data)
	return desc, err != nil || !reflect.DeepEqual(fresh, reused)
}
