//go:build verif

package cemilayout

import (
	"encoding/hex"
	"encoding/json"
	"fmt"
	"reflect"

	"github.com/vapourismo/knx-go/knx/cemi"
	"verifh/enum/enumlib"
)

// Receiver reuse: "decoding extracts exactly those fields from any such layout" must not depend
// on what the receiving value held before. Every ordered pair (A, B) of a set of layouts that
// differ in every variable part (info length 0/1/4, control unit / data unit of 1, 5, 20 octets,
// numbered or not) is decoded into ONE value, A first, then B; the result must equal B decoded
// into a fresh value.
func (c *ctx) reuseSpace() {
	var shapes []*fields
	for _, info := range []int{0, 1, 4} {
		for _, unit := range []int{-1, 1, 5, 20} {
			for _, numbered := range []bool{false, true} {
				f := &fields{Code: codeInd, Info: infoOf(info), Std: unit <= 15, Prio: 3, Group: true, Hops: 6, Src: 0x1101 + info, Dst: 0x0A03 + unit + 2,
					Numbered: numbered, Seq: 5}
				if unit < 0 {
					f.Control, f.APCI = true, 1
				} else {
					f.APCI = 2
					f.Data = dataOf(unit, 0x15)
				}
				if !numbered {
					f.Seq = 0
				}
				shapes = append(shapes, f)
			}
		}
	}
	var total, nontrivial int64
	for _, a := range shapes {
		la, _ := refLData(a)
		for _, b := range shapes {
			lb, _ := refLData(b)
			total++
			var fresh, reused cemi.LData
			if _, err := fresh.Unpack(lb[1:]); err != nil {
				continue
			}
			if _, err := reused.Unpack(la[1:]); err != nil {
				continue
			}
			if _, err := reused.Unpack(lb[1:]); err != nil {
				c.r.Violation("C11:unpack-receiver-reuse", fmt.Sprintf("layout %s decodes into a fresh LData but is rejected by an LData that held %s before: %v", hex.EncodeToString(lb), hex.EncodeToString(la), err), map[string]string{"first": hex.EncodeToString(la), "second": hex.EncodeToString(lb)})
				continue
			}
			nontrivial++
			if len(fresh.Info) == 0 && len(reused.Info) == 0 {
				fresh.Info, reused.Info = nil, nil
			}
			if !reflect.DeepEqual(fresh, reused) {
				c.r.ViolationWithTest("C11:unpack-receiver-reuse",
					fmt.Sprintf("decoding layout B = %s into an LData that was decoded from A = %s before yields info=% x control1=%#02x control2=%#02x src=%#x dst=%#x unit=%+v; decoding B into a fresh LData yields info=% x control1=%#02x control2=%#02x src=%#x dst=%#x unit=%+v",
						hex.EncodeToString(lb), hex.EncodeToString(la), []byte(reused.Info), uint8(reused.Control1), uint8(reused.Control2), uint16(reused.Source), reused.Destination, reused.Data,
						[]byte(fresh.Info), uint8(fresh.Control1), uint8(fresh.Control2), uint16(fresh.Source), fresh.Destination, fresh.Data),
					map[string]string{"first": hex.EncodeToString(la), "second": hex.EncodeToString(lb)},
					fmt.Sprintf("func TestC11ReceiverReuse(t *testing.T) {\n\ta, _ := hex.DecodeString(%q)\n\tb, _ := hex.DecodeString(%q)\n\tvar fresh, reused cemi.LData\n\tfresh.Unpack(b[1:])\n\treused.Unpack(a[1:])\n\treused.Unpack(b[1:])\n\tif len(fresh.Info) != len(reused.Info) || !reflect.DeepEqual(fresh.Data, reused.Data) {\n\t\tt.Fatalf(\"reused receiver: %%+v, fresh receiver: %%+v\", reused, fresh)\n\t}\n}", hex.EncodeToString(la), hex.EncodeToString(lb)))
			}
		}
	}
	c.r.Eval(total)
	c.r.Nontrivial(nontrivial)
	c.messageReuse(shapes)
	c.r.Space("receiver-reuse", total, nontrivial, true, "every ordered pair of 24 L_Data layouts (info length 0/1/4 x control unit, data unit of 1/5/20 octets x numbered) decoded into one LData value one after the other; the second result must equal a fresh decode")
}

func replayReuse(raw []byte) (string, bool) {
	var in struct{ First, Second string }
	if err := json.Unmarshal(raw, &in); err != nil {
		return "cannot decode input: " + err.Error(), false
	}
	la, _ := hex.DecodeString(in.First)
	lb, _ := hex.DecodeString(in.Second)
	var fresh, reused cemi.LData
	fresh.Unpack(lb[1:])
	reused.Unpack(la[1:])
	_, err := reused.Unpack(lb[1:])
	if len(fresh.Info) == 0 && len(reused.Info) == 0 {
		fresh.Info, reused.Info = nil, nil
	}
	desc := fmt.Sprintf("A=%s then B=%s into one LData: err=%v info=% x unit=%+v; B into a fresh LData: info=% x unit=%+v", in.First, in.Second, err, []byte(reused.Info), reused.Data, []byte(fresh.Info), fresh.Data)
	return desc, err != nil || !reflect.DeepEqual(fresh, reused)
}

// Trailing octets: a receive buffer may hold more than the frame (a KNXnet/IP service passes the
// rest of its body). "Decoding extracts exactly those fields from any such layout": the length
// octet, not the buffer, delimits the application data, so a layout followed by 1, 2, 3 or 17
// spare octets must decode into the same fields as the layout alone.
func (c *ctx) trailingSpace() {
	var total, nontrivial int64
	for _, info := range []int{0, 1, 4} {
		for _, unit := range []int{-1, 1, 2, 5, 15, 16, 20, 254} {
			for _, numbered := range []bool{false, true} {
				for _, extra := range []int{1, 2, 3, 17} {
					for _, fill := range []byte{0x00, 0xFF, 0xA5} {
						f := &fields{Code: codeInd, Info: infoOf(info), Std: unit <= 15, Prio: 3, Group: true, Hops: 6, Src: 0x1101 + info, Dst: 0x0A03 + unit + 2, Numbered: numbered}
						if numbered {
							f.Seq = 9
						}
						if unit < 0 {
							f.Control, f.APCI = true, 2
						} else {
							f.APCI = 2
							f.Data = dataOf(unit, 0x2A)
						}
						exact, _ := refLData(f)
						long := append(append([]byte(nil), exact...), pattern(extra, 0, fill)...)
						total++
						var a, b cemi.Message
						if _, err := cemi.Unpack(exact, &a); err != nil {
							continue
						}
						in := map[string]string{"first": hex.EncodeToString(exact), "second": hex.EncodeToString(long)}
						test := fmt.Sprintf("func TestC11TrailingOctets(t *testing.T) {\n\texact, _ := hex.DecodeString(%q)\n\tlong, _ := hex.DecodeString(%q)\n\tvar a, b cemi.Message\n\tcemi.Unpack(exact, &a)\n\tif _, err := cemi.Unpack(long, &b); err != nil || !reflect.DeepEqual(a, b) {\n\t\tt.Fatalf(\"with spare octets: %%+v (%%v), without: %%+v\", b, err, a)\n\t}\n}", in["first"], in["second"])
						var err error
						if p, pv := enumlib.Try(func() { _, err = cemi.Unpack(long, &b) }); p {
							c.r.ViolationWithTest("C11:panic:Unpack", fmt.Sprintf("cemi.Unpack of layout %s followed by %d spare octets panicked: %s", in["first"], extra, pv), in, test)
							continue
						}
						if err != nil {
							c.r.ViolationWithTest("C11:unpack-trailing-octets", fmt.Sprintf("layout %s decodes, the same layout followed by %d spare octets is rejected: %v", in["first"], extra, err), in, test)
							continue
						}
						nontrivial++
						if !reflect.DeepEqual(normInfo(a), normInfo(b)) {
							c.r.ViolationWithTest("C11:unpack-trailing-octets", fmt.Sprintf("layout %s followed by %d spare octets (0x%02X) decodes to %s; the layout alone decodes to %s - the length octet delimits the application data", in["first"], extra, fill, showMsg(b), showMsg(a)), in, test)
						}
					}
				}
			}
		}
	}
	c.r.Eval(total)
	c.r.Nontrivial(nontrivial)
	c.r.Space("trailing-octets", total, nontrivial, true, "L_Data layouts (info length 0/1/4 x control unit, data unit of 1/2/5/15/16/20/254 octets x numbered) followed by 1, 2, 3 or 17 spare octets of 0x00/0xFF/0xA5: decoded fields must equal those of the layout alone")
}

func normInfo(m cemi.Message) cemi.Message {
	switch x := m.(type) {
	case *cemi.LDataInd:
		if len(x.Info) == 0 {
			y := *x
			y.Info = nil
			return &y
		}
	}
	return m
}

func showMsg(m cemi.Message) string {
	if x, ok := m.(*cemi.LDataInd); ok {
		return fmt.Sprintf("info=% x control1=%#02x control2=%#02x src=%#x dst=%#x unit=%+v", []byte(x.Info), uint8(x.Control1), uint8(x.Control2), uint16(x.Source), x.Destination, x.Data)
	}
	return fmt.Sprintf("%+v", m)
}

func replayTrailing(raw []byte) (string, bool) {
	var in struct{ First, Second string }
	if err := json.Unmarshal(raw, &in); err != nil {
		return "cannot decode input: " + err.Error(), false
	}
	exact, _ := hex.DecodeString(in.First)
	long, _ := hex.DecodeString(in.Second)
	var a, b cemi.Message
	cemi.Unpack(exact, &a)
	_, err := cemi.Unpack(long, &b)
	desc := fmt.Sprintf("layout alone: %s; with spare octets: err=%v %s", showMsg(a), err, showMsg(b))
	return desc, err != nil || !reflect.DeepEqual(normInfo(a), normInfo(b))
}

// messageReuse: the same ordered pairs through cemi.Unpack with ONE message variable, as a receive
// loop would use it: the value obtained from the first layout must not change when the second
// layout is decoded into the variable (a decoder that re-uses the message it finds there), the
// second result must equal a fresh decode, and a second layout that is rejected (cut short by one
// octet) must leave both the variable and the first value as they were.
func (c *ctx) messageReuse(shapes []*fields) {
	var total, nontrivial int64
	render := func(m cemi.Message) string {
		if m == nil {
			return "<nil>"
		}
		b := make([]byte, cemi.Size(m))
		cemi.Pack(b, m)
		return hex.EncodeToString(b)
	}
	for _, a := range shapes {
		la, _ := refLData(a)
		for _, b := range shapes {
			lb, _ := refLData(b)
			for _, cut := range []bool{false, true} {
				total++
				second := lb
				if cut {
					second = lb[:len(lb)-1]
				}
				var m, fresh cemi.Message
				if _, err := cemi.Unpack(la, &m); err != nil {
					continue
				}
				first := m
				before := render(first)
				_, errFresh := cemi.Unpack(second, &fresh)
				_, err := cemi.Unpack(second, &m)
				in := map[string]string{"first": hex.EncodeToString(la), "second": hex.EncodeToString(second)}
				test := fmt.Sprintf("func TestC11MessageVariableReuse(t *testing.T) {\n\ta, _ := hex.DecodeString(%q)\n\tb, _ := hex.DecodeString(%q)\n\tvar m cemi.Message\n\tcemi.Unpack(a, &m)\n\tfirst := m\n\twant := fmt.Sprintf(\"%%+v\", first.(*cemi.LDataInd).LData.Data)\n\tcemi.Unpack(b, &m)\n\tif got := fmt.Sprintf(\"%%+v\", first.(*cemi.LDataInd).LData.Data); got != want {\n\t\tt.Fatalf(\"the value decoded first changed from %%s to %%s\", want, got)\n\t}\n}", in["first"], in["second"])
				nontrivial++
				if after := render(first); after != before {
					c.r.ViolationWithTest("C11:unpack-message-reuse", fmt.Sprintf("the message decoded from A = %s reads %s after B = %s was decoded into the same message variable (cemi.Unpack re-uses the value it finds there); it read %s before", in["first"], after, in["second"], before), in, test)
					continue
				}
				if (err == nil) != (errFresh == nil) {
					c.r.ViolationWithTest("C11:unpack-message-reuse", fmt.Sprintf("B = %s decoded into a variable that holds the message of A = %s: err=%v; into an empty variable: err=%v", in["second"], in["first"], err, errFresh), in, test)
					continue
				}
				if err == nil && render(m) != render(fresh) {
					c.r.ViolationWithTest("C11:unpack-message-reuse", fmt.Sprintf("B = %s decoded into a variable that holds the message of A = %s yields %s, into an empty variable %s", in["second"], in["first"], render(m), render(fresh)), in, test)
					continue
				}
				if err != nil && (m != first || render(m) != before) {
					c.r.ViolationWithTest("C11:unpack-message-reuse", fmt.Sprintf("B = %s is rejected (%v) but the variable that held the message of A = %s now reads %s (before: %s)", in["second"], err, in["first"], render(m), before), in, test)
				}
			}
		}
	}
	c.r.Eval(total)
	c.r.Nontrivial(nontrivial)
	c.r.Space("message-variable-reuse", total, nontrivial, true, "every ordered pair of the 24 layouts (second one whole and cut short by one octet) through cemi.Unpack with one message variable: the first value is unchanged, the second equals a fresh decode, a rejected layout changes nothing")
}

func replayMessageReuse(raw []byte) (string, bool) {
	var in struct{ First, Second string }
	if err := json.Unmarshal(raw, &in); err != nil {
		return "cannot decode input: " + err.Error(), false
	}
	la, _ := hex.DecodeString(in.First)
	lb, _ := hex.DecodeString(in.Second)
	render := func(m cemi.Message) string {
		if m == nil {
			return "<nil>"
		}
		b := make([]byte, cemi.Size(m))
		cemi.Pack(b, m)
		return hex.EncodeToString(b)
	}
	var m, fresh cemi.Message
	cemi.Unpack(la, &m)
	first := m
	before := render(first)
	_, errFresh := cemi.Unpack(lb, &fresh)
	_, err := cemi.Unpack(lb, &m)
	desc := fmt.Sprintf("A=%s then B=%s through one message variable: first value before %s, after %s; second err=%v value %s; fresh decode err=%v value %s", in.First, in.Second, before, render(first), err, render(m), errFresh, render(fresh))
	bad := render(first) != before || (err == nil) != (errFresh == nil) || err == nil && render(m) != render(fresh) || err != nil && (m != first || render(m) != before)
	return desc, bad
}
