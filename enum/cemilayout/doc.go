//go:build verif

// Package cemilayout: see DESIGN.md (E5).
package cemilayout
