//go:build verif

package refenc

import (
	"fmt"
	"time"

	"github.com/vapourismo/knx-go/knx/cemi"
	"github.com/vapourismo/knx-go/knx/knxnet"
)

// ErrNotLatin1 is returned by Encode for a friendly name that ISO 8859-1 cannot express (the
// layouts do not say what such a name looks like on the wire).
var ErrNotLatin1 = fmt.Errorf("refenc: friendly name is not ISO 8859-1")

// EncodeHostInfo is the reference encoding of a knxnet.HostInfo.
func EncodeHostInfo(h knxnet.HostInfo) []byte {
	return HPAI(byte(h.Protocol), [4]byte(h.Address), uint16(h.Port))
}

// EncodeDeviceDIB is the reference encoding of a knxnet.DeviceInformationBlock. The hardware
// address must have 6 octets.
func EncodeDeviceDIB(d knxnet.DeviceInformationBlock) ([]byte, error) {
	if len(d.HardwareAddr) != 6 {
		return nil, fmt.Errorf("refenc: hardware address has %d octets", len(d.HardwareAddr))
	}
	name, ok := Latin1(d.FriendlyName)
	if !ok {
		return nil, ErrNotLatin1
	}
	var mac [6]byte
	copy(mac[:], d.HardwareAddr)
	return DeviceDIBTyped(byte(d.Type), byte(d.Medium), byte(d.Status), uint16(d.Source), uint16(d.ProjectIdentifier),
		[6]byte(d.SerialNumber), [4]byte(d.RoutingMulticastAddress), mac, name), nil
}

// EncodeFamiliesDIB is the reference encoding of a knxnet.SupportedServicesDIB.
func EncodeFamiliesDIB(s knxnet.SupportedServicesDIB) []byte {
	fams := make([][2]byte, len(s.Families))
	for i, f := range s.Families {
		fams[i] = [2]byte{byte(f.Type), f.Version}
	}
	return FamiliesDIBTyped(byte(s.Type), fams...)
}

// EncodeTPDU is the reference encoding of a transport unit (*cemi.AppData or *cemi.ControlData,
// or their value forms).
func EncodeTPDU(u cemi.TransportUnit) ([]byte, error) {
	switch u := u.(type) {
	case *cemi.AppData:
		if u == nil {
			return nil, fmt.Errorf("refenc: nil *AppData")
		}
		return TPDUData(u.Numbered, u.SeqNumber, byte(u.Command), u.Data), nil
	case *cemi.ControlData:
		if u == nil {
			return nil, fmt.Errorf("refenc: nil *ControlData")
		}
		return TPDUControl(u.Numbered, u.SeqNumber, u.Command), nil
	}
	return nil, fmt.Errorf("refenc: transport unit %T", u)
}

// EncodeLDataBody is the reference encoding of a cemi.LData without message code.
func EncodeLDataBody(l *cemi.LData) ([]byte, error) {
	t, err := EncodeTPDU(l.Data)
	if err != nil {
		return nil, err
	}
	return LDataBody(l.Info, byte(l.Control1), byte(l.Control2), uint16(l.Source), l.Destination, t), nil
}

// MessageCodeOf is the reference message code of a library message value, decided by its Go type
// (not by asking the value).
func MessageCodeOf(m cemi.Message) (byte, error) {
	switch m := m.(type) {
	case *cemi.LDataReq:
		return LDataReq, nil
	case *cemi.LDataCon:
		return LDataCon, nil
	case *cemi.LDataInd:
		return LDataInd, nil
	case *cemi.LRawReq, cemi.LRawReq:
		return LRawReq, nil
	case *cemi.LRawCon, cemi.LRawCon:
		return LRawCon, nil
	case *cemi.LRawInd, cemi.LRawInd:
		return LRawInd, nil
	case *cemi.LBusmonInd, cemi.LBusmonInd:
		return LBusmonInd, nil
	case *cemi.UnsupportedMessage:
		return byte(m.Code), nil
	}
	return 0, fmt.Errorf("refenc: message type %T", m)
}

// EncodeCEMI is the reference encoding of a cEMI message including its code octet.
func EncodeCEMI(m cemi.Message) ([]byte, error) {
	code, err := MessageCodeOf(m)
	if err != nil {
		return nil, err
	}
	var body []byte
	switch m := m.(type) {
	case *cemi.LDataReq:
		body, err = EncodeLDataBody(&m.LData)
	case *cemi.LDataCon:
		body, err = EncodeLDataBody(&m.LData)
	case *cemi.LDataInd:
		body, err = EncodeLDataBody(&m.LData)
	case *cemi.LRawReq:
		body = m.LRaw
	case cemi.LRawReq:
		body = m.LRaw
	case *cemi.LRawCon:
		body = m.LRaw
	case cemi.LRawCon:
		body = m.LRaw
	case *cemi.LRawInd:
		body = m.LRaw
	case cemi.LRawInd:
		body = m.LRaw
	case *cemi.LBusmonInd:
		body = *m
	case cemi.LBusmonInd:
		body = m
	case *cemi.UnsupportedMessage:
		body = m.Data
	default:
		return nil, fmt.Errorf("refenc: message type %T", m)
	}
	if err != nil {
		return nil, err
	}
	return CEMIRaw(code, body), nil
}

// ServiceIDOf is the reference service identifier of a library service value, decided by its Go type.
func ServiceIDOf(v knxnet.Service) (uint16, error) {
	switch v.(type) {
	case *knxnet.SearchReq:
		return SearchReqID, nil
	case *knxnet.SearchRes:
		return SearchResID, nil
	case *knxnet.DescriptionReq:
		return DescrReqID, nil
	case *knxnet.DescriptionRes:
		return DescrResID, nil
	case *knxnet.ConnReq:
		return ConnReqID, nil
	case *knxnet.ConnRes:
		return ConnResID, nil
	case *knxnet.ConnStateReq:
		return ConnStateReqID, nil
	case *knxnet.ConnStateRes:
		return ConnStateResID, nil
	case *knxnet.DiscReq:
		return DiscReqID, nil
	case *knxnet.DiscRes:
		return DiscResID, nil
	case *knxnet.TunnelReq:
		return TunnelReqID, nil
	case *knxnet.TunnelRes:
		return TunnelAckID, nil
	case *knxnet.RoutingInd:
		return RoutingIndID, nil
	case *knxnet.RoutingLost:
		return RoutingLostID, nil
	case *knxnet.RoutingBusy:
		return RoutingBusyID, nil
	}
	return 0, fmt.Errorf("refenc: service type %T", v)
}

// Encode is the reference encoding of a library service value (pointer forms, as the decoder
// produces them). Variable parts longer than their protocol field are cut to the field limit
// (additional info 255, application data 255, friendly name 29 + NUL). The DIBs of a search /
// description response are written device-info first, then service families; further blocks of a
// DescriptionRes follow in the order given (length octet, type octet, data); further blocks of a
// SearchRes have no encoder in the library and make Encode fail.
func Encode(v knxnet.Service) ([]byte, error) {
	id, err := ServiceIDOf(v)
	if err != nil {
		return nil, err
	}
	switch v := v.(type) {
	case *knxnet.SearchReq:
		return Frame(id, EncodeHostInfo(v.HostInfo)), nil
	case *knxnet.DescriptionReq:
		return Frame(id, EncodeHostInfo(v.HostInfo)), nil
	case *knxnet.SearchRes:
		d, err := EncodeDeviceDIB(v.DescriptionB.DeviceHardware)
		if err != nil {
			return nil, err
		}
		if len(v.DescriptionB.UnknownBlocks) != 0 {
			return nil, fmt.Errorf("refenc: search response with further DIBs")
		}
		return Frame(id, cat(EncodeHostInfo(v.Control), d, EncodeFamiliesDIB(v.DescriptionB.SupportedServices))), nil
	case *knxnet.DescriptionRes:
		d, err := EncodeDeviceDIB(v.DeviceHardware)
		if err != nil {
			return nil, err
		}
		parts := [][]byte{d, EncodeFamiliesDIB(v.SupportedServices)}
		for _, u := range v.UnknownBlocks {
			if len(u.Data) > 253 {
				return nil, fmt.Errorf("refenc: further DIB of %d data octets does not fit its length octet", len(u.Data))
			}
			parts = append(parts, cat([]byte{byte(2 + len(u.Data)), byte(u.Type)}, u.Data))
		}
		return Frame(id, cat(parts...)), nil
	case *knxnet.ConnReq:
		return ConnReq(EncodeHostInfo(v.Control), EncodeHostInfo(v.Tunnel), byte(v.Layer)), nil
	case *knxnet.ConnRes:
		return ConnRes(v.Channel, byte(v.Status), EncodeHostInfo(v.Control), 0), nil
	case *knxnet.ConnStateReq:
		return ConnStateReq(v.Channel, byte(v.Status), EncodeHostInfo(v.Control)), nil
	case *knxnet.ConnStateRes:
		return ConnStateRes(v.Channel, byte(v.Status)), nil
	case *knxnet.DiscReq:
		return DiscReq(v.Channel, v.Status, EncodeHostInfo(v.Control)), nil
	case *knxnet.DiscRes:
		return DiscRes(v.Channel, v.Status), nil
	case *knxnet.TunnelReq:
		if v.Payload == nil {
			return nil, fmt.Errorf("refenc: nil payload")
		}
		c, err := EncodeCEMI(v.Payload)
		if err != nil {
			return nil, err
		}
		return TunnelReq(v.Channel, v.SeqNumber, c), nil
	case *knxnet.TunnelRes:
		return TunnelAck(v.Channel, v.SeqNumber, byte(v.Status)), nil
	case *knxnet.RoutingInd:
		if v.Payload == nil {
			return nil, fmt.Errorf("refenc: nil payload")
		}
		c, err := EncodeCEMI(v.Payload)
		if err != nil {
			return nil, err
		}
		return RoutingInd(c), nil
	case *knxnet.RoutingLost:
		return RoutingLost(byte(v.Status), v.Count), nil
	case *knxnet.RoutingBusy:
		return RoutingBusy(byte(v.Status), uint16(v.WaitTime/time.Millisecond), v.Control), nil
	}
	return nil, fmt.Errorf("refenc: service type %T", v)
}
