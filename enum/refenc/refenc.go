//go:build verif

// Package refenc is an independent reference encoder and strict reference parser for KNXnet/IP
// frames and cEMI messages, written from the layouts of DESIGN.md Appendix C. It never calls the
// Pack/Unpack functions of the library under test (it only uses the library's *types* as the
// vocabulary of Encode). It is the oracle side of C02/C15 and the corpus source of C01.
//
// Layout summary (all multi-octet integers big endian):
//
//	header            06 10 | service id (2) | total length (2) = 6 + body
//	HPAI              08 | protocol 01=UDP4 02=TCP4 | IPv4 (4) | port (2)
//	CONNECT_REQ 0205  HPAI control | HPAI data | 04 04 <layer> 00
//	CONNECT_RES 0206  channel | status | [status==0: HPAI data | CRD 04 04 <ia hi> <ia lo>]
//	CONNSTATE_REQ 0207 / DISCONNECT_REQ 0209   channel | 00 | HPAI control
//	CONNSTATE_RES 0208 / DISCONNECT_RES 020A   channel | status
//	TUNNEL_REQ 0420   04 | channel | seq | 00 | cEMI      TUNNEL_ACK 0421  04 | channel | seq | status
//	ROUTING_IND 0530  cEMI   ROUTING_LOST 0531  04 | state | lost (2)   ROUTING_BUSY 0532  06 | state | wait (2) | control (2)
//	SEARCH_REQ 0201   HPAI   SEARCH_RES 0202  HPAI | DIB device-info | DIB service-families
//	DESCR_REQ 0203    HPAI   DESCR_RES 0204   DIB device-info | DIB service-families | [further DIBs]
//	DIB device-info   36 01 | medium | status | ia (2) | project (2) | serial (6) | mcast (4) | MAC (6) | name (30, ISO-8859-1, NUL padded)
//	DIB svc families  len 02 | (family, version)*        other DIB  len type data[len-2]
//	cEMI L_Data       mc | addIL | add.info | ctrl1 | ctrl2 | src (2) | dst (2) | L | TPDU
//	TPDU data         L = data octets (>=1) | 0 N SSSS AA | AA DDDDDD | data[1..]
//	TPDU control      L = 0 | 1 N SSSS CC
//	cEMI L_Raw / L_Busmon / other   mc | raw octets
package refenc

// Service identifiers.
const (
	SearchReqID    uint16 = 0x0201
	SearchResID    uint16 = 0x0202
	DescrReqID     uint16 = 0x0203
	DescrResID     uint16 = 0x0204
	ConnReqID      uint16 = 0x0205
	ConnResID      uint16 = 0x0206
	ConnStateReqID uint16 = 0x0207
	ConnStateResID uint16 = 0x0208
	DiscReqID      uint16 = 0x0209
	DiscResID      uint16 = 0x020A
	TunnelReqID    uint16 = 0x0420
	TunnelAckID    uint16 = 0x0421
	RoutingIndID   uint16 = 0x0530
	RoutingLostID  uint16 = 0x0531
	RoutingBusyID  uint16 = 0x0532
)

// ServiceIDs lists the 15 service identifiers the library knows, in numerical order.
var ServiceIDs = []uint16{
	SearchReqID, SearchResID, DescrReqID, DescrResID, ConnReqID, ConnResID, ConnStateReqID,
	ConnStateResID, DiscReqID, DiscResID, TunnelReqID, TunnelAckID, RoutingIndID, RoutingLostID,
	RoutingBusyID,
}

// cEMI message codes.
const (
	LRawReq    byte = 0x10
	LDataReq   byte = 0x11
	LDataInd   byte = 0x29
	LBusmonInd byte = 0x2B
	LRawInd    byte = 0x2D
	LDataCon   byte = 0x2E
	LRawCon    byte = 0x2F
)

// MessageCodes lists the 7 cEMI codes the library knows.
var MessageCodes = []byte{LRawReq, LDataReq, LDataInd, LBusmonInd, LRawInd, LDataCon, LRawCon}

// IsLData reports whether code is one of the three L_Data codes.
func IsLData(code byte) bool { return code == LDataReq || code == LDataInd || code == LDataCon }

// IsKnownCode reports whether code is one of the 7 codes of MessageCodes.
func IsKnownCode(code byte) bool {
	for _, c := range MessageCodes {
		if c == code {
			return true
		}
	}
	return false
}

// DIB type codes.
const (
	DIBDeviceInfo byte = 0x01
	DIBFamilies   byte = 0x02
	DIBIPConfig   byte = 0x03
	DIBIPCurrent  byte = 0x04
	DIBKNXAddrs   byte = 0x05
	DIBMfrData    byte = 0xFE
)

func cat(parts ...[]byte) []byte {
	n := 0
	for _, p := range parts {
		n += len(p)
	}
	out := make([]byte, 0, n)
	for _, p := range parts {
		out = append(out, p...)
	}
	return out
}

func be16(v uint16) []byte { return []byte{byte(v >> 8), byte(v)} }

// Frame prepends the 6-octet KNXnet/IP header (06 10 | service id | 6+len(body)) to body.
func Frame(serviceID uint16, body []byte) []byte {
	total := 6 + len(body)
	return cat([]byte{0x06, 0x10, byte(serviceID >> 8), byte(serviceID), byte(total >> 8), byte(total)}, body)
}

// HPAI is the 8-octet host protocol address information.
func HPAI(proto byte, ip [4]byte, port uint16) []byte {
	return []byte{0x08, proto, ip[0], ip[1], ip[2], ip[3], byte(port >> 8), byte(port)}
}

// CRI is the tunnelling connection request information 04 04 <layer> 00.
func CRI(layer byte) []byte { return []byte{0x04, 0x04, layer, 0x00} }

// CRD is the tunnelling connection response data block 04 04 <individual address>.
func CRD(ia uint16) []byte { return []byte{0x04, 0x04, byte(ia >> 8), byte(ia)} }

// ConnReq builds a CONNECT_REQUEST frame from two HPAIs and the tunnelling layer.
func ConnReq(control, data []byte, layer byte) []byte {
	return Frame(ConnReqID, cat(control, data, CRI(layer)))
}

// ConnRes builds a CONNECT_RESPONSE frame; data HPAI and CRD are present only for status 0.
func ConnRes(channel, status byte, data []byte, ia uint16) []byte {
	if status != 0 {
		return Frame(ConnResID, []byte{channel, status})
	}
	return Frame(ConnResID, cat([]byte{channel, 0}, data, CRD(ia)))
}

// ConnStateReq builds a CONNECTIONSTATE_REQUEST (second octet is reserved, normally 0).
func ConnStateReq(channel, reserved byte, control []byte) []byte {
	return Frame(ConnStateReqID, cat([]byte{channel, reserved}, control))
}

// ConnStateRes builds a CONNECTIONSTATE_RESPONSE.
func ConnStateRes(channel, status byte) []byte {
	return Frame(ConnStateResID, []byte{channel, status})
}

// DiscReq builds a DISCONNECT_REQUEST (second octet is reserved, normally 0).
func DiscReq(channel, reserved byte, control []byte) []byte {
	return Frame(DiscReqID, cat([]byte{channel, reserved}, control))
}

// DiscRes builds a DISCONNECT_RESPONSE.
func DiscRes(channel, status byte) []byte { return Frame(DiscResID, []byte{channel, status}) }

// TunnelReq builds a TUNNELLING_REQUEST around a cEMI message.
func TunnelReq(channel, seq byte, cemi []byte) []byte {
	return Frame(TunnelReqID, cat([]byte{0x04, channel, seq, 0x00}, cemi))
}

// TunnelAck builds a TUNNELLING_ACK.
func TunnelAck(channel, seq, status byte) []byte {
	return Frame(TunnelAckID, []byte{0x04, channel, seq, status})
}

// RoutingInd builds a ROUTING_INDICATION around a cEMI message.
func RoutingInd(cemi []byte) []byte { return Frame(RoutingIndID, cemi) }

// RoutingLost builds a ROUTING_LOST_MESSAGE.
func RoutingLost(state byte, lost uint16) []byte {
	return Frame(RoutingLostID, []byte{0x04, state, byte(lost >> 8), byte(lost)})
}

// RoutingBusy builds a ROUTING_BUSY.
func RoutingBusy(state byte, waitMs, control uint16) []byte {
	return Frame(RoutingBusyID, []byte{0x06, state, byte(waitMs >> 8), byte(waitMs), byte(control >> 8), byte(control)})
}

// SearchReq builds a SEARCH_REQUEST.
func SearchReq(hpai []byte) []byte { return Frame(SearchReqID, hpai) }

// DescrReq builds a DESCRIPTION_REQUEST.
func DescrReq(hpai []byte) []byte { return Frame(DescrReqID, hpai) }

// SearchRes builds a SEARCH_RESPONSE from an HPAI and a sequence of DIBs.
func SearchRes(hpai []byte, dibs ...[]byte) []byte {
	return Frame(SearchResID, cat(hpai, cat(dibs...)))
}

// DescrRes builds a DESCRIPTION_RESPONSE from a sequence of DIBs.
func DescrRes(dibs ...[]byte) []byte { return Frame(DescrResID, cat(dibs...)) }

// NameField lays out a friendly name in its 30-octet field: at most 29 octets of name followed by
// NUL padding (a longer name is cut to 29 octets so that the field stays NUL terminated).
func NameField(latin1 []byte) []byte {
	out := make([]byte, 30)
	if len(latin1) > 29 {
		latin1 = latin1[:29]
	}
	copy(out, latin1)
	return out
}

// Latin1 converts a Go string to ISO 8859-1 octets; ok is false when a rune is outside U+0000..U+00FF.
func Latin1(s string) (out []byte, ok bool) {
	out = make([]byte, 0, len(s))
	for _, r := range s {
		if r > 0xFF {
			return nil, false
		}
		out = append(out, byte(r))
	}
	return out, true
}

// FromLatin1 converts ISO 8859-1 octets to a Go string.
func FromLatin1(b []byte) string {
	r := make([]rune, len(b))
	for i, c := range b {
		r[i] = rune(c)
	}
	return string(r)
}

// DeviceDIB builds the 54-octet device information DIB. name holds ISO 8859-1 octets.
func DeviceDIB(medium, status byte, ia, project uint16, serial [6]byte, mcast [4]byte, mac [6]byte, name []byte) []byte {
	return DeviceDIBTyped(DIBDeviceInfo, medium, status, ia, project, serial, mcast, mac, name)
}

// DeviceDIBTyped is DeviceDIB with an explicit type octet.
func DeviceDIBTyped(typ, medium, status byte, ia, project uint16, serial [6]byte, mcast [4]byte, mac [6]byte, name []byte) []byte {
	return cat([]byte{54, typ, medium, status}, be16(ia), be16(project), serial[:], mcast[:], mac[:], NameField(name))
}

// FamiliesDIB builds a supported-service-families DIB from (family, version) pairs.
func FamiliesDIB(fams ...[2]byte) []byte { return FamiliesDIBTyped(DIBFamilies, fams...) }

// FamiliesDIBTyped is FamiliesDIB with an explicit type octet.
func FamiliesDIBTyped(typ byte, fams ...[2]byte) []byte {
	out := []byte{byte(2 + 2*len(fams)), typ}
	for _, f := range fams {
		out = append(out, f[0], f[1])
	}
	return out
}

// RawDIB builds a DIB of arbitrary type: len type data.
func RawDIB(typ byte, data []byte) []byte {
	return cat([]byte{byte(2 + len(data)), typ}, data)
}

// InfoField is the cEMI additional-information part: length octet + at most 255 octets.
func InfoField(info []byte) []byte {
	if len(info) > 255 {
		info = info[:255]
	}
	return cat([]byte{byte(len(info))}, info)
}

// LData builds a cEMI L_Data message: code | addIL | info | ctrl1 | ctrl2 | src | dst | TPDU
// (the TPDU includes its leading length octet, see TPDUData / TPDUControl).
func LData(code byte, info []byte, c1, c2 byte, src, dst uint16, tpdu []byte) []byte {
	return cat([]byte{code}, InfoField(info), []byte{c1, c2}, be16(src), be16(dst), tpdu)
}

// LDataBody is LData without the message code octet.
func LDataBody(info []byte, c1, c2 byte, src, dst uint16, tpdu []byte) []byte {
	return LData(0, info, c1, c2, src, dst, tpdu)[1:]
}

// TPDUData builds a data transport unit including its leading length octet. The sequence number is
// transmitted only in numbered units (it occupies reserved-zero bits otherwise); the low six bits
// of data[0] share an octet with the low two APCI bits; data longer than 255 octets is cut to the
// 255 the length octet can express; an empty data part still occupies the shared octet.
func TPDUData(numbered bool, seq, apci byte, data []byte) []byte {
	if len(data) > 255 {
		data = data[:255]
	}
	n := len(data)
	if n < 1 {
		n = 1
	}
	out := make([]byte, 2+n)
	out[0] = byte(n)
	if numbered {
		out[1] = 0x40 | (seq&0x0F)<<2
	}
	out[1] |= (apci >> 2) & 3
	copy(out[2:], data)
	out[2] = out[2]&0x3F | (apci&3)<<6
	return out
}

// TPDUControl builds a control transport unit: 00 | 1 N SSSS CC.
func TPDUControl(numbered bool, seq, code byte) []byte {
	t := byte(0x80) | code&3
	if numbered {
		t |= 0x40 | (seq&0x0F)<<2
	}
	return []byte{0x00, t}
}

// CEMIRaw builds a cEMI message whose body is uninterpreted (L_Raw.*, L_Busmon.ind, unsupported codes).
func CEMIRaw(code byte, raw []byte) []byte { return cat([]byte{code}, raw) }
