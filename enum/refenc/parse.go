//go:build verif

package refenc

import (
	"fmt"
)

// HostAddr is a parsed HPAI.
type HostAddr struct {
	Proto byte
	IP    [4]byte
	Port  uint16
}

// TPDU is a parsed transport unit.
type TPDU struct {
	Control  bool
	Numbered bool
	Seq      byte   // the four sequence bits as transmitted
	APCI     byte   // data units: 4-bit APCI; control units: 2-bit control code
	Data     []byte // data units: data octets, data[0] masked to its six bits
}

// CEMI is a parsed cEMI message.
type CEMI struct {
	Code     byte
	Info     []byte // L_Data only
	Ctrl1    byte
	Ctrl2    byte
	Src, Dst uint16
	TPDU     *TPDU  // L_Data only
	Raw      []byte // everything after the code for non-L_Data codes
}

// DeviceInfo is a parsed device-information DIB.
type DeviceInfo struct {
	Medium, Status byte
	IA, Project    uint16
	Serial         [6]byte
	Mcast          [4]byte
	MAC            [6]byte
	NameField      [30]byte
	Name           []byte // NameField without trailing NULs
}

// DIB is one parsed description information block.
type DIB struct {
	Type     byte
	Data     []byte // octets after length and type
	Device   *DeviceInfo
	Families [][2]byte
}

// Parsed is a strictly parsed KNXnet/IP frame.
type Parsed struct {
	ServiceID uint16
	Body      []byte
	Hosts     []HostAddr // HPAIs in order of appearance
	Channel   byte
	Seq       byte
	Status    byte // status / reserved octet of the connection services, state of routing lost/busy
	Layer     byte
	CRD       uint16
	Lost      uint16
	Wait      uint16
	BusyCtl   uint16
	CEMI      *CEMI
	DIBs      []DIB
	// ReservedNonZero names the reserved parts that are not zero (empty for a canonical frame).
	ReservedNonZero []string
}

func parseHPAI(b []byte) (HostAddr, error) {
	if len(b) < 8 {
		return HostAddr{}, fmt.Errorf("HPAI: %d octets left", len(b))
	}
	if b[0] != 8 {
		return HostAddr{}, fmt.Errorf("HPAI: length octet %d", b[0])
	}
	return HostAddr{b[1], [4]byte{b[2], b[3], b[4], b[5]}, uint16(b[6])<<8 | uint16(b[7])}, nil
}

// ParseTPDU parses a transport unit that must fill b exactly.
func ParseTPDU(b []byte) (*TPDU, []string, error) {
	var res []string
	if len(b) < 2 {
		return nil, nil, fmt.Errorf("TPDU: %d octets", len(b))
	}
	t := &TPDU{Control: b[1]&0x80 != 0, Numbered: b[1]&0x40 != 0, Seq: b[1] >> 2 & 0x0F}
	if !t.Numbered && t.Seq != 0 {
		res = append(res, "tpci-seq-of-unnumbered-unit")
	}
	if t.Control {
		t.APCI = b[1] & 3
		if b[0] != 0 {
			res = append(res, "control-unit-length")
		}
		if len(b) != 2 {
			return nil, nil, fmt.Errorf("TPDU: control unit of %d octets", len(b))
		}
		return t, res, nil
	}
	l := int(b[0])
	if l < 1 {
		return nil, nil, fmt.Errorf("TPDU: data unit with length 0")
	}
	if len(b) != 2+l {
		return nil, nil, fmt.Errorf("TPDU: length octet %d but %d octets follow", l, len(b)-1)
	}
	t.APCI = b[1]&3<<2 | b[2]>>6
	t.Data = append([]byte(nil), b[2:]...)
	t.Data[0] &= 0x3F
	return t, res, nil
}

// ParseCEMI parses a cEMI message that must fill b exactly.
func ParseCEMI(b []byte) (*CEMI, []string, error) {
	if len(b) < 1 {
		return nil, nil, fmt.Errorf("cEMI: empty")
	}
	c := &CEMI{Code: b[0]}
	if !IsLData(c.Code) {
		c.Raw = append([]byte(nil), b[1:]...)
		return c, nil, nil
	}
	if len(b) < 2 {
		return nil, nil, fmt.Errorf("L_Data: no additional-info length")
	}
	il := int(b[1])
	if len(b) < 2+il+6+2 {
		return nil, nil, fmt.Errorf("L_Data: %d octets, info length %d", len(b), il)
	}
	c.Info = append([]byte(nil), b[2:2+il]...)
	f := b[2+il:]
	c.Ctrl1, c.Ctrl2 = f[0], f[1]
	c.Src = uint16(f[2])<<8 | uint16(f[3])
	c.Dst = uint16(f[4])<<8 | uint16(f[5])
	t, res, err := ParseTPDU(f[6:])
	if err != nil {
		return nil, nil, err
	}
	c.TPDU = t
	return c, res, nil
}

func parseDIBs(b []byte) ([]DIB, []string, error) {
	var out []DIB
	var res []string
	for len(b) > 0 {
		if len(b) < 2 {
			return nil, nil, fmt.Errorf("DIB: %d octet left", len(b))
		}
		l := int(b[0])
		if l < 2 || l > len(b) {
			return nil, nil, fmt.Errorf("DIB: length %d with %d octets left", l, len(b))
		}
		d := DIB{Type: b[1], Data: append([]byte(nil), b[2:l]...)}
		switch d.Type {
		case DIBDeviceInfo:
			if l != 54 {
				return nil, nil, fmt.Errorf("device-info DIB of length %d", l)
			}
			x := b[:54]
			di := &DeviceInfo{Medium: x[2], Status: x[3], IA: uint16(x[4])<<8 | uint16(x[5]), Project: uint16(x[6])<<8 | uint16(x[7])}
			copy(di.Serial[:], x[8:14])
			copy(di.Mcast[:], x[14:18])
			copy(di.MAC[:], x[18:24])
			copy(di.NameField[:], x[24:54])
			n := 30
			for n > 0 && di.NameField[n-1] == 0 {
				n--
			}
			di.Name = append([]byte(nil), di.NameField[:n]...)
			if di.NameField[29] != 0 {
				res = append(res, "name-not-terminated")
			}
			d.Device = di
		case DIBFamilies:
			if l%2 != 0 {
				return nil, nil, fmt.Errorf("service-families DIB of odd length %d", l)
			}
			for i := 2; i < l; i += 2 {
				d.Families = append(d.Families, [2]byte{b[i], b[i+1]})
			}
		}
		out = append(out, d)
		b = b[l:]
	}
	return out, res, nil
}

// Parse strictly parses one frame: header 06 10, total length equal to len(frame), every
// structure length consistent, nothing left over. Unknown service identifiers parse with only
// ServiceID and Body set.
func Parse(frame []byte) (*Parsed, error) {
	if len(frame) < 6 {
		return nil, fmt.Errorf("frame of %d octets", len(frame))
	}
	if frame[0] != 6 || frame[1] != 0x10 {
		return nil, fmt.Errorf("header %02x %02x", frame[0], frame[1])
	}
	total := int(frame[4])<<8 | int(frame[5])
	if total != len(frame) {
		return nil, fmt.Errorf("total length %d, frame has %d octets", total, len(frame))
	}
	p := &Parsed{ServiceID: uint16(frame[2])<<8 | uint16(frame[3]), Body: append([]byte(nil), frame[6:]...)}
	b := p.Body
	need := func(n int) error {
		if len(b) != n {
			return fmt.Errorf("service %04x: body of %d octets, want %d", p.ServiceID, len(b), n)
		}
		return nil
	}
	host := func(off int) error {
		h, err := parseHPAI(b[off:])
		if err != nil {
			return err
		}
		p.Hosts = append(p.Hosts, h)
		return nil
	}
	switch p.ServiceID {
	case SearchReqID, DescrReqID:
		if err := need(8); err != nil {
			return nil, err
		}
		return p, host(0)
	case SearchResID:
		if len(b) < 8 {
			return nil, fmt.Errorf("search response body of %d octets", len(b))
		}
		if err := host(0); err != nil {
			return nil, err
		}
		d, res, err := parseDIBs(b[8:])
		p.DIBs, p.ReservedNonZero = d, res
		return p, err
	case DescrResID:
		d, res, err := parseDIBs(b)
		p.DIBs, p.ReservedNonZero = d, res
		return p, err
	case ConnReqID:
		if err := need(20); err != nil {
			return nil, err
		}
		if err := host(0); err != nil {
			return nil, err
		}
		if err := host(8); err != nil {
			return nil, err
		}
		if b[16] != 4 || b[17] != 4 {
			return nil, fmt.Errorf("CRI %02x %02x", b[16], b[17])
		}
		p.Layer = b[18]
		if b[19] != 0 {
			p.ReservedNonZero = append(p.ReservedNonZero, "cri-reserved")
		}
		return p, nil
	case ConnResID:
		if len(b) < 2 {
			return nil, fmt.Errorf("connect response body of %d octets", len(b))
		}
		p.Channel, p.Status = b[0], b[1]
		if p.Status != 0 {
			return p, need(2)
		}
		if err := need(14); err != nil {
			return nil, err
		}
		if err := host(2); err != nil {
			return nil, err
		}
		if b[10] != 4 || b[11] != 4 {
			return nil, fmt.Errorf("CRD %02x %02x", b[10], b[11])
		}
		p.CRD = uint16(b[12])<<8 | uint16(b[13])
		return p, nil
	case ConnStateReqID, DiscReqID:
		if err := need(10); err != nil {
			return nil, err
		}
		p.Channel, p.Status = b[0], b[1]
		return p, host(2)
	case ConnStateResID, DiscResID:
		if err := need(2); err != nil {
			return nil, err
		}
		p.Channel, p.Status = b[0], b[1]
		return p, nil
	case TunnelReqID:
		if len(b) < 5 {
			return nil, fmt.Errorf("tunnelling request body of %d octets", len(b))
		}
		if b[0] != 4 {
			return nil, fmt.Errorf("connection header length %d", b[0])
		}
		p.Channel, p.Seq = b[1], b[2]
		if b[3] != 0 {
			p.ReservedNonZero = append(p.ReservedNonZero, "connection-header-reserved")
		}
		c, res, err := ParseCEMI(b[4:])
		p.CEMI = c
		p.ReservedNonZero = append(p.ReservedNonZero, res...)
		return p, err
	case TunnelAckID:
		if err := need(4); err != nil {
			return nil, err
		}
		if b[0] != 4 {
			return nil, fmt.Errorf("connection header length %d", b[0])
		}
		p.Channel, p.Seq, p.Status = b[1], b[2], b[3]
		return p, nil
	case RoutingIndID:
		c, res, err := ParseCEMI(b)
		p.CEMI = c
		p.ReservedNonZero = res
		return p, err
	case RoutingLostID:
		if err := need(4); err != nil {
			return nil, err
		}
		if b[0] != 4 {
			return nil, fmt.Errorf("routing lost structure length %d", b[0])
		}
		p.Status, p.Lost = b[1], uint16(b[2])<<8|uint16(b[3])
		return p, nil
	case RoutingBusyID:
		if err := need(6); err != nil {
			return nil, err
		}
		if b[0] != 6 {
			return nil, fmt.Errorf("routing busy structure length %d", b[0])
		}
		p.Status, p.Wait, p.BusyCtl = b[1], uint16(b[2])<<8|uint16(b[3]), uint16(b[4])<<8|uint16(b[5])
		return p, nil
	}
	return p, nil
}

// ReservedNonZero inspects a byte string loosely (no length consistency demanded, so that it also
// works on frames the strict parser rejects but a lenient decoder accepts) and reports whether
// one of the reserved parts of Appendix C is present and not zero: the fourth octet of the
// tunnelling connection header, the fourth CRI octet, the sequence bits of an unnumbered transport
// unit, the length octet of a control unit, the 30th octet of a friendly name. It returns false
// when the part is absent.
func ReservedNonZero(frame []byte) bool {
	if len(frame) < 6 {
		return false
	}
	b := frame[6:]
	at := func(i int) (byte, bool) {
		if i < len(b) {
			return b[i], true
		}
		return 0, false
	}
	cemiRes := func(off int) bool {
		code, ok := at(off)
		if !ok || !IsLData(code) {
			return false
		}
		il, ok := at(off + 1)
		if !ok {
			return false
		}
		t := off + 2 + int(il) + 6
		l, ok1 := at(t)
		tpci, ok2 := at(t + 1)
		if !ok1 || !ok2 {
			return false
		}
		if tpci&0x40 == 0 && tpci&0x3C != 0 {
			return true
		}
		if tpci&0x80 != 0 && l != 0 {
			return true
		}
		return false
	}
	dibRes := func() bool {
		off := 0
		for off+1 < len(b) {
			l, typ := int(b[off]), b[off+1]
			if typ == DIBDeviceInfo {
				if v, ok := at(off + 53); ok && v != 0 {
					return true
				}
			}
			if l == 0 {
				return false
			}
			off += l
		}
		return false
	}
	switch uint16(frame[2])<<8 | uint16(frame[3]) {
	case TunnelReqID:
		if v, ok := at(3); ok && v != 0 {
			return true
		}
		return cemiRes(4)
	case RoutingIndID:
		return cemiRes(0)
	case ConnReqID:
		v, ok := at(19)
		return ok && v != 0
	case SearchResID:
		v, ok := at(8 + 53) // the device-info DIB follows the HPAI positionally
		return ok && v != 0
	case DescrResID:
		return dibRes()
	}
	return false
}
