//go:build verif

package refenc

import "fmt"

// NamedFrame is one well-formed frame of the corpus.
type NamedFrame struct {
	Name  string
	Bytes []byte
}

var (
	ipA    = [4]byte{192, 168, 1, 10}
	ipB    = [4]byte{10, 0, 0, 7}
	mcast  = [4]byte{224, 0, 23, 12}
	serial = [6]byte{0x00, 0xC5, 0x01, 0x02, 0xD9, 0x5C}
	mac    = [6]byte{0x00, 0x24, 0x6D, 0x01, 0x23, 0x45}
)

func pattern(n int, mul, add byte) []byte {
	out := make([]byte, n)
	for i := range out {
		out[i] = byte(i)*mul + add
	}
	return out
}

// appData builds n data octets whose first octet fits the six bits it has.
func appData(n int) []byte {
	d := pattern(n, 29, 0x15)
	if n > 0 {
		d[0] &= 0x3F
	}
	return d
}

func famList(n int) [][2]byte {
	all := [][2]byte{{0x02, 0x01}, {0x03, 0x01}, {0x04, 0x01}, {0x05, 0x02}, {0x06, 0x01}, {0x07, 0x01}, {0x08, 0x01}}
	var out [][2]byte
	for i := 0; i < n; i++ {
		out = append(out, all[i%len(all)])
	}
	return out
}

func stdDevice(name []byte) []byte {
	return DeviceDIB(0x02, 0x00, 0x1101, 0x0011, serial, mcast, mac, name)
}

// Corpus returns the fixed list of well-formed frames (same order on every call): every one of
// the 15 service identifiers plus an unknown one; each of the 7 cEMI codes plus unsupported codes
// inside TUNNELLING_REQUEST and ROUTING_INDICATION; L_Data with a control unit and with data units
// of 1, 2, 15 and 16 octets, each with additional info of 0, 1 and 3 octets and under each of the
// three L_Data codes; description and search responses with DIB sequences {device-info,
// service-families with 0, 1, 3 families, each known-but-unparsed DIB type (03, 04, 05, FE) with
// length 2, 3, 4, 8, unknown DIB types, swapped order, several friendly names}.
func Corpus() []NamedFrame {
	var c []NamedFrame
	add := func(name string, b []byte) { c = append(c, NamedFrame{name, b}) }

	hA := HPAI(1, ipA, 3671)
	hB := HPAI(1, ipB, 50100)
	hNAT := HPAI(2, [4]byte{}, 0)

	// --- one or more per service identifier ---------------------------------------------------
	add("search-req", SearchReq(hA))
	add("search-req/tcp-nat", SearchReq(hNAT))
	add("descr-req", DescrReq(hB))
	add("conn-req/link-layer", ConnReq(hA, hB, 0x02))
	add("conn-req/raw-layer", ConnReq(hA, hA, 0x04))
	add("conn-req/busmon-layer", ConnReq(hNAT, hNAT, 0x80))
	add("conn-res/ok", ConnRes(0x15, 0, hA, 0x11FA))
	add("conn-res/ok-channel-ff", ConnRes(0xFF, 0, hB, 0xFFFF))
	add("conn-res/no-more-connections", ConnRes(0, 0x24, nil, 0))
	add("conn-res/unsupported-type", ConnRes(0, 0x22, nil, 0))
	add("connstate-req", ConnStateReq(0x15, 0, hA))
	add("connstate-res/ok", ConnStateRes(0x15, 0))
	add("connstate-res/bad-id", ConnStateRes(0x15, 0x21))
	add("disc-req", DiscReq(0x15, 0, hA))
	add("disc-res", DiscRes(0x15, 0))
	add("tunnel-ack/ok", TunnelAck(0x15, 0x2A, 0))
	add("tunnel-ack/error", TunnelAck(0x15, 0xFF, 0x29))
	add("routing-lost", RoutingLost(0x00, 5))
	add("routing-lost/max", RoutingLost(0x01, 0xFFFF))
	add("routing-busy", RoutingBusy(0x00, 100, 0))
	add("routing-busy/max", RoutingBusy(0x02, 0xFFFF, 0xFFFF))
	add("unknown-service/0310", Frame(0x0310, []byte{0x04, 0x15, 0x00, 0x00, 0xFC}))
	add("unknown-service/0b0b-empty", Frame(0x0B0B, nil))

	// --- every cEMI code inside both carriers --------------------------------------------------
	groupWrite := func(code byte) []byte {
		return LData(code, nil, 0xBC, 0xE0, 0x1101, 0x0901, TPDUData(false, 0, 2, []byte{0x01}))
	}
	rawTP1 := []byte{0xBC, 0x11, 0x01, 0x09, 0x01, 0xE1, 0x00, 0x81, 0x3A}
	busmon := []byte{0x03, 0x03, 0x01, 0x00, 0x04, 0x02, 0x12, 0x34, 0xBC, 0x11, 0x01, 0x09, 0x01, 0xE1, 0x00, 0x81, 0x3A}
	type carrier struct {
		name string
		wrap func([]byte) []byte
	}
	carriers := []carrier{
		{"tunnel-req", func(m []byte) []byte { return TunnelReq(0x15, 0x2A, m) }},
		{"routing-ind", RoutingInd},
	}
	for _, k := range carriers {
		for _, code := range MessageCodes {
			switch {
			case IsLData(code):
				add(fmt.Sprintf("%s/ldata-%02x/group-write", k.name, code), k.wrap(groupWrite(code)))
			case code == LBusmonInd:
				add(fmt.Sprintf("%s/lbusmon-%02x", k.name, code), k.wrap(CEMIRaw(code, busmon)))
			default:
				add(fmt.Sprintf("%s/lraw-%02x", k.name, code), k.wrap(CEMIRaw(code, rawTP1)))
			}
		}
		add(k.name+"/unsupported-13", k.wrap(CEMIRaw(0x13, []byte{0x00, 0x10, 0x01, 0x0F})))
		add(k.name+"/unsupported-fc", k.wrap(CEMIRaw(0xFC, []byte{0x00, 0x0B, 0x01, 0x34, 0x10, 0x01})))
		add(k.name+"/unsupported-f0-empty", k.wrap(CEMIRaw(0xF0, nil)))
	}

	// --- L_Data: code x carrier x transport unit x additional info ----------------------------------
	type unit struct {
		name string
		b    []byte
	}
	units := []unit{
		{"control", TPDUControl(false, 0, 0)},
		{"app1", TPDUData(false, 0, 2, appData(1))},
		{"app2", TPDUData(false, 0, 1, appData(2))},
		{"app15", TPDUData(true, 9, 10, appData(15))},
		{"app16", TPDUData(false, 0, 9, appData(16))},
	}
	infos := [][]byte{nil, {0x00}, {0x03, 0x01, 0x7F}}
	for _, k := range carriers {
		for _, code := range []byte{LDataReq, LDataInd, LDataCon} {
			for _, u := range units {
				for _, in := range infos {
					c2 := byte(0xE0)
					if len(u.b) > 17 {
						c2 = 0x60 // individual destination for the long frames
					}
					m := LData(code, in, 0xBC, c2, 0x11FA, 0x0A03, u.b)
					add(fmt.Sprintf("%s/ldata-%02x/%s/info%d", k.name, code, u.name, len(in)), k.wrap(m))
				}
			}
		}
	}
	// transport-layer variety: numbered / unnumbered, sequence numbers, all four control codes
	for _, seq := range []byte{0, 7, 15} {
		m := LData(LDataInd, nil, 0xB0, 0x60, 0x1101, 0x1102, TPDUData(true, seq, 8, []byte{0x03, 0x01, 0x00}))
		add(fmt.Sprintf("tunnel-req/ldata-29/numbered-data-seq%d", seq), TunnelReq(1, seq, m))
	}
	for code := byte(0); code < 4; code++ {
		m := LData(LDataReq, nil, 0xB0, 0x60, 0x1101, 0x1102, TPDUControl(code >= 2, code*5, code))
		add(fmt.Sprintf("tunnel-req/ldata-11/control-code%d", code), TunnelReq(1, code, m))
	}
	add("routing-ind/ldata-29/all-ones", RoutingInd(LData(LDataInd, nil, 0xFF, 0xFF, 0xFFFF, 0xFFFF, TPDUData(true, 15, 15, []byte{0x3F, 0xFF}))))
	add("routing-ind/ldata-29/all-zero", RoutingInd(LData(LDataInd, nil, 0, 0, 0, 0, TPDUData(false, 0, 0, []byte{0}))))

	// --- description / search responses --------------------------------------------------------
	name := []byte("KNX IP Router")
	for _, n := range []int{0, 1, 3} {
		add(fmt.Sprintf("descr-res/families%d", n), DescrRes(stdDevice(name), FamiliesDIB(famList(n)...)))
		add(fmt.Sprintf("search-res/families%d", n), SearchRes(hA, stdDevice(name), FamiliesDIB(famList(n)...)))
	}
	for _, typ := range []byte{DIBIPConfig, DIBIPCurrent, DIBKNXAddrs, DIBMfrData} {
		for _, l := range []int{2, 3, 4, 8} {
			add(fmt.Sprintf("descr-res/dib-%02x-len%d", typ, l),
				DescrRes(stdDevice(name), FamiliesDIB(famList(3)...), RawDIB(typ, pattern(l-2, 17, 0xA1))))
		}
	}
	add("descr-res/unknown-dib-07", DescrRes(stdDevice(name), FamiliesDIB(famList(1)...), RawDIB(0x07, pattern(4, 3, 1))))
	add("descr-res/unknown-dib-20-empty", DescrRes(stdDevice(name), FamiliesDIB(famList(1)...), RawDIB(0x20, nil)))
	add("descr-res/two-further-dibs", DescrRes(stdDevice(name), FamiliesDIB(famList(3)...),
		RawDIB(DIBIPConfig, pattern(14, 5, 2)), RawDIB(DIBMfrData, pattern(6, 7, 0x80))))
	add("descr-res/swapped", DescrRes(FamiliesDIB(famList(3)...), stdDevice(name)))
	add("descr-res/swapped-with-further", DescrRes(RawDIB(DIBKNXAddrs, pattern(6, 9, 0x11)), FamiliesDIB(famList(1)...), stdDevice(name)))
	add("descr-res/name-empty", DescrRes(stdDevice(nil), FamiliesDIB(famList(3)...)))
	add("descr-res/name-29", DescrRes(stdDevice([]byte("abcdefghijklmnopqrstuvwxyz012")), FamiliesDIB(famList(3)...)))
	add("descr-res/name-latin1", DescrRes(stdDevice([]byte{'K', 0xFC, 'c', 'h', 'e', ' ', 'S', 0xFC, 'd', ' ', 0xE9, 0xA0, 0xFF}), FamiliesDIB(famList(3)...)))
	add("search-res/name-29", SearchRes(hB, stdDevice([]byte("ABCDEFGHIJKLMNOPQRSTUVWXYZ~!@")), FamiliesDIB(famList(1)...)))
	add("search-res/name-empty-all-ones", SearchRes(HPAI(0xFF, [4]byte{255, 255, 255, 255}, 0xFFFF),
		DeviceDIB(0xFF, 0xFF, 0xFFFF, 0xFFFF, [6]byte{255, 255, 255, 255, 255, 255}, [4]byte{255, 255, 255, 255}, [6]byte{255, 255, 255, 255, 255, 255}, nil),
		FamiliesDIB([2]byte{0xFF, 0xFF})))
	add("search-res/with-further-dib", SearchRes(hA, stdDevice(name), FamiliesDIB(famList(3)...), RawDIB(DIBIPConfig, pattern(6, 11, 0x21))))
	return c
}

// StructureOctets lists the offsets inside a well-formed frame that steer the parse: header
// length, version, both total-length octets, HPAI lengths, CRI/CRD lengths, connection-header
// length, cEMI message code, additional-info length, TPDU length octet, TPCI octet, DIB length
// and type octets. Offsets are in ascending order.
func StructureOctets(frame []byte) []int {
	out := []int{0, 1, 4, 5}
	if len(frame) < 6 {
		return out[:0]
	}
	ok := func(i int) bool { return i >= 6 && i < len(frame) }
	put := func(is ...int) {
		for _, i := range is {
			if ok(i) {
				out = append(out, i)
			}
		}
	}
	cemi := func(off int) {
		put(off)
		if ok(off) && IsLData(frame[off]) && ok(off+1) {
			t := off + 2 + int(frame[off+1]) + 6
			put(off+1, t, t+1)
		}
	}
	dibs := func(off int) {
		for ok(off + 1) {
			put(off, off+1)
			l := int(frame[off])
			if l < 2 {
				return
			}
			off += l
		}
	}
	switch uint16(frame[2])<<8 | uint16(frame[3]) {
	case SearchReqID, DescrReqID:
		put(6)
	case SearchResID:
		put(6)
		dibs(14)
	case DescrResID:
		dibs(6)
	case ConnReqID:
		put(6, 14, 22, 23)
	case ConnResID:
		put(7, 8, 16, 17)
	case ConnStateReqID, DiscReqID:
		put(8)
	case TunnelReqID:
		put(6)
		cemi(10)
	case TunnelAckID, RoutingLostID, RoutingBusyID:
		put(6)
	case RoutingIndID:
		cemi(6)
	}
	return out
}
