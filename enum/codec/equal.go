//go:build verif

package codec

import (
	"bytes"
	"fmt"
	"reflect"

	"github.com/vapourismo/knx-go/knx/cemi"
	"github.com/vapourismo/knx-go/knx/knxnet"
)

// The oracle of C02: deep equality of two library values with nil and empty byte slices (and
// nil / empty family lists) identified. where names the innermost differing element (an expected
// Go type for a type mismatch, Type.Field otherwise) and is used as the structural class; detail
// is the human-readable difference. Both are empty when the values are equal.

func typeName(x interface{}) string {
	t := reflect.TypeOf(x)
	if t == nil {
		return "nil"
	}
	for t.Kind() == reflect.Ptr {
		t = t.Elem()
	}
	return t.Name()
}

func diffBytes(where string, a, b []byte) (string, string) {
	if bytes.Equal(a, b) {
		return "", ""
	}
	return where, fmt.Sprintf("%s: % x (%d octets) became % x (%d octets)", where, clip(a), len(a), clip(b), len(b))
}

func clip(b []byte) []byte {
	if len(b) > 24 {
		return b[:24]
	}
	return b
}

func diffVal[T comparable](where string, a, b T) (string, string) {
	if a == b {
		return "", ""
	}
	return where, fmt.Sprintf("%s: %#v became %#v", where, a, b)
}

func first(pairs ...[2]string) (string, string) {
	for _, p := range pairs {
		if p[0] != "" {
			return p[0], p[1]
		}
	}
	return "", ""
}

func pr(w, d string) [2]string { return [2]string{w, d} }

func diffUnit(a, b cemi.TransportUnit) (string, string) {
	if reflect.TypeOf(a) != reflect.TypeOf(b) {
		return typeName(a), fmt.Sprintf("transport unit %T became %T", a, b)
	}
	switch x := a.(type) {
	case *cemi.AppData:
		y := b.(*cemi.AppData)
		return first(pr(diffVal("AppData.Numbered", x.Numbered, y.Numbered)), pr(diffVal("AppData.SeqNumber", x.SeqNumber, y.SeqNumber)),
			pr(diffVal("AppData.Command", x.Command, y.Command)), pr(diffBytes("AppData.Data", x.Data, y.Data)))
	case *cemi.ControlData:
		y := b.(*cemi.ControlData)
		return first(pr(diffVal("ControlData.Numbered", x.Numbered, y.Numbered)), pr(diffVal("ControlData.SeqNumber", x.SeqNumber, y.SeqNumber)),
			pr(diffVal("ControlData.Command", x.Command, y.Command)))
	case nil:
		return "", ""
	}
	return typeName(a), fmt.Sprintf("transport unit of unexpected type %T", a)
}

func diffLData(a, b *cemi.LData) (string, string) {
	w, d := first(pr(diffBytes("LData.Info", a.Info, b.Info)), pr(diffVal("LData.Control1", a.Control1, b.Control1)),
		pr(diffVal("LData.Control2", a.Control2, b.Control2)), pr(diffVal("LData.Source", a.Source, b.Source)),
		pr(diffVal("LData.Destination", a.Destination, b.Destination)))
	if w != "" {
		return w, d
	}
	return diffUnit(a.Data, b.Data)
}

func diffMessage(a, b cemi.Message) (string, string) {
	if reflect.TypeOf(a) != reflect.TypeOf(b) {
		return typeName(a), fmt.Sprintf("message %T became %T", a, b)
	}
	switch x := a.(type) {
	case *cemi.LDataReq:
		return diffLData(&x.LData, &b.(*cemi.LDataReq).LData)
	case *cemi.LDataCon:
		return diffLData(&x.LData, &b.(*cemi.LDataCon).LData)
	case *cemi.LDataInd:
		return diffLData(&x.LData, &b.(*cemi.LDataInd).LData)
	case *cemi.LRawReq:
		return diffBytes("LRawReq.LRaw", x.LRaw, b.(*cemi.LRawReq).LRaw)
	case *cemi.LRawCon:
		return diffBytes("LRawCon.LRaw", x.LRaw, b.(*cemi.LRawCon).LRaw)
	case *cemi.LRawInd:
		return diffBytes("LRawInd.LRaw", x.LRaw, b.(*cemi.LRawInd).LRaw)
	case *cemi.LBusmonInd:
		return diffBytes("LBusmonInd", []byte(*x), []byte(*b.(*cemi.LBusmonInd)))
	case *cemi.UnsupportedMessage:
		y := b.(*cemi.UnsupportedMessage)
		return first(pr(diffVal("UnsupportedMessage.Code", x.Code, y.Code)), pr(diffBytes("UnsupportedMessage.Data", x.Data, y.Data)))
	case nil:
		return "", ""
	}
	return typeName(a), fmt.Sprintf("message of unexpected type %T", a)
}

func diffDevice(a, b *knxnet.DeviceInformationBlock) (string, string) {
	const t = "DeviceInformationBlock."
	return first(pr(diffVal(t+"Type", a.Type, b.Type)), pr(diffVal(t+"Medium", a.Medium, b.Medium)), pr(diffVal(t+"Status", a.Status, b.Status)),
		pr(diffVal(t+"Source", a.Source, b.Source)), pr(diffVal(t+"ProjectIdentifier", a.ProjectIdentifier, b.ProjectIdentifier)),
		pr(diffVal(t+"SerialNumber", a.SerialNumber, b.SerialNumber)), pr(diffVal(t+"RoutingMulticastAddress", a.RoutingMulticastAddress, b.RoutingMulticastAddress)),
		pr(diffBytes(t+"HardwareAddr", a.HardwareAddr, b.HardwareAddr)), pr(diffVal(t+"FriendlyName", a.FriendlyName, b.FriendlyName)))
}

func diffFamilies(a, b *knxnet.SupportedServicesDIB) (string, string) {
	const t = "SupportedServicesDIB."
	if w, d := diffVal(t+"Type", a.Type, b.Type); w != "" {
		return w, d
	}
	if len(a.Families) != len(b.Families) {
		return t + "Families", fmt.Sprintf("%sFamilies: %d families became %d", t, len(a.Families), len(b.Families))
	}
	for i := range a.Families {
		if a.Families[i] != b.Families[i] {
			return t + "Families", fmt.Sprintf("%sFamilies[%d]: %#v became %#v", t, i, a.Families[i], b.Families[i])
		}
	}
	return "", ""
}

func diffBlock(a, b *knxnet.DescriptionBlock) (string, string) {
	if w, d := diffDevice(&a.DeviceHardware, &b.DeviceHardware); w != "" {
		return w, d
	}
	if w, d := diffFamilies(&a.SupportedServices, &b.SupportedServices); w != "" {
		return w, d
	}
	const t = "DescriptionBlock.UnknownBlocks"
	if len(a.UnknownBlocks) != len(b.UnknownBlocks) {
		return t, fmt.Sprintf("%s: %d blocks became %d", t, len(a.UnknownBlocks), len(b.UnknownBlocks))
	}
	for i := range a.UnknownBlocks {
		if a.UnknownBlocks[i].Type != b.UnknownBlocks[i].Type || !bytes.Equal(a.UnknownBlocks[i].Data, b.UnknownBlocks[i].Data) {
			return t, fmt.Sprintf("%s[%d]: %#v became %#v", t, i, a.UnknownBlocks[i], b.UnknownBlocks[i])
		}
	}
	return "", ""
}

// diffService compares two decoded or constructed service values.
func diffService(a, b knxnet.Service) (where, detail string) {
	if reflect.TypeOf(a) != reflect.TypeOf(b) {
		return typeName(a), fmt.Sprintf("service %T became %T", a, b)
	}
	switch x := a.(type) {
	case *knxnet.SearchReq:
		return diffVal("SearchReq.HostInfo", x.HostInfo, b.(*knxnet.SearchReq).HostInfo)
	case *knxnet.DescriptionReq:
		return diffVal("DescriptionReq.HostInfo", x.HostInfo, b.(*knxnet.DescriptionReq).HostInfo)
	case *knxnet.SearchRes:
		y := b.(*knxnet.SearchRes)
		if w, d := diffVal("SearchRes.Control", x.Control, y.Control); w != "" {
			return w, d
		}
		return diffBlock(&x.DescriptionB, &y.DescriptionB)
	case *knxnet.DescriptionRes:
		return diffBlock((*knxnet.DescriptionBlock)(x), (*knxnet.DescriptionBlock)(b.(*knxnet.DescriptionRes)))
	case *knxnet.ConnReq:
		y := b.(*knxnet.ConnReq)
		return first(pr(diffVal("ConnReq.Control", x.Control, y.Control)), pr(diffVal("ConnReq.Tunnel", x.Tunnel, y.Tunnel)), pr(diffVal("ConnReq.Layer", x.Layer, y.Layer)))
	case *knxnet.ConnRes:
		y := b.(*knxnet.ConnRes)
		return first(pr(diffVal("ConnRes.Channel", x.Channel, y.Channel)), pr(diffVal("ConnRes.Status", x.Status, y.Status)), pr(diffVal("ConnRes.Control", x.Control, y.Control)))
	case *knxnet.ConnStateReq:
		y := b.(*knxnet.ConnStateReq)
		return first(pr(diffVal("ConnStateReq.Channel", x.Channel, y.Channel)), pr(diffVal("ConnStateReq.Status", x.Status, y.Status)), pr(diffVal("ConnStateReq.Control", x.Control, y.Control)))
	case *knxnet.ConnStateRes:
		y := b.(*knxnet.ConnStateRes)
		return first(pr(diffVal("ConnStateRes.Channel", x.Channel, y.Channel)), pr(diffVal("ConnStateRes.Status", x.Status, y.Status)))
	case *knxnet.DiscReq:
		y := b.(*knxnet.DiscReq)
		return first(pr(diffVal("DiscReq.Channel", x.Channel, y.Channel)), pr(diffVal("DiscReq.Status", x.Status, y.Status)), pr(diffVal("DiscReq.Control", x.Control, y.Control)))
	case *knxnet.DiscRes:
		y := b.(*knxnet.DiscRes)
		return first(pr(diffVal("DiscRes.Channel", x.Channel, y.Channel)), pr(diffVal("DiscRes.Status", x.Status, y.Status)))
	case *knxnet.TunnelReq:
		y := b.(*knxnet.TunnelReq)
		if w, d := first(pr(diffVal("TunnelReq.Channel", x.Channel, y.Channel)), pr(diffVal("TunnelReq.SeqNumber", x.SeqNumber, y.SeqNumber))); w != "" {
			return w, d
		}
		return diffMessage(x.Payload, y.Payload)
	case *knxnet.TunnelRes:
		y := b.(*knxnet.TunnelRes)
		return first(pr(diffVal("TunnelRes.Channel", x.Channel, y.Channel)), pr(diffVal("TunnelRes.SeqNumber", x.SeqNumber, y.SeqNumber)), pr(diffVal("TunnelRes.Status", x.Status, y.Status)))
	case *knxnet.RoutingInd:
		return diffMessage(x.Payload, b.(*knxnet.RoutingInd).Payload)
	case *knxnet.RoutingLost:
		return diffVal("RoutingLost", *x, *b.(*knxnet.RoutingLost))
	case *knxnet.RoutingBusy:
		return diffVal("RoutingBusy", *x, *b.(*knxnet.RoutingBusy))
	case *knxnet.UnknownService:
		y := b.(*knxnet.UnknownService)
		return first(pr(diffVal("UnknownService.Service", x.Service(), y.Service())), pr(diffBytes("UnknownService.Data", x.Data, y.Data)))
	}
	return typeName(a), fmt.Sprintf("service of unexpected type %T", a)
}
