//go:build verif

package codec

import (
	"bytes"
	"encoding/json"
	"fmt"
	"runtime/debug"
	"strings"

	"github.com/vapourismo/knx-go/knx/knxnet"

	"verifh/enum/enumlib"
	"verifh/enum/refenc"
)

func init() {
	enumlib.Register(&enumlib.Check{
		Prop:   "C15",
		Run:    runC15,
		Replay: replayC15,
		Rule: "every space is enumerated completely in index order (index % shards), no sampling. Values: (a) every value of the first half of C02 in the same tier (same spaces, same order); " +
			"(b) the sub-structures on their own - HostInfo, DeviceInformationBlock, SupportedServicesDIB, ServiceFamily, cemi.Info, AppData, ControlData, LData, the cEMI message through cemi.Size/cemi.Pack, LRaw, LBusmonInd, UnsupportedMessage - over single-field full ranges, boundary products and all lengths; " +
			"(c) oversize and degenerate variable parts in every carrier and on their own: additional info of every length 256..600, application data of every length 256..600 and of length 0, joint oversize info x data, names of every length 30..80 over ASCII / ISO 8859-1 high half / mixed, names of every length 1..80 containing a character outside ISO 8859-1. " +
			"'Reported size' is knxnet.Size(service) = 6 + service.Size() for a service (the whole frame, encoded by knxnet.Pack), cemi.Size(message) = 1 + message.Size() for a message encoded by cemi.Pack, x.Size() for any other structure encoded by x.Pack. " +
			"Each value is encoded into three buffers of size+16 octets pre-filled with 00, with FF and with the pattern 37*i+11, and into a fresh buffer of exactly size octets. " +
			"Oracle: no panic; the 16 trailing octets keep their pre-fill; the first size octets are identical in all four buffers; for services the header's total-length field = service.Size()+6 = knxnet.Size(service) = len(knxnet.AllocAndPack(service)) and AllocAndPack returns the same octets " +
			"(TunnelSocket.Send and RouterSocket.Send hand exactly make([]byte, Size(p)) filled by Pack to the connection); with an oversize part the encoding parses with the strict reference parser refenc.Parse and shows the part cut to 255 info octets / 255 data octets / 29 name octets + NUL. " +
			"A stale octet is attributed to the encoder that owns its offset in the reference layout, an overrun to the encoder of the trailing component. " +
			"distinct_nontrivial counts the values whose four encodings all completed and were compared and that no other case of any space produces (same distinctness rule as C02).",
		Assume: []string{
			"a byte whose final value is the same after pre-fills 00, FF and 37*i+11 is taken to be determined by the encoder (each bit is seen with both prior values and with a neighbour-dependent prior value)",
			"the offset -> encoder attribution uses the layouts of DESIGN Appendix C (refenc), not the library's Size() results",
			"the datagram handed to the network is knxnet.AllocAndPack's result: socket.go's Send methods allocate Size(payload) octets, call Pack and write that buffer (read from the source; the socket path itself is exercised by C16)",
			"names ISO 8859-1 cannot express have no specified encoding; for them only the generic clauses (no panic, guards, determinism, header length) are judged and how the library renders them is tallied under non_latin1_name_rendering",
			"domain: HardwareAddr has 6 octets, names carry no trailing NUL, at most 126 service families; everything else a Val can describe is encoded and judged",
		},
	})
}

type c15Input struct {
	Op    string `json:"op"` // "pack"
	Value *Val   `json:"value"`
}

var fillNames = [3]string{"00", "FF", "37*i+11"}

func fillAt(k, i int) byte {
	switch k {
	case 0:
		return 0x00
	case 1:
		return 0xFF
	}
	return byte(i*37 + 11)
}

func grow(b []byte, n int) []byte {
	if cap(b) < n {
		return make([]byte, n, n+n/2+64)
	}
	return b[:n]
}

func firstDiff(a, b []byte) int {
	for i := range a {
		if i >= len(b) || a[i] != b[i] {
			return i
		}
	}
	if len(b) > len(a) {
		return len(a)
	}
	return -1
}

type packOutcome struct {
	inDomain bool
	reason   string
	compared bool
	fs       []finding
	note     string // tally key for things that are reported, not judged
}

const guardLen = 16

// judgePack encodes one value four ways and applies the oracle of C15.
func judgePack(v *Val, bufs *[4][]byte) (o packOutcome) {
	ok, why := v.domainC15()
	if !ok {
		o.reason = why
		return
	}
	o.inDomain = true
	add := func(class, format string, a ...interface{}) {
		o.fs = append(o.fs, finding{"C15:" + class, fmt.Sprintf(format, a...)})
	}
	p, _ := v.packerOf()
	var size uint
	if pn, msg, site := guard(func() { size = p.size() }); pn {
		add("panic:"+site, "Size of a %s value panicked in %s: %s", v.label(), site, msg)
		return
	}
	n := int(size)
	if n < 0 || n > 1<<20 {
		add("size-absurd:"+v.outer(), "a %s value reports size %d", v.label(), size)
		return
	}
	overrun := false
	for k := 0; k < 3; k++ {
		b := grow(bufs[k], n+guardLen)
		bufs[k] = b
		for i := range b {
			b[i] = fillAt(k, i)
		}
		if pn, msg, site := guard(func() { p.pack(b) }); pn {
			add("panic:"+site, "encoding a %s value into a buffer of Size()+%d = %d octets panicked in %s: %s", v.label(), guardLen, len(b), site, msg)
			return
		}
		if !overrun {
			for i := n; i < len(b); i++ {
				if b[i] != fillAt(k, i) {
					overrun = true
					add("overrun:"+v.trailingOwner(), "encoding a %s value (reported size %d) changed the octet at offset %d, beyond its size: %#02x -> %#02x (pre-fill %s)", v.label(), n, i, fillAt(k, i), b[i], fillNames[k])
					break
				}
			}
		}
	}
	// every encoder that owns an octet whose value depends on the pre-fill is reported once
	if !bytes.Equal(bufs[0][:n], bufs[1][:n]) || !bytes.Equal(bufs[0][:n], bufs[2][:n]) {
		var owners []string
		for d := 0; d < n; d++ {
			k := 0
			if bufs[1][d] != bufs[0][d] {
				k = 1
			} else if bufs[2][d] != bufs[0][d] {
				k = 2
			}
			if k == 0 {
				continue
			}
			ow := v.ownerOf(d)
			dup := false
			for _, x := range owners {
				dup = dup || x == ow
			}
			if dup {
				continue
			}
			owners = append(owners, ow)
			add("stale-byte:"+ow, "the octet at offset %d of an encoded %s value (reported size %d) depends on what the buffer held before: %#02x after pre-fill 00, %#02x after pre-fill %s", d, v.label(), n, bufs[0][d], bufs[k][d], fillNames[k])
		}
	}
	ex := grow(bufs[3], n)
	bufs[3] = ex
	ex = ex[:n:n]
	for i := range ex {
		ex[i] = 0
	}
	if pn, msg, site := guard(func() { p.pack(ex) }); pn {
		add("panic-in-exact-size-buffer:"+site, "encoding a %s value into a buffer of exactly its reported size %d panicked in %s: %s", v.label(), n, site, msg)
		return
	}
	o.compared = true
	if d := firstDiff(bufs[0][:n], ex); d >= 0 {
		add("exact-size-differs:"+v.ownerOf(d), "the octet at offset %d of an encoded %s value differs between a buffer of exactly the reported size %d and a longer zeroed one: %#02x vs %#02x", d, v.label(), n, ex[d], bufs[0][d])
	}
	enc := bufs[0][:n]
	if v.isService() {
		srv := v.service()
		var body uint
		if pn, msg, site := guard(func() { body = srv.Size() }); pn {
			add("panic:"+site, "Size of a %s value panicked in %s: %s", v.label(), site, msg)
			return
		}
		if n != int(body)+6 {
			add("frame-size:"+v.Kind, "knxnet.Size = %d but service.Size()+6 = %d", n, body+6)
		}
		if n >= 6 {
			if total := int(enc[4])<<8 | int(enc[5]); total != int(body)+6 {
				add("header-length:"+v.Kind, "the header's total-length field of an encoded %s value is %d, service.Size()+6 is %d", v.label(), total, body+6)
			}
		}
		var dg []byte
		if pn, msg, site := guard(func() { dg = knxnet.AllocAndPack(srv) }); pn {
			add("panic:"+site, "AllocAndPack of a %s value panicked in %s: %s", v.label(), site, msg)
			return
		}
		if len(dg) != int(body)+6 {
			add("datagram-length:"+v.Kind, "AllocAndPack returns %d octets for a %s value whose service.Size()+6 is %d", len(dg), v.label(), body+6)
		} else if d := firstDiff(dg, enc); d >= 0 {
			add("datagram-differs:"+v.ownerOf(d), "AllocAndPack and Pack disagree at offset %d of a %s value", d, v.label())
		}
	}
	if parts := v.oversize(); len(parts) > 0 {
		if f := checkTruncation(v, parts, enc); f != nil {
			o.fs = append(o.fs, *f)
		}
	} else if v.hasDevice() {
		if _, latin := refenc.Latin1(v.Name); !latin {
			o.note = "non_latin1_name_rendering:" + nameRendering(v, enc)
		}
	}
	return
}

// parsed extracts, with the strict reference parser, the parts of an encoding that can be oversize.
type parsedParts struct {
	info, data []byte
	name       []byte
	nameField  []byte
}

func parseParts(v *Val, enc []byte) (pp parsedParts, err error) {
	fromCEMI := func(c *refenc.CEMI) {
		if c != nil {
			pp.info = c.Info
			if c.TPDU != nil {
				pp.data = c.TPDU.Data
			}
		}
	}
	fromDIBs := func(ds []refenc.DIB) {
		for _, d := range ds {
			if d.Device != nil {
				pp.name, pp.nameField = d.Device.Name, d.Device.NameField[:]
				return
			}
		}
	}
	switch {
	case v.isService():
		var p *refenc.Parsed
		if p, err = refenc.Parse(enc); err == nil {
			fromCEMI(p.CEMI)
			fromDIBs(p.DIBs)
		}
	case v.Kind == "Message":
		var c *refenc.CEMI
		if c, _, err = refenc.ParseCEMI(enc); err == nil {
			fromCEMI(c)
		}
	case v.Kind == "LData":
		var c *refenc.CEMI
		if c, _, err = refenc.ParseCEMI(append([]byte{refenc.LDataReq}, enc...)); err == nil {
			fromCEMI(c)
		}
	case v.Kind == "AppData":
		var t *refenc.TPDU
		if t, _, err = refenc.ParseTPDU(enc); err == nil {
			pp.data = t.Data
		}
	case v.Kind == "Info":
		if len(enc) < 1 || int(enc[0]) != len(enc)-1 {
			err = fmt.Errorf("additional info: length octet %v for %d octets", enc[:1], len(enc)-1)
		} else {
			pp.info = enc[1:]
		}
	case v.Kind == "DeviceInformationBlock":
		var p *refenc.Parsed
		if p, err = refenc.Parse(refenc.DescrRes(enc)); err == nil {
			fromDIBs(p.DIBs)
		}
	}
	return
}

func checkTruncation(v *Val, parts []string, enc []byte) *finding {
	tag := strings.Join(parts, "+")
	pp, err := parseParts(v, enc)
	if err != nil {
		return &finding{"C15:oversize-unparsable:" + tag, fmt.Sprintf("the encoding of a %s value with oversize %s does not parse with the reference parser: %v", v.label(), tag, err)}
	}
	for _, part := range parts {
		var want, got []byte
		switch part {
		case "info":
			want, got = v.Info[:255], pp.info
		case "data":
			want = append([]byte(nil), v.Data[:255]...)
			want[0] &= 0x3F
			got = pp.data
		case "name":
			l1, _ := refenc.Latin1(v.Name)
			want, got = l1[:29], pp.name
			if len(pp.nameField) == 30 && pp.nameField[29] != 0 {
				return &finding{"C15:oversize-not-truncated:name", fmt.Sprintf("a %d-character name fills the 30-octet field of a %s value without the terminating NUL", runeLen(v.Name), v.label())}
			}
		}
		if !bytes.Equal(want, got) {
			return &finding{"C15:oversize-not-truncated:" + part, fmt.Sprintf("oversize %s of a %s value is not cut to the field limit: expected %d octets % x.., the encoding carries %d octets % x..", part, v.label(), len(want), clip(want), len(got), clip(got))}
		}
	}
	return nil
}

func nameRendering(v *Val, enc []byte) string {
	pp, err := parseParts(v, enc)
	switch {
	case err != nil:
		return "encoding-does-not-parse"
	case len(pp.name) == 0:
		return "empty-name"
	}
	return "some-octets"
}

func packTest(v *Val) string {
	size, pack := "v.Size()", "v.Pack(%s)"
	switch {
	case v.isService():
		size, pack = "knxnet.Size(v)", "knxnet.Pack(%s, v)"
	case v.Kind == "Message":
		size, pack = "cemi.Size(v)", "cemi.Pack(%s, v)"
	}
	return testImports + fmt.Sprintf(`func TestC15Pack(t *testing.T) {
	v := %s
	n := int(%s)
	zero, ones := make([]byte, n+16), bytes.Repeat([]byte{0xFF}, n+16)
	%s // a panic here is the finding
	%s
	if !bytes.Equal(zero[:n], ones[:n]) {
		t.Errorf("octets inside the reported size %%d depend on the previous buffer content:\n%% x\n%% x", n, zero[:n], ones[:n])
	}
	if !bytes.Equal(zero[n:], make([]byte, 16)) {
		t.Errorf("wrote beyond the reported size %%d: %% x", n, zero[n:])
	}
}
`, v.goExpr(), size, fmt.Sprintf(pack, "zero"), fmt.Sprintf(pack, "ones"))
}

// ---------------------------------------------------------------------------------------------
// spaces of C15 beyond the C02 values

func kindVals(kind string, n int, mk func(i int, v *Val)) []Val {
	out := make([]Val, n)
	for i := range out {
		out[i].Kind = kind
		mk(i, &out[i])
	}
	return out
}

func inDomainOnly(vs []Val) []Val {
	var out []Val
	for i := range vs {
		if !vs[i].Numbered && vs[i].TSeq != 0 || vs[i].Unit == "ctl" && vs[i].Cmd > 3 {
			continue
		}
		out = append(out, vs[i])
	}
	return out
}

func c15Spaces(thorough bool) []*space {
	var out []*space
	for _, sh := range subShapes() {
		out = append(out, shapeSpaces(sh, thorough)...)
	}
	ldKinds := []string{"TunnelReq", "RoutingInd", "Message", "LData"}
	devKinds := []Val{withDevice(baseSvc("SearchRes")), withDevice(baseSvc("DescriptionRes")), withDevice(Val{Kind: "DeviceInformationBlock"})}
	var units []Val
	for _, data := range []hexb{nil, {0x15}, {0x2A, 0x80}} {
		for _, v := range inDomainOnly(tpciValues([]Val{{Kind: "AppData"}}, data)) {
			if v.Unit == "ctl" {
				if data != nil {
					continue
				}
				v.Kind = "ControlData"
			}
			units = append(units, v)
		}
	}
	fam := &space{name: "sub/ServiceFamily", note: "ServiceFamily: complete product type 0..255 x version 0..255"}
	fam.add(freshAll, false, variantDim([]Val{{Kind: "ServiceFamily"}}),
		dim{"family", 256, func(v *Val, k int64) { v.Fams = hexb{byte(k), 0} }, -1},
		dim{"version", 256, func(v *Val, k int64) { v.Fams = hexb{v.Fams[0], byte(k)} }, -1})
	out = append(out, fam)
	subLd := ldBases("Message", "LData")
	var joint []Val
	for _, b := range ldBases(ldKinds...) {
		for _, il := range []int{255, 256, 257, 600} {
			for _, dl := range []int{0, 254, 255, 256, 257, 600} {
				if il == 255 && dl < 256 && dl > 0 {
					continue // not oversize and no degenerate part
				}
				v := withLData(b, b.Msg, "app")
				v.Info, v.Data = pattern(il, 11, 0x03), appPayload(dl, 0x3F)
				joint = append(joint, v)
			}
		}
	}
	out = append(out,
		listSpace("sub/transport-units", "AppData: every in-domain combination APCI 0..15 x (unnumbered | numbered x sequence 0..15) x data {empty, 15, 2A 80}; ControlData: code 0..3 x (unnumbered | numbered x sequence 0..15)", units),
		listSpace("sub/AppData-length", "AppData on its own x data of every length 0..600 x first octet {00,01,3F} (length 0 repeats a value of sub/transport-units and is not counted as distinct)", appLengthValues([]Val{{Kind: "AppData"}}, 1, 600, []byte{0, 1, 0x3F}), appLengthValues([]Val{{Kind: "AppData"}}, 0, 0, []byte{0})...),
		listSpace("sub/Info-length", "cemi.Info on its own x every length 0..600", kindVals("Info", 601, func(i int, v *Val) { v.Info = pattern(i, 11, 0x03) })),
		listSpace("sub/SupportedServicesDIB", "SupportedServicesDIB on its own x every family count 0..20", kindVals("SupportedServicesDIB", 21, func(i int, v *Val) { v.FamType, v.Fams = 2, famBytes(i) })),
		listSpace("sub/raw-bodies", "LRaw, LBusmonInd, UnsupportedMessage on their own and the five raw message kinds through cemi.Pack x body of every length 0..300",
			append(rawLengthValues([]Val{{Kind: "LRaw"}, {Kind: "LBusmonInd"}, {Kind: "UnsupportedMessage", Code: 0x13}}, 0, 300), rawLengthValues(rawBases("Message"), 0, 300)...)),
		listSpace("sub/tpci-apci", "cemi.Pack of L_Data.req/con/ind and LData.Pack x every in-domain TPCI/APCI combination", inDomainOnly(tpciValues(subLd, hexb{0x15}))),
		listSpace("sub/L_Data-lengths", "cemi.Pack of L_Data.req/con/ind and LData.Pack x application data of every length 1..254 x first octet {00,01,3F}, and x additional info of every length 1..255 x application/control unit",
			append(appLengthValues(subLd, 1, 254, []byte{0, 1, 0x3F}), infoLengthValues(subLd, 1, 255)...)),
		listSpace("oversize/additional-info", "TunnelReq, RoutingInd, cemi.Pack (L_Data.req/con/ind each) and LData.Pack x application/control unit x additional info of every length 256..600", infoLengthValues(ldBases(ldKinds...), 256, 600)),
		listSpace("oversize/application-data", "TunnelReq, RoutingInd, cemi.Pack (L_Data.req/con/ind each) and LData.Pack x application data of every length 255..600 x first octet {00,01,3F}", appLengthValues(ldBases(ldKinds...), 255, 600, []byte{0, 1, 0x3F})),
		listSpace("degenerate/empty-application-data", "TunnelReq, RoutingInd, cemi.Pack (L_Data.req/con/ind each) and LData.Pack x empty application data x every in-domain TPCI/APCI combination of an application unit", appOnly(inDomainOnly(tpciValues(ldBases(ldKinds...), nil)))),
		listSpace("oversize/joint-info-x-data", "the same carriers x additional info length {255,256,257,600} x application data length {0,254,255,256,257,600} (combinations with at least one oversize or empty part)", joint),
		listSpace("oversize/friendly-name", "SearchRes, DescriptionRes and DeviceInformationBlock on its own x name of every length 30..80 x {ASCII, ISO 8859-1 high half, mixed}", nameLengthValues(devKinds, 30, 80)),
		listSpace("oversize/friendly-name-one-two-octet-character", "DeviceInformationBlock on its own x ASCII name of every length 30..80 with one two-octet (UTF-8) ISO 8859-1 character at every position", oneHighCharNameValues(devKinds[2:], 30, 80)),
		listSpace("non-latin1/friendly-name", "SearchRes, DescriptionRes and DeviceInformationBlock on its own x name of every length 1..80 with one character outside ISO 8859-1 at the first, middle or last position", nonLatinNameValues(devKinds, 80)),
		listSpace("search-response-with-further-blocks", "SearchRes x every sequence of 0..3 further description blocks over five shapes (no encoder exists for them: dropped or not, the size must equal the octets written)", searchResBlockValues()),
		listSpace("description-response-with-data-less-blocks", "DescriptionRes x every sequence of 1..3 further description blocks (six shapes) that contains a block without data (size 2; the decoder drops such a block, so these values are outside C02's round trip)", dataLessBlockValues()),
		listSpace("sub/DeviceInformationBlock-names", "DeviceInformationBlock on its own x name of every length 0..29 x {ASCII, ISO 8859-1 high half, mixed}", nameLengthValues(devKinds[2:], 0, 29)),
	)
	return out
}

func appOnly(vs []Val) []Val {
	var out []Val
	for i := range vs {
		if vs[i].Unit != "ctl" {
			out = append(out, vs[i])
		}
	}
	return out
}

// ---------------------------------------------------------------------------------------------
// Run / Replay

func runC15(r *enumlib.Run) {
	// the live heap is a few megabytes and every case allocates: collect less often
	defer debug.SetGCPercent(debug.SetGCPercent(800))
	c := newCollector()
	shared := c02Spaces(r.Thorough())
	spaces := append(shared, c15Spaces(r.Thorough())...)
	for ord, s := range spaces {
		fromC02 := ord < len(shared)
		s.name = "pack/" + s.name
		runSpace(r, c, ord, s, func(l *local, ord int, idx int64, v *Val, fresh bool) (bool, bool) {
			// the C02 spaces contain a few combinations without a wire representation; they are no C02 values
			if fromC02 {
				if ok, why := v.domainC02(); !ok {
					l.tally["outside_domain:"+why]++
					return false, false
				}
			}
			o := judgePack(v, &l.bufs)
			if !o.inDomain {
				l.tally["outside_domain:"+o.reason]++
				return false, false
			}
			if o.note != "" {
				l.tally[o.note]++
			}
			for _, f := range o.fs {
				vc := *v
				l.report(f, ord, idx, func() interface{} { return c15Input{Op: "pack", Value: &vc} }, func() string { return packTest(&vc) })
			}
			return true, o.compared && fresh
		})
	}
	c.flush(r)
	publishTallies(r, c)
}

func replayC15(class string, raw json.RawMessage) (string, bool) {
	var in c15Input
	if err := json.Unmarshal(raw, &in); err != nil {
		return "cannot decode input: " + err.Error(), false
	}
	if in.Value == nil {
		return "no value", false
	}
	var bufs [4][]byte
	o := judgePack(in.Value, &bufs)
	desc := "pack " + in.Value.goExpr()
	if !o.inDomain {
		return desc + "\noutside the domain of the property: " + o.reason, false
	}
	if len(o.fs) == 0 {
		return desc + "\nencoder writes exactly its reported size, independent of the buffer content", false
	}
	bad := false
	for _, f := range o.fs {
		desc += "\n" + f.class + ": " + f.msg
		if f.class == class || class == "" {
			bad = true
		}
	}
	if !bad {
		desc += "\n(the stored class " + class + " is not among them)"
	}
	return desc, bad
}
