//go:build verif

package codec

import (
	"encoding/hex"
	"encoding/json"
	"fmt"
	"net"
	"strings"

	"github.com/vapourismo/knx-go/knx/cemi"
	"github.com/vapourismo/knx-go/knx/knxnet"

	"verifh/enum/refenc"
)

// hexb is a byte slice that is written to JSON as a hex string.
type hexb []byte

func (h hexb) MarshalJSON() ([]byte, error) { return json.Marshal(hex.EncodeToString(h)) }
func (h *hexb) UnmarshalJSON(b []byte) error {
	var s string
	if err := json.Unmarshal(b, &s); err != nil {
		return err
	}
	d, err := hex.DecodeString(s)
	*h = d
	return err
}

// Host describes a knxnet.HostInfo.
type Host struct {
	Proto uint8   `json:"proto"`
	Addr  [4]byte `json:"addr"`
	Port  uint16  `json:"port"`
}

// Val is the JSON-able description of one library value: a service (Kind = the Go type name in
// package knxnet) or, for C15, a sub-structure (Kind = HostInfo, DeviceInformationBlock,
// SupportedServicesDIB, ServiceFamily, Info, AppData, ControlData, LData, Message, LRaw,
// LBusmonInd, UnsupportedMessage). Only the members the kind uses are meaningful.
type Val struct {
	Kind    string `json:"kind"`
	Channel uint8  `json:"channel,omitempty"`
	SeqNo   uint8  `json:"seq_number,omitempty"`
	Status  uint8  `json:"status,omitempty"`
	Layer   uint8  `json:"layer,omitempty"`
	H1      Host   `json:"host"`            // HostInfo / Control
	H2      Host   `json:"host2,omitempty"` // ConnReq.Tunnel

	// cEMI message (TunnelReq, RoutingInd, Message, LData, ...)
	Msg      string `json:"msg,omitempty"`  // LDataReq LDataCon LDataInd LRawReq LRawCon LRawInd LBusmonInd Unsupported
	Code     uint8  `json:"code,omitempty"` // message code of an Unsupported message
	Raw      hexb   `json:"raw,omitempty"`  // body of L_Raw / L_Busmon / unsupported
	Info     hexb   `json:"info,omitempty"`
	C1       uint8  `json:"ctrl1,omitempty"`
	C2       uint8  `json:"ctrl2,omitempty"`
	Src      uint16 `json:"src,omitempty"`
	Dst      uint16 `json:"dst,omitempty"`
	Unit     string `json:"unit,omitempty"` // "app" | "ctl"
	Numbered bool   `json:"numbered,omitempty"`
	TSeq     uint8  `json:"tpci_seq,omitempty"`
	Cmd      uint8  `json:"cmd,omitempty"` // APCI of an application unit, control code of a control unit
	Data     hexb   `json:"data,omitempty"`

	// description blocks (SearchRes, DescriptionRes, DeviceInformationBlock, SupportedServicesDIB, ServiceFamily)
	DevType   uint8   `json:"dev_type,omitempty"`
	Medium    uint8   `json:"medium,omitempty"`
	DevStatus uint8   `json:"dev_status,omitempty"`
	Source    uint16  `json:"source,omitempty"`
	Project   uint16  `json:"project,omitempty"`
	Serial    [6]byte `json:"serial"`
	Mcast     [4]byte `json:"mcast"`
	MAC       [6]byte `json:"mac"`
	Name      string  `json:"name,omitempty"`
	FamType   uint8   `json:"fam_type,omitempty"`
	Fams      hexb    `json:"families,omitempty"` // (family, version) pairs
	Blocks    []Blk   `json:"blocks,omitempty"`   // further description blocks of a DescriptionRes
}

// Blk is one further description block (type octet + data).
type Blk struct {
	Type uint8 `json:"type"`
	Data hexb  `json:"data"`
}

// MarshalJSON writes only the members the kind uses (all of them, also when zero).
func (v Val) MarshalJSON() ([]byte, error) {
	m := map[string]interface{}{"kind": v.Kind}
	in := func(k string, list ...string) bool {
		for _, x := range list {
			if x == k {
				return true
			}
		}
		return false
	}
	if in(v.Kind, "ConnRes", "ConnStateReq", "ConnStateRes", "DiscReq", "DiscRes", "TunnelReq", "TunnelRes") {
		m["channel"] = v.Channel
	}
	if in(v.Kind, "TunnelReq", "TunnelRes") {
		m["seq_number"] = v.SeqNo
	}
	if in(v.Kind, "ConnRes", "ConnStateReq", "ConnStateRes", "DiscReq", "DiscRes", "TunnelRes") {
		m["status"] = v.Status
	}
	if in(v.Kind, "SearchReq", "DescriptionReq", "SearchRes", "ConnReq", "ConnRes", "ConnStateReq", "DiscReq", "HostInfo") {
		m["host"] = v.H1
	}
	if v.Kind == "ConnReq" {
		m["host2"], m["layer"] = v.H2, v.Layer
	}
	raw := in(v.Kind, "LRaw", "LBusmonInd", "UnsupportedMessage")
	if v.carriesMessage() {
		m["msg"] = v.Msg
		raw = !v.isLData()
	}
	if raw {
		m["raw"] = v.Raw
		if v.Msg == "Unsupported" || v.Kind == "UnsupportedMessage" {
			m["code"] = v.Code
		}
	}
	if v.hasInfo() {
		m["info"] = v.Info
	}
	if v.hasLData() {
		m["ctrl1"], m["ctrl2"], m["src"], m["dst"] = v.C1, v.C2, v.Src, v.Dst
	}
	if v.hasUnit() {
		m["unit"], m["numbered"], m["tpci_seq"], m["cmd"] = v.Unit, v.Numbered, v.TSeq, v.Cmd
		if v.Unit != "ctl" {
			m["data"] = v.Data
		}
	}
	if v.hasDevice() {
		m["dev_type"], m["medium"], m["dev_status"], m["source"], m["project"] = v.DevType, v.Medium, v.DevStatus, v.Source, v.Project
		m["serial"], m["mcast"], m["mac"], m["name"] = v.Serial, v.Mcast, v.MAC, v.Name
	}
	if v.hasFamilies() {
		m["fam_type"] = v.FamType
	}
	if v.hasFamilies() || v.Kind == "ServiceFamily" {
		m["families"] = v.Fams
	}
	if (v.Kind == "DescriptionRes" || v.Kind == "SearchRes") && len(v.Blocks) > 0 {
		m["blocks"] = v.Blocks
	}
	return json.Marshal(m)
}

var serviceKinds = map[string]uint16{
	"SearchReq": refenc.SearchReqID, "SearchRes": refenc.SearchResID, "DescriptionReq": refenc.DescrReqID, "DescriptionRes": refenc.DescrResID,
	"ConnReq": refenc.ConnReqID, "ConnRes": refenc.ConnResID, "ConnStateReq": refenc.ConnStateReqID, "ConnStateRes": refenc.ConnStateResID,
	"DiscReq": refenc.DiscReqID, "DiscRes": refenc.DiscResID, "TunnelReq": refenc.TunnelReqID, "TunnelRes": refenc.TunnelAckID, "RoutingInd": refenc.RoutingIndID,
}

func (v *Val) isService() bool {
	switch v.Kind {
	case "SearchReq", "SearchRes", "DescriptionReq", "DescriptionRes", "ConnReq", "ConnRes", "ConnStateReq", "ConnStateRes",
		"DiscReq", "DiscRes", "TunnelReq", "TunnelRes", "RoutingInd":
		return true
	}
	return false
}

func (v *Val) validMsg() bool {
	switch v.Msg {
	case "LDataReq", "LDataCon", "LDataInd", "LRawReq", "LRawCon", "LRawInd", "LBusmonInd", "Unsupported":
		return true
	}
	return false
}

func (v *Val) carriesMessage() bool {
	return v.Kind == "TunnelReq" || v.Kind == "RoutingInd" || v.Kind == "Message"
}

func (v *Val) isLData() bool {
	return v.Msg == "LDataReq" || v.Msg == "LDataCon" || v.Msg == "LDataInd"
}

func (v *Val) hasLData() bool { return v.Kind == "LData" || (v.carriesMessage() && v.isLData()) }

func (v *Val) hasUnit() bool {
	return v.hasLData() || v.Kind == "AppData" || v.Kind == "ControlData"
}

func (v *Val) hasInfo() bool { return v.hasLData() || v.Kind == "Info" }

func (v *Val) hasDevice() bool {
	return v.Kind == "SearchRes" || v.Kind == "DescriptionRes" || v.Kind == "DeviceInformationBlock"
}

func (v *Val) hasFamilies() bool {
	return v.Kind == "SearchRes" || v.Kind == "DescriptionRes" || v.Kind == "SupportedServicesDIB"
}

// ---------------------------------------------------------------------------------------------
// building library values

func host(h Host) knxnet.HostInfo {
	return knxnet.HostInfo{Protocol: knxnet.Protocol(h.Proto), Address: knxnet.Address(h.Addr), Port: knxnet.Port(h.Port)}
}

func (v *Val) unit() cemi.TransportUnit {
	if v.Unit == "ctl" {
		return &cemi.ControlData{Numbered: v.Numbered, SeqNumber: v.TSeq, Command: v.Cmd}
	}
	return &cemi.AppData{Numbered: v.Numbered, SeqNumber: v.TSeq, Command: cemi.APCI(v.Cmd), Data: []byte(v.Data)}
}

func (v *Val) ldata() cemi.LData {
	return cemi.LData{Info: cemi.Info(v.Info), Control1: cemi.ControlField1(v.C1), Control2: cemi.ControlField2(v.C2),
		Source: cemi.IndividualAddr(v.Src), Destination: v.Dst, Data: v.unit()}
}

// message builds the cEMI message in the pointer form the decoder produces.
func (v *Val) message() cemi.Message {
	switch v.Msg {
	case "LDataReq":
		return &cemi.LDataReq{LData: v.ldata()}
	case "LDataCon":
		return &cemi.LDataCon{LData: v.ldata()}
	case "LDataInd":
		return &cemi.LDataInd{LData: v.ldata()}
	case "LRawReq":
		return &cemi.LRawReq{LRaw: cemi.LRaw(v.Raw)}
	case "LRawCon":
		return &cemi.LRawCon{LRaw: cemi.LRaw(v.Raw)}
	case "LRawInd":
		return &cemi.LRawInd{LRaw: cemi.LRaw(v.Raw)}
	case "LBusmonInd":
		m := cemi.LBusmonInd(v.Raw)
		return &m
	case "Unsupported":
		return &cemi.UnsupportedMessage{Code: cemi.MessageCode(v.Code), Data: []byte(v.Raw)}
	}
	return nil
}

func (v *Val) device() knxnet.DeviceInformationBlock {
	mac := v.MAC
	return knxnet.DeviceInformationBlock{
		Type: knxnet.DescriptionType(v.DevType), Medium: knxnet.KNXMedium(v.Medium), Status: knxnet.DeviceStatus(v.DevStatus),
		Source: cemi.IndividualAddr(v.Source), ProjectIdentifier: knxnet.ProjectInstallationIdentifier(v.Project),
		SerialNumber: knxnet.DeviceSerialNumber(v.Serial), RoutingMulticastAddress: knxnet.Address(v.Mcast),
		HardwareAddr: net.HardwareAddr(mac[:]), FriendlyName: v.Name,
	}
}

func (v *Val) blocks() []knxnet.UnknownDescriptionBlock {
	var out []knxnet.UnknownDescriptionBlock
	for _, b := range v.Blocks {
		out = append(out, knxnet.UnknownDescriptionBlock{Type: knxnet.DescriptionType(b.Type), Data: append([]byte(nil), b.Data...)})
	}
	return out
}

func (v *Val) blockSegs() []seg {
	var s []seg
	off := 0
	for _, b := range v.Blocks {
		s = append(s, seg{"UnknownDescriptionBlock.Pack", off, off + 2 + len(b.Data)})
		off += 2 + len(b.Data)
	}
	return s
}

func (v *Val) goBlocks() string {
	if len(v.Blocks) == 0 {
		return ""
	}
	var p []string
	for _, b := range v.Blocks {
		p = append(p, fmt.Sprintf("{Type: 0x%02x, Data: %s}", b.Type, goBytes(b.Data)))
	}
	return ", UnknownBlocks: []knxnet.UnknownDescriptionBlock{" + strings.Join(p, ", ") + "}"
}

func (v *Val) families() knxnet.SupportedServicesDIB {
	s := knxnet.SupportedServicesDIB{Type: knxnet.DescriptionType(v.FamType)}
	for i := 0; i+1 < len(v.Fams); i += 2 {
		s.Families = append(s.Families, knxnet.ServiceFamily{Type: knxnet.ServiceFamilyType(v.Fams[i]), Version: v.Fams[i+1]})
	}
	return s
}

// service builds the service value (pointer form) or nil when Kind is not a service.
func (v *Val) service() knxnet.ServicePackable {
	switch v.Kind {
	case "SearchReq":
		return &knxnet.SearchReq{HostInfo: host(v.H1)}
	case "DescriptionReq":
		return &knxnet.DescriptionReq{HostInfo: host(v.H1)}
	case "SearchRes":
		return &knxnet.SearchRes{Control: host(v.H1), DescriptionB: knxnet.DescriptionBlock{DeviceHardware: v.device(), SupportedServices: v.families(), UnknownBlocks: v.blocks()}}
	case "DescriptionRes":
		return &knxnet.DescriptionRes{DeviceHardware: v.device(), SupportedServices: v.families(), UnknownBlocks: v.blocks()}
	case "ConnReq":
		return &knxnet.ConnReq{Control: host(v.H1), Tunnel: host(v.H2), Layer: knxnet.TunnelLayer(v.Layer)}
	case "ConnRes":
		return &knxnet.ConnRes{Channel: v.Channel, Status: knxnet.ErrCode(v.Status), Control: host(v.H1)}
	case "ConnStateReq":
		return &knxnet.ConnStateReq{Channel: v.Channel, Status: knxnet.ErrCode(v.Status), Control: host(v.H1)}
	case "ConnStateRes":
		return &knxnet.ConnStateRes{Channel: v.Channel, Status: knxnet.ErrCode(v.Status)}
	case "DiscReq":
		return &knxnet.DiscReq{Channel: v.Channel, Status: v.Status, Control: host(v.H1)}
	case "DiscRes":
		return &knxnet.DiscRes{Channel: v.Channel, Status: v.Status}
	case "TunnelReq":
		return &knxnet.TunnelReq{Channel: v.Channel, SeqNumber: v.SeqNo, Payload: v.message()}
	case "TunnelRes":
		return &knxnet.TunnelRes{Channel: v.Channel, SeqNumber: v.SeqNo, Status: knxnet.ErrCode(v.Status)}
	case "RoutingInd":
		return &knxnet.RoutingInd{Payload: v.message()}
	}
	return nil
}

// packer is anything with a reported size and an encoder.
type packer struct {
	size func() uint
	pack func([]byte)
}

// packerOf returns the size/encode pair of the value: for services knxnet.Size / knxnet.Pack (the
// whole frame, i.e. 6 + service.Size()), for "Message" cemi.Size / cemi.Pack, for the other
// sub-structures their own Size / Pack methods.
func (v *Val) packerOf() (packer, bool) {
	if s := v.service(); s != nil {
		return packer{func() uint { return knxnet.Size(s) }, func(b []byte) { knxnet.Pack(b, s) }}, true
	}
	switch v.Kind {
	case "HostInfo":
		h := host(v.H1)
		return packer{h.Size, h.Pack}, true
	case "DeviceInformationBlock":
		d := v.device()
		return packer{d.Size, d.Pack}, true
	case "SupportedServicesDIB":
		s := v.families()
		return packer{s.Size, s.Pack}, true
	case "ServiceFamily":
		f := knxnet.ServiceFamily{}
		if len(v.Fams) >= 2 {
			f = knxnet.ServiceFamily{Type: knxnet.ServiceFamilyType(v.Fams[0]), Version: v.Fams[1]}
		}
		return packer{f.Size, f.Pack}, true
	case "Info":
		i := cemi.Info(v.Info)
		return packer{i.Size, i.Pack}, true
	case "AppData", "ControlData":
		u := v.unit()
		return packer{u.Size, u.Pack}, true
	case "LData":
		l := v.ldata()
		return packer{l.Size, l.Pack}, true
	case "Message":
		m := v.message()
		if m == nil {
			return packer{}, false
		}
		return packer{func() uint { return cemi.Size(m) }, func(b []byte) { cemi.Pack(b, m) }}, true
	case "LRaw":
		l := cemi.LRaw(v.Raw)
		return packer{l.Size, l.Pack}, true
	case "LBusmonInd":
		l := cemi.LBusmonInd(v.Raw)
		return packer{l.Size, l.Pack}, true
	case "UnsupportedMessage":
		u := &cemi.UnsupportedMessage{Code: cemi.MessageCode(v.Code), Data: []byte(v.Raw)}
		return packer{u.Size, u.Pack}, true
	}
	return packer{}, false
}

// ---------------------------------------------------------------------------------------------
// domain of the properties

func isKnownCode(c uint8) bool { return refenc.IsKnownCode(c) }

// hasTrailingNUL reports a name the 30-octet NUL padded field cannot represent.
func hasTrailingNUL(s string) bool { return strings.HasSuffix(s, "\x00") }

func runeLen(s string) int { return len([]rune(s)) }

// domainC02 decides whether the value is one the first half of C02 speaks about: an encodable
// service whose every member fits the wire field it is transmitted in (DESIGN §5 C02, "domain
// conventions"). The reason names the convention that excludes it.
func (v *Val) domainC02() (bool, string) {
	if !v.isService() {
		return false, "not-a-service"
	}
	if v.Kind == "ConnRes" && v.Status != 0 && v.H1 != (Host{}) {
		return false, "ConnRes.Control-set-with-error-status (not transmitted)"
	}
	if v.carriesMessage() {
		if !v.validMsg() {
			return false, "no-message"
		}
		if v.Msg == "Unsupported" && isKnownCode(v.Code) {
			return false, "UnsupportedMessage-with-a-supported-code"
		}
	}
	if v.hasInfo() && len(v.Info) > 255 {
		return false, "additional-info-over-255"
	}
	if v.hasUnit() {
		if v.TSeq > 15 {
			return false, "tpci-sequence-over-15"
		}
		if !v.Numbered && v.TSeq != 0 {
			return false, "sequence-number-of-an-unnumbered-unit (not transmitted)"
		}
		if v.Unit == "ctl" {
			if v.Cmd > 3 {
				return false, "control-code-over-3 (two-bit field)"
			}
		} else {
			if v.Cmd > 15 {
				return false, "apci-over-15"
			}
			if len(v.Data) < 1 {
				return false, "empty-application-data (the shared APCI/data octet is always transmitted)"
			}
			if len(v.Data) > 255 {
				return false, "application-data-over-255"
			}
			if v.Data[0] >= 64 {
				return false, "first-data-octet-over-63 (six-bit field)"
			}
		}
	}
	if v.hasDevice() {
		if v.DevType != refenc.DIBDeviceInfo {
			return false, "device-DIB-type-is-not-its-constant"
		}
		if _, ok := refenc.Latin1(v.Name); !ok {
			return false, "name-not-latin1"
		}
		if runeLen(v.Name) > 29 {
			return false, "name-over-29"
		}
		if hasTrailingNUL(v.Name) {
			return false, "name-with-trailing-NUL"
		}
	}
	if v.Kind == "SearchRes" && len(v.Blocks) > 0 {
		return false, "further-DIBs-of-a-search-response-have-no-encoder"
	}
	for _, b := range v.Blocks {
		// the decoder keeps further blocks of the types 3, 4, 5 and 0xFE that carry data
		if !(b.Type == 3 || b.Type == 4 || b.Type == 5 || b.Type == 0xFE) || len(b.Data) == 0 || len(b.Data) > 253 {
			return false, "further-DIB-not-kept-by-the-decoder"
		}
	}
	if v.hasFamilies() {
		if v.FamType != refenc.DIBFamilies {
			return false, "families-DIB-type-is-not-its-constant"
		}
		if len(v.Fams)%2 != 0 || len(v.Fams)/2 > 126 {
			return false, "families-do-not-fit-the-length-octet"
		}
	}
	return true, ""
}

// oversize lists the variable parts of the value that exceed their protocol field.
func (v *Val) oversize() (parts []string) {
	if v.hasInfo() && len(v.Info) > 255 {
		parts = append(parts, "info")
	}
	if v.hasUnit() && v.Unit != "ctl" && v.Kind != "ControlData" && len(v.Data) > 255 {
		parts = append(parts, "data")
	}
	if v.hasDevice() && runeLen(v.Name) > 29 {
		if _, ok := refenc.Latin1(v.Name); ok {
			parts = append(parts, "name")
		}
	}
	return
}

// domainC15 is the domain of C15: every C02 value, every sub-structure, plus oversize variable
// parts, empty application data and names ISO 8859-1 cannot express.
func (v *Val) domainC15() (bool, string) {
	if _, ok := v.packerOf(); !ok {
		return false, "unknown-kind"
	}
	if v.Kind == "ControlData" && v.Unit != "ctl" || v.Kind == "AppData" && v.Unit == "ctl" {
		return false, "unit-kind-mismatch"
	}
	if v.hasDevice() && hasTrailingNUL(v.Name) {
		return false, "name-with-trailing-NUL"
	}
	if v.hasFamilies() && (len(v.Fams)%2 != 0 || len(v.Fams)/2 > 126) {
		return false, "families-do-not-fit-the-length-octet"
	}
	return true, ""
}

// ---------------------------------------------------------------------------------------------
// layout: which encoder owns which octet (from the layouts of DESIGN Appendix C, not from the library)

type seg struct {
	owner      string
	start, end int
}

func clamp(n, lo, hi int) int {
	if n < lo {
		return lo
	}
	if n > hi {
		return hi
	}
	return n
}

func shift(s []seg, off int) []seg {
	for i := range s {
		s[i].start += off
		s[i].end += off
	}
	return s
}

func endOf(s []seg) int {
	if len(s) == 0 {
		return 0
	}
	return s[len(s)-1].end
}

func (v *Val) unitSegs() []seg {
	if v.Unit == "ctl" {
		return []seg{{"ControlData.Pack", 0, 2}}
	}
	n := clamp(len(v.Data), 1, 255)
	s := []seg{{"AppData.Pack:length-octet", 0, 1}, {"AppData.Pack:tpci-octet", 1, 2}, {"AppData.Pack:apci-data-octet", 2, 3}}
	if n > 1 {
		s = append(s, seg{"AppData.Pack:data", 3, 2 + n})
	}
	return s
}

func (v *Val) infoSegs() []seg { return []seg{{"Info.Pack", 0, 1 + clamp(len(v.Info), 0, 255)}} }

func (v *Val) ldataSegs() []seg {
	s := v.infoSegs()
	e := endOf(s)
	s = append(s, seg{"LData.Pack", e, e + 6})
	return append(s, shift(v.unitSegs(), e+6)...)
}

func (v *Val) messageSegs() []seg {
	s := []seg{{"cemi.Pack", 0, 1}}
	switch {
	case v.isLData():
		s = append(s, shift(v.ldataSegs(), 1)...)
	case v.Msg == "LBusmonInd":
		s = append(s, seg{"LBusmonInd.Pack", 1, 1 + len(v.Raw)})
	case v.Msg == "Unsupported":
		s = append(s, seg{"UnsupportedMessage.Pack", 1, 1 + len(v.Raw)})
	default:
		s = append(s, seg{"LRaw.Pack", 1, 1 + len(v.Raw)})
	}
	return s
}

func (v *Val) familiesSegs() []seg {
	s := []seg{{"SupportedServicesDIB.Pack", 0, 2}}
	for i := 0; i < len(v.Fams)/2; i++ {
		s = append(s, seg{"ServiceFamily.Pack", 2 + 2*i, 4 + 2*i})
	}
	return s
}

// segs lists, in ascending order, which encoder is responsible for which octets of the packed value.
func (v *Val) segs() []seg {
	hostSeg := func(at int) seg { return seg{"HostInfo.Pack", at, at + 8} }
	own := v.Kind + ".Pack"
	var body []seg
	switch v.Kind {
	case "SearchReq", "DescriptionReq":
		body = []seg{hostSeg(0)}
	case "SearchRes":
		body = append([]seg{hostSeg(0), {"DeviceInformationBlock.Pack", 8, 62}}, shift(v.familiesSegs(), 62)...)
	case "DescriptionRes":
		body = append([]seg{{"DeviceInformationBlock.Pack", 0, 54}}, shift(v.familiesSegs(), 54)...)
		body = append(body, shift(v.blockSegs(), endOf(body))...)
	case "ConnReq":
		body = []seg{hostSeg(0), hostSeg(8), {own, 16, 20}}
	case "ConnRes":
		body = []seg{{own, 0, 2}}
		if v.Status == 0 {
			body = append(body, hostSeg(2), seg{own, 10, 14})
		}
	case "ConnStateReq", "DiscReq":
		body = []seg{{own, 0, 2}, hostSeg(2)}
	case "ConnStateRes", "DiscRes":
		body = []seg{{own, 0, 2}}
	case "TunnelRes":
		body = []seg{{own, 0, 4}}
	case "TunnelReq":
		body = append([]seg{{own, 0, 4}}, shift(v.messageSegs(), 4)...)
	case "RoutingInd":
		body = v.messageSegs()
	// sub-structures
	case "HostInfo":
		return []seg{hostSeg(0)}
	case "DeviceInformationBlock":
		return []seg{{own, 0, 54}}
	case "SupportedServicesDIB":
		return v.familiesSegs()
	case "ServiceFamily":
		return []seg{{own, 0, 2}}
	case "Info":
		return v.infoSegs()
	case "AppData", "ControlData":
		return v.unitSegs()
	case "LData":
		return v.ldataSegs()
	case "Message":
		return v.messageSegs()
	case "LRaw", "LBusmonInd", "UnsupportedMessage":
		return []seg{{own, 0, len(v.Raw)}}
	default:
		return nil
	}
	return append([]seg{{"knxnet.Pack", 0, 6}}, shift(body, 6)...)
}

// ownerOf names the encoder responsible for the octet at off (the outermost one when the offset is
// outside the reference layout).
func (v *Val) ownerOf(off int) string {
	for _, s := range v.segs() {
		if off >= s.start && off < s.end {
			return s.owner
		}
	}
	return v.outer()
}

func (v *Val) outer() string {
	if v.isService() {
		return v.Kind + ".Pack"
	}
	if v.Kind == "Message" {
		return "cemi.Pack"
	}
	return v.Kind + ".Pack"
}

// trailingOwner names the encoder that writes the last octets (the one an overrun is attributed to).
func (v *Val) trailingOwner() string {
	s := v.segs()
	for i := len(s) - 1; i >= 0; i-- {
		if s[i].end > s[i].start {
			o := s[i].owner
			if j := strings.Index(o, ":"); j >= 0 {
				o = o[:j]
			}
			return o
		}
	}
	return v.outer()
}

// ---------------------------------------------------------------------------------------------
// rendering as Go source (for the emitted test bodies)

func goBytes(b []byte) string {
	if len(b) == 0 {
		return "nil"
	}
	// a run of one value is written as bytes.Repeat to keep the test readable
	same := true
	for _, x := range b {
		if x != b[0] {
			same = false
			break
		}
	}
	if same && len(b) > 8 {
		return fmt.Sprintf("bytes.Repeat([]byte{0x%02x}, %d)", b[0], len(b))
	}
	var sb strings.Builder
	sb.WriteString("[]byte{")
	for i, x := range b {
		if i > 0 {
			sb.WriteString(", ")
		}
		fmt.Fprintf(&sb, "0x%02x", x)
	}
	sb.WriteString("}")
	return sb.String()
}

func goHost(h Host) string {
	return fmt.Sprintf("knxnet.HostInfo{Protocol: %d, Address: knxnet.Address{%d, %d, %d, %d}, Port: %d}", h.Proto, h.Addr[0], h.Addr[1], h.Addr[2], h.Addr[3], h.Port)
}

func (v *Val) goUnit() string {
	if v.Unit == "ctl" {
		return fmt.Sprintf("&cemi.ControlData{Numbered: %v, SeqNumber: %d, Command: %d}", v.Numbered, v.TSeq, v.Cmd)
	}
	return fmt.Sprintf("&cemi.AppData{Numbered: %v, SeqNumber: %d, Command: %d, Data: %s}", v.Numbered, v.TSeq, v.Cmd, goBytes(v.Data))
}

func (v *Val) goLData() string {
	return fmt.Sprintf("cemi.LData{Info: cemi.Info(%s), Control1: 0x%02x, Control2: 0x%02x, Source: 0x%04x, Destination: 0x%04x, Data: %s}",
		goBytes(v.Info), v.C1, v.C2, v.Src, v.Dst, v.goUnit())
}

func (v *Val) goMessage() string {
	switch v.Msg {
	case "LDataReq", "LDataCon", "LDataInd":
		return fmt.Sprintf("&cemi.%s{LData: %s}", v.Msg, v.goLData())
	case "LRawReq", "LRawCon", "LRawInd":
		return fmt.Sprintf("&cemi.%s{LRaw: cemi.LRaw(%s)}", v.Msg, goBytes(v.Raw))
	case "LBusmonInd":
		return fmt.Sprintf("func() *cemi.LBusmonInd { m := cemi.LBusmonInd(%s); return &m }()", goBytes(v.Raw))
	case "Unsupported":
		return fmt.Sprintf("&cemi.UnsupportedMessage{Code: 0x%02x, Data: %s}", v.Code, goBytes(v.Raw))
	}
	return "nil"
}

func (v *Val) goDevice() string {
	return fmt.Sprintf("knxnet.DeviceInformationBlock{Type: %d, Medium: 0x%02x, Status: 0x%02x, Source: 0x%04x, ProjectIdentifier: 0x%04x, SerialNumber: knxnet.DeviceSerialNumber{%s}, RoutingMulticastAddress: knxnet.Address{%s}, HardwareAddr: net.HardwareAddr{%s}, FriendlyName: %q}",
		v.DevType, v.Medium, v.DevStatus, v.Source, v.Project, commaBytes(v.Serial[:]), commaBytes(v.Mcast[:]), commaBytes(v.MAC[:]), v.Name)
}

func commaBytes(b []byte) string {
	p := make([]string, len(b))
	for i, x := range b {
		p[i] = fmt.Sprintf("0x%02x", x)
	}
	return strings.Join(p, ", ")
}

func (v *Val) goFamilies() string {
	var p []string
	for i := 0; i+1 < len(v.Fams); i += 2 {
		p = append(p, fmt.Sprintf("{Type: 0x%02x, Version: 0x%02x}", v.Fams[i], v.Fams[i+1]))
	}
	return fmt.Sprintf("knxnet.SupportedServicesDIB{Type: %d, Families: []knxnet.ServiceFamily{%s}}", v.FamType, strings.Join(p, ", "))
}

// goExpr renders the value as a Go expression of the type the checks pack (pointer form).
func (v *Val) goExpr() string {
	switch v.Kind {
	case "SearchReq", "DescriptionReq":
		return fmt.Sprintf("&knxnet.%s{HostInfo: %s}", v.Kind, goHost(v.H1))
	case "SearchRes":
		return fmt.Sprintf("&knxnet.SearchRes{Control: %s, DescriptionB: knxnet.DescriptionBlock{DeviceHardware: %s, SupportedServices: %s%s}}", goHost(v.H1), v.goDevice(), v.goFamilies(), v.goBlocks())
	case "DescriptionRes":
		return fmt.Sprintf("&knxnet.DescriptionRes{DeviceHardware: %s, SupportedServices: %s%s}", v.goDevice(), v.goFamilies(), v.goBlocks())
	case "ConnReq":
		return fmt.Sprintf("&knxnet.ConnReq{Control: %s, Tunnel: %s, Layer: 0x%02x}", goHost(v.H1), goHost(v.H2), v.Layer)
	case "ConnRes", "ConnStateReq":
		return fmt.Sprintf("&knxnet.%s{Channel: %d, Status: 0x%02x, Control: %s}", v.Kind, v.Channel, v.Status, goHost(v.H1))
	case "DiscReq":
		return fmt.Sprintf("&knxnet.DiscReq{Channel: %d, Status: 0x%02x, Control: %s}", v.Channel, v.Status, goHost(v.H1))
	case "ConnStateRes", "DiscRes":
		return fmt.Sprintf("&knxnet.%s{Channel: %d, Status: 0x%02x}", v.Kind, v.Channel, v.Status)
	case "TunnelReq":
		return fmt.Sprintf("&knxnet.TunnelReq{Channel: %d, SeqNumber: %d, Payload: %s}", v.Channel, v.SeqNo, v.goMessage())
	case "TunnelRes":
		return fmt.Sprintf("&knxnet.TunnelRes{Channel: %d, SeqNumber: %d, Status: 0x%02x}", v.Channel, v.SeqNo, v.Status)
	case "RoutingInd":
		return fmt.Sprintf("&knxnet.RoutingInd{Payload: %s}", v.goMessage())
	case "HostInfo":
		return "&" + goHost(v.H1)
	case "DeviceInformationBlock":
		return "&" + v.goDevice()
	case "SupportedServicesDIB":
		return "&" + v.goFamilies()
	case "ServiceFamily":
		f := []byte{0, 0}
		copy(f, v.Fams)
		return fmt.Sprintf("&knxnet.ServiceFamily{Type: 0x%02x, Version: 0x%02x}", f[0], f[1])
	case "Info":
		return fmt.Sprintf("cemi.Info(%s)", goBytes(v.Info))
	case "AppData", "ControlData":
		return v.goUnit()
	case "LData":
		return "&" + v.goLData()
	case "Message":
		return v.goMessage()
	case "LRaw":
		return fmt.Sprintf("cemi.LRaw(%s)", goBytes(v.Raw))
	case "LBusmonInd":
		return fmt.Sprintf("cemi.LBusmonInd(%s)", goBytes(v.Raw))
	case "UnsupportedMessage":
		return fmt.Sprintf("&cemi.UnsupportedMessage{Code: 0x%02x, Data: %s}", v.Code, goBytes(v.Raw))
	}
	return "nil"
}

// label is a short description of the value's shape for messages: "TunnelReq/LRawInd", "LData/app".
func (v *Val) label() string {
	s := v.Kind
	if v.carriesMessage() && v.Msg != "" {
		s += "/" + v.Msg
	}
	if v.hasLData() {
		if v.Unit == "ctl" {
			s += "/ControlData"
		} else {
			s += "/AppData"
		}
	}
	return s
}
