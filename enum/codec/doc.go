//go:build verif

// Package codec holds the bounded exhaustive checks of the KNXnet/IP and cEMI encoders
// (DESIGN.md §5, engine E5):
//
//	C02  encode -> decode is the identity; decode -> encode -> decode is stable   (c02.go)
//	C15  encoders write exactly the size they report, whatever the buffer held     (c15.go)
//
// Shared parts: val.go (JSON-able description of a library value, its construction, the domain
// predicates of both properties, the offset -> encoder attribution from the reference layout, Go
// source rendering for the emitted test bodies), spaces.go (shapes, boundary alphabets, the
// enumerated spaces), equal.go (the deep-equality oracle), libcall.go (guarded library calls and
// panic attribution), run.go (sharded enumeration, deterministic choice of the stored example).
// fixes/ holds one unified diff per library defect these checks found (apply in numeric order
// with git -C /repo apply).
package codec
