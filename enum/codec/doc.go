//go:build verif

// Package codec: see DESIGN.md (E5).
package codec
