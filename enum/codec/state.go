//go:build verif

package codec

import (
	"encoding/hex"
	"fmt"

	"github.com/vapourismo/knx-go/knx/cemi"
	"github.com/vapourismo/knx-go/knx/knxnet"
	"github.com/vapourismo/knx-go/knx/util"
	"verifh/enum/enumlib"
	"verifh/enum/statelib"
)

// Hidden state of the frame codecs (packages knxnet, cemi, util): a decode scratch buffer, a pooled
// value, a memo. Explicit-state search over the packages' own variables (enum/statelib; the idea is
// described in enum/registry/statespace.go). Transitions: encode every base value of every service
// shape (and variants with names, families, further description blocks, additional info), decode
// each of those encodings, decode each of them cut short by one octet and with one octet appended;
// invariant: in every reachable state every call yields what it yields in the initial state.
func stateValues() []Val {
	var vs []Val
	for _, sh := range c02Shapes(false) {
		vs = append(vs, sh.variants...)
	}
	d := withDevice(baseSvc("DescriptionRes"))
	d.Name = "Gateway Süd ½"
	d.Fams = famBytes(5)
	d.Blocks = []Blk{{3, pattern(4, 7, 0x31)}, {0xFE, pattern(9, 7, 0x61)}}
	vs = append(vs, d)
	s := withDevice(baseSvc("SearchRes"))
	s.Name = asciiName(29)
	s.Fams = nil
	vs = append(vs, s)
	for _, m := range ldataMsgs {
		v := withLData(baseSvc("TunnelReq"), m, "app")
		v.Info = pattern(5, 3, 0x80)
		v.Data = appPayload(20, 0x15)
		vs = append(vs, v)
	}
	return vs
}

func codecTransitions() []statelib.Transition {
	var ts []statelib.Transition
	decode := func(label string, b []byte) {
		ts = append(ts, statelib.Transition{Label: label, Run: func() string {
			var got knxnet.Service
			var n uint
			var err error
			in := append([]byte(nil), b...)
			if p, msg, site := guard(func() { n, err = knxnet.Unpack(in, &got) }); p {
				return "panic " + site + " " + msg
			}
			if err != nil {
				return "rejected"
			}
			sp, ok := got.(knxnet.ServicePackable)
			if !ok {
				return fmt.Sprintf("%T consumed=%d", got, n)
			}
			var re []byte
			if p, msg, site := guard(func() { re = knxnet.AllocAndPack(sp) }); p {
				return "panic in re-encoding " + site + " " + msg
			}
			return fmt.Sprintf("%T consumed=%d re-encodes to %s", got, n, hex.EncodeToString(re))
		}})
	}
	for i, v := range stateValues() {
		v := v
		if ok, _ := v.domainC15(); !ok || !v.isService() {
			continue
		}
		label := fmt.Sprintf("#%d %s", i, v.label())
		var enc []byte
		if p, _, _ := guard(func() { enc = knxnet.AllocAndPack(v.service()) }); p {
			continue
		}
		ts = append(ts, statelib.Transition{Label: "Pack " + label, Run: func() string {
			var b []byte
			if p, msg, site := guard(func() { b = knxnet.AllocAndPack(v.service()) }); p {
				return "panic " + site + " " + msg
			}
			return hex.EncodeToString(b)
		}})
		decode("Unpack "+label, enc)
		if len(enc) > 7 {
			decode("Unpack (cut short) "+label, enc[:len(enc)-1])
		}
		decode("Unpack (one octet more) "+label, append(append([]byte(nil), enc...), 0xA5))
	}
	return ts
}

func codecRoots() ([]string, []interface{}) {
	var names []string
	var roots []interface{}
	add := func(pkg string, n []string, r []interface{}) {
		for i := range n {
			names = append(names, pkg+"."+n[i])
		}
		roots = append(roots, r...)
	}
	n, r := knxnet.VerifGlobals()
	add("knxnet", n, r)
	n, r = cemi.VerifGlobals()
	add("cemi", n, r)
	n, r = util.VerifGlobals()
	add("util", n, r)
	return names, roots
}

func stateSpaceC02(r *enumlib.Run) {
	vnames, roots := codecRoots()
	ts := codecTransitions()
	maxStates, maxDepth := 8, 2
	if r.Thorough() {
		maxStates, maxDepth = 24, 3
	}
	res := statelib.Search(roots, ts, maxStates, maxDepth, func(i int) string { return ts[i].Label })
	for k, w := range res.Witnesses {
		if k >= 4 {
			break
		}
		var labels []string
		for _, j := range w.Path {
			labels = append(labels, ts[j].Label)
		}
		r.Violation("C02:result-depends-on-history", fmt.Sprintf("%s: in the initial state of the codec packages: %s; after %v the same call: %s", ts[w.Index].Label, w.Want, labels, w.Got),
			c02Input{Op: "statepath", Label: ts[w.Index].Label, Path: labels})
	}
	r.Eval(res.Transitions)
	r.Nontrivial(res.Compared + int64(len(ts)))
	note := fmt.Sprintf("explicit-state search over the own variables of knxnet, cemi and util (%d variables, %d saved locations): %d distinct states, %d transitions (%d calls per state: encode / decode / decode cut short / decode with an octet appended of %d values), %d results compared with the initial state's", len(vnames), res.Locations, res.States, res.Transitions, len(ts), len(stateValues()), res.Compared)
	if res.Capped != "" {
		note += "; " + res.Capped
	}
	r.Space("hidden-state-search", res.Transitions, res.Compared+int64(len(ts)), res.Capped == "", note)
}

func replayStatePathC02(in c02Input) (string, bool) {
	_, roots := codecRoots()
	by := map[string]statelib.Transition{}
	for _, t := range codecTransitions() {
		by[t.Label] = t
	}
	t, ok := by[in.Label]
	if !ok {
		return "unknown transition " + in.Label, false
	}
	s0 := statelib.Take(roots)
	first := t.Run()
	s0.Restore()
	for _, l := range in.Path {
		if p, ok := by[l]; ok {
			p.Run()
		}
	}
	after := t.Run()
	s0.Restore()
	return fmt.Sprintf("%s in the initial state: %s; after %v: %s", in.Label, first, in.Path, after), first != after
}
