//go:build verif

package codec

import (
	"fmt"
	"sort"
	"strings"
)

// A space is a finite list of values enumerated completely in index order. It is a concatenation
// of blocks; a block is the full Cartesian product of its dimensions applied to a base value.

type dim struct {
	name string
	n    int64
	set  func(v *Val, k int64)
	base int64 // the index that reproduces the base value of the block, -1 when there is none
}

const (
	freshAll     = iota // every case is a value no other case of any space produces
	freshSingles        // one field over its full range: the base value recurs once per field; it is counted for the first field only
	freshPairs          // two fields over their full ranges: points with a coordinate at its base value already occur in the single-field ranges
	freshNever          // the block repeats values of other spaces (judged, not counted as distinct)
)

type block struct {
	dims       []dim
	fresh      int
	firstField bool // freshSingles: this is the first field of its shape
	size       int64
}

type space struct {
	name   string
	note   string
	blocks []block
	cum    []int64 // cum[i] = first index of block i
	size   int64
}

func (s *space) add(fresh int, first bool, dims ...dim) {
	b := block{dims: dims, fresh: fresh, firstField: first, size: 1}
	for _, d := range dims {
		b.size *= d.n
	}
	s.cum = append(s.cum, s.size)
	s.blocks = append(s.blocks, b)
	s.size += b.size
}

// gen writes case i into v and reports whether it counts as a distinct value.
func (s *space) gen(i int64, v *Val) (fresh bool) {
	bi := sort.Search(len(s.cum), func(k int) bool { return s.cum[k] > i }) - 1
	b := &s.blocks[bi]
	j := i - s.cum[bi]
	atBase, last := 0, false
	for di := range b.dims {
		d := &b.dims[di]
		k := j % d.n
		j /= d.n
		d.set(v, k)
		if k == d.base {
			atBase++
			last = true
		} else {
			last = false
		}
	}
	switch b.fresh {
	case freshAll:
		return true
	case freshSingles:
		return !last || b.firstField // the ranged field is the last dimension
	case freshPairs:
		return atBase == 0
	}
	return false
}

// ---------------------------------------------------------------------------------------------
// fields

var (
	alpha8  = []uint32{0, 1, 2, 0x3F, 0x40, 0x7F, 0x80, 0xFE, 0xFF}
	alpha16 = []uint32{0, 1, 0x00FF, 0x0100, 0x7FFF, 0x8000, 0xFFFF}
	// whole IPv4 addresses for the products (the four octets are ranged individually in the single-field spaces)
	alphaAddr = []uint32{0x00000000, 0x00000001, 0x7F80FEFF, 0xE000170C, 0xFFFFFFFF}
)

type field struct {
	name  string
	bits  int
	alpha []uint32
	get   func(v *Val) uint32
	set   func(v *Val, x uint32)
	group string // structure the field belongs to (8x16 pair products are taken inside one structure only)
}

func f8(name, group string, p func(v *Val) *uint8) field {
	return field{name, 8, alpha8, func(v *Val) uint32 { return uint32(*p(v)) }, func(v *Val, x uint32) { *p(v) = uint8(x) }, group}
}

func f16(name, group string, p func(v *Val) *uint16) field {
	return field{name, 16, alpha16, func(v *Val) uint32 { return uint32(*p(v)) }, func(v *Val, x uint32) { *p(v) = uint16(x) }, group}
}

func hostFields(prefix string, h func(v *Val) *Host) []field {
	fs := []field{f8(prefix+".Protocol", prefix, func(v *Val) *uint8 { return &h(v).Proto })}
	for i := 0; i < 4; i++ {
		i := i
		group := prefix
		if i < 3 {
			group = prefix + ".Address[0..2]" // paired with the port in the boundary product only
		}
		fs = append(fs, f8(fmt.Sprintf("%s.Address[%d]", prefix, i), group, func(v *Val) *uint8 { return &h(v).Addr[i] }))
	}
	return append(fs, f16(prefix+".Port", prefix, func(v *Val) *uint16 { return &h(v).Port }))
}

func hostProd(prefix string, h func(v *Val) *Host, small bool) []field {
	proto, addr, port := alpha8, alphaAddr, alpha16
	if small {
		proto, addr, port = []uint32{0, 1, 0xFF}, []uint32{0, 0xFFFFFFFF}, []uint32{0, 0x8000, 0xFFFF}
	}
	return []field{
		{prefix + ".Protocol", 8, proto, func(v *Val) uint32 { return uint32(h(v).Proto) }, func(v *Val, x uint32) { h(v).Proto = uint8(x) }, prefix},
		{prefix + ".Address", 32, addr,
			func(v *Val) uint32 {
				a := h(v).Addr
				return uint32(a[0])<<24 | uint32(a[1])<<16 | uint32(a[2])<<8 | uint32(a[3])
			},
			func(v *Val, x uint32) { h(v).Addr = [4]byte{byte(x >> 24), byte(x >> 16), byte(x >> 8), byte(x)} }, prefix},
		{prefix + ".Port", 16, port, func(v *Val) uint32 { return uint32(h(v).Port) }, func(v *Val, x uint32) { h(v).Port = uint16(x) }, prefix},
	}
}

func h1(v *Val) *Host { return &v.H1 }
func h2(v *Val) *Host { return &v.H2 }

var (
	fChannel = f8("Channel", "svc", func(v *Val) *uint8 { return &v.Channel })
	fSeqNo   = f8("SeqNumber", "svc", func(v *Val) *uint8 { return &v.SeqNo })
	fStatus  = f8("Status", "svc", func(v *Val) *uint8 { return &v.Status })
	fLayer   = f8("Layer", "svc", func(v *Val) *uint8 { return &v.Layer })
	fC1      = f8("Control1", "ldata", func(v *Val) *uint8 { return &v.C1 })
	fC2      = f8("Control2", "ldata", func(v *Val) *uint8 { return &v.C2 })
	fSrc     = f16("Source", "ldata", func(v *Val) *uint16 { return &v.Src })
	fDst     = f16("Destination", "ldata", func(v *Val) *uint16 { return &v.Dst })
	fCode    = f8("Code", "msg", func(v *Val) *uint8 { return &v.Code })
)

func devFields() []field {
	fs := []field{
		f8("Medium", "dev", func(v *Val) *uint8 { return &v.Medium }),
		f8("DeviceStatus", "dev", func(v *Val) *uint8 { return &v.DevStatus }),
		f16("Source", "dev", func(v *Val) *uint16 { return &v.Source }),
		f16("ProjectIdentifier", "dev", func(v *Val) *uint16 { return &v.Project }),
	}
	for i := 0; i < 6; i++ {
		i := i
		fs = append(fs, f8(fmt.Sprintf("SerialNumber[%d]", i), "dev-bytes", func(v *Val) *uint8 { return &v.Serial[i] }))
	}
	for i := 0; i < 4; i++ {
		i := i
		fs = append(fs, f8(fmt.Sprintf("RoutingMulticastAddress[%d]", i), "dev-bytes", func(v *Val) *uint8 { return &v.Mcast[i] }))
	}
	for i := 0; i < 6; i++ {
		i := i
		fs = append(fs, f8(fmt.Sprintf("HardwareAddr[%d]", i), "dev-bytes", func(v *Val) *uint8 { return &v.MAC[i] }))
	}
	return fs
}

// choice is a product dimension over an explicit list of alternatives (not a numeric field).
type choice struct {
	name  string
	names []string
	apply []func(v *Val)
}

func (c choice) dim() dim {
	return dim{c.name, int64(len(c.apply)), func(v *Val, k int64) { c.apply[k](v) }, -1}
}

func devProdChoices() []choice {
	arr6 := func(name string, p func(v *Val) *[6]byte) choice {
		return choice{name, []string{"all-00", "all-FF"}, []func(v *Val){
			func(v *Val) { *p(v) = [6]byte{} }, func(v *Val) { *p(v) = [6]byte{255, 255, 255, 255, 255, 255} }}}
	}
	return []choice{
		arr6("SerialNumber", func(v *Val) *[6]byte { return &v.Serial }),
		arr6("HardwareAddr", func(v *Val) *[6]byte { return &v.MAC }),
		{"RoutingMulticastAddress", []string{"0.0.0.0", "255.255.255.255"}, []func(v *Val){
			func(v *Val) { v.Mcast = [4]byte{} }, func(v *Val) { v.Mcast = [4]byte{255, 255, 255, 255} }}},
		{"FriendlyName", []string{"empty", "1-ascii", "29-ascii", "29-latin1-high"}, []func(v *Val){
			func(v *Val) { v.Name = "" }, func(v *Val) { v.Name = "Z" }, func(v *Val) { v.Name = asciiName(29) }, func(v *Val) { v.Name = latinName(29) }}},
		{"Families", []string{"0", "1", "20"}, []func(v *Val){
			func(v *Val) { v.Fams = nil }, func(v *Val) { v.Fams = famBytes(1) }, func(v *Val) { v.Fams = famBytes(20) }}},
	}
}

// ---------------------------------------------------------------------------------------------
// content generators (fixed, position dependent)

func pattern(n int, mul, add byte) hexb {
	out := make(hexb, n)
	for i := range out {
		out[i] = byte(i)*mul + add
	}
	return out
}

// appPayload builds n data octets with the given first octet.
func appPayload(n int, first byte) hexb {
	d := pattern(n, 29, 0x55)
	if n > 0 {
		d[0] = first
	}
	return d
}

func asciiName(n int) string {
	b := make([]byte, n)
	for i := range b {
		b[i] = byte('A' + i%26)
		if i%7 == 6 {
			b[i] = ' '
		}
	}
	if n > 0 && b[n-1] == ' ' {
		b[n-1] = '~'
	}
	return string(b)
}

// latinName builds n characters from the high half of ISO 8859-1 (U+00A0..U+00FF).
func latinName(n int) string {
	r := make([]rune, n)
	for i := range r {
		r[i] = rune(0xA0 + (i*37+5)%0x60)
	}
	return string(r)
}

// mixedName alternates ASCII and high-half characters.
func mixedName(n int) string {
	r := make([]rune, n)
	for i := range r {
		if i%2 == 0 {
			r[i] = rune('a' + i%26)
		} else {
			r[i] = rune(0xC0 + i%0x40)
		}
	}
	return string(r)
}

// nonLatinName builds n characters of which the one at pos is outside ISO 8859-1.
func nonLatinName(n, pos int) string {
	r := []rune(mixedName(n))
	outside := []rune{0x0100, 0x03A9, 0x20AC, 0x4E2D, 0x1F600}
	r[pos] = outside[(n+pos)%len(outside)]
	return string(r)
}

func famBytes(n int) hexb {
	out := make(hexb, 0, 2*n)
	for i := 0; i < n; i++ {
		out = append(out, byte(i+1), byte(0x10+i))
	}
	return out
}

// ---------------------------------------------------------------------------------------------
// base values (no base member is in a boundary alphabet where the distinctness rule needs it)

var (
	baseHost  = Host{Proto: 1, Addr: [4]byte{192, 168, 1, 10}, Port: 3671}
	baseHost2 = Host{Proto: 2, Addr: [4]byte{10, 0, 0, 7}, Port: 50100}
	rawTP1    = hexb{0xBC, 0x11, 0x01, 0x09, 0x01, 0xE1, 0x00, 0x81, 0x3A}
)

func baseSvc(kind string) Val {
	return Val{Kind: kind, Channel: 0x15, SeqNo: 0x2A, Status: 0x21, Layer: 0x03, H1: baseHost, H2: baseHost2}
}

func withLData(v Val, msg, unit string) Val {
	v.Msg, v.Unit = msg, unit
	v.C1, v.C2, v.Src, v.Dst = 0xBC, 0xE3, 0x1103, 0x0905
	if unit == "ctl" {
		v.Cmd = 1
	} else {
		v.Cmd, v.Data = 2, hexb{0x2A, 0x80}
	}
	return v
}

func withRaw(v Val, msg string) Val {
	v.Msg, v.Raw = msg, rawTP1
	if msg == "Unsupported" {
		v.Code = 0x13
	}
	return v
}

func withDevice(v Val) Val {
	v.DevType, v.Medium, v.DevStatus, v.Source, v.Project = 1, 0x04, 0x03, 0x1103, 0x0011
	v.Serial = [6]byte{0x00, 0xC5, 0x01, 0x02, 0xD9, 0x5C}
	v.Mcast = [4]byte{224, 0, 23, 12}
	v.MAC = [6]byte{0x00, 0x24, 0x6D, 0x01, 0x23, 0x45}
	v.Name = "KNX IP Router"
	v.FamType, v.Fams = 2, hexb{0x02, 0x01, 0x04, 0x01}
	return v
}

var ldataMsgs = []string{"LDataReq", "LDataCon", "LDataInd"}
var rawMsgs = []string{"LRawReq", "LRawCon", "LRawInd", "LBusmonInd"}

// ---------------------------------------------------------------------------------------------
// shapes: a base value (in several variants) plus the scalar fields ranged over it

type shape struct {
	name     string
	variants []Val
	fields   []field  // ranged individually (and pairwise in the thorough tier)
	prod     []field  // boundary-alphabet product
	choices  []choice // further product dimensions (variable parts)
	full     bool     // the fields are few enough for their complete product (replaces all three spaces)
}

func tpduChoice(unit string) choice {
	set := func(numbered bool, seq, cmd uint8, data hexb) func(v *Val) {
		return func(v *Val) { v.Numbered, v.TSeq, v.Cmd, v.Data = numbered, seq, cmd, data }
	}
	if unit == "ctl" {
		return choice{"transport-unit", []string{"unnumbered code 0", "numbered seq 0 code 0", "numbered seq 15 code 3", "unnumbered code 3", "numbered seq 8 code 2"},
			[]func(v *Val){set(false, 0, 0, nil), set(true, 0, 0, nil), set(true, 15, 3, nil), set(false, 0, 3, nil), set(true, 8, 2, nil)}}
	}
	return choice{"transport-unit", []string{"unnumbered apci 0 data 00", "numbered seq 15 apci 15 data 3F FF", "unnumbered apci 2 data 01", "numbered seq 0 apci 1 254 octets", "numbered seq 8 apci 10 16 octets"},
		[]func(v *Val){set(false, 0, 0, hexb{0}), set(true, 15, 15, hexb{0x3F, 0xFF}), set(false, 0, 2, hexb{1}), set(true, 0, 1, appPayload(254, 0x3F)), set(true, 8, 10, appPayload(16, 0x20))}}
}

var infoChoice = choice{"additional-info", []string{"none", "1 octet", "255 octets"},
	[]func(v *Val){func(v *Val) { v.Info = nil }, func(v *Val) { v.Info = hexb{0x00} }, func(v *Val) { v.Info = pattern(255, 7, 0xFF) }}}

var rawChoice = choice{"raw-body", []string{"empty", "00", "FF", "9-octet TP1 frame (reversed)", "300 octets"},
	[]func(v *Val){func(v *Val) { v.Raw = nil }, func(v *Val) { v.Raw = hexb{0} }, func(v *Val) { v.Raw = hexb{0xFF} },
		func(v *Val) { v.Raw = hexb{0x3A, 0x81, 0x00, 0xE1, 0x01, 0x09, 0x01, 0x11, 0xBC} }, func(v *Val) { v.Raw = pattern(300, 13, 0x21) }}}

func variantsOf(base Val, msgs []string, with func(Val, string) Val) []Val {
	var out []Val
	for _, m := range msgs {
		out = append(out, with(base, m))
	}
	return out
}

// c02Shapes lists every encodable service type x every cEMI kind it can carry.
func c02Shapes(thorough bool) []shape {
	cat := func(fs ...[]field) []field {
		var out []field
		for _, f := range fs {
			out = append(out, f...)
		}
		return out
	}
	one := func(f ...field) []field { return f }
	ldata := func(kind, unit string) []Val {
		return variantsOf(baseSvc(kind), ldataMsgs, func(v Val, m string) Val { return withLData(v, m, unit) })
	}
	ldFields := one(fC1, fC2, fSrc, fDst)
	chSeq := one(fChannel, fSeqNo)
	connResOK := baseSvc("ConnRes")
	connResOK.Status = 0
	connResErr := baseSvc("ConnRes")
	connResErr.H1 = Host{}
	shapes := []shape{
		{name: "SearchReq", variants: []Val{baseSvc("SearchReq")}, fields: hostFields("HostInfo", h1), prod: hostProd("HostInfo", h1, false)},
		{name: "DescriptionReq", variants: []Val{baseSvc("DescriptionReq")}, fields: hostFields("HostInfo", h1), prod: hostProd("HostInfo", h1, false)},
		{name: "ConnReq", variants: []Val{baseSvc("ConnReq")}, fields: cat(hostFields("Control", h1), hostFields("Tunnel", h2), one(fLayer)),
			prod: cat(hostProd("Control", h1, false), hostProd("Tunnel", h2, false), one(fLayer))},
		{name: "ConnRes/status-0", variants: []Val{connResOK}, fields: cat(one(fChannel), hostFields("Control", h1)), prod: cat(one(fChannel), hostProd("Control", h1, false))},
		{name: "ConnRes/channel-x-status", variants: []Val{connResErr}, fields: one(fChannel, fStatus), full: true},
		{name: "ConnStateReq", variants: []Val{baseSvc("ConnStateReq")}, fields: cat(one(fChannel, fStatus), hostFields("Control", h1)), prod: cat(one(fChannel, fStatus), hostProd("Control", h1, false))},
		{name: "ConnStateRes", variants: []Val{baseSvc("ConnStateRes")}, fields: one(fChannel, fStatus), full: true},
		{name: "DiscReq", variants: []Val{baseSvc("DiscReq")}, fields: cat(one(fChannel, fStatus), hostFields("Control", h1)), prod: cat(one(fChannel, fStatus), hostProd("Control", h1, false))},
		{name: "DiscRes", variants: []Val{baseSvc("DiscRes")}, fields: one(fChannel, fStatus), full: true},
		{name: "TunnelRes", variants: []Val{baseSvc("TunnelRes")}, fields: one(fChannel, fSeqNo, fStatus), full: true},
		{name: "TunnelReq/LData/AppData", variants: ldata("TunnelReq", "app"), fields: cat(chSeq, ldFields), prod: cat(chSeq, ldFields), choices: []choice{tpduChoice("app"), infoChoice}},
		{name: "TunnelReq/LData/ControlData", variants: ldata("TunnelReq", "ctl"), fields: cat(chSeq, ldFields), prod: cat(chSeq, ldFields), choices: []choice{tpduChoice("ctl"), infoChoice}},
		{name: "RoutingInd/LData/AppData", variants: ldata("RoutingInd", "app"), fields: ldFields, prod: ldFields, choices: []choice{tpduChoice("app"), infoChoice}},
		{name: "RoutingInd/LData/ControlData", variants: ldata("RoutingInd", "ctl"), fields: ldFields, prod: ldFields, choices: []choice{tpduChoice("ctl"), infoChoice}},
		{name: "TunnelReq/LRaw+LBusmon", variants: variantsOf(baseSvc("TunnelReq"), rawMsgs, withRaw), fields: chSeq, prod: chSeq, choices: []choice{rawChoice}},
		{name: "TunnelReq/Unsupported", variants: []Val{withRaw(baseSvc("TunnelReq"), "Unsupported")}, fields: cat(chSeq, one(fCode)), prod: cat(chSeq, one(fCode)), choices: []choice{rawChoice}},
		{name: "RoutingInd/Unsupported", variants: []Val{withRaw(baseSvc("RoutingInd"), "Unsupported")}, fields: one(fCode)},
		{name: "SearchRes", variants: []Val{withDevice(baseSvc("SearchRes"))}, fields: cat(hostFields("Control", h1), devFields()),
			prod: cat(hostProd("Control", h1, !thorough), devFields()[:4]), choices: devProdChoices()},
		{name: "DescriptionRes", variants: []Val{withDevice(baseSvc("DescriptionRes"))}, fields: devFields(), prod: devFields()[:4], choices: devProdChoices()},
	}
	return shapes
}

// subShapes are the sub-structures C15 packs on their own with the same ranges.
func subShapes() []shape {
	one := func(f ...field) []field { return f }
	ldFields := one(fC1, fC2, fSrc, fDst)
	ld := func(kind, unit string) []Val {
		if kind == "LData" {
			return []Val{withLData(Val{Kind: "LData"}, "", unit)}
		}
		return variantsOf(Val{Kind: kind}, ldataMsgs, func(v Val, m string) Val { return withLData(v, m, unit) })
	}
	hostBase := Val{Kind: "HostInfo", H1: baseHost}
	return []shape{
		{name: "HostInfo", variants: []Val{hostBase}, fields: hostFields("HostInfo", h1), prod: hostProd("HostInfo", h1, false)},
		{name: "DeviceInformationBlock", variants: []Val{withDevice(Val{Kind: "DeviceInformationBlock"})}, fields: devFields(), prod: devFields()[:4], choices: devProdChoices()[:4]},
		{name: "LData/AppData", variants: ld("LData", "app"), fields: ldFields, prod: ldFields, choices: []choice{tpduChoice("app"), infoChoice}},
		{name: "LData/ControlData", variants: ld("LData", "ctl"), fields: ldFields, prod: ldFields, choices: []choice{tpduChoice("ctl"), infoChoice}},
		{name: "Message/LData/AppData", variants: ld("Message", "app"), fields: ldFields, prod: ldFields, choices: []choice{tpduChoice("app"), infoChoice}},
		{name: "Message/LData/ControlData", variants: ld("Message", "ctl"), fields: ldFields, prod: ldFields, choices: []choice{tpduChoice("ctl"), infoChoice}},
	}
}

func variantDim(vs []Val) dim {
	return dim{"variant", int64(len(vs)), func(v *Val, k int64) { *v = vs[k] }, -1}
}

func rangeDim(f field, base *Val) dim {
	return dim{f.name, int64(1) << uint(f.bits), func(v *Val, k int64) { f.set(v, uint32(k)) }, int64(f.get(base))}
}

func alphaDim(f field, base *Val) dim {
	b := int64(-1)
	for i, a := range f.alpha {
		if a == f.get(base) {
			b = int64(i)
		}
	}
	return dim{f.name, int64(len(f.alpha)), func(v *Val, k int64) { f.set(v, f.alpha[k]) }, b}
}

func variantNames(vs []Val) string {
	var n []string
	for i := range vs {
		n = append(n, vs[i].label())
	}
	return strings.Join(n, ", ")
}

func fieldNames(fs []field) string {
	var n []string
	for _, f := range fs {
		n = append(n, fmt.Sprintf("%s(%d bit)", f.name, f.bits))
	}
	return strings.Join(n, ", ")
}

func alphaString(a []uint32) string {
	var n []string
	for _, x := range a {
		n = append(n, fmt.Sprintf("%X", x))
	}
	return "{" + strings.Join(n, ",") + "}"
}

// shapeSpaces turns a shape into its spaces: single-field full ranges, boundary product and (thorough)
// pairwise full-range products.
func shapeSpaces(sh shape, thorough bool) []*space {
	base := &sh.variants[0]
	vd := variantDim(sh.variants)
	var out []*space
	if sh.full {
		s := &space{name: "full-product/" + sh.name, note: "complete product of the full ranges of " + fieldNames(sh.fields)}
		dims := []dim{vd}
		for _, f := range sh.fields {
			d := rangeDim(f, base)
			d.base = -1
			dims = append(dims, d)
		}
		s.add(freshAll, false, dims...)
		return []*space{s}
	}
	if len(sh.fields) > 0 {
		s := &space{name: "single-field-ranges/" + sh.name,
			note: fmt.Sprintf("variants [%s] x each of %s over its full range, the other fields at the base value", variantNames(sh.variants), fieldNames(sh.fields))}
		for i, f := range sh.fields {
			s.add(freshSingles, i == 0, vd, rangeDim(f, base))
		}
		out = append(out, s)
	}
	if len(sh.prod) > 0 {
		var parts []string
		dims := []dim{vd}
		outside := 0
		for _, f := range sh.prod {
			d := alphaDim(f, base)
			if d.base < 0 {
				outside++
			}
			d.base = -1
			dims = append(dims, d)
			parts = append(parts, f.name+alphaString(f.alpha))
		}
		for _, c := range sh.choices {
			dims = append(dims, c.dim())
			parts = append(parts, fmt.Sprintf("%s{%s}", c.name, strings.Join(c.names, " | ")))
		}
		if outside < 2 && len(sh.fields) > 1 {
			panic("shape " + sh.name + ": fewer than two product fields have a base value outside their alphabet (distinctness rule)")
		}
		s := &space{name: "boundary-product/" + sh.name, note: fmt.Sprintf("variants [%s] x complete product of %s", variantNames(sh.variants), strings.Join(parts, " x "))}
		s.add(freshAll, false, dims...)
		out = append(out, s)
	}
	if thorough && len(sh.fields) > 1 {
		s := &space{name: "pairwise-full-ranges/" + sh.name}
		n8, n816 := 0, 0
		var wide []string
		for i, f := range sh.fields {
			for _, g := range sh.fields[i+1:] {
				switch {
				case f.bits+g.bits == 16:
					n8++
					s.add(freshPairs, false, vd, rangeDim(f, base), rangeDim(g, base))
				case f.bits+g.bits == 24 && f.group == g.group:
					// 2^24 points per pair: one variant per pair, taken in rotation
					one := variantDim(sh.variants[n816%len(sh.variants) : n816%len(sh.variants)+1])
					n816++
					wide = append(wide, f.name+" x "+g.name)
					s.add(freshPairs, false, one, rangeDim(f, base), rangeDim(g, base))
				}
			}
		}
		s.note = fmt.Sprintf("variants [%s] x complete product of the full ranges of every pair of 8-bit fields (%d pairs, every variant) and of the 8-bit x 16-bit pairs inside one structure (%d pairs: %s; with several variants the k-th such pair is run on variant k mod %d), the other fields at the base value; Address[0..2] x Port and 16-bit x 16-bit pairs are covered by the boundary product only",
			variantNames(sh.variants), n8, n816, strings.Join(wide, ", "), len(sh.variants))
		if len(s.blocks) > 0 {
			out = append(out, s)
		}
	}
	return out
}

// listSpace enumerates an explicit list built up front; repeats lists values that also occur in
// another space (judged, not counted as distinct).
func listSpace(name, note string, vals []Val, repeats ...Val) *space {
	s := &space{name: name, note: note}
	if len(vals) > 0 {
		s.add(freshAll, false, variantDim(vals))
	}
	if len(repeats) > 0 {
		s.add(freshNever, false, variantDim(repeats))
	}
	return s
}

// ldBases lists base values that carry an L_Data structure: for the kinds with a message code one per
// L_Data code, for the bare LData structure one.
func ldBases(kinds ...string) []Val {
	var out []Val
	for _, k := range kinds {
		if k == "LData" {
			out = append(out, Val{Kind: k})
			continue
		}
		for _, m := range ldataMsgs {
			b := baseSvc(k)
			if k == "Message" {
				b = Val{Kind: k}
			}
			b.Msg = m
			out = append(out, b)
		}
	}
	return out
}

// rawBases lists base values that carry an uninterpreted body.
func rawBases(kinds ...string) []Val {
	var out []Val
	for _, k := range kinds {
		for _, m := range append(append([]string{}, rawMsgs...), "Unsupported") {
			b := baseSvc(k)
			if k == "Message" {
				b = Val{Kind: k}
			}
			out = append(out, withRaw(b, m))
		}
	}
	return out
}

// tpciValues lists all 1024 combinations APCI/code 0..15 x numbered x sequence 0..15 x data/control
// for every base; the ones outside the domain (sequence number of an unnumbered unit, control code
// over 3) are kept so that they can be tallied.
func tpciValues(bases []Val, data hexb) []Val {
	var out []Val
	for _, b := range bases {
		for _, unit := range []string{"app", "ctl"} {
			for cmd := 0; cmd < 16; cmd++ {
				for num := 0; num < 2; num++ {
					for seq := 0; seq < 16; seq++ {
						v := withLData(b, b.Msg, unit)
						v.Cmd, v.Numbered, v.TSeq = uint8(cmd), num == 1, uint8(seq)
						if unit == "app" {
							v.Data = data
						}
						out = append(out, v)
					}
				}
			}
		}
	}
	return out
}

func appLengthValues(bases []Val, lo, hi int, firsts []byte) []Val {
	var out []Val
	for _, b := range bases {
		for n := lo; n <= hi; n++ {
			for _, f := range firsts {
				v := withLData(b, b.Msg, "app")
				v.Data = appPayload(n, f)
				out = append(out, v)
				if n == 0 {
					break
				}
			}
		}
	}
	return out
}

func infoLengthValues(bases []Val, lo, hi int) []Val {
	var out []Val
	for _, b := range bases {
		for _, unit := range []string{"app", "ctl"} {
			for n := lo; n <= hi; n++ {
				v := withLData(b, b.Msg, unit)
				v.Info = pattern(n, 11, 0x03)
				out = append(out, v)
			}
		}
	}
	return out
}

func rawLengthValues(bases []Val, lo, hi int) []Val {
	var out []Val
	for _, b := range bases {
		for n := lo; n <= hi; n++ {
			v := b
			v.Raw = pattern(n, 17, 0xA1)
			out = append(out, v)
		}
	}
	return out
}

func descrBases() []Val {
	return []Val{withDevice(baseSvc("SearchRes")), withDevice(baseSvc("DescriptionRes"))}
}

func familyCountValues(bases []Val, hi int) []Val {
	var out []Val
	for _, b := range bases {
		for n := 0; n <= hi; n++ {
			v := b
			v.Fams = famBytes(n)
			out = append(out, v)
		}
	}
	return out
}

// furtherDIBValues: a DescriptionRes followed by every sequence of 0..3 further description blocks
// over five block shapes of pairwise different sizes (so that a block packed with another block's
// size, or twice, moves everything behind it).
func furtherDIBValues() []Val {
	// (the data-less block is encodable - size 2 - but dropped by the decoder: C15 judges it, C02's
	// round trip has it outside its domain)
	shapes := []Blk{{3, pattern(1, 7, 0x31)}, {4, pattern(2, 7, 0x41)}, {5, pattern(40, 7, 0x51)}, {0xFE, pattern(253, 7, 0x61)}, {3, pattern(7, 7, 0x71)}, {4, nil}}
	base := withDevice(baseSvc("DescriptionRes"))
	base.Fams = famBytes(2)
	out := []Val{base}
	var rec func(prefix []Blk, depth int)
	rec = func(prefix []Blk, depth int) {
		if depth == 0 {
			return
		}
		for _, b := range shapes {
			v := base
			v.Blocks = append(append([]Blk(nil), prefix...), b)
			out = append(out, v)
			rec(v.Blocks, depth-1)
		}
	}
	rec(nil, 3)
	return out
}

// dataLessBlockValues: the further-block sequences that contain at least one block without data.
func dataLessBlockValues() []Val {
	var out []Val
	for _, v := range furtherDIBValues() {
		for _, b := range v.Blocks {
			if len(b.Data) == 0 {
				out = append(out, v)
				break
			}
		}
	}
	return out
}

// searchResBlockValues: a SearchRes whose description block carries further blocks. The library
// has no encoder for them (they are dropped); whatever it does with them, C15's clauses - size ==
// octets written, every octet determined, nothing beyond - must hold.
func searchResBlockValues() []Val {
	var out []Val
	for _, d := range furtherDIBValues() {
		v := withDevice(baseSvc("SearchRes"))
		v.H1 = Host{Proto: 1, Addr: [4]byte{10, 0, 0, 9}, Port: 3671}
		v.Fams, v.Blocks = d.Fams, d.Blocks
		out = append(out, v)
	}
	return out
}

func nameLengthValues(bases []Val, lo, hi int) []Val {
	var out []Val
	for _, b := range bases {
		for n := lo; n <= hi; n++ {
			for k, g := range []func(int) string{asciiName, latinName, mixedName} {
				if n == 0 && k > 0 {
					break
				}
				v := b
				v.Name = g(n)
				out = append(out, v)
			}
		}
	}
	return out
}

// oneHighCharNameValues: ASCII names of every length lo..hi with exactly one two-octet character
// (UTF-8) at every position: every alignment of a multi-octet character against any octet-counted
// limit an encoder might apply to the UTF-8 form of the name.
func oneHighCharNameValues(bases []Val, lo, hi int) []Val {
	var out []Val
	for _, b := range bases {
		for n := lo; n <= hi; n++ {
			for p := 0; p < n; p++ {
				v := b
				v.Name = strings.Repeat("a", p) + "\u00fc" + strings.Repeat("b", n-p-1)
				out = append(out, v)
			}
		}
	}
	return out
}

// nameCharValues puts every ISO 8859-1 character 1..255 into a one-character name and at the end
// of a 29-character name.
func nameCharValues(bases []Val) (out, repeats []Val) {
	inLengthSpace := map[string]bool{asciiName(1): true, latinName(1): true, mixedName(1): true}
	for _, b := range bases {
		for c := 1; c < 256; c++ {
			v := b
			v.Name = string(rune(c))
			if inLengthSpace[v.Name] {
				repeats = append(repeats, v)
			} else {
				out = append(out, v)
			}
			v.Name = strings.Repeat("n", 28) + string(rune(c))
			out = append(out, v)
		}
	}
	return out, repeats
}

func nonLatinNameValues(bases []Val, hi int) []Val {
	var out []Val
	for _, b := range bases {
		for n := 1; n <= hi; n++ {
			for _, pos := range []int{0, n / 2, n - 1} {
				v := b
				v.Name = nonLatinName(n, pos)
				out = append(out, v)
				if n == 1 {
					break
				}
			}
		}
	}
	return out
}

// c02Spaces is the value set of the first half of C02 (and the first part of C15's).
func c02Spaces(thorough bool) []*space {
	var out []*space
	for _, sh := range c02Shapes(thorough) {
		out = append(out, shapeSpaces(sh, thorough)...)
	}
	// a second service family over the complete product type x version
	fam := &space{name: "service-family-product/DescriptionRes", note: "DescriptionRes with the families (05,02),(t,v): complete product of family type t 0..255 x version v 0..255"}
	famBase := withDevice(baseSvc("DescriptionRes"))
	fam.add(freshAll, false, variantDim([]Val{famBase}),
		dim{"family", 256, func(v *Val, k int64) { v.Fams = hexb{5, 2, byte(k), 0} }, -1},
		dim{"version", 256, func(v *Val, k int64) { v.Fams = hexb{5, 2, v.Fams[2], byte(k)} }, -1})
	out = append(out, fam)
	nameChars, nameRepeats := nameCharValues(descrBases())
	out = append(out,
		listSpace("tpci-apci/L_Data", "TunnelReq and RoutingInd x L_Data.req/con/ind x all 1024 combinations of APCI or control code 0..15 x numbered flag x sequence 0..15 x application/control unit; combinations that have no wire representation (sequence number of an unnumbered unit, control code over 3) are run and tallied under outside_domain, not judged",
			tpciValues(ldBases("TunnelReq", "RoutingInd"), hexb{0x15})),
		listSpace("app-data-length/L_Data", "TunnelReq and RoutingInd x L_Data.req/con/ind x application data of every length 1..254 x first octet {00,01,3F}", appLengthValues(ldBases("TunnelReq", "RoutingInd"), 1, 254, []byte{0, 1, 0x3F})),
		listSpace("additional-info-length/L_Data", "TunnelReq and RoutingInd x L_Data.req/con/ind x application/control unit x additional info of every length 0..255 (the 12 cases of length 0 repeat base values of the single-field spaces and are not counted as distinct)",
			infoLengthValues(ldBases("TunnelReq", "RoutingInd"), 1, 255), infoLengthValues(ldBases("TunnelReq", "RoutingInd"), 0, 0)...),
		listSpace("raw-body-length", "TunnelReq and RoutingInd x {L_Raw.req, L_Raw.con, L_Raw.ind, L_Busmon.ind, unsupported code 13} x body of every length 0..300", rawLengthValues(rawBases("TunnelReq", "RoutingInd"), 0, 300)),
		listSpace("further-description-blocks", "DescriptionRes x every sequence of 0..3 further description blocks over six shapes (types 3, 4, 5, 0xFE; 0, 1, 2, 7, 40 and 253 data octets)", furtherDIBValues()),
		listSpace("service-family-count", "SearchRes and DescriptionRes x every number of service families 0..20", familyCountValues(descrBases(), 20)),
		listSpace("friendly-name-length", "SearchRes and DescriptionRes x friendly name of every length 0..29 x {ASCII, ISO 8859-1 high half, mixed}", nameLengthValues(descrBases(), 0, 29)),
		listSpace("friendly-name-characters", "SearchRes and DescriptionRes x every ISO 8859-1 character 01..FF as a one-character name and as the 29th character of a 29-character name (the 6 one-character names that the length space already has are not counted as distinct)", nameChars, nameRepeats...),
	)
	return out
}
