//go:build verif

package codec

import (
	"bytes"
	"crypto/sha256"
	"encoding/hex"
	"encoding/json"
	"fmt"
	"os"
	"runtime/debug"
	"strings"
	"sync"
	"sync/atomic"
	"time"

	"github.com/vapourismo/knx-go/knx/cemi"
	"github.com/vapourismo/knx-go/knx/knxnet"

	"verifh/enum/enumlib"
	"verifh/enum/refenc"
)

func init() {
	enumlib.Register(&enumlib.Check{
		Prop:   "C02",
		Run:    runC02,
		Replay: replayC02,
		Rule: "every space is enumerated completely in index order (index % shards), no sampling. First half (encode -> decode): for every encodable service type " +
			"(SearchReq/Res, DescriptionReq/Res, ConnReq/Res, ConnStateReq/Res, DiscReq/Res, TunnelReq, TunnelRes, RoutingInd) x every cEMI kind it carries " +
			"(L_Data.req/con/ind with application or control unit, L_Raw.req/con/ind, L_Busmon.ind, unsupported codes): (1) single-field-ranges - every scalar field over its full 8/16-bit range, the others at a base value; " +
			"(2) boundary-product - the complete Cartesian product of the boundary alphabets {0,1,2,3F,40,7F,80,FE,FF} (octets), {0,1,FF,100,7FFF,8000,FFFF} (16 bit), five whole IPv4 addresses and the listed alternatives of the variable parts, across all fields jointly; " +
			"(3) full-product for the services with at most three octet fields; (4) thorough only: pairwise-full-ranges - complete products of the full ranges of every pair of octet fields (every variant) and of the octet x 16-bit pairs inside one structure " +
			"(HostInfo: Protocol x Port, Address[3] x Port; L_Data: Control1/Control2 x Source/Destination; device DIB: Medium/Status x Source/ProjectIdentifier; one variant per pair in rotation - each space's note lists them); " +
			"(5) all 1024 TPCI/APCI combinations, every application data length 1..254, every additional-info length 0..255, every raw body length 0..300, every family count 0..20, every name length 0..29, every ISO 8859-1 character. " +
			"Oracle: knxnet.Unpack(knxnet.AllocAndPack(v)) returns no error, consumes at most the encoding, yields the same Go type, a message whose MessageCode() is the reference code of the sent message type, and deeply equal fields (nil and empty slices identified). " +
			"Second half (decode -> encode -> decode): every frame of refenc.Corpus and every single-octet substitution of every corpus frame (each position x 0..255); a byte string is judged when knxnet.Unpack accepts it, the decoded type is encodable and no reserved part is non-zero; " +
			"then Unpack(AllocAndPack(Unpack(b))) must equal Unpack(b). distinct_nontrivial counts, first half, the values whose round trip ran up to the comparison and that no other case of any space produces " +
			"(base values are outside the boundary alphabets; the base value recurring in every single-field range is counted once per shape, points of a pair product with a coordinate at its base value are not counted, listed repeats are not counted); " +
			"second half, the byte strings that were accepted, encodable, reserved-zero and whose re-encoding was decoded and compared, and that differ from every other judged string (a substitution by the original octet is skipped). " +
			"A panic of the library is a finding whose class names the innermost knx-go frame that is not a generic dispatcher (util.Pack/PackSome/Unpack/UnpackSome, cemi.Pack/Unpack, knxnet.Pack/AllocAndPack/Unpack).",
		Assume: []string{
			"domain conventions (DESIGN §5 C02): only values whose every member has a wire field are judged - ConnRes.Control is zero when Status is an error (not transmitted); the sequence number of an unnumbered transport unit is zero (its bits are reserved); control codes are 0..3, APCI 0..15, sequence 0..15, first application data octet < 64, 1..255 data octets; DIB Type members hold their defining constants; HardwareAddr has 6 octets; names are ISO 8859-1, at most 29 characters, no trailing NUL; an UnsupportedMessage does not carry one of the seven supported codes. Values outside are run and tallied under outside_domain, never judged",
			"RoutingLost and RoutingBusy have no encoder in the library and are outside the property; UnknownService has one and is judged in the second half",
			"reserved parts (Appendix C): fourth octet of the tunnelling connection header, fourth CRI octet, sequence bits of an unnumbered transport unit, length octet of a control unit, 30th octet of a friendly name (refenc.ReservedNonZero), plus - conservatively - the second octet of CONNECTIONSTATE_REQUEST / DISCONNECT_REQUEST and bit 6 of control field 1; byte strings with any of them non-zero are counted, not judged",
			"the decoder's consumed-length result is only required not to exceed the input (DESIGN oracle n <= len); encodings of which it consumed less (the CRD of a ConnRes is not read) are tallied under decoder_consumed_less_than_encoding",
			"the reference codes of message types and service types come from refenc (written from the KNX layouts), not from the library's MessageCode()/Service() methods",
			"boundary alphabets, not full products, cover joint variation of more than two fields and of 16-bit x 16-bit pairs (DESIGN §9)",
			"second half: byte strings that are a description response whose DIB chain reaches a DIB of length 0 are not given to the decoder (on the unrepaired tree DescriptionBlock.Unpack never returns on them - C01's finding); they are counted under decode_encode_decode. A watchdog aborts with INFRA-ERROR if any other library call does not return within 20 s",
		},
	})
}

// c02Input is the replayable description of one case.
type c02Input struct {
	Op    string   `json:"op"` // "roundtrip" | "stability"
	Value *Val     `json:"value,omitempty"`
	Bytes string   `json:"bytes,omitempty"` // hex
	Frame string   `json:"corpus_frame,omitempty"`
	Label string   `json:"label,omitempty"`
	Path  []string `json:"path,omitempty"`
}

// ---------------------------------------------------------------------------------------------
// first half: encode -> decode

type rtOutcome struct {
	inDomain bool
	reason   string // why the value is outside the domain
	compared bool   // the round trip ran up to the comparison
	shortN   bool   // the decoder consumed less than the encoding
	f        *finding
}

func refMessageCode(v *Val) byte {
	switch v.Msg {
	case "LDataReq":
		return refenc.LDataReq
	case "LDataCon":
		return refenc.LDataCon
	case "LDataInd":
		return refenc.LDataInd
	case "LRawReq":
		return refenc.LRawReq
	case "LRawCon":
		return refenc.LRawCon
	case "LRawInd":
		return refenc.LRawInd
	case "LBusmonInd":
		return refenc.LBusmonInd
	}
	return v.Code
}

func payloadOf(s knxnet.Service) cemi.Message {
	switch s := s.(type) {
	case *knxnet.TunnelReq:
		return s.Payload
	case *knxnet.RoutingInd:
		return s.Payload
	}
	return nil
}

func judgeRoundTrip(v *Val) (o rtOutcome) {
	ok, why := v.domainC02()
	if !ok {
		o.reason = why
		return
	}
	o.inDomain = true
	fail := func(class, format string, a ...interface{}) rtOutcome {
		o.f = &finding{"C02:" + class, fmt.Sprintf(format, a...)}
		return o
	}
	sent := v.service()
	var enc []byte
	if p, msg, site := guard(func() { enc = knxnet.AllocAndPack(sent) }); p {
		return fail("panic:"+site, "encoding a %s value panicked in %s: %s", v.label(), site, msg)
	}
	// a sender that keeps one transmit buffer encodes over the previous frame: the frame must not
	// depend on what the buffer held (encode into a 0xFF-filled buffer of the same size)
	dirty := make([]byte, len(enc))
	for i := range dirty {
		dirty[i] = 0xFF
	}
	if p, msg, site := guard(func() { knxnet.Pack(dirty, sent) }); p {
		return fail("panic:"+site, "encoding a %s value into a used buffer panicked in %s: %s", v.label(), site, msg)
	}
	// ... and a transmit buffer is usually larger than the frame: the encoding is the first Size()
	// octets whatever room follows them (knxnet.Pack documents "at least Size() octets")
	roomy := make([]byte, len(enc)+37)
	if p, msg, site := guard(func() { knxnet.Pack(roomy, sent) }); p {
		return fail("panic:"+site, "encoding a %s value into a buffer with room to spare panicked in %s: %s", v.label(), site, msg)
	}
	if d := firstDiff(enc, roomy[:len(enc)]); d >= 0 {
		return fail("encoding-depends-on-buffer-size:"+v.label(), "a %s value encoded into a buffer of exactly Size() octets and into one with 37 octets to spare differs at offset %d (%#02x vs %#02x)", v.label(), d, enc[d], roomy[d])
	}
	if d := firstDiff(enc, dirty); d >= 0 {
		var got2 knxnet.Service
		_, err2 := knxnet.Unpack(dirty, &got2)
		return fail("encoding-depends-on-buffer:"+v.label(), "a %s value encoded into a fresh buffer and into one that held 0xFF octets differs at offset %d (%#02x vs %#02x); the second frame decodes to %+v (err %v)", v.label(), d, enc[d], dirty[d], got2, err2)
	}
	if wouldLoop(enc) { // never produced by a correct encoder; the unrepaired decoder does not terminate on it
		return fail("encoding-has-zero-length-DIB:"+v.label(), "the encoding of a %s value contains a description block of length 0: % x", v.label(), enc)
	}
	var got knxnet.Service
	var n uint
	var err error
	if p, msg, site := guard(func() { n, err = knxnet.Unpack(enc, &got) }); p {
		return fail("panic:"+site, "decoding the library's own encoding of a %s value (% x) panicked in %s: %s", v.label(), clip(enc), site, msg)
	}
	if err != nil {
		return fail("decode-rejects:"+v.label(), "the decoder rejects the library's own encoding of a %s value: %v (encoding % x)", v.label(), err, clip(enc))
	}
	if int(n) > len(enc) {
		return fail("decode-overreads:"+v.label(), "the decoder reports %d consumed octets for an encoding of %d", n, len(enc))
	}
	o.shortN = int(n) < len(enc)
	o.compared = true
	if where, detail := diffService(sent, got); where != "" {
		return fail("roundtrip-differs:"+where, "%s value does not survive encode -> decode: %s", v.label(), detail)
	}
	if v.carriesMessage() {
		var code cemi.MessageCode
		m := payloadOf(got)
		if p, msg, site := guard(func() { code = m.MessageCode() }); p {
			return fail("panic:"+site, "MessageCode() of the decoded message panicked: %s", msg)
		}
		if byte(code) != refMessageCode(v) {
			return fail("message-code:"+v.Msg, "decoded %T reports message code %#02x, the sent %s has code %#02x", m, byte(code), v.Msg, refMessageCode(v))
		}
	}
	return o
}

const testImports = "// imports: bytes, net, reflect, testing, github.com/vapourismo/knx-go/knx/cemi, github.com/vapourismo/knx-go/knx/knxnet (drop the unused ones)\n"

func roundTripTest(v *Val) string {
	extra := ""
	if v.Kind == "TunnelReq" || v.Kind == "RoutingInd" {
		extra = fmt.Sprintf("\tif g, ok := got.(*knxnet.%s); ok {\n\t\tt.Logf(\"payload sent as %%T (code %%#x) came back as %%T\", sent.Payload, uint8(sent.Payload.MessageCode()), g.Payload)\n\t}\n", v.Kind)
	}
	return testImports + fmt.Sprintf(`func TestC02RoundTrip(t *testing.T) {
	sent := %s
	frame := knxnet.AllocAndPack(sent) // a panic here is the finding
	var got knxnet.Service
	if _, err := knxnet.Unpack(frame, &got); err != nil {
		t.Fatalf("own encoding %% x rejected: %%v", frame, err)
	}
%s	if !reflect.DeepEqual(got, knxnet.Service(sent)) {
		t.Fatalf("encode -> decode changed the value:\nsent %%#v\ngot  %%#v", sent, got)
	}
}
`, v.goExpr(), extra)
}

// ---------------------------------------------------------------------------------------------
// second half: decode -> encode -> decode

// reservedConservative adds the parts this check is not sure are free to use: the second octet of
// CONNECTIONSTATE_REQUEST / DISCONNECT_REQUEST (Appendix C writes it as 00) and bit 6 of control
// field 1 of an L_Data message.
func reservedConservative(b []byte) bool {
	if len(b) < 8 {
		return false
	}
	body := b[6:]
	ldataCtrl1 := func(off int) bool {
		if off+1 >= len(body) || !refenc.IsLData(body[off]) {
			return false
		}
		c1 := off + 2 + int(body[off+1])
		return c1 < len(body) && body[c1]&0x40 != 0
	}
	switch uint16(b[2])<<8 | uint16(b[3]) {
	case refenc.ConnStateReqID, refenc.DiscReqID:
		return body[1] != 0
	case refenc.TunnelReqID:
		return ldataCtrl1(4)
	case refenc.RoutingIndID:
		return ldataCtrl1(0)
	}
	return false
}

// wouldLoop recognises the byte strings on which DescriptionBlock.Unpack of the unrepaired tree
// never returns (a description response whose DIB chain, followed by its length octets, reaches a
// DIB of length 0 - finding 3 of DESIGN §6, C01's business). They are not "accepted byte strings"
// and are skipped here so that this check terminates; a watchdog turns any other hang into an
// INFRA-ERROR instead of a silent stall.
func wouldLoop(b []byte) bool {
	if len(b) < 8 || uint16(b[2])<<8|uint16(b[3]) != refenc.DescrResID {
		return false
	}
	body := b[6:]
	for off := 0; off+1 < len(body); {
		l := int(body[off])
		if l == 0 {
			return true
		}
		off += l
	}
	return false
}

type stOutcome struct {
	status string // tally key
	judged bool   // the re-encoding was decoded and compared
	f      *finding
}

func judgeStability(b []byte) (o stOutcome) {
	fail := func(class, format string, a ...interface{}) stOutcome {
		o.status = "violation"
		o.f = &finding{"C02:" + class, fmt.Sprintf(format, a...)}
		return o
	}
	if wouldLoop(b) {
		o.status = "not-decoded: DIB of length 0 (decoder of the unrepaired tree does not terminate, C01)"
		return
	}
	var v1 knxnet.Service
	var err error
	in := append([]byte(nil), b...) // cap == len: nothing behind the input to read
	if p, _, _ := guard(func() { _, err = knxnet.Unpack(in, &v1) }); p {
		o.status = "decoder-panicked (C01's business)"
		return
	}
	if err != nil {
		o.status = "rejected-by-decoder"
		return
	}
	sp, ok := v1.(knxnet.ServicePackable)
	if !ok {
		o.status = "accepted-but-type-has-no-encoder"
		return
	}
	if refenc.ReservedNonZero(b) {
		o.status = "accepted-but-reserved-part-non-zero"
		return
	}
	if reservedConservative(b) {
		o.status = "accepted-but-possibly-reserved-part-non-zero (not judged, conservative)"
		return
	}
	tn := typeName(v1)
	// the further description blocks a response carries must come out as the reference parser reads
	// them from the same octets (a damaged but stable decode would pass the relay test below)
	if dr, ok := v1.(*knxnet.DescriptionRes); ok {
		if ref, err := refenc.Parse(b); err == nil {
			var want []refenc.DIB
			for _, d := range ref.DIBs {
				if d.Type == refenc.DIBIPConfig || d.Type == refenc.DIBIPCurrent || d.Type == refenc.DIBKNXAddrs || d.Type == refenc.DIBMfrData {
					want = append(want, d)
				}
			}
			if len(want) == len(dr.UnknownBlocks) {
				for i, d := range want {
					if byte(dr.UnknownBlocks[i].Type) != d.Type || !bytes.Equal(dr.UnknownBlocks[i].Data, d.Data) {
						return fail("decode-differs-from-reference:DescriptionBlock.UnknownBlocks", "further description block %d of an accepted DescriptionRes decodes as type %#02x data % x; the octets say type %#02x data % x", i, byte(dr.UnknownBlocks[i].Type), dr.UnknownBlocks[i].Data, d.Type, d.Data)
					}
				}
			}
		}
	}
	// A relay's receive buffer is reused for the next datagram before the telegram is re-encoded:
	// the decoded value must not refer to the input octets. v0 is decoded from an untouched copy.
	var v0 knxnet.Service
	in0 := append([]byte(nil), b...)
	if p, _, _ := guard(func() { _, err = knxnet.Unpack(in0, &v0) }); p || err != nil {
		o.status = "decoder-not-deterministic"
		return
	}
	for i := range in {
		in[i] ^= 0xFF
	}
	if where, detail := diffService(v0, v1); where != "" {
		return fail("decoded-value-aliases-input:"+where, "the %s decoded from a buffer changes when that buffer is overwritten afterwards (a receiver reusing its buffer for the next datagram alters the telegram already delivered): %s", tn, detail)
	}
	var enc []byte
	if p, msg, site := guard(func() { enc = knxnet.AllocAndPack(sp) }); p {
		return fail("panic:"+site, "re-encoding the decoded %s panicked in %s: %s", tn, site, msg)
	}
	if wouldLoop(enc) {
		return fail("encoding-has-zero-length-DIB:"+tn, "the re-encoding of an accepted %s contains a description block of length 0: % x", tn, enc)
	}
	var v2 knxnet.Service
	var n uint
	if p, msg, site := guard(func() { n, err = knxnet.Unpack(enc, &v2) }); p {
		return fail("panic:"+site, "decoding the re-encoded %s (% x) panicked in %s: %s", tn, clip(enc), site, msg)
	}
	if err != nil {
		return fail("reencode-rejected:"+tn, "the re-encoding of an accepted %s is rejected by the decoder: %v (re-encoding % x)", tn, err, clip(enc))
	}
	if int(n) > len(enc) {
		return fail("decode-overreads:"+tn, "the decoder reports %d consumed octets for a re-encoding of %d", n, len(enc))
	}
	o.judged = true
	o.status = "judged"
	if where, detail := diffService(v1, v2); where != "" {
		return fail("unstable:"+where, "decode -> encode -> decode changes an accepted %s: %s", tn, detail)
	}
	return o
}

func stabilityTest(b []byte) string {
	return testImports + fmt.Sprintf(`func TestC02Stability(t *testing.T) {
	in := %s
	var first, second knxnet.Service
	if _, err := knxnet.Unpack(in, &first); err != nil {
		t.Skip("not accepted", err)
	}
	relayed := knxnet.AllocAndPack(first.(knxnet.ServicePackable)) // a panic here is the finding
	if _, err := knxnet.Unpack(relayed, &second); err != nil {
		t.Fatalf("re-encoding %% x rejected: %%v", relayed, err)
	}
	if !reflect.DeepEqual(first, second) {
		t.Fatalf("decode -> encode -> decode changed the value:\nfirst  %%#v\nsecond %%#v", first, second)
	}
}
`, goBytes(b))
}

// ---------------------------------------------------------------------------------------------
// Run

func runC02(r *enumlib.Run) {
	// the live heap is a few megabytes and every case allocates: collect less often
	defer debug.SetGCPercent(debug.SetGCPercent(800))
	c := newCollector()
	stateSpaceC02(r) // first: the packages are in the state their initialisation left them in
	spaces := c02Spaces(r.Thorough())
	for ord, s := range spaces {
		runSpace(r, c, ord, s, func(l *local, ord int, idx int64, v *Val, fresh bool) (bool, bool) {
			o := judgeRoundTrip(v)
			if !o.inDomain {
				l.tally["outside_domain:"+o.reason]++
				// run it anyway so that the evidence says what the library does with it
				l.tally["outside_domain_result:"+outsideResult(v)]++
				return false, false
			}
			if o.shortN {
				l.tally["decoder_consumed_less_than_encoding:"+v.Kind]++
			}
			if o.f != nil {
				vc := *v
				l.report(*o.f, ord, idx, func() interface{} { return c02Input{Op: "roundtrip", Value: &vc} }, func() string { return roundTripTest(&vc) })
			}
			return true, o.compared && fresh
		})
	}
	stabilitySpace(r, c, len(spaces))
	c.flush(r)
	publishTallies(r, c)
}

// outsideResult describes what the library does with a value outside the domain (never judged).
func outsideResult(v *Val) string {
	sent := v.service()
	if sent == nil {
		return "not-built"
	}
	var enc []byte
	if p, _, site := guard(func() { enc = knxnet.AllocAndPack(sent) }); p {
		return "encoder-panics:" + site
	}
	var got knxnet.Service
	var err error
	if p, _, site := guard(func() { _, err = knxnet.Unpack(enc, &got) }); p {
		return "decoder-panics:" + site
	}
	if err != nil {
		return "decoder-rejects"
	}
	if where, _ := diffService(sent, got); where != "" {
		return "comes-back-different:" + where
	}
	return "comes-back-equal"
}

func publishTallies(r *enumlib.Run, c *collector) {
	groups := map[string]map[string]int64{}
	for k, n := range c.tally {
		g, rest := k, ""
		if i := strings.Index(k, ":"); i >= 0 {
			g, rest = k[:i], k[i+1:]
		}
		if groups[g] == nil {
			groups[g] = map[string]int64{}
		}
		groups[g][rest] += n
	}
	for g, m := range groups {
		r.Extra(g, m)
	}
}

// stabilitySpace: every corpus frame plus all its single-octet substitutions. Case index: first the
// unmodified frames in corpus order, then per frame 256*position+value for its substitutions (so
// that the stored example of a class is an unmodified frame whenever one shows it).
func stabilitySpace(r *enumlib.Run, c *collector, ord int) {
	corpus := refenc.Corpus()
	name := "decode-encode-decode/corpus+single-octet-substitutions"
	starts := make([]int64, len(corpus))
	total := int64(len(corpus))
	for i, nf := range corpus {
		starts[i] = total
		total += int64(len(nf.Bytes)) * 256
	}
	var evals, skipped int64
	var expired int32
	var mu sync.Mutex
	seen := map[[16]byte]struct{}{} // judged byte strings (two different corpus frames can meet in one substitution)
	// watchdog: a single case that takes more than 20 s is a hang of the code under test
	var current [64]atomic.Value // per shard: *watched
	type watched struct {
		since time.Time
		input []byte
	}
	stop := make(chan struct{})
	defer close(stop)
	go func() {
		for {
			select {
			case <-stop:
				return
			case <-time.After(time.Second):
			}
			for i := range current {
				if w, _ := current[i].Load().(*watched); w != nil && time.Since(w.since) > 20*time.Second {
					fmt.Printf("INFRA-ERROR property=C02 a library call has not returned for 20 s on input %x (hang of the code under test; C01 covers termination)\n", w.input)
					os.Exit(2)
				}
			}
		}
	}()
	r.Parallel(func(shard, n int) {
		l := newLocal()
		var ev, sk int64
		var hashes [][16]byte
		for fi := shard; fi < len(corpus); fi += n {
			if r.Expired() {
				atomic.StoreInt32(&expired, 1)
				break
			}
			orig, fname := corpus[fi].Bytes, corpus[fi].Name
			buf := append([]byte(nil), orig...)
			judge := func(caseIdx int64, b []byte) {
				current[shard%len(current)].Store(&watched{time.Now(), append([]byte(nil), b...)})
				o := judgeStability(b)
				l.tally["decode_encode_decode:"+o.status]++
				if o.f != nil {
					bc := append([]byte(nil), b...)
					l.report(*o.f, ord, caseIdx, func() interface{} { return c02Input{Op: "stability", Bytes: hex.EncodeToString(bc), Frame: fname} }, func() string { return stabilityTest(bc) })
				}
				if o.judged || o.f != nil {
					ev++
				}
				if o.judged {
					h := sha256.Sum256(b)
					var k [16]byte
					copy(k[:], h[:])
					hashes = append(hashes, k)
				}
			}
			judge(int64(fi), buf)
			for pos := range orig {
				for x := 0; x < 256; x++ {
					if byte(x) == orig[pos] {
						sk++
						continue
					}
					buf[pos] = byte(x)
					judge(starts[fi]+int64(pos)*256+int64(x), buf)
				}
				buf[pos] = orig[pos]
			}
			current[shard%len(current)].Store((*watched)(nil))
			if fi == len(corpus)/2 {
				r.Sample(map[string]interface{}{"space": name, "corpus_frame": fname, "bytes": hex.EncodeToString(orig)})
			}
		}
		atomic.AddInt64(&evals, ev)
		atomic.AddInt64(&skipped, sk)
		mu.Lock()
		for _, h := range hashes {
			seen[h] = struct{}{}
		}
		mu.Unlock()
		c.merge(l)
	})
	nontriv := int64(len(seen))
	r.Eval(evals)
	r.Nontrivial(nontriv)
	note := fmt.Sprintf("%d frames of refenc.Corpus (every service identifier, every cEMI code in both carriers, L_Data unit/info varieties, description/search responses with DIB varieties) and, for each, every position x every octet value 0..255; "+
		"%d byte strings judged (accepted, encodable type, reserved parts zero), %d of them distinct and compared after re-encoding; %d substitutions by the original octet skipped; the rest not accepted / not encodable / reserved part non-zero (see decode_encode_decode)",
		len(corpus), evals, nontriv, skipped)
	if expired != 0 {
		note += "; CUT SHORT by the time budget"
	}
	r.Space(name, total, nontriv, expired == 0, note)
}

// ---------------------------------------------------------------------------------------------
// Replay

func replayC02(class string, raw json.RawMessage) (string, bool) {
	var in c02Input
	if err := json.Unmarshal(raw, &in); err != nil {
		return "cannot decode input: " + err.Error(), false
	}
	switch in.Op {
	case "statepath":
		return replayStatePathC02(in)
	case "roundtrip":
		if in.Value == nil {
			return "no value", false
		}
		o := judgeRoundTrip(in.Value)
		desc := "encode -> decode of " + in.Value.goExpr()
		if !o.inDomain {
			return desc + "\noutside the domain of the property: " + o.reason, false
		}
		if o.f != nil {
			return desc + "\n" + o.f.class + ": " + o.f.msg, true
		}
		return desc + "\nround trip is the identity", false
	case "stability":
		b, err := hex.DecodeString(in.Bytes)
		if err != nil {
			return "bad hex: " + err.Error(), false
		}
		o := judgeStability(b)
		desc := fmt.Sprintf("decode -> encode -> decode of % x (%s)", b, in.Frame)
		if o.f != nil {
			return desc + "\n" + o.f.class + ": " + o.f.msg, true
		}
		return desc + "\n" + o.status, false
	}
	return "unknown op " + in.Op, false
}
