//go:build verif

package codec

import (
	"fmt"
	"runtime"
	"strings"
	"sync"
)

// Every call into the library goes through guard: a panic of the code under test is reported with
// the name of the function that raised it instead of propagating.

const libPrefix = "github.com/vapourismo/knx-go/"

// dispatchers are the generic forwarding helpers of the library. A panic raised while one of them
// is the innermost library frame is attributed to the nearest caller that is not one of them, so
// that the class names the encoder/decoder that handed over the offending argument
// (util.Pack's "Can't pack type" raised for SearchRes.Pack is a defect of SearchRes.Pack).
var dispatchers = map[string]bool{
	"util.Pack": true, "util.PackSome": true, "util.Unpack": true, "util.UnpackSome": true, "util.AllocAndPack": true,
	"cemi.Pack": true, "cemi.Size": true, "cemi.Unpack": true,
	"knxnet.Pack": true, "knxnet.Size": true, "knxnet.AllocAndPack": true, "knxnet.Unpack": true,
}

var siteCache sync.Map // string(pcs) -> site

// shortFunc turns "github.com/vapourismo/knx-go/knx/knxnet.(*SearchRes).Pack" into
// ("knxnet.Pack"-style key, display name): methods are displayed as Type.Method, package-level
// functions by their bare name; the key carries the package for the dispatcher table.
func shortFunc(full string) (key, display string) {
	s := strings.TrimPrefix(full, libPrefix)
	if i := strings.LastIndex(s, "/"); i >= 0 {
		s = s[i+1:]
	}
	// s is now e.g. "knxnet.(*SearchRes).Pack", "util.PackString", "cemi.Info.Pack"
	dot := strings.Index(s, ".")
	if dot < 0 {
		return s, s
	}
	pkg, rest := s[:dot], s[dot+1:]
	rest = strings.NewReplacer("(*", "", ")", "").Replace(rest)
	if i := strings.Index(rest, ".func"); i >= 0 { // closures
		rest = rest[:i]
	}
	if strings.Contains(rest, ".") {
		return pkg + "." + rest, rest // method: Type.Method
	}
	return pkg + "." + rest, rest
}

// panicSite names the innermost library frame of the panicking stack that is not a generic
// dispatcher. Called from inside a deferred function while the panic is being recovered.
func panicSite() string {
	var pcs [64]uintptr
	n := runtime.Callers(3, pcs[:])
	key := fmt.Sprint(pcs[:n])
	if s, ok := siteCache.Load(key); ok {
		return s.(string)
	}
	frames := runtime.CallersFrames(pcs[:n])
	site, firstLib := "", ""
	for {
		fr, more := frames.Next()
		if strings.HasPrefix(fr.Function, libPrefix) {
			k, disp := shortFunc(fr.Function)
			if firstLib == "" {
				firstLib = disp
			}
			if !dispatchers[k] {
				site = disp
				break
			}
		}
		if !more {
			break
		}
	}
	if site == "" {
		site = firstLib
	}
	if site == "" {
		site = "outside-library"
	}
	siteCache.Store(key, site)
	return site
}

// guard runs f; when f panics it returns the panic text and the library function it is attributed to.
func guard(f func()) (panicked bool, msg, site string) {
	defer func() {
		if p := recover(); p != nil {
			panicked = true
			msg = fmt.Sprint(p)
			site = panicSite()
		}
	}()
	f()
	return
}
