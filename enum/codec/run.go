//go:build verif

package codec

import (
	"fmt"
	"sort"
	"sync"
	"sync/atomic"

	"verifh/enum/enumlib"
)

// finding is one verdict against the library on one case.
type finding struct {
	class string
	msg   string
}

// vrec keeps, per violation class, the number of cases and the earliest case (by space order, then
// by index) so that the stored replay artefact is the same on every run.
type vrec struct {
	count int64
	ord   int
	idx   int64
	msg   string
	input interface{}
	test  func() string
}

func (a *vrec) before(b *vrec) bool { return a.ord < b.ord || a.ord == b.ord && a.idx < b.idx }

type collector struct {
	mu    sync.Mutex
	viol  map[string]*vrec
	tally map[string]int64
}

func newCollector() *collector {
	return &collector{viol: map[string]*vrec{}, tally: map[string]int64{}}
}

// local is the per-shard accumulator.
type local struct {
	viol  map[string]*vrec
	tally map[string]int64
	bufs  [4][]byte
}

func newLocal() *local { return &local{viol: map[string]*vrec{}, tally: map[string]int64{}} }

// report records a finding; input and test are only evaluated for the earliest case of a class.
func (l *local) report(f finding, ord int, idx int64, input func() interface{}, test func() string) {
	r := l.viol[f.class]
	if r == nil {
		l.viol[f.class] = &vrec{count: 1, ord: ord, idx: idx, msg: f.msg, input: input(), test: test}
		return
	}
	r.count++
	if ord < r.ord || ord == r.ord && idx < r.idx {
		r.ord, r.idx, r.msg, r.input, r.test = ord, idx, f.msg, input(), test
	}
}

func (c *collector) merge(l *local) {
	c.mu.Lock()
	defer c.mu.Unlock()
	for k, n := range l.tally {
		c.tally[k] += n
	}
	for cl, r := range l.viol {
		g := c.viol[cl]
		if g == nil {
			c.viol[cl] = r
			continue
		}
		n := g.count + r.count
		if r.before(g) {
			*g = *r
		}
		g.count = n
	}
}

// flush hands the collected violations to the run: the earliest case of each class with its test
// body, then the remaining count.
func (c *collector) flush(r *enumlib.Run) {
	var classes []string
	for cl := range c.viol {
		classes = append(classes, cl)
	}
	sort.Strings(classes)
	for _, cl := range classes {
		v := c.viol[cl]
		test := ""
		if v.test != nil {
			test = v.test()
		}
		r.ViolationWithTest(cl, v.msg, v.input, test)
		for i := int64(1); i < v.count; i++ {
			r.Violation(cl, "", nil)
		}
	}
}

// runSpace enumerates one space completely (index % shards), calling fn for every case. fn returns
// whether the case was evaluated (inside the domain, judged) and whether it counts as non-trivial.
func runSpace(r *enumlib.Run, c *collector, ord int, s *space, fn func(l *local, ord int, idx int64, v *Val, fresh bool) (evaluated, nontrivial bool)) {
	if s.size == 0 {
		return
	}
	var evals, nontriv, done int64
	var expired int32
	r.Parallel(func(shard, n int) {
		l := newLocal()
		var ev, nt, dn int64
		var v Val
		for i := int64(shard); i < s.size; i += int64(n) {
			if (i/int64(n))&0xFFF == 0 && r.Expired() {
				atomic.StoreInt32(&expired, 1)
				break
			}
			fresh := s.gen(i, &v)
			e, t := fn(l, ord, i, &v, fresh)
			dn++
			if e {
				ev++
			}
			if t {
				nt++
			}
			if i == s.size/2 {
				r.Sample(map[string]interface{}{"space": s.name, "index": i, "value": v})
			}
		}
		atomic.AddInt64(&evals, ev)
		atomic.AddInt64(&nontriv, nt)
		atomic.AddInt64(&done, dn)
		c.merge(l)
	})
	r.Eval(evals)
	r.Nontrivial(nontriv)
	note := s.note
	if evals != s.size {
		note += fmt.Sprintf("; %d of the %d cases are outside the property's domain (tallied under outside_domain, not judged)", done-evals, s.size)
	}
	if expired != 0 {
		note += fmt.Sprintf("; CUT SHORT by the time budget after %d cases", done)
	}
	r.Space(s.name, s.size, nontriv, expired == 0, note)
}
