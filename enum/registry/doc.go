//go:build verif

// Package registry: bounded exhaustive check of the datapoint type registry (C19), see DESIGN.md (E5).
package registry
