//go:build verif

package registry

import (
	"bytes"
	"encoding/hex"
	"fmt"
	"reflect"

	"github.com/vapourismo/knx-go/knx/dpt"
	"verifh/enum/enumlib"
	"verifh/enum/statelib"
)

// Hidden state: "decoding into one instance ... never changes what another instance or a later
// call yields". State that outlives an instance need not sit in the instance (a table a validator
// patches, a memo, a pooled buffer); it is set by SOME payload and shows at SOME other payload, and
// once set it sticks for the rest of the process, so replaying payloads in another order in the
// same process proves nothing. The search below makes that state a value: the state of package
// dpt is everything reachable from its package-level variables (their addresses come from a file
// that the build overlay adds to the package, see enum/cmd/globgen; statelib saves, restores and
// fingerprints it). Explicit-state search over the real code:
//
//	states      valuations of package dpt's variables (fingerprint = canonical hash)
//	transitions Produce(name) + Unpack(payload) + Pack() for every registered name and every
//	            payload of its set
//	invariant   in every reachable state every transition yields what it yields in the initial state
//
// breadth first from the initial state, to depth 2 and at most 6 distinct states (thorough: 3 and 16). Correct code has
// one state (or, with a benign cache, several states with equal answers).
//
// Payload set of a type whose zero value encodes to n octets: n <= 4: leading octet 0 and every
// combination of the remaining octets over a 22-value alphabet of small numbers, calendar and
// clock boundaries and octet extremes (22^3 = 10648 payloads for the date and time types);
// longer types: the candidate payloads of the independence space.

var histAlphabet = []byte{0, 1, 2, 3, 4, 5, 7, 12, 13, 28, 29, 30, 31, 32, 59, 60, 99, 100, 127, 128, 254, 255}

func statePayloads(name string) [][]byte {
	d, ok, _ := produce(name)
	if !ok || d == nil {
		return nil
	}
	n := 0
	enumlib.Try(func() { n = len(d.Pack()) })
	if n >= 5 && n <= 9 {
		// longer fixed-length types: the candidate payloads plus every payload whose octets are drawn
		// from a two-value set (so that neighbouring fields differ), for three such sets
		out := candidates(n)
		for _, pair := range [][2]byte{{0, 1}, {1, 2}, {3, 0x19}} {
			for m := 0; m < 1<<uint(n-1); m++ {
				p := make([]byte, n)
				for i := 1; i < n; i++ {
					p[i] = pair[(m>>uint(i-1))&1]
				}
				out = append(out, p)
			}
		}
		return out
	}
	if n < 2 || n > 4 {
		return candidates(n)
	}
	var out [][]byte
	var rec func(p []byte)
	rec = func(p []byte) {
		if len(p) == n {
			out = append(out, append([]byte(nil), p...))
			return
		}
		for _, a := range histAlphabet {
			rec(append(p, a))
		}
	}
	rec([]byte{0})
	return out
}

func stateResult(name string, p []byte) string {
	d, ok, pv := produce(name)
	if pv != "" || !ok || d == nil {
		return "no-instance"
	}
	var err error
	var enc []byte
	if pn, v := enumlib.Try(func() {
		err = d.Unpack(p)
		if err == nil {
			enc = d.Pack()
		}
	}); pn {
		return "panic " + v
	}
	if err != nil {
		return "rejected"
	}
	return "accepted, re-encodes to " + hex.EncodeToString(enc) + ", value " + fmt.Sprintf("%#v", reflect.ValueOf(d).Elem().Interface())
}

type stateStep struct {
	Name    string `json:"name"`
	Payload string `json:"payload"`
}

func (c *ctx) stateSpace() {
	vnames, roots := dpt.VerifGlobals()
	names := sortedNames()
	sets := map[string][][]byte{}
	var perState int64
	for _, n := range names {
		sets[n] = statePayloads(n)
		perState += int64(len(sets[n]))
	}
	type node struct {
		snap  *statelib.Snap
		path  []stateStep
		depth int
	}
	s0 := statelib.Take(roots)
	h0 := statelib.Hash(roots)
	nodes := []*node{{snap: s0}}
	seen := map[uint64]bool{h0: true}
	base := map[string][]string{} // results in the initial state
	maxStates, maxDepth := 6, 2
	if c.r.Thorough() {
		maxStates, maxDepth = 16, 3
	}
	var transitions, compared int64
	capped := ""
	reported := map[string]bool{}
	for qi := 0; qi < len(nodes); qi++ {
		nd := nodes[qi]
		nd.snap.Restore()
		cur := statelib.Hash(roots)
		last := cur
		for _, n := range names {
			if qi == 0 {
				base[n] = make([]string, len(sets[n]))
			}
			for i, p := range sets[n] {
				if last != cur {
					nd.snap.Restore()
				}
				orig := append([]byte(nil), p...)
				r := stateResult(n, p)
				transitions++
				if !bytes.Equal(orig, p) {
					if !reported["payload:"+n] {
						reported["payload:"+n] = true
						c.r.ViolationWithTest("C19:payload-modified:"+n, fmt.Sprintf("Produce(%q) + Unpack(% x) rewrote the caller's payload to % x: a second instance decoding the same telegram (another consumer, another goroutine) yields a different value", n, orig, p),
							caseInput{Op: "payload", Name: n, Payload: hex.EncodeToString(orig)}, fmt.Sprintf("func TestC19PayloadUntouched(t *testing.T) {\n\tp := %s\n\tq := append([]byte(nil), p...)\n\td, _ := dpt.Produce(%q)\n\td.Unpack(p)\n\tif !bytes.Equal(p, q) {\n\t\tt.Fatalf(\"payload %% x became %% x\", q, p)\n\t}\n}", goBytes(orig), n))
					}
					copy(p, orig)
				}
				if qi == 0 {
					base[n][i] = r
				} else {
					compared++
					if r != base[n][i] && !reported[n] {
						reported[n] = true
						path := ""
						for _, st := range nd.path {
							path += fmt.Sprintf("Produce(%q)+Unpack(%s); ", st.Name, st.Payload)
						}
						c.r.ViolationWithTest("C19:result-depends-on-history:"+n,
							fmt.Sprintf("Produce(%q) + Unpack(% x): in the initial state of package dpt: %s; after %sthe same call: %s. Decoding into one instance changed package-level state that other instances read", n, p, base[n][i], path, r),
							caseInput{Op: "statepath", Name: n, Payload: hex.EncodeToString(p), Path: nd.path}, statePathGoTest(nd.path, n, p))
					}
				}
				h := statelib.Hash(roots)
				last = h
				if h != cur && !seen[h] {
					seen[h] = true
					switch {
					case nd.depth+1 > maxDepth:
						capped = fmt.Sprintf("states deeper than %d steps not expanded", maxDepth)
					case len(nodes) >= maxStates:
						capped = fmt.Sprintf("more than %d distinct states: further ones not expanded", maxStates)
					default:
						np := append(append([]stateStep(nil), nd.path...), stateStep{n, hex.EncodeToString(p)})
						nodes = append(nodes, &node{snap: statelib.Take(roots), path: np, depth: nd.depth + 1})
					}
				}
			}
		}
	}
	s0.Restore()
	c.r.Eval(transitions)
	c.r.Nontrivial(compared + perState)
	note := fmt.Sprintf("explicit-state search over package dpt's own variables (%d variables, %d saved locations): %d distinct states reached, %d transitions (every registered name x its payload set: fixed-length types up to 4 octets all combinations of a 22-value boundary alphabet, others the candidate payloads = %d per state), %d results compared with the initial state's", len(vnames), s0.Size(), len(seen), transitions, perState, compared)
	if capped != "" {
		note += "; " + capped
	}
	c.r.Space("hidden-state-search", transitions, compared+perState, capped == "", note)
	c.r.Extra("package_state_search", map[string]interface{}{"variables": vnames, "saved_locations": s0.Size(), "states": len(seen), "transitions": transitions, "max_depth": maxDepth, "max_states": maxStates})
}

func statePathGoTest(path []stateStep, name string, p []byte) string {
	s := "func TestC19HiddenState(t *testing.T) {\n\tdecode := func(name string, p []byte) string {\n\t\td, _ := dpt.Produce(name)\n\t\tif err := d.Unpack(p); err != nil {\n\t\t\treturn \"rejected\"\n\t\t}\n\t\treturn fmt.Sprintf(\"%x\", d.Pack())\n\t}\n"
	s += fmt.Sprintf("\t// must be the first use of the package in the process\n\tfirst := decode(%q, %s)\n", name, goBytes(p))
	s += "\t// ... in a second process: the path, then the same call\n"
	for _, st := range path {
		b, _ := hex.DecodeString(st.Payload)
		s += fmt.Sprintf("\tdecode(%q, %s)\n", st.Name, goBytes(b))
	}
	s += fmt.Sprintf("\tif again := decode(%q, %s); again != first {\n\t\tt.Fatalf(\"first %%s, after the path %%s\", first, again)\n\t}\n}", name, goBytes(p))
	return s
}

func replayStatePath(in caseInput) (string, bool) {
	_, roots := dpt.VerifGlobals()
	p, _ := hex.DecodeString(in.Payload)
	s0 := statelib.Take(roots)
	first := stateResult(in.Name, p)
	s0.Restore()
	for _, st := range in.Path {
		b, _ := hex.DecodeString(st.Payload)
		stateResult(st.Name, b)
	}
	after := stateResult(in.Name, p)
	s0.Restore()
	return fmt.Sprintf("Produce(%q)+Unpack(% x) in the initial state: %s; after the path %v: %s", in.Name, p, first, in.Path, after), first != after
}
