//go:build verif

package registry

import (
	"bytes"
	"context"
	"encoding/hex"
	"encoding/json"
	"fmt"
	"go/ast"
	"go/parser"
	"go/token"
	"os"
	"os/exec"
	"path/filepath"
	"reflect"
	"regexp"
	"runtime"
	"sort"
	"strconv"
	"strings"
	"sync"
	"sync/atomic"
	"time"
	_ "unsafe" // go:linkname, read-only access to the unexported prototype map

	"github.com/vapourismo/knx-go/knx/dpt"

	"verifh/enum/enumlib"
	"verifh/enum/globlib"
)

// prototypes aliases the registry's unexported map of prototype instances. It is only read, and only
// after the package source in the repository was seen to declare `dptTypes` as map[string]Datapoint
// (see protoReadable). If the library has no such symbol the linker leaves this a nil map and the
// prototype comparison is reported as not performed.
//
//go:linkname prototypes github.com/vapourismo/knx-go/knx/dpt.dptTypes
var prototypes map[string]dpt.Datapoint

func init() {
	enumlib.Register(&enumlib.Check{
		Prop:   "C19",
		Run:    run,
		Replay: replay,
		Rule: "spaces, each enumerated completely in a fixed order: (1) listed-names: every name of ListSupportedTypes() in sorted order; (2) exported-types: every exported type DPT_<digits> declared in the non-test files of <repo>/knx/dpt (go/parser at run time); " +
			"(3) unknown-names: a fixed list plus, for every registered name, every single-character replacement and insertion over a 21-character alphabet, every single-character deletion, and the forms DPT_<digits>, <digits>, unpadded main.sub, with leading zero, with surrounding blanks; " +
			"(4) independence: every registered name once; (5) interleavings: for every chosen pair of names (a, b) - quick: all names with the next name for 1..2 threads, one representative per Go kind (bool, float32, int8, ..., string, struct) with the next kind's for 1..3 threads; thorough: all names with the next name for 1..3 threads - every assignment of two-operation programs over {Produce(a), Produce(b), Unpack(own), Pack(own), ListSupportedTypes()} to 1, 2 and 3 logical threads and every interleaving of their operations " +
			"(1, 6 and 90 per assignment), executed sequentially in the enumerated order on fresh thread state, every observation compared with the same thread running alone. " +
			"Oracle: name == fmt.Sprintf(\"%d.%03d\", main, sub); dynamic type == \"*dpt.DPT_\"+name without the dot; names unique; one type per name; every exported DPT_ type produced by some name; unknown => ok == false and nil; " +
			"a produced instance is the zero value of its type, its pointer differs from every pointer produced before and from the prototype, decoding into it changes no other instance, no prototype and no later result. " +
			"Non-trivial: (1) Produce succeeded, so form and type were compared; (2) every type (the lookup is the test); (3) the string is not a registered name, so the answer was judged; " +
			"(4) a non-zero payload was found and decoded into the first instance (state really changed before the others were inspected); (5) schedules with at least two threads in which some thread decodes (Unpack) - the others' observations are then made around a state change.",
		Assume: []string{
			"the binary was built against the tree at -repo (./check does that); the source scan reads <repo>/knx/dpt/*.go without _test files; a produced type missing from the scanned source is reported as INFRA:repo-mismatch",
			"\"exported datapoint type\" = exported type named DPT_<digits>; other exported types of the package (the interfaces) are listed in other_exported_types, not judged",
			"sub-numbers are zero-padded to at least three digits (DESIGN Appendix B: 14.1200 / DPT_141200 is a genuine four-digit KNX sub-number and is correct)",
			"an operation (Produce, Unpack, Pack, ListSupportedTypes) is treated as atomic in the interleaving enumeration; finer-grained interference is looked for by the free-running goroutine pass (separate process) and, where it ran, the race-detector pass - both are additional observations, not enumerations",
			"observations are 64-bit FNV-1a hashes of (ok, dynamic type, is-zero, Pack() octets, error text); two different states with equal Pack() octets are not distinguished in the interleaving pass (the independence pass compares values with reflect.DeepEqual)",
			"payloads are found by trying a fixed candidate list on instances made with reflect.New (not through the registry)",
		},
	})
	enumlib.RegisterWorker("c19-free", freeWorker)
}

// ---------------------------------------------------------------------------------------------
// replayable input

type caseInput struct {
	Op       string      `json:"op"` // "name" | "type" | "unknown" | "independence" | "schedule" | "list" | "free"
	Name     string      `json:"name,omitempty"`
	Type     string      `json:"type,omitempty"`
	Repo     string      `json:"repo,omitempty"`
	Schedule *schedule   `json:"schedule,omitempty"`
	Payload  string      `json:"payload,omitempty"`
	Path     []stateStep `json:"path,omitempty"`
}

type outcome struct {
	Class string
	Msg   string
}

// ---------------------------------------------------------------------------------------------
// (1) names

var nameForm = regexp.MustCompile(`^(0|[1-9][0-9]*)\.([0-9]{3,})$`)

func produce(name string) (d dpt.Datapoint, ok bool, panicked string) {
	if p, pv := enumlib.Try(func() { d, ok = dpt.Produce(name) }); p {
		return nil, false, pv
	}
	return
}

func typeNameFor(name string) string { return "DPT_" + strings.ReplaceAll(name, ".", "") }

// judgeName: form, producibility, dynamic type. produced is the dynamic type string.
func judgeName(name string) (out []outcome, produced string) {
	add := func(class, format string, a ...interface{}) {
		out = append(out, outcome{class, fmt.Sprintf(format, a...)})
	}
	m := nameForm.FindStringSubmatch(name)
	formOK := false
	if m != nil {
		main, e1 := strconv.Atoi(m[1])
		sub, e2 := strconv.Atoi(m[2])
		formOK = e1 == nil && e2 == nil && name == fmt.Sprintf("%d.%03d", main, sub)
	}
	if !formOK {
		add("C19:name-form", "registered name %q is not of the form <main>.<sub zero-padded to at least three digits>", name)
	}
	d, ok, pv := produce(name)
	switch {
	case pv != "":
		add("C19:panic:Produce", "Produce(%q) panicked: %s", name, pv)
	case !ok || d == nil:
		add("C19:cannot-produce", "Produce(%q) = (%v, %v) for a name that ListSupportedTypes() lists", name, d, ok)
	default:
		produced = reflect.TypeOf(d).String()
		if want := "*dpt." + typeNameFor(name); produced != want {
			add("C19:wrong-type", "Produce(%q) yields a %s, the type bearing that number is %s", name, produced, want)
		}
		if d2, ok2, _ := produce(name); !ok2 || d2 == nil || reflect.TypeOf(d2).String() != produced {
			add("C19:wrong-type", "Produce(%q) yields a %s on the first and a %T on the second call", name, produced, d2)
		}
	}
	return
}

func nameGoTest(name string) string {
	return fmt.Sprintf(`func TestC19Name(t *testing.T) {
	d, ok := dpt.Produce(%q)
	if !ok || d == nil {
		t.Fatalf("Produce(%q) = %%v, %%v", d, ok)
	}
	if got, want := fmt.Sprintf("%%T", d), %q; got != want {
		t.Fatalf("Produce(%q) yields %%s, want %%s", got, want)
	}
}`, name, name, "*dpt."+typeNameFor(name), name)
}

// ---------------------------------------------------------------------------------------------
// (2) exported types of the package source

var dptTypeName = regexp.MustCompile(`^DPT_[0-9]+$`)

type sourceScan struct {
	dptTypes      []string // exported DPT_<digits> types, sorted
	otherExported []string
	protoReadable bool // dptTypes is declared as map[string]Datapoint
	files         int
}

func scanSource(repo string) (*sourceScan, error) {
	dir := filepath.Join(repo, "knx", "dpt")
	fset := token.NewFileSet()
	pkgs, err := parser.ParseDir(fset, dir, func(fi os.FileInfo) bool { return !strings.HasSuffix(fi.Name(), "_test.go") }, parser.SkipObjectResolution)
	if err != nil {
		return nil, err
	}
	pkg := pkgs["dpt"]
	if pkg == nil {
		return nil, fmt.Errorf("no package dpt in %s", dir)
	}
	s := &sourceScan{}
	isProtoMap := func(e ast.Expr) bool {
		if cl, ok := e.(*ast.CompositeLit); ok {
			e = cl.Type
		}
		mt, ok := e.(*ast.MapType)
		if !ok {
			return false
		}
		k, ok1 := mt.Key.(*ast.Ident)
		v, ok2 := mt.Value.(*ast.Ident)
		return ok1 && ok2 && k.Name == "string" && v.Name == "Datapoint"
	}
	for _, f := range pkg.Files {
		s.files++
		for _, decl := range f.Decls {
			gd, ok := decl.(*ast.GenDecl)
			if !ok {
				continue
			}
			for _, sp := range gd.Specs {
				switch sp := sp.(type) {
				case *ast.TypeSpec:
					switch {
					case dptTypeName.MatchString(sp.Name.Name):
						s.dptTypes = append(s.dptTypes, sp.Name.Name)
					case sp.Name.IsExported():
						s.otherExported = append(s.otherExported, sp.Name.Name)
					}
				case *ast.ValueSpec:
					if gd.Tok != token.VAR {
						continue
					}
					for i, n := range sp.Names {
						if n.Name != "dptTypes" {
							continue
						}
						if sp.Type != nil && isProtoMap(sp.Type) {
							s.protoReadable = true
						} else if sp.Type == nil && i < len(sp.Values) && isProtoMap(sp.Values[i]) {
							s.protoReadable = true
						}
					}
				}
			}
		}
	}
	sort.Strings(s.dptTypes)
	sort.Strings(s.otherExported)
	return s, nil
}

// producers maps a dynamic type string to the registered names that yield it.
func producers() map[string][]string {
	m := map[string][]string{}
	for _, n := range sortedNames() {
		if d, ok, _ := produce(n); ok && d != nil {
			t := reflect.TypeOf(d).String()
			m[t] = append(m[t], n)
		}
	}
	return m
}

func judgeType(typ string, prod map[string][]string) []outcome {
	if len(prod["*dpt."+typ]) == 0 {
		return []outcome{{"C19:unreachable-type", fmt.Sprintf("exported type dpt.%s is declared in the package source but no name of ListSupportedTypes() produces it", typ)}}
	}
	return nil
}

func typeGoTest(typ string) string {
	return fmt.Sprintf(`func TestC19Reachable(t *testing.T) {
	for _, name := range dpt.ListSupportedTypes() {
		if d, ok := dpt.Produce(name); ok {
			if _, is := d.(*dpt.%s); is {
				return
			}
		}
	}
	t.Fatal("no registered name produces a *dpt.%s")
}`, typ, typ)
}

// ---------------------------------------------------------------------------------------------
// (3) unknown names

const editAlphabet = "0123456789., /-+_aD\x00"

var fixedUnknown = []string{
	"", " ", ".", "..", "1", "1.", ".001", "1.1", "1.01", "1.0001", "01.001", "001.001", "1.001.", ".1.001", "1..001", "1.001.001",
	"0.000", "0.001", "2.001", "3.007", "4.001", "15.000", "19.001", "255.255", "1000.001", "1.999", "14.120", "14.12000", "141.200",
	"1,001", "1/001", "1-001", "1 001", "1.001\n", "\n1.001", "1.001\x00", "１.００１", "1.٠٠١", "1.0o1", "1e0.001", "+1.001", "-1.001",
	"DPT_1001", "DPT1001", "DPT 1.001", "DPT-1", "DPST-1-1", "dpt.DPT_1001", "*dpt.DPT_1001", "1001", "Datapoint", "dptTypes",
}

// unknownCandidates lists the derivations in a fixed order (not deduplicated).
func unknownCandidates(names []string) []string {
	out := append([]string(nil), fixedUnknown...)
	for _, n := range names {
		for i := 0; i < len(n); i++ {
			out = append(out, n[:i]+n[i+1:]) // drop
			for j := 0; j < len(editAlphabet); j++ {
				if editAlphabet[j] != n[i] {
					out = append(out, n[:i]+editAlphabet[j:j+1]+n[i+1:]) // edit
				}
			}
		}
		for i := 0; i <= len(n); i++ {
			for j := 0; j < len(editAlphabet); j++ {
				out = append(out, n[:i]+editAlphabet[j:j+1]+n[i:]) // insert / append / prepend
			}
		}
		digits := strings.ReplaceAll(n, ".", "")
		out = append(out, "DPT_"+digits, "dpt_"+digits, "DPT"+digits, digits, " "+n+" ", "\t"+n, n+"\n", strings.Replace(n, ".", ".0", 1), "DPT "+n, "DPT_"+n)
		if m := nameForm.FindStringSubmatch(n); m != nil {
			main, _ := strconv.Atoi(m[1])
			sub, _ := strconv.Atoi(m[2])
			out = append(out, fmt.Sprintf("%d.%d", main, sub), fmt.Sprintf("%03d.%03d", main, sub), fmt.Sprintf("%d.%04d", main, sub), fmt.Sprintf("%d.%02d", main, sub))
		}
	}
	return out
}

// judgeUnknown asks for the unknown name three times in a row right after a successful lookup: the
// answer must not depend on what was asked before (a registry that remembers lookups would show here).
func judgeUnknown(s string) []outcome {
	produce("1.001")
	for i := 0; i < 2; i++ {
		if d, ok, pv := produce(s); pv == "" && (ok || d != nil) {
			return []outcome{{"C19:unknown-name-accepted:history-dependent", fmt.Sprintf("after Produce(\"1.001\"), call %d of Produce(%q) = (%T, %v) although ListSupportedTypes() does not list %q", i+1, s, d, ok, s)}}
		}
	}
	d, ok, pv := produce(s)
	switch {
	case pv != "":
		return []outcome{{"C19:panic:Produce", fmt.Sprintf("Produce(%q) panicked: %s", s, pv)}}
	case ok:
		return []outcome{{"C19:unknown-name-accepted", fmt.Sprintf("Produce(%q) = (%T, true) although ListSupportedTypes() does not list %q", s, d, s)}}
	case d != nil:
		return []outcome{{"C19:unknown-name-value", fmt.Sprintf("Produce(%q) reports ok == false but returns a non-nil %T", s, d)}}
	}
	return nil
}

func unknownGoTest(s string) string {
	return fmt.Sprintf(`func TestC19Unknown(t *testing.T) {
	for _, n := range dpt.ListSupportedTypes() {
		if n == %q {
			t.Skip("registered")
		}
	}
	if d, ok := dpt.Produce(%q); ok || d != nil {
		t.Fatalf("Produce(%q) = %%T, %%v for an unknown name", d, ok)
	}
}`, s, s, s)
}

// ---------------------------------------------------------------------------------------------
// (4) independence

func valueOf(d dpt.Datapoint) interface{} { return reflect.ValueOf(d).Elem().Interface() }

func ptrOf(d dpt.Datapoint) uintptr { return reflect.ValueOf(d).Pointer() }

// judgeIndependence: nontrivial reports that a non-zero payload was decoded into the first
// instance. useProto: compare with the prototype of the registry map as well.
func judgeIndependence(name string, useProto bool) (out []outcome, nontrivial bool) {
	add := func(class, format string, a ...interface{}) {
		out = append(out, outcome{class, fmt.Sprintf(format, a...)})
	}
	var made []dpt.Datapoint // everything produced here stays reachable, so no address is reused
	fresh := func(what string) dpt.Datapoint {
		d, ok, pv := produce(name)
		if pv != "" || !ok || d == nil || reflect.TypeOf(d).Kind() != reflect.Ptr {
			return nil
		}
		for i, e := range made {
			if ptrOf(e) == ptrOf(d) {
				add("C19:not-fresh:"+name, "Produce(%q) call %d (%s) returned the same pointer %p as call %d", name, len(made)+1, what, d, i+1)
				break
			}
		}
		if useProto {
			if p := prototypes[name]; p != nil && reflect.TypeOf(p).Kind() == reflect.Ptr && ptrOf(p) == ptrOf(d) {
				add("C19:not-fresh:"+name, "Produce(%q) call %d (%s) returned the registry's own prototype %p", name, len(made)+1, what, d)
			}
		}
		made = append(made, d)
		return d
	}
	a, b := fresh("first"), fresh("second")
	if a == nil || b == nil {
		return out, false // judged by the listed-names space
	}
	typ := reflect.TypeOf(a).Elem()
	zero := reflect.Zero(typ).Interface()
	checkZero := func(d dpt.Datapoint, what, class string) {
		if !reflect.DeepEqual(valueOf(d), zero) {
			add(class+":"+name, "%s of %q is %#v, not the zero value %#v", what, name, valueOf(d), zero)
		}
	}
	checkZero(a, "the first instance", "C19:not-zero")
	checkZero(b, "the second instance", "C19:not-zero")
	protoZero := func(when string) {
		if !useProto {
			return
		}
		if p := prototypes[name]; p != nil && reflect.TypeOf(p) == reflect.TypeOf(a) && !reflect.DeepEqual(valueOf(p), zero) {
			add("C19:shared-state:"+name, "%s the registry's prototype of %q is %#v, not the zero value", when, name, valueOf(p))
		}
	}
	protoZero("before any decode")
	ps := findPayloads(typ, 2)
	if len(ps) == 0 {
		add("INFRA:no-payload", "no candidate payload decodes into a non-zero %s", typ)
		return out, false
	}
	var err error
	if p, pv := enumlib.Try(func() { err = a.Unpack(ps[0]) }); p || err != nil {
		add("C19:shared-state:"+name, "payload % x decodes into a reflect.New instance of %s but not into the first produced instance (%v %s)", ps[0], typ, err, pv)
		return out, false
	}
	nontrivial = !reflect.DeepEqual(valueOf(a), zero)
	if !nontrivial {
		add("C19:shared-state:"+name, "payload % x leaves the first produced instance of %q zero although it changes a reflect.New instance", ps[0], name)
	}
	snapshot := valueOf(a)
	checkZero(b, fmt.Sprintf("after decoding % x into the first instance, the second instance", ps[0]), "C19:shared-state")
	c := fresh("third, after the decode")
	if c != nil {
		checkZero(c, fmt.Sprintf("after decoding % x into the first instance, a third, newly produced instance", ps[0]), "C19:shared-state")
	}
	protoZero(fmt.Sprintf("after decoding % x into the first instance", ps[0]))
	// decoding into the second instance must not change the first
	p2 := ps[len(ps)-1]
	if p, pv := enumlib.Try(func() { err = b.Unpack(p2) }); p || err != nil {
		add("C19:shared-state:"+name, "payload % x is rejected by the second instance (%v %s)", p2, err, pv)
	}
	if !reflect.DeepEqual(valueOf(a), snapshot) {
		add("C19:shared-state:"+name, "decoding % x into the second instance changed the first from %#v to %#v", p2, snapshot, valueOf(a))
	}
	// a registry that recycles, pools or allocates instances in chunks shows only at the N-th call:
	// 320 further calls, all kept reachable, every pointer compared with every earlier one, every
	// instance zero when handed out and then decoded into (so that handing it out again shows)
	for i := 0; i < 320; i++ {
		if d := fresh("later"); d != nil {
			checkZero(d, fmt.Sprintf("after both decodes, newly produced instance %d", i+4), "C19:shared-state")
			enumlib.Try(func() { d.Unpack(ps[0]) })
		}
	}
	if !reflect.DeepEqual(valueOf(a), snapshot) {
		add("C19:shared-state:"+name, "after 320 further Produce(%q) calls the first instance changed from %#v to %#v", name, snapshot, valueOf(a))
	}
	return
}

func independenceGoTest(name string) string {
	typ := "nil"
	ps := [][]byte{{0}}
	if d, ok, _ := produce(name); ok && d != nil {
		typ = reflect.TypeOf(d).Elem().Name()
		if f := findPayloads(reflect.TypeOf(d).Elem(), 1); len(f) > 0 {
			ps = f
		}
	}
	return fmt.Sprintf(`func TestC19Independent(t *testing.T) {
	a, _ := dpt.Produce(%q)
	b, _ := dpt.Produce(%q)
	if a == b {
		t.Fatal("two calls returned the same instance")
	}
	if err := a.Unpack(%s); err != nil {
		t.Fatal(err)
	}
	c, _ := dpt.Produce(%q)
	var zero dpt.%s
	if *b.(*dpt.%s) != zero || *c.(*dpt.%s) != zero {
		t.Fatalf("decoding into a changed b=%%v / c=%%v", b, c)
	}
}`, name, name, goBytes(ps[0]), name, typ, typ, typ)
}

func goBytes(p []byte) string {
	parts := make([]string, len(p))
	for i, x := range p {
		parts[i] = fmt.Sprintf("0x%02x", x)
	}
	return "[]byte{" + strings.Join(parts, ", ") + "}"
}

// ---------------------------------------------------------------------------------------------
// (5) interleavings

func judgeSchedule(s *schedule) (desc string, out []outcome) {
	if len(s.Programs) < 1 || len(s.Programs) > maxThreads {
		return "bad number of threads", nil
	}
	w := newWorld(s.A, s.B)
	if w == nil {
		return "no payload for " + s.A + " or " + s.B, nil
	}
	var progs []int
	left := make([]int, len(s.Programs))
	for t, p := range s.Programs {
		if len(p) != opsPerThread || p[0] < 0 || p[0] >= int(nOps) || p[1] < 0 || p[1] >= int(nOps) {
			return "bad program", nil
		}
		progs = append(progs, p[0]*int(nOps)+p[1])
		left[t] = opsPerThread
	}
	var order []uint8
	for _, t := range s.Order {
		if t < 0 || t >= len(progs) || left[t] == 0 {
			return "bad order", nil
		}
		left[t]--
		order = append(order, uint8(t))
	}
	if len(order) != len(progs)*opsPerThread {
		return "bad order", nil
	}
	desc = w.describeSchedule(progs, order)
	d, _, pv := w.runSchedule(progs, order)
	if pv != "" {
		out = append(out, outcome{"C19:panic:schedule", pv})
	}
	if d != nil {
		out = append(out, outcome{"C19:shared-state:" + s.A, diffMsg(w, progs, order, d)})
	}
	return
}

func diffMsg(w *world, progs []int, order []uint8, d *diff) string {
	return fmt.Sprintf("step %d: thread T%d's operation %d, %s, observed %016x; the same thread running its program alone observes %016x there (observation = hash of ok/type/is-zero/Pack octets/error)\n  %s",
		d.step, d.thread, d.pc, opNames[d.op], d.got, d.want, w.describeSchedule(progs, order))
}

// scheduleGoTest writes the interleaving out as straight-line code.
func scheduleGoTest(w *world, progs []int, order []uint8) string {
	var b strings.Builder
	b.WriteString("func TestC19Schedule(t *testing.T) {\n\t// every logical thread Tn owns one instance; a thread must see what it would see running alone\n")
	for t := range progs {
		fmt.Fprintf(&b, "\tt%d, _ := dpt.Produce(%q)\n", t, w.a)
	}
	own := make([]string, len(progs))
	for t := range own {
		own[t] = w.a
	}
	pc := make([]int, len(progs))
	for _, tt := range order {
		t := int(tt)
		o := program(progs[t])[pc[t]]
		pc[t]++
		switch o {
		case opProduceA, opProduceB:
			n := w.a
			if o == opProduceB {
				n = w.b
			}
			own[t] = n
			fmt.Fprintf(&b, "\tt%d, _ = dpt.Produce(%q)\n\tt.Logf(\"T%d produced %%T %%v (must be the zero value)\", t%d, t%d)\n", t, n, t, t, t)
		case opUnpack:
			ps := w.payloads[own[t]]
			fmt.Fprintf(&b, "\t_ = t%d.Unpack(%s)\n", t, goBytes(ps[t%len(ps)]))
		case opPack:
			fmt.Fprintf(&b, "\tt.Logf(\"T%d packs %% x (must not depend on the other threads)\", t%d.Pack())\n", t, t)
		case opList:
			fmt.Fprintf(&b, "\tt.Logf(\"T%d lists %%d names\", len(dpt.ListSupportedTypes()))\n", t)
		}
	}
	b.WriteString("}")
	return b.String()
}

// ---------------------------------------------------------------------------------------------
// Replay

func replay(class string, raw json.RawMessage) (string, bool) {
	var in caseInput
	if err := json.Unmarshal(raw, &in); err != nil {
		return "cannot decode input: " + err.Error(), false
	}
	var out []outcome
	desc := in.Op + " " + in.Name + in.Type
	switch in.Op {
	case "name":
		listed := false
		for _, n := range sortedNames() {
			listed = listed || n == in.Name
		}
		if !listed {
			return fmt.Sprintf("%q is no longer listed by ListSupportedTypes()", in.Name), false
		}
		out, _ = judgeName(in.Name)
		for t, ns := range producers() {
			if len(ns) > 1 && contains(ns, in.Name) {
				out = append(out, outcome{"C19:type-shared-by-names", fmt.Sprintf("names %q all produce %s", ns, t)})
			}
		}
	case "list":
		out = judgeList()
	case "listfresh":
		_, out = listFresh()
	case "statepath":
		return replayStatePath(in)
	case "payload":
		p, _ := hex.DecodeString(in.Payload)
		q := append([]byte(nil), p...)
		stateResult(in.Name, p)
		return fmt.Sprintf("Produce(%q)+Unpack(% x): payload afterwards % x", in.Name, q, p), !bytes.Equal(p, q)
	case "type":
		if in.Repo != "" {
			if s, err := scanSource(in.Repo); err == nil && !contains(s.dptTypes, in.Type) {
				return fmt.Sprintf("type %s is not declared in %s/knx/dpt", in.Type, in.Repo), false
			}
		}
		out = judgeType(in.Type, producers())
	case "unknown":
		if contains(sortedNames(), in.Name) {
			return fmt.Sprintf("%q is a registered name now", in.Name), false
		}
		out = judgeUnknown(in.Name)
	case "independence":
		useProto := false
		if in.Repo != "" {
			if s, err := scanSource(in.Repo); err == nil {
				useProto = s.protoReadable && len(prototypes) > 0
			}
		}
		out, _ = judgeIndependence(in.Name, useProto)
	case "schedule":
		if in.Schedule == nil {
			return "no schedule in input", false
		}
		desc, out = judgeSchedule(in.Schedule)
	case "free":
		runs, diffs := freeRun(8, 3)
		desc = fmt.Sprintf("free-running pass in this process: %d program runs", runs)
		for _, d := range diffs {
			out = append(out, outcome{"C19:shared-state:" + strings.SplitN(d, "|", 2)[0], d})
		}
	default:
		return "unknown op " + in.Op, false
	}
	bad := false
	for _, o := range out {
		mark := "  (other class) "
		if o.Class == class {
			bad, mark = true, "  "
		}
		desc += "\n" + mark + o.Class + ": " + o.Msg
	}
	return desc, bad
}

func contains(l []string, s string) bool {
	for _, x := range l {
		if x == s {
			return true
		}
	}
	return false
}

// listFresh: a listing handed to a caller is the caller's; whatever the caller does with it (the
// in-place filter idiom names[:0], compaction, overwriting) must not change what the registry
// lists afterwards - "every name the registry lists can be produced ... is unique" is quantified
// over histories of calls. History: list, overwrite every element of the result, list again.
func listFresh() (string, []outcome) {
	a := dpt.ListSupportedTypes()
	keep := append([]string(nil), a...)
	sorted := append([]string(nil), keep...)
	sort.Strings(sorted)
	for i := range a {
		a[i] = "scribble"
	}
	b := append([]string(nil), dpt.ListSupportedTypes()...)
	sort.Strings(b)
	if reflect.DeepEqual(sorted, b) {
		return "yes: overwriting a returned slice does not change the next call's result", nil
	}
	// undo, the rest of the check needs the names
	copy(a, keep)
	bad := ""
	for _, n := range b {
		if _, ok := dpt.Produce(n); !ok {
			bad = n
			break
		}
	}
	return "NO: the returned slice is shared with the registry", []outcome{{"C19:list-shared-with-callers", fmt.Sprintf("after a caller overwrote the elements of the slice one ListSupportedTypes() call returned, the next call lists %d names, among them %q, which Produce reports as unknown (before: %d producible names)", len(b), bad, len(keep))}}
}

// judgeList: the list is duplicate-free and the same set on every call.
func judgeList() (out []outcome) {
	var first []string
	for call := 0; call < 16; call++ {
		var names []string
		if p, pv := enumlib.Try(func() { names = dpt.ListSupportedTypes() }); p {
			return []outcome{{"C19:panic:ListSupportedTypes", pv}}
		}
		names = append([]string(nil), names...)
		sort.Strings(names)
		for i := 1; i < len(names); i++ {
			if names[i] == names[i-1] {
				out = append(out, outcome{"C19:duplicate-name", fmt.Sprintf("ListSupportedTypes() lists %q more than once", names[i])})
				return
			}
		}
		if call == 0 {
			first = names
		} else if !reflect.DeepEqual(first, names) {
			out = append(out, outcome{"C19:list-unstable", fmt.Sprintf("ListSupportedTypes() call 1 lists %d names, call %d lists %d names or other names", len(first), call+1, len(names))})
			return
		}
	}
	return
}

// ---------------------------------------------------------------------------------------------
// Run

type ctx struct {
	r    *enumlib.Run
	repo string
}

func (c *ctx) report(out []outcome, in caseInput, test func() string) {
	for _, o := range out {
		c.r.ViolationWithTest(o.Class, o.Msg, in, test())
	}
}

func run(r *enumlib.Run) {
	c := &ctx{r: r, repo: r.Repo}
	// first of all, while the package is in the state its initialisation left it in
	c.stateSpace()
	names := sortedNames()

	// (1) listed names
	c.report(judgeList(), caseInput{Op: "list"}, func() string { return "" })
	var nt int64
	byType := map[string][]string{}
	for _, n := range names {
		out, produced := judgeName(n)
		if produced != "" {
			nt++
			byType[produced] = append(byType[produced], n)
		}
		c.report(out, caseInput{Op: "name", Name: n}, func() string { return nameGoTest(n) })
	}
	var types []string
	for t := range byType {
		types = append(types, t)
	}
	sort.Strings(types)
	for _, t := range types {
		if ns := byType[t]; len(ns) > 1 {
			r.ViolationWithTest("C19:type-shared-by-names", fmt.Sprintf("names %q all produce %s; a type bears one number", ns, t), caseInput{Op: "name", Name: ns[1]}, nameGoTest(ns[1]))
		}
	}
	fresh, freshOut := listFresh()
	r.Extra("list_slice_is_fresh_per_call", fresh)
	c.report(freshOut, caseInput{Op: "listfresh"}, func() string {
		return "func TestC19ListingIsTheCallers(t *testing.T) {\n\tl := dpt.ListSupportedTypes()\n\tfor i := range l {\n\t\tl[i] = \"scribble\"\n\t}\n\tfor _, n := range dpt.ListSupportedTypes() {\n\t\tif _, ok := dpt.Produce(n); !ok {\n\t\t\tt.Fatalf(\"the registry lists %q, which it cannot produce\", n)\n\t\t}\n\t}\n}"
	})
	r.Eval(int64(len(names)))
	r.Nontrivial(nt)
	r.Space("listed-names", int64(len(names)), nt, true, "every name of ListSupportedTypes(): form, uniqueness, producible, dynamic type bears the number, one name per type, list stable over 16 calls")
	if len(names) > 0 {
		r.Sample(map[string]interface{}{"space": "listed-names", "first": names[0], "last": names[len(names)-1], "count": len(names)})
	}
	if contains(names, "14.1200") {
		d, _, _ := produce("14.1200")
		r.Sample(map[string]interface{}{"space": "listed-names", "name": "14.1200", "type": fmt.Sprintf("%T", d), "note": "four-digit sub-number, correct by Appendix B"})
	}

	// (2) exported types
	scan, err := scanSource(c.repo)
	if err != nil {
		r.Violation("INFRA:source-scan", "cannot parse "+c.repo+"/knx/dpt: "+err.Error(), nil)
		return
	}
	prod := producers()
	for _, t := range scan.dptTypes {
		c.report(judgeType(t, prod), caseInput{Op: "type", Type: t, Repo: c.repo}, func() string { return typeGoTest(t) })
	}
	for _, t := range types {
		if !contains(scan.dptTypes, strings.TrimPrefix(t, "*dpt.")) {
			r.Violation("INFRA:repo-mismatch", fmt.Sprintf("the binary produces %s, which is not declared in %s/knx/dpt: the binary was not built from that tree", t, c.repo), nil)
		}
	}
	nTypes := int64(len(scan.dptTypes))
	r.Eval(nTypes)
	r.Nontrivial(nTypes)
	r.Space("exported-types", nTypes, nTypes, true, fmt.Sprintf("every exported type DPT_<digits> declared in the %d non-test files of %s/knx/dpt must be produced by some listed name", scan.files, c.repo))
	r.Extra("other_exported_types", scan.otherExported)
	useProto := scan.protoReadable && len(prototypes) > 0
	if useProto {
		r.Extra("prototype_comparison", fmt.Sprintf("performed: the unexported map dpt.dptTypes (%d prototypes) is read through go:linkname; every produced pointer is compared with the prototype and the prototype must stay the zero value", len(prototypes)))
	} else {
		r.Extra("prototype_comparison", fmt.Sprintf("NOT performed (source declares dptTypes as map[string]Datapoint: %v, entries visible through go:linkname: %d); freshness is judged on produced instances only", scan.protoReadable, len(prototypes)))
	}

	// (3) unknown names
	cands := unknownCandidates(names)
	nt = 0
	var coincide int64
	for _, s := range cands {
		if contains(names, s) {
			coincide++
			continue
		}
		nt++
		c.report(judgeUnknown(s), caseInput{Op: "unknown", Name: s}, func() string { return unknownGoTest(s) })
	}
	r.Eval(nt)
	r.Nontrivial(nt)
	r.Space("unknown-names", int64(len(cands)), nt, true,
		fmt.Sprintf("%d fixed strings + per registered name: every 1-character deletion, replacement and insertion over the alphabet %q and 14 other forms (DPT_<digits>, digits only, unpadded, over-padded, blanks ...); derivations are not deduplicated; %d of them are themselves registered names and are skipped", len(fixedUnknown), editAlphabet, coincide))
	r.Sample(map[string]interface{}{"space": "unknown-names", "examples": []string{cands[len(fixedUnknown)], cands[len(cands)/2], cands[len(cands)-1]}})

	// (4) independence
	nt = 0
	for _, n := range names {
		out, ok := judgeIndependence(n, useProto)
		if ok {
			nt++
		}
		c.report(out, caseInput{Op: "independence", Name: n, Repo: c.repo}, func() string { return independenceGoTest(n) })
	}
	r.Eval(int64(len(names)))
	r.Nontrivial(nt)
	r.Space("independence", int64(len(names)), nt, true, "per registered name: two instances, decode a non-zero payload into the first, the second / a third / 64 later ones are the zero value, all pointers distinct (and distinct from the prototype), decode into the second leaves the first unchanged")
	if len(names) > 0 {
		n := names[len(names)/2]
		r.Sample(map[string]interface{}{"space": "independence", "name": n, "payloads": fmt.Sprintf("% x", payloadsFor(n))})
	}

	// (5) interleavings
	var kindPairs, allPairs [][2]string
	var reps []string // first name of every Go kind (bool, float32, ..., string, struct)
	seenKind := map[reflect.Kind]bool{}
	for i, n := range names {
		allPairs = append(allPairs, [2]string{n, names[(i+1)%len(names)]})
		if d, ok, _ := produce(n); ok && d != nil && reflect.TypeOf(d).Kind() == reflect.Ptr {
			if k := reflect.TypeOf(d).Elem().Kind(); !seenKind[k] {
				seenKind[k] = true
				reps = append(reps, n)
			}
		}
	}
	for i, n := range reps {
		if len(reps) > 1 {
			kindPairs = append(kindPairs, [2]string{n, reps[(i+1)%len(reps)]})
		}
	}
	// quick tier: the kinds that differ in how an instance holds its state (flag, number, text, several fields)
	var quickPairs [][2]string
	var quickReps []string
	for _, n := range reps {
		d, _, _ := produce(n)
		switch reflect.TypeOf(d).Elem().Kind() {
		case reflect.Bool, reflect.Float32, reflect.String, reflect.Struct:
			quickReps = append(quickReps, n)
		}
	}
	for i := 0; i+1 < len(quickReps); i += 2 {
		quickPairs = append(quickPairs, [2]string{quickReps[i], quickReps[i+1]})
	}
	var famPairs [][2]string // the first name of every main number with the next name
	lastFam := ""
	for i, n := range names {
		if fam := strings.SplitN(n, ".", 2)[0]; fam != lastFam {
			lastFam = fam
			famPairs = append(famPairs, allPairs[i])
		}
	}
	c.interleavings("interleavings-2x2", allPairs, 2, "every registered name a with the next name b")
	switch {
	case r.Thorough() && os.Getenv("C19_ALLPAIRS") == "1":
		c.interleavings("interleavings-3x2", allPairs, 3, "every registered name a with the next name b")
	case r.Thorough():
		c.interleavings("interleavings-3x2-families", famPairs, 3, "the first name a of every main number with the next name b")
		c.interleavings("interleavings-3x2-kinds", kindPairs, 3, "the first name a of every Go kind of datapoint type with the first name b of the next kind")
	default:
		c.interleavings("interleavings-3x2-kinds", quickPairs, 3, "the first names of the Go kinds bool, float32, string, struct in the order of the sorted name list, paired two by two")
	}

	// additional observations: free-running goroutines (child process), race detector (go test -race)
	c.freePass()
	c.racePass()
}

// interleavings enumerates, for every pair, all program assignments to 1..maxK threads and all
// interleavings. Work item = (pair, program of thread 0); items are dealt to the shards round robin.
func (c *ctx) interleavings(space string, pairs [][2]string, maxK int, what string) {
	worlds := make([]*world, len(pairs))
	for i, p := range pairs {
		worlds[i] = newWorld(p[0], p[1])
		if worlds[i] == nil {
			c.r.Violation("INFRA:no-payload", "no non-zero payload for "+p[0]+" or "+p[1], nil)
			return
		}
	}
	perPair := int64(0)
	perK := make([]int64, maxK+1)
	pw := int64(1)
	for k := 1; k <= maxK; k++ {
		pw *= int64(nPrograms)
		perK[k] = pw * int64(len(orders[k]))
		perPair += perK[k]
	}
	total := perPair * int64(len(pairs))
	items := len(pairs) * nPrograms
	var done, nontriv int64
	var expired int32
	var mu sync.Mutex
	vectors := map[uint64]struct{}{}
	type hit struct {
		item  int
		msg   string
		in    schedule
		test  string
		count int64
	}
	hits := map[string]*hit{}
	c.r.Parallel(func(shard, n int) {
		var ev, nt int64
		vec := map[uint64]struct{}{}
		mine := map[string]*hit{}
		note := func(class string, item int, w *world, progs []int, order []uint8, msg func() string) {
			h := mine[class]
			if h == nil {
				mine[class] = &hit{item: item, msg: msg(), in: toSchedule(w, progs, order), test: scheduleGoTest(w, progs, order), count: 1}
			} else {
				h.count++
			}
		}
		for item := shard; item < items; item += n {
			if c.r.Expired() {
				atomic.StoreInt32(&expired, 1)
				break
			}
			wi, p0 := item/nPrograms, item%nPrograms
			w := worlds[wi]
			for k := 1; k <= maxK; k++ {
				progs := make([]int, k)
				progs[0] = p0
				rest := 1
				for i := 1; i < k; i++ {
					rest *= nPrograms
				}
				for x := 0; x < rest; x++ {
					y := x
					unpacks := program(p0)[0] == opUnpack || program(p0)[1] == opUnpack
					for i := 1; i < k; i++ {
						progs[i] = y % nPrograms
						y /= nPrograms
						pr := program(progs[i])
						unpacks = unpacks || pr[0] == opUnpack || pr[1] == opUnpack
					}
					for _, order := range orders[k] {
						d, v, pv := w.runSchedule(progs, order)
						ev++
						if k >= 2 && unpacks {
							nt++
						}
						if pv != "" {
							note("C19:panic:schedule", item, w, progs, order, func() string { return pv + "\n  " + w.describeSchedule(progs, order) })
							continue
						}
						if d != nil {
							note("C19:shared-state:"+w.a, item, w, progs, order, func() string { return diffMsg(w, progs, order, d) })
						}
						vec[hWord(v, uint64(wi))] = struct{}{}
					}
				}
			}
		}
		atomic.AddInt64(&done, ev)
		atomic.AddInt64(&nontriv, nt)
		mu.Lock()
		for v := range vec {
			vectors[v] = struct{}{}
		}
		for cl, h := range mine {
			if g := hits[cl]; g == nil {
				hits[cl] = h
			} else if h.item < g.item {
				h.count += g.count
				hits[cl] = h
			} else {
				g.count += h.count
			}
		}
		mu.Unlock()
	})
	// the registry must still answer as it did before the enumeration
	for _, w := range worlds {
		for p := 0; p < nPrograms; p++ {
			if got := w.alone(0, p); got != w.ref[0][p] {
				pr := program(p)
				c.r.ViolationWithTest("C19:shared-state:"+w.a, fmt.Sprintf("after the enumeration a thread running %s, %s alone on a=%s b=%s observes %x, before the enumeration %x", opNames[pr[0]], opNames[pr[1]], w.a, w.b, got, w.ref[0][p]),
					caseInput{Op: "schedule", Schedule: &schedule{A: w.a, B: w.b, Programs: [][]int{{int(pr[0]), int(pr[1])}}, Order: []int{0, 0}}}, scheduleGoTest(w, []int{p}, orders[1][0]))
				break
			}
		}
	}
	var classes []string
	for cl := range hits {
		classes = append(classes, cl)
	}
	sort.Strings(classes)
	for _, cl := range classes {
		h := hits[cl]
		in := h.in
		c.r.ViolationWithTest(cl, h.msg, caseInput{Op: "schedule", Schedule: &in}, h.test)
		for i := int64(1); i < h.count; i++ {
			c.r.Violation(cl, "", nil)
		}
	}
	c.r.Eval(done)
	c.r.Nontrivial(nontriv)
	note := fmt.Sprintf("%d pairs (%s) x [25 programs x 1 interleaving", len(pairs), what)
	if maxK >= 2 {
		note += " + 25^2 x 6"
	}
	if maxK >= 3 {
		note += " + 25^3 x 90"
	}
	assignments := int64(0)
	for k, pw := 1, int64(1); k <= maxK; k++ {
		pw *= int64(nPrograms)
		assignments += pw
	}
	note += fmt.Sprintf("] = %d schedules per pair; %d distinct observation vectors (one per pair and program assignment at most if nothing is shared: <= %d)", perPair, len(vectors), int64(len(pairs))*assignments)
	if expired != 0 {
		note += fmt.Sprintf("; CUT SHORT by the time budget after %d schedules", done)
	}
	c.r.Space(space, total, nontriv, expired == 0, note)
	c.r.Extra(space, map[string]interface{}{"schedules": done, "distinct_observation_vectors": len(vectors), "pairs": len(pairs), "threads_max": maxK, "ops_per_thread": opsPerThread})
	if len(worlds) > 0 {
		w := worlds[0]
		c.r.Sample(map[string]interface{}{"space": space, "schedule": w.describeSchedule([]int{2, 0}[:min(maxK, 2)], orders[min(maxK, 2)][len(orders[min(maxK, 2)])/2])})
	}
}

// ---------------------------------------------------------------------------------------------
// free-running pass in a child process (a fatal runtime error such as "concurrent map writes"
// cannot be recovered, so the goroutines run in a child that the parent watches)

type freeResult struct {
	Runs  int64    `json:"runs"`
	Diffs []string `json:"diffs"`
}

func freeWorker() {
	runs, diffs := freeRun(runtime.GOMAXPROCS(0), 4)
	b, _ := json.Marshal(freeResult{runs, diffs})
	fmt.Println("C19FREE " + string(b))
}

func (c *ctx) freePass() {
	exe, err := os.Executable()
	if err != nil {
		c.r.Extra("free_running_pass", "not run: "+err.Error())
		return
	}
	cctx, cancel := context.WithTimeout(context.Background(), 60*time.Second)
	defer cancel()
	cmd := exec.CommandContext(cctx, exe)
	cmd.Env = append(os.Environ(), "ENUM_WORKER=c19-free")
	var stdout, stderr bytes.Buffer
	cmd.Stdout, cmd.Stderr = &stdout, &stderr
	t0 := time.Now()
	err = cmd.Run()
	var res freeResult
	got := false
	for _, line := range strings.Split(stdout.String(), "\n") {
		if strings.HasPrefix(line, "C19FREE ") {
			got = json.Unmarshal([]byte(line[8:]), &res) == nil
		}
	}
	switch {
	case cctx.Err() != nil:
		c.r.Extra("free_running_pass", "child did not finish within 60 s (machine load?); not judged")
	case err != nil || !got:
		tail := stderr.String()
		if len(tail) > 1500 {
			tail = tail[:1500]
		}
		c.r.ViolationWithTest("C19:concurrent-crash", fmt.Sprintf("the child process running Produce/Unpack/Pack/ListSupportedTypes on %d free-running goroutines died: %v\n%s", runtime.GOMAXPROCS(0), err, tail),
			caseInput{Op: "free"}, raceTestHint)
	default:
		for _, d := range res.Diffs {
			parts := strings.SplitN(d, "|", 2)
			c.r.ViolationWithTest("C19:shared-state:"+parts[0], "free-running goroutines: "+parts[len(parts)-1], caseInput{Op: "free"}, raceTestHint)
		}
		c.r.Extra("free_running_pass", fmt.Sprintf("child process, %d goroutines x 4 rounds x every pair x 25 programs = %d program runs, %d observations differing from the thread-alone reference, %.1f s (additional observation, not an enumeration)",
			runtime.GOMAXPROCS(0), res.Runs, len(res.Diffs), time.Since(t0).Seconds()))
	}
}

const raceTestHint = `func TestC19Concurrent(t *testing.T) { // run with -race
	var wg sync.WaitGroup
	for g := 0; g < 8; g++ {
		wg.Add(1)
		go func() {
			defer wg.Done()
			for _, n := range dpt.ListSupportedTypes() {
				d, _ := dpt.Produce(n)
				_ = d.Pack()
			}
		}()
	}
	wg.Wait()
}`

// ---------------------------------------------------------------------------------------------
// race-detector pass: go test -race on TestC19Race of this package (race_test.go), built against
// the same repository. Optional: needs the go tool at run time; bounded by a watchdog.

func (c *ctx) racePass() {
	if os.Getenv("C19_RACE") == "0" {
		c.r.Extra("race_detector_pass", "skipped (C19_RACE=0)")
		return
	}
	_, self, _, ok := runtime.Caller(0)
	if !ok {
		c.r.Extra("race_detector_pass", "not run: source location unknown")
		return
	}
	verif := filepath.Dir(filepath.Dir(filepath.Dir(self))) // .../enum/registry/check.go -> module root
	gomod, err := os.ReadFile(filepath.Join(verif, "go.mod"))
	if err != nil {
		c.r.Extra("race_detector_pass", "not run: "+err.Error())
		return
	}
	goTool, err := exec.LookPath("go")
	if err != nil {
		c.r.Extra("race_detector_pass", "not run: no go tool in PATH")
		return
	}
	repo, _ := filepath.Abs(c.repo)
	tmp, err := os.MkdirTemp("", "c19race")
	if err != nil {
		c.r.Extra("race_detector_pass", "not run: "+err.Error())
		return
	}
	defer os.RemoveAll(tmp)
	re := regexp.MustCompile(`(?m)^(replace\s+github\.com/vapourismo/knx-go\s+=>\s+).*$`)
	os.WriteFile(filepath.Join(tmp, "go.mod"), re.ReplaceAll(gomod, []byte("${1}"+repo)), 0o644)
	sum, err := os.ReadFile(filepath.Join(repo, "go.sum"))
	if err != nil {
		sum, _ = os.ReadFile(filepath.Join(verif, "go.sum"))
	}
	os.WriteFile(filepath.Join(tmp, "go.sum"), sum, 0o644)
	limit := 75 * time.Second
	if c.r.Thorough() {
		limit = 5 * time.Minute
	}
	cctx, cancel := context.WithTimeout(context.Background(), limit)
	defer cancel()
	ov, err := globlib.Generate(repo, tmp, "knx/dpt")
	if err != nil {
		c.r.Extra("race_detector_pass", "not run: "+err.Error())
		return
	}
	cmd := exec.CommandContext(cctx, goTool, "test", "-modfile="+filepath.Join(tmp, "go.mod"), "-overlay", ov, "-tags", "verif", "-race", "-vet=off", "-count=1", "-run", "^TestC19Race$", "./enum/registry")
	cmd.Dir = verif
	cmd.Env = append(os.Environ(), "GOFLAGS=-mod=mod", "GOPROXY=off", "GOSUMDB=off", "GOTOOLCHAIN=local")
	var outb bytes.Buffer
	cmd.Stdout, cmd.Stderr = &outb, &outb
	t0 := time.Now()
	err = cmd.Run()
	out := outb.String()
	el := time.Since(t0).Seconds()
	switch {
	case cctx.Err() != nil:
		c.r.Extra("race_detector_pass", fmt.Sprintf("go test -race did not finish within %v (machine load?); not judged", limit))
	case strings.Contains(out, "WARNING: DATA RACE"):
		i := strings.Index(out, "WARNING: DATA RACE")
		ex := out[i:]
		if len(ex) > 2500 {
			ex = ex[:2500]
		}
		c.r.ViolationWithTest("C19:data-race", "the race detector reports a data race while goroutines call Produce/Unpack/Pack/ListSupportedTypes on their own instances:\n"+ex, caseInput{Op: "free"}, raceTestHint)
	case strings.Contains(out, "C19DIFF"):
		i := strings.Index(out, "C19DIFF")
		ex := out[i:]
		if j := strings.Index(ex, "\n"); j > 0 {
			ex = ex[:j]
		}
		parts := strings.SplitN(strings.TrimPrefix(ex, "C19DIFF "), "|", 2)
		c.r.ViolationWithTest("C19:shared-state:"+parts[0], "goroutines under the race detector: "+ex, caseInput{Op: "free"}, raceTestHint)
	case err != nil && strings.Contains(out, "fatal error:"):
		i := strings.Index(out, "fatal error:")
		ex := out[i:]
		if len(ex) > 1500 {
			ex = ex[:1500]
		}
		c.r.ViolationWithTest("C19:concurrent-crash", "go test -race of the goroutine bodies died:\n"+ex, caseInput{Op: "free"}, raceTestHint)
	case err != nil:
		if len(out) > 600 {
			out = out[len(out)-600:]
		}
		c.r.Extra("race_detector_pass", "could not be run (not judged): "+err.Error()+": "+out)
	default:
		c.r.Extra("race_detector_pass", fmt.Sprintf("go test -race -run TestC19Race ./enum/registry against %s: no data race, no differing observation, %.1f s (additional observation, not an enumeration)", repo, el))
	}
}
