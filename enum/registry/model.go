//go:build verif

package registry

import (
	"fmt"
	"reflect"
	"sort"
	"sync"

	"github.com/vapourismo/knx-go/knx/dpt"

	"verifh/enum/enumlib"
)

// ---------------------------------------------------------------------------------------------
// The operations of a logical thread and what a thread observes.
//
// A logical thread owns one datapoint instance ("own"); at the start of a schedule own is a fresh
// Produce(a). Its program is a sequence of operations from the alphabet below. What a thread
// observes of an operation is hashed into one 64-bit word:
//   Produce(x)   ok, dynamic type, "is the zero value", Pack() of the new instance (which becomes own)
//   Unpack       error text, Pack() of own afterwards (payload: the thread's non-zero payload for own's type)
//   Pack         Pack() of own
//   List         number of names and an order-independent hash of the names
// Without state shared between instances or with the registry, a thread's observations are a
// function of its own program alone, whatever the other threads do in between.

type op uint8

const (
	opProduceA op = iota
	opProduceB
	opUnpack
	opPack
	opList
	nOps
)

var opNames = [nOps]string{"Produce(a)", "Produce(b)", "Unpack(own)", "Pack(own)", "ListSupportedTypes()"}

const opsPerThread = 2
const nPrograms = int(nOps) * int(nOps) // 25 programs of two operations

func program(i int) [opsPerThread]op { return [opsPerThread]op{op(i / int(nOps)), op(i % int(nOps))} }

const (
	fnvOff   = 14695981039346656037
	fnvPrime = 1099511628211
)

func hBytes(h uint64, b []byte) uint64 {
	for _, x := range b {
		h = (h ^ uint64(x)) * fnvPrime
	}
	return (h ^ 0xFF) * fnvPrime
}

func hString(h uint64, s string) uint64 {
	for i := 0; i < len(s); i++ {
		h = (h ^ uint64(s[i])) * fnvPrime
	}
	return (h ^ 0xFE) * fnvPrime
}

func hWord(h, w uint64) uint64 {
	for i := 0; i < 8; i++ {
		h = (h ^ (w & 0xFF)) * fnvPrime
		w >>= 8
	}
	return h
}

// world is the immutable part of a pair of type names.
type world struct {
	a, b     string
	payloads map[string][][]byte                         // non-zero valid payloads of a and of b
	ref      [maxThreads][nPrograms][opsPerThread]uint64 // observations of thread t running program p alone
}

const maxThreads = 3

type thread struct {
	id      int
	own     dpt.Datapoint
	ownName string
}

func isZero(d dpt.Datapoint) bool {
	v := reflect.ValueOf(d)
	if !v.IsValid() || v.Kind() != reflect.Ptr || v.IsNil() {
		return false
	}
	return v.Elem().IsZero()
}

func (w *world) start(t *thread, id int) {
	d, _ := dpt.Produce(w.a)
	t.id, t.own, t.ownName = id, d, w.a
}

// exec runs one operation of thread t and returns what the thread observes.
func (w *world) exec(t *thread, o op) uint64 {
	h := uint64(fnvOff) ^ uint64(o)
	switch o {
	case opProduceA, opProduceB:
		name := w.a
		if o == opProduceB {
			name = w.b
		}
		d, ok := dpt.Produce(name)
		t.own, t.ownName = d, name
		if !ok || d == nil {
			return hWord(h, 0xDEAD)
		}
		h = hString(h, reflect.TypeOf(d).String())
		if isZero(d) {
			h = hWord(h, 1)
		}
		return hBytes(h, d.Pack())
	case opUnpack:
		if t.own == nil {
			return hWord(h, 0xDEAD)
		}
		ps := w.payloads[t.ownName]
		err := t.own.Unpack(ps[t.id%len(ps)])
		if err != nil {
			h = hString(h, err.Error())
		}
		return hBytes(h, t.own.Pack())
	case opPack:
		if t.own == nil {
			return hWord(h, 0xDEAD)
		}
		return hBytes(h, t.own.Pack())
	case opList:
		names := dpt.ListSupportedTypes()
		var sum uint64
		for _, n := range names {
			// order-independent; injective on names of up to eight characters
			x := uint64(len(n))
			for i := 0; i < len(n) && i < 8; i++ {
				x = x<<8 | uint64(n[i])
			}
			sum += x * 0x9E3779B97F4A7C15
		}
		return hWord(hWord(h, uint64(len(names))), sum)
	}
	panic("check bug: unknown op")
}

// alone runs program p as thread id with nothing in between.
func (w *world) alone(id, p int) (obs [opsPerThread]uint64) {
	var t thread
	w.start(&t, id)
	for i, o := range program(p) {
		obs[i] = w.exec(&t, o)
	}
	return
}

func (w *world) computeRefs() {
	for id := 0; id < maxThreads; id++ {
		for p := 0; p < nPrograms; p++ {
			w.ref[id][p] = w.alone(id, p)
		}
	}
}

// orders[k] lists all interleavings of k threads with opsPerThread operations each, as sequences
// of thread indices, in lexicographic order.
var orders = func() (o [maxThreads + 1][][]uint8) {
	for k := 1; k <= maxThreads; k++ {
		left := make([]int, k)
		for i := range left {
			left[i] = opsPerThread
		}
		var cur []uint8
		var rec func()
		rec = func() {
			if len(cur) == k*opsPerThread {
				o[k] = append(o[k], append([]uint8(nil), cur...))
				return
			}
			for t := 0; t < k; t++ {
				if left[t] > 0 {
					left[t]--
					cur = append(cur, uint8(t))
					rec()
					cur = cur[:len(cur)-1]
					left[t]++
				}
			}
		}
		rec()
	}
	return
}()

// schedule is one replayable interleaving.
type schedule struct {
	A        string  `json:"a"`
	B        string  `json:"b"`
	Programs [][]int `json:"programs"` // per thread: operation numbers (0 Produce(a), 1 Produce(b), 2 Unpack(own), 3 Pack(own), 4 ListSupportedTypes())
	Order    []int   `json:"order"`    // thread index of every step
}

// diff is the first step at which a thread observed something else than when running alone.
type diff struct {
	step, thread, pc int
	op               op
	got, want        uint64
}

// runSchedule executes one interleaving sequentially in the given order on fresh thread state and
// compares every observation with the thread's reference. vec is a hash of all observations in
// thread order. A panic of the library is returned as text.
func (w *world) runSchedule(progs []int, order []uint8) (d *diff, vec uint64, panicked string) {
	var th [maxThreads]thread
	var pc [maxThreads]int
	var obs [maxThreads][opsPerThread]uint64
	k := len(progs)
	for t := 0; t < k; t++ {
		w.start(&th[t], t)
	}
	step := 0
	if p, pv := enumlib.Try(func() {
		for ; step < len(order); step++ {
			t := int(order[step])
			o := program(progs[t])[pc[t]]
			got := w.exec(&th[t], o)
			obs[t][pc[t]] = got
			if want := w.ref[t][progs[t]][pc[t]]; got != want && d == nil {
				d = &diff{step, t, pc[t], o, got, want}
			}
			pc[t]++
		}
	}); p {
		t := int(order[step])
		return nil, 0, fmt.Sprintf("step %d (thread %d, %s) panicked: %s", step, t, opNames[program(progs[t])[pc[t]]], pv)
	}
	vec = fnvOff
	for t := 0; t < k; t++ {
		for _, x := range obs[t] {
			vec = hWord(vec, x)
		}
	}
	return
}

func (w *world) describeSchedule(progs []int, order []uint8) string {
	s := fmt.Sprintf("a=%s b=%s;", w.a, w.b)
	for t, p := range progs {
		pr := program(p)
		s += fmt.Sprintf(" T%d: %s, %s;", t, opNames[pr[0]], opNames[pr[1]])
	}
	s += " order"
	for _, t := range order {
		s += fmt.Sprintf(" T%d", t)
	}
	return s
}

func toSchedule(w *world, progs []int, order []uint8) schedule {
	s := schedule{A: w.a, B: w.b}
	for _, p := range progs {
		pr := program(p)
		s.Programs = append(s.Programs, []int{int(pr[0]), int(pr[1])})
	}
	for _, t := range order {
		s.Order = append(s.Order, int(t))
	}
	return s
}

// ---------------------------------------------------------------------------------------------
// payload search

var fills = []byte{0x01, 0x02, 0x11, 0x21, 0x41, 0x0C, 0x3F, 0x7F, 0x80, 0xFF}

// candidates enumerates a small fixed set of payloads: the length of the zero value's encoding
// first, then lengths 1..16; first octet 0 or the fill; all other octets the fill; optionally a
// terminating NUL.
func candidates(zeroLen int) [][]byte {
	lens := []int{zeroLen}
	for l := 1; l <= 16; l++ {
		if l != zeroLen {
			lens = append(lens, l)
		}
	}
	var out [][]byte
	for _, l := range lens {
		if l < 1 {
			continue
		}
		for _, f := range fills {
			for _, first := range []byte{0, f} {
				for _, nul := range []bool{false, true} {
					if l == 1 && (first == 0 || nul) {
						continue
					}
					p := make([]byte, l)
					for i := range p {
						p[i] = f
					}
					p[0] = first
					if nul {
						p[l-1] = 0
					}
					out = append(out, p)
				}
			}
		}
	}
	return out
}

// findPayloads returns up to max payloads that a fresh instance of typ (built with reflect.New, not
// through the registry) accepts and that leave it different from the zero value and from each other.
func findPayloads(typ reflect.Type, max int) [][]byte {
	zl := 0
	enumlib.Try(func() { zl = len(reflect.New(typ).Interface().(dpt.Datapoint).Pack()) })
	var out [][]byte
	seen := map[string]bool{}
	for _, p := range candidates(zl) {
		d := reflect.New(typ).Interface().(dpt.Datapoint)
		var err error
		var packed []byte
		if pn, _ := enumlib.Try(func() {
			err = d.Unpack(p)
			if err == nil {
				packed = d.Pack()
			}
		}); pn || err != nil || isZero(d) {
			continue
		}
		key := fmt.Sprintf("%#v|%x", reflect.ValueOf(d).Elem().Interface(), packed)
		if seen[key] {
			continue
		}
		seen[key] = true
		out = append(out, p)
		if len(out) == max {
			break
		}
	}
	return out
}

// ---------------------------------------------------------------------------------------------
// worlds

var (
	worldMu    sync.Mutex
	payloadsOf = map[string][][]byte{}
)

func payloadsFor(name string) [][]byte {
	worldMu.Lock()
	defer worldMu.Unlock()
	if p, ok := payloadsOf[name]; ok {
		return p
	}
	var ps [][]byte
	if d, ok := dpt.Produce(name); ok && d != nil && reflect.TypeOf(d).Kind() == reflect.Ptr {
		ps = findPayloads(reflect.TypeOf(d).Elem(), maxThreads)
	}
	payloadsOf[name] = ps
	return ps
}

// newWorld prepares the pair (a, b); nil if one of the two has no usable payload.
func newWorld(a, b string) *world {
	w := &world{a: a, b: b, payloads: map[string][][]byte{a: payloadsFor(a), b: payloadsFor(b)}}
	if len(w.payloads[a]) == 0 || len(w.payloads[b]) == 0 {
		return nil
	}
	w.computeRefs()
	return w
}

func sortedNames() []string {
	n := append([]string(nil), dpt.ListSupportedTypes()...) // never sort the library's own slice
	sort.Strings(n)
	return n
}

// ---------------------------------------------------------------------------------------------
// free-running pass: the same thread bodies on real goroutines (used by the child process of the
// quick/thorough run and by TestC19Race under the race detector).

// freeRun lets `goroutines` goroutines run every program on every pair (name, next name) `rounds`
// times, free-running, and compares each observation with the reference taken alone beforehand.
func freeRun(goroutines, rounds int) (runs int64, diffs []string) {
	diffs = coldStart(goroutines)
	names := sortedNames()
	var worlds []*world
	for i, a := range names {
		if w := newWorld(a, names[(i+1)%len(names)]); w != nil {
			worlds = append(worlds, w)
		}
	}
	var mu sync.Mutex
	var wg sync.WaitGroup
	start := make(chan struct{})
	for g := 0; g < goroutines; g++ {
		wg.Add(1)
		go func(g int) {
			defer wg.Done()
			<-start
			var n int64
			var mine []string
			for r := 0; r < rounds; r++ {
				for wi := range worlds {
					w := worlds[(wi+g*7)%len(worlds)]
					for p := 0; p < nPrograms; p++ {
						id := g % maxThreads
						got := w.alone(id, p)
						n++
						if got != w.ref[id][p] && len(mine) < 5 {
							pr := program(p)
							mine = append(mine, fmt.Sprintf("%s|goroutine %d as thread %d on a=%s b=%s program %s, %s observed %x, alone %x", w.a, g, id, w.a, w.b, opNames[pr[0]], opNames[pr[1]], got, w.ref[id][p]))
						}
					}
				}
			}
			mu.Lock()
			runs += n
			diffs = append(diffs, mine...)
			mu.Unlock()
		}(g)
	}
	close(start)
	wg.Wait()
	// the registry must still answer as at the beginning
	for _, w := range worlds {
		for p := 0; p < nPrograms; p++ {
			if got := w.alone(0, p); got != w.ref[0][p] {
				diffs = append(diffs, fmt.Sprintf("%s|after the concurrent phase a=%s b=%s program %d alone observes %x, before %x", w.a, w.a, w.b, p, got, w.ref[0][p]))
				break
			}
		}
	}
	sort.Strings(diffs)
	return
}

// coldStart is the first thing a free-running process does with the package: all goroutines list,
// produce and pack at once, before anything else has touched the registry, so that a lazily built
// registry is built concurrently (visible to the race detector, or as a crash, or as goroutines
// that see different lists).
func coldStart(goroutines int) (diffs []string) {
	var wg sync.WaitGroup
	start := make(chan struct{})
	sums := make([]uint64, goroutines)
	for g := 0; g < goroutines; g++ {
		wg.Add(1)
		go func(g int) {
			defer wg.Done()
			<-start
			var t thread
			w := &world{}
			names := dpt.ListSupportedTypes()
			sums[g] = w.exec(&t, opList)
			for _, n := range names {
				if d, ok := dpt.Produce(n); ok && d != nil {
					_ = d.Pack()
				} else {
					sums[g]++
				}
			}
		}(g)
	}
	close(start)
	wg.Wait()
	for g := 1; g < goroutines; g++ {
		if sums[g] != sums[0] {
			diffs = append(diffs, fmt.Sprintf("list|cold start: goroutine %d and goroutine 0 see different name lists or cannot produce a listed name (%x / %x)", g, sums[g], sums[0]))
			break
		}
	}
	return
}
