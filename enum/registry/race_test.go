//go:build verif

package registry

import (
	"fmt"
	"testing"
)

// TestC19Race runs the thread bodies of the C19 interleaving model on real goroutines. The C19
// check starts it under the race detector (go test -race); it can also be run by hand:
//
//	cd /verif && go test -tags verif -race -vet=off -count=1 -run '^TestC19Race$' ./enum/registry
func TestC19Race(t *testing.T) {
	runs, diffs := freeRun(8, 2)
	for _, d := range diffs {
		fmt.Println("C19DIFF " + d)
		t.Error(d)
	}
	t.Logf("%d program runs on 8 goroutines", runs)
}
