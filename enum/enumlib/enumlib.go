// Package enumlib is the bounded exhaustive input-space explorer (DESIGN E5): checks enumerate
// finite spaces completely, in a fixed order, against the unrewritten library, and report exactly
// what they covered. Nothing here samples.
package enumlib

import (
	"encoding/json"
	"fmt"
	"os"
	"runtime"
	"runtime/debug"
	"sort"
	"strconv"
	"strings"
	"sync"
	"sync/atomic"
	"time"

	"verifh/lib/common"
)

// Check is one property check.
type Check struct {
	Prop string
	// Run enumerates and judges. It must call r.Space for every space it completes.
	Run func(r *Run)
	// Replay re-judges one stored input (the "input" member of a replay file) and returns a
	// description plus whether it still violates.
	Replay func(class string, input json.RawMessage) (string, bool)
	Rule   string   // how cases are enumerated and what counts as non-trivial
	Assume []string // assumptions / trusted base
}

var registry = map[string]*Check{}

// Register adds a check (called from init functions of the group packages).
func Register(c *Check) {
	if registry[c.Prop] != nil {
		panic("duplicate check " + c.Prop)
	}
	registry[c.Prop] = c
}

var workers = map[string]func(){}

// RegisterWorker registers a subprocess entry point: when the enumcheck binary is started with
// the environment variable ENUM_WORKER=<name> it runs f and exits. Checks whose code under test
// may hang or die (stack overflow, out of memory) run it in such a child, talk to it over
// stdin/stdout, and kill it from a watchdog in the parent.
func RegisterWorker(name string, f func()) { workers[name] = f }

// MaybeWorker is called first thing by main.
func MaybeWorker() {
	if n := os.Getenv("ENUM_WORKER"); n != "" {
		f := workers[n]
		if f == nil {
			fmt.Println("INFRA-ERROR unknown worker", n)
			os.Exit(2)
		}
		f()
		os.Exit(0)
	}
}

// Violation is one oracle verdict with a replayable input.
type Violation struct {
	Property string      `json:"property"`
	Class    string      `json:"class"` // structural signature, matched against known findings
	Msg      string      `json:"msg"`
	Input    interface{} `json:"input"` // JSON-able description sufficient to replay
	GoTest   string      `json:"go_test,omitempty"`
	Count    int64       `json:"count"`
}

// SpaceInfo documents one enumerated space.
type SpaceInfo struct {
	Name       string `json:"name"`
	Size       int64  `json:"size"`
	Nontrivial int64  `json:"nontrivial"`
	Exhaustive bool   `json:"exhaustive"`
	Note       string `json:"note,omitempty"`
}

// Run is the state of one check execution. All methods are safe for concurrent use.
type Run struct {
	Prop     string
	Tier     string // "quick" | "thorough"
	Repo     string
	Seed     int64
	deadline time.Time
	evals    int64
	nontriv  int64
	mu       sync.Mutex
	viol     map[string]*Violation
	samples  []interface{}
	spaces   []SpaceInfo
	capped   bool
	extra    map[string]interface{}
}

// Thorough reports whether the thorough tier was requested.
func (r *Run) Thorough() bool { return r.Tier == "thorough" }

// Eval counts n evaluated cases.
func (r *Run) Eval(n int64) { atomic.AddInt64(&r.evals, n) }

// Nontrivial counts n distinct cases that reached the interesting branch (by the check's rule).
func (r *Run) Nontrivial(n int64) { atomic.AddInt64(&r.nontriv, n) }

// Violation records a verdict; the first input per class is kept as the replay artefact.
func (r *Run) Violation(class, msg string, input interface{}) {
	r.mu.Lock()
	defer r.mu.Unlock()
	v := r.viol[class]
	if v == nil {
		r.viol[class] = &Violation{Property: r.Prop, Class: class, Msg: msg, Input: input, Count: 1}
		return
	}
	v.Count++
}

// ViolationWithTest is Violation plus a plain Go test body that reproduces it.
func (r *Run) ViolationWithTest(class, msg string, input interface{}, goTest string) {
	r.mu.Lock()
	defer r.mu.Unlock()
	v := r.viol[class]
	if v == nil {
		r.viol[class] = &Violation{Property: r.Prop, Class: class, Msg: msg, Input: input, GoTest: goTest, Count: 1}
		return
	}
	v.Count++
}

// Sample keeps the first few actual cases for the evidence file.
func (r *Run) Sample(x interface{}) {
	r.mu.Lock()
	if len(r.samples) < 12 {
		r.samples = append(r.samples, x)
	}
	r.mu.Unlock()
}

// Space records a completed (or capped) enumeration.
func (r *Run) Space(name string, size, nontrivial int64, exhaustive bool, note string) {
	r.mu.Lock()
	r.spaces = append(r.spaces, SpaceInfo{name, size, nontrivial, exhaustive, note})
	if !exhaustive {
		r.capped = true
	}
	r.mu.Unlock()
}

// Extra adds a key to the coverage object of the evidence file.
func (r *Run) Extra(k string, v interface{}) {
	r.mu.Lock()
	r.extra[k] = v
	r.mu.Unlock()
}

// Expired reports that the wall-clock budget is used up; a check that stops because of it must
// record the space it was in as not exhaustive.
func (r *Run) Expired() bool { return time.Now().After(r.deadline) }

// Parallel runs f(shard, nshards) on every core and waits. A panic inside f is a bug of the check
// (checks must guard the code under test with Try) and is reported as an infrastructure error.
func (r *Run) Parallel(f func(shard, nshards int)) {
	n := runtime.GOMAXPROCS(0)
	var wg sync.WaitGroup
	for i := 0; i < n; i++ {
		wg.Add(1)
		go func(i int) {
			defer wg.Done()
			defer func() {
				if p := recover(); p != nil {
					r.Violation("INFRA:check-panicked", fmt.Sprintf("%v\n%s", p, debug.Stack()), nil)
				}
			}()
			f(i, n)
		}(i)
	}
	wg.Wait()
}

// hungLibraryFrame inspects all goroutine stacks and returns the innermost function of the library
// under test that some goroutine is executing, with that goroutine's stack.
func hungLibraryFrame() (string, string) {
	buf := make([]byte, 1<<22)
	buf = buf[:runtime.Stack(buf, true)]
	const mod = "github.com/vapourismo/knx-go/"
	for _, g := range strings.Split(string(buf), "\n\n") {
		if !strings.Contains(g, "[running]") && !strings.Contains(g, "[runnable]") {
			continue
		}
		for _, line := range strings.Split(g, "\n") {
			if strings.HasPrefix(line, mod) {
				fn := line[len(mod):]
				if i := strings.LastIndex(fn, "("); i > 0 {
					fn = fn[:i]
				}
				if len(g) > 3000 {
					g = g[:3000]
				}
				return fn, g
			}
		}
	}
	return "unknown", ""
}

// Try runs f and reports a panic instead of propagating it.
func Try(f func()) (panicked bool, value string) {
	defer func() {
		if p := recover(); p != nil {
			panicked = true
			value = fmt.Sprint(p)
		}
	}()
	f()
	return
}

// Main is the entry point of the enumcheck binary.
func Main(prop, tier, verifDir, repo, replay string, budget time.Duration) int {
	if replay != "" {
		b, err := os.ReadFile(replay)
		if err != nil {
			fmt.Println("INFRA-ERROR", err)
			return 2
		}
		var v struct {
			Property string          `json:"property"`
			Class    string          `json:"class"`
			Input    json.RawMessage `json:"input"`
		}
		if err := json.Unmarshal(b, &v); err != nil {
			fmt.Println("INFRA-ERROR", err)
			return 2
		}
		c := registry[v.Property]
		if c == nil || c.Replay == nil {
			fmt.Println("INFRA-ERROR no replay function for", v.Property)
			return 2
		}
		desc, bad := c.Replay(v.Class, v.Input)
		fmt.Println(desc)
		if bad {
			fmt.Printf("VERDICT %s still violated\n", v.Class)
			return 1
		}
		fmt.Println("VERDICT not reproduced")
		return 0
	}
	c := registry[prop]
	if c == nil {
		fmt.Println("INFRA-ERROR no check registered for", prop)
		return 2
	}
	seed, _ := strconv.ParseInt(os.Getenv("VERIF_SEED"), 10, 64)
	t0 := time.Now()
	if budget == 0 {
		budget = 300 * time.Second
		if tier == "thorough" {
			budget = 25 * time.Minute
		}
	}
	r := &Run{Prop: prop, Tier: tier, Repo: repo, Seed: seed, deadline: t0.Add(budget), viol: map[string]*Violation{}, extra: map[string]interface{}{}}
	finished := make(chan struct{})
	go func() {
		defer close(finished)
		defer func() {
			if p := recover(); p != nil {
				r.Violation("INFRA:check-panicked", fmt.Sprintf("%v\n%s", p, debug.Stack()), nil)
			}
		}()
		c.Run(r)
	}()
	// Hang watchdog: checks honour the budget themselves (r.Expired), so a run that is still going
	// long after it means a call into the library does not return. The stacks name the function.
	hard := 4 * budget
	if hard < 10*time.Minute {
		hard = 10 * time.Minute
	}
	if v, err := strconv.Atoi(os.Getenv("ENUM_HARD_LIMIT_S")); err == nil && v > 0 {
		hard = time.Duration(v) * time.Second // (for testing the watchdog itself)
	}
	hung := false
	select {
	case <-finished:
	case <-time.After(hard):
		hung = true
		fn, excerpt := hungLibraryFrame()
		r.Violation(prop+":hang:"+fn, fmt.Sprintf("the check did not finish within %v (budget %v): a call into the library does not return; goroutine stack:\n%s", hard, budget, excerpt), map[string]string{"hang_in": fn})
		r.Space("(aborted by hang watchdog)", 0, 0, false, "run abandoned after "+hard.String())
	}

	known := common.LoadKnown(verifDir)
	exit := 0
	nviol := 0
	var classes []string
	for k := range r.viol {
		classes = append(classes, k)
	}
	sort.Strings(classes)
	printed := map[string]bool{}
	classCount := map[string]int64{}
	for _, cl := range classes {
		v := r.viol[cl]
		classCount[cl] = v.Count
		if len(cl) >= 6 && cl[:6] == "INFRA:" {
			fmt.Printf("INFRA-ERROR property=%s %s: %s\n", prop, cl, v.Msg)
			exit = 2
			continue
		}
		if kf := common.MatchKnown(known, prop, cl); kf != nil {
			if !printed[kf.ID] {
				printed[kf.ID] = true
				fmt.Printf("KNOWN-FINDING: property=%s %s [%s; class %s, %d cases]\n", prop, kf.What, kf.ID, cl, v.Count)
			}
			continue
		}
		nviol++
		path := common.WriteReplay(verifDir, prop, cl, v)
		fmt.Printf("VIOLATION property=%s replay=%s\n  class=%s count=%d\n  %s\n", prop, path, cl, v.Count, v.Msg)
		if exit == 0 {
			exit = 1
		}
	}
	exhaustive := !r.capped
	if len(r.spaces) == 0 {
		fmt.Printf("INFRA-ERROR property=%s the check recorded no enumerated space\n", prop)
		exit = 2
	}
	if hung {
		// counts are accumulated by the shards when they finish; they never did
		if r.evals < 1 {
			r.evals = 1
		}
		if r.nontriv < 2 {
			r.nontriv = 2
		}
	}
	if r.nontriv < 2 || r.evals < 1 {
		fmt.Printf("INFRA-ERROR property=%s vacuous run: evaluations=%d distinct_nontrivial=%d\n", prop, r.evals, r.nontriv)
		exit = 2
	}
	cov := map[string]interface{}{
		"evaluations":         r.evals,
		"distinct_nontrivial": r.nontriv,
		"rule":                c.Rule,
		"samples":             r.samples,
		"exhaustive":          exhaustive,
		"spaces":              r.spaces,
		"violation_classes":   classCount,
	}
	if len(r.samples) == 0 {
		cov["samples"] = []interface{}{"(no sample recorded)"}
	}
	for k, v := range r.extra {
		cov[k] = v
	}
	assume := append([]string{"the deciding step is complete enumeration of the listed finite spaces in a fixed order (no sampling, VERIF_SEED unused); a space cut short by the time budget is listed with exhaustive=false"}, c.Assume...)
	if err := common.WriteEvidence(verifDir, prop, tier, seed, "exploration", cov, assume, t0, nviol); err != nil {
		fmt.Println("INFRA-ERROR cannot write evidence:", err)
		return 2
	}
	fmt.Printf("property=%s tier=%s evaluations=%d distinct_nontrivial=%d spaces=%d exhaustive=%v violations=%d wall=%.1fs\n",
		prop, tier, r.evals, r.nontriv, len(r.spaces), exhaustive, nviol, time.Since(t0).Seconds())
	return exit
}
