//go:build verif

package dptenc

// Independent datapoint table for C07, written from DESIGN.md Appendix B and the types' doc
// comments (KNX datapoint specification), NOT from the codec expressions of knx/dpt.
//
// A type that the registry lists but this table does not know is reported in the evidence
// ("untabled_types") and makes the run non-exhaustive; it is never silently skipped.

import (
	"fmt"
	"math"
)

type kind int

const (
	kBool      kind = iota // b1 in the low bits of the single octet
	kUint                  // U8 / U16 / U32, big-endian, exact
	kInt                   // V8 / V16 / V32 two's complement, big-endian, exact
	kScene                 // 17.001: U8, 0..63, larger values saturate at 63
	kSceneCtl              // 18.001: bit 7 = learn, bits 5..0 = scene; valid 0..63 and 128..191
	kF16                   // KNX 16-bit float 0.01*m*2^e
	kScaledU8              // U8 scaled onto [0,hi]
	kScaledV16             // V16 * step
	kIEEE                  // IEEE-754 binary32 big-endian, identity codec
	kTime                  // 10.001
	kDate                  // 11.001
	kRGB                   // 232.600
	kXYY                   // 242.600
	kRGBW                  // 251.600
	kStrASCII              // 16.000
	kStrLatin1             // 16.001
	kStrUTF8               // 28.001
)

type spec struct {
	name   string
	kind   kind
	length int     // payload length in octets incl. the leading octet (0 = variable)
	bits   int     // integer width for kUint/kInt
	lo, hi float64 // documented range (float-valued and saturating integer kinds)
	step   float64 // constant quantisation step (scaled kinds)
}

func (s *spec) floatValued() bool {
	return s.kind == kF16 || s.kind == kScaledU8 || s.kind == kScaledV16 || s.kind == kIEEE
}

// family is the type-family part of a violation class: the shared-codec families are named as a
// family, every type with its own conversion code by its own number.
func (s *spec) family() string {
	switch s.kind {
	case kF16:
		return "9.xxx"
	case kIEEE:
		return "14.xxx"
	case kBool:
		return "1.xxx"
	}
	return s.name
}

const (
	f16Max = 670760.96  // 0.01 * 2047 * 2^15
	f16Min = -671088.64 // 0.01 * -2048 * 2^15
)

// stepAt is the quantisation step of the type's wire format at magnitude x (x inside the range).
func (s *spec) stepAt(x float64) float64 {
	switch s.kind {
	case kF16:
		return stepF16(x)
	case kScaledU8, kScaledV16:
		return s.step
	}
	return 0
}

// stepF16: value = 0.01*m*2^e with m in -2048..2047; the step at x is 0.01*2^e for the smallest e
// that can represent x, i.e. the smallest e with -2048*2^e <= 100x <= 2047*2^e.
func stepF16(x float64) float64 {
	a := x * 100 // exact in float64 for every float32 x
	e := 0
	if a >= 0 {
		for e < 15 && a > 2047*float64(uint(1)<<uint(e)) {
			e++
		}
	} else {
		for e < 15 && a < -2048*float64(uint(1)<<uint(e)) {
			e++
		}
	}
	return 0.01 * float64(uint(1)<<uint(e))
}

func buildTable() map[string]*spec {
	t := map[string]*spec{}
	add := func(s spec) {
		if t[s.name] != nil {
			panic("duplicate table entry " + s.name)
		}
		c := s
		t[s.name] = &c
	}
	name := func(main, sub int) string { return fmt.Sprintf("%d.%03d", main, sub) }
	rng := func(main, from, to int, f func(n string)) {
		for i := from; i <= to; i++ {
			f(name(main, i))
		}
	}

	// 1.xxx (001-019, 021-024, 100)
	b1 := func(n string) { add(spec{name: n, kind: kBool, length: 1}) }
	rng(1, 1, 19, b1)
	rng(1, 21, 24, b1)
	b1(name(1, 100))

	// 5.xxx
	add(spec{name: "5.001", kind: kScaledU8, length: 2, lo: 0, hi: 100, step: 100.0 / 255})
	add(spec{name: "5.003", kind: kScaledU8, length: 2, lo: 0, hi: 360, step: 360.0 / 255})
	add(spec{name: "5.004", kind: kUint, length: 2, bits: 8})
	add(spec{name: "5.005", kind: kUint, length: 2, bits: 8})

	// 6.010
	add(spec{name: "6.010", kind: kInt, length: 2, bits: 8})

	// 7.xxx
	u16 := func(n string) { add(spec{name: n, kind: kUint, length: 3, bits: 16}) }
	rng(7, 1, 7, u16)
	rng(7, 10, 13, u16)
	u16(name(7, 600))

	// 8.xxx
	v16 := func(n string) { add(spec{name: n, kind: kInt, length: 3, bits: 16}) }
	rng(8, 1, 2, v16)
	rng(8, 5, 7, v16)
	v16(name(8, 11))
	add(spec{name: "8.003", kind: kScaledV16, length: 3, lo: -327.68, hi: 327.67, step: 0.01})
	add(spec{name: "8.010", kind: kScaledV16, length: 3, lo: -327.68, hi: 327.67, step: 0.01})
	add(spec{name: "8.004", kind: kScaledV16, length: 3, lo: -3276.8, hi: 3276.7, step: 0.1})

	// 9.xxx
	f16 := func(lo, hi float64) func(n string) {
		return func(n string) { add(spec{name: n, kind: kF16, length: 3, lo: lo, hi: hi}) }
	}
	f16(-273, 670760)(name(9, 1))
	f16(-459.6, 670760)(name(9, 27))
	rng(9, 4, 8, f16(0, 670760))
	rng(9, 28, 29, f16(0, 670760))
	rng(9, 2, 3, f16(-670760, 670760))
	rng(9, 10, 11, f16(-670760, 670760))
	rng(9, 20, 26, f16(-670760, 670760))

	// 10.001, 11.001
	add(spec{name: "10.001", kind: kTime, length: 4})
	add(spec{name: "11.001", kind: kDate, length: 4})

	// 12.001, 13.xxx
	add(spec{name: "12.001", kind: kUint, length: 5, bits: 32})
	v32 := func(n string) { add(spec{name: n, kind: kInt, length: 5, bits: 32}) }
	rng(13, 1, 2, v32)
	rng(13, 10, 16, v32)
	v32(name(13, 100))

	// 14.000-14.079, 14.1200
	ieee := func(n string) {
		add(spec{name: n, kind: kIEEE, length: 5, lo: -math.MaxFloat32, hi: math.MaxFloat32})
	}
	rng(14, 0, 79, ieee)
	ieee(name(14, 1200))

	// 16.xxx
	add(spec{name: "16.000", kind: kStrASCII, length: 15})
	add(spec{name: "16.001", kind: kStrLatin1, length: 15})

	// 17.001, 18.001
	add(spec{name: "17.001", kind: kScene, length: 2, bits: 8, lo: 0, hi: 63})
	add(spec{name: "18.001", kind: kSceneCtl, length: 2, bits: 8})

	// 20.xxx enumerations (U8)
	add(spec{name: "20.102", kind: kUint, length: 2, bits: 8})
	add(spec{name: "20.105", kind: kUint, length: 2, bits: 8})

	// 28.001
	add(spec{name: "28.001", kind: kStrUTF8, length: 0})

	// colour types
	add(spec{name: "232.600", kind: kRGB, length: 4})
	add(spec{name: "242.600", kind: kXYY, length: 7})
	add(spec{name: "251.600", kind: kRGBW, length: 7})

	return t
}

var table = buildTable()
