//go:build verif

package dptenc

// C07, integer-, struct- and string-typed datapoints.

import (
	"bytes"
	"fmt"
	"math/bits"
	"reflect"
	"runtime"

	"github.com/vapourismo/knx-go/knx/dpt"

	"verifh/enum/enumlib"
)

// ---- integers, booleans, scene numbers ---------------------------------------------------------

type intRunner struct {
	s          *spec
	in, out    dpt.Datapoint
	inV, outV  reflect.Value
	evals      int64
	nontrivial int64
	replaced   int64 // 18.001: reserved values replaced by a valid one (counted, see Rule)
}

func newIntRunner(s *spec) (*intRunner, error) {
	in, ok1 := dpt.Produce(s.name)
	out, ok2 := dpt.Produce(s.name)
	if !ok1 || !ok2 || in == nil || out == nil {
		return nil, fmt.Errorf("Produce(%q) failed", s.name)
	}
	iv, ov := reflect.ValueOf(in), reflect.ValueOf(out)
	if iv.Kind() != reflect.Ptr {
		return nil, fmt.Errorf("%s: registry instance is %T", s.name, in)
	}
	want := reflect.Invalid
	switch s.kind {
	case kBool:
		want = reflect.Bool
	case kUint, kScene, kSceneCtl:
		want = map[int]reflect.Kind{8: reflect.Uint8, 16: reflect.Uint16, 32: reflect.Uint32}[s.bits]
	case kInt:
		want = map[int]reflect.Kind{8: reflect.Int8, 16: reflect.Int16, 32: reflect.Int32}[s.bits]
	}
	if iv.Elem().Kind() != want {
		return nil, fmt.Errorf("%s: registry instance is %T (kind %v), the table expects kind %v", s.name, in, iv.Elem().Kind(), want)
	}
	return &intRunner{s: s, in: in, out: out, inV: iv.Elem(), outV: ov.Elem()}, nil
}

// roundTrip takes and returns the value as its raw bit pattern (two's complement for kInt).
func (ir *intRunner) roundTrip(u uint32) (enc []byte, dec uint32, err error, pan string) {
	defer func() {
		if p := recover(); p != nil {
			pan = fmt.Sprint(p)
		}
	}()
	switch ir.s.kind {
	case kBool:
		ir.inV.SetBool(u != 0)
	case kInt:
		ir.inV.SetInt(signExtend(u, ir.s.bits))
	default:
		ir.inV.SetUint(uint64(u))
	}
	enc = ir.in.Pack()
	err = ir.out.Unpack(enc)
	if err != nil {
		return
	}
	switch ir.s.kind {
	case kBool:
		if ir.outV.Bool() {
			dec = 1
		}
	case kInt:
		dec = uint32(ir.outV.Int()) & mask(ir.s.bits)
	default:
		dec = uint32(ir.outV.Uint())
	}
	return
}

func mask(bits int) uint32 { return uint32(uint64(1)<<uint(bits) - 1) }

func signExtend(u uint32, bits int) int64 {
	switch bits {
	case 8:
		return int64(int8(u))
	case 16:
		return int64(int16(u))
	}
	return int64(int32(u))
}

func sceneCtlValid(u uint32) bool { return u <= 63 || (u >= 128 && u <= 191) }

// judgeInt returns a mechanism ("" = fine) and a message.
func (s *spec) judgeInt(u uint32, enc []byte, dec uint32, err error, pan string) (mech, msg string) {
	show := func() string {
		if s.kind == kInt {
			return fmt.Sprintf("DPT %s: x=%d Pack=% x", s.name, signExtend(u, s.bits), enc)
		}
		return fmt.Sprintf("DPT %s: x=%d Pack=% x", s.name, u, enc)
	}
	if pan != "" {
		return "panic", show() + " panicked: " + pan
	}
	if len(enc) != s.length {
		return "shape", show() + fmt.Sprintf(" — expected %d octets", s.length)
	}
	if s.kind == kBool {
		if enc[0] > 0x3F || enc[0] != byte(u) {
			return "shape", show() + " — expected the bit in bit 0 of a single octet, all other bits zero"
		}
		if err != nil {
			return "undecodable", show() + fmt.Sprintf(" — rejected by the type's own decoder: %v", err)
		}
		if dec != u {
			return "roundtrip", show() + fmt.Sprintf(" decodes to %d", dec)
		}
		return "", ""
	}
	if enc[0] != 0 {
		return "shape", show() + " — leading octet must be zero"
	}
	if err != nil {
		return "undecodable", show() + fmt.Sprintf(" — rejected by the type's own decoder: %v", err)
	}
	inRange := true
	switch s.kind {
	case kScene:
		inRange = u <= 63
	case kSceneCtl:
		inRange = sceneCtlValid(u)
	}
	if inRange {
		// value octets: big-endian two's complement of the value
		for i := 1; i < s.length; i++ {
			if enc[i] != byte(u>>(8*uint(s.length-1-i))) {
				return "shape", show() + " — value octets are not the big-endian value"
			}
		}
		if dec != u {
			return "roundtrip", show() + fmt.Sprintf(" decodes to bit pattern %#x — integer round trip must be exact", dec)
		}
		return "", ""
	}
	switch s.kind {
	case kScene:
		if dec != 63 {
			return "wrap", show() + fmt.Sprintf(" decodes to %d — scene numbers above 63 must saturate at 63", dec)
		}
	case kSceneCtl:
		if !sceneCtlValid(dec) {
			return "wrap", show() + fmt.Sprintf(" decodes to %d — not a valid scene-control value (0..63, 128..191)", dec)
		}
	}
	return "", ""
}

type intInput struct {
	Type string `json:"type"`
	U    uint32 `json:"u"` // raw bit pattern of the value
}

func (ir *intRunner) visit(r *enumlib.Run, u uint32) {
	enc, dec, err, pan := ir.roundTrip(u)
	ir.evals++
	if u != 0 {
		ir.nontrivial++
	}
	if ir.s.kind == kSceneCtl && !sceneCtlValid(u) {
		ir.replaced++
	}
	if mech, msg := ir.s.judgeInt(u, enc, dec, err, pan); mech != "" {
		r.Violation("C07:"+mech+":"+ir.s.family(), msg, intInput{ir.s.name, u})
	}
}

// int32Alphabet is the boundary alphabet of the 32-bit integer types (each value also ±1).
func int32QuickSet() []uint32 {
	base := []uint32{0, 1, 2, 0x7F, 0x80, 0xFF, 0x100, 0x7FFF, 0x8000, 0xFFFF, 0x10000, 0xFFFFFF, 0x1000000,
		0x7FFFFFFF, 0x80000000, 0x80000001, 0xFFFFFFFE, 0xFFFFFFFF, 0x01020304, 0x04030201, 0xFF00FF00, 0x00FF00FF,
		0x55555555, 0xAAAAAAAA, 0xFFFF0000, 0x0000FFFF}
	seen := map[uint32]bool{}
	var out []uint32
	add := func(u uint32) {
		if !seen[u] {
			seen[u] = true
			out = append(out, u)
		}
	}
	for _, b := range base {
		add(b - 1)
		add(b)
		add(b + 1)
	}
	for k := uint32(0); k < 1<<20; k++ {
		add(k << 12)
	}
	return out
}

// runIntQuick: full domain for bool / 8 / 16 bit types; boundary alphabet + 2^20 grid for 32 bit.
func runIntQuick(r *enumlib.Run, s *spec) (ir *intRunner, err error) {
	ir, err = newIntRunner(s)
	if err != nil {
		return nil, err
	}
	switch {
	case s.kind == kBool:
		ir.visit(r, 0)
		ir.visit(r, 1)
	case s.bits == 32:
		for _, u := range int32QuickSet() {
			ir.visit(r, u)
		}
	default:
		for u := uint32(0); u <= mask(s.bits); u++ {
			ir.visit(r, u)
		}
	}
	return ir, nil
}

// sweepAllInt32 visits all 2^32 values of a 32-bit integer type.
func sweepAllInt32(r *enumlib.Run, s *spec) (done bool, evals, nontrivial int64) {
	n := runtime.GOMAXPROCS(0)
	type part struct {
		done       bool
		evals, non int64
	}
	parts := make([]part, n)
	r.Parallel(func(shard, n int) {
		ir, err := newIntRunner(s)
		if err != nil {
			return
		}
		total := uint64(1) << 32
		from, to := total*uint64(shard)/uint64(n), total*uint64(shard+1)/uint64(n)
		fin := true
		for k := from; k < to; k++ {
			if k&(1<<18-1) == 0 && r.Expired() {
				fin = false
				break
			}
			ir.visit(r, uint32(k))
		}
		parts[shard] = part{fin, ir.evals, ir.nontrivial}
	})
	done = true
	for _, p := range parts {
		done = done && p.done
		evals += p.evals
		nontrivial += p.non
	}
	return
}

// ---- 10.001 time of day -----------------------------------------------------------------------

type structInput struct {
	Type   string  `json:"type"`
	Fields []int64 `json:"fields"`
}

func judgeTime(wd, h, m, s uint8) (mech, msg string) {
	pi, ok1 := dpt.Produce("10.001")
	po, ok2 := dpt.Produce("10.001")
	in, ok3 := pi.(*dpt.DPT_10001)
	out, ok4 := po.(*dpt.DPT_10001)
	if !(ok1 && ok2 && ok3 && ok4) {
		return "infra", "registry does not yield *DPT_10001 for 10.001"
	}
	*in = dpt.DPT_10001{Weekday: wd, Hour: h, Minutes: m, Seconds: s}
	var enc []byte
	var err error
	if p, v := enumlib.Try(func() { enc = in.Pack(); err = out.Unpack(enc) }); p {
		return "panic", fmt.Sprintf("DPT 10.001 %+v: panic %s", *in, v)
	}
	if mech, msg := reusedReceiver(in, out, enc, err); mech != "" {
		return mech, msg
	}
	head := fmt.Sprintf("DPT 10.001 %+v Pack=% x", *in, enc)
	if len(enc) != 4 || enc[0] != 0 {
		return "shape", head + " — expected 4 octets with a zero leading octet"
	}
	valid := wd <= 7 && h <= 23 && m <= 59 && s <= 59
	if !valid {
		if !bytes.Equal(enc, []byte{0, 0, 0, 0}) {
			return "invalid-gate", head + " — an invalid time of day must encode to the all-zero payload"
		}
		if err != nil {
			return "undecodable", head + fmt.Sprintf(" — rejected by own decoder: %v", err)
		}
		return "", ""
	}
	if want := []byte{0, wd<<5 | h, m, s}; !bytes.Equal(enc, want) {
		return "shape", head + fmt.Sprintf(" — expected % x (weekday(3)|hour(5), minutes, seconds)", want)
	}
	if err != nil {
		return "undecodable", head + fmt.Sprintf(" — rejected by own decoder: %v", err)
	}
	if *out != *in {
		return "roundtrip", head + fmt.Sprintf(" decodes to %+v", *out)
	}
	return "", ""
}

func runTime(r *enumlib.Run) (evals, nontrivial int64) {
	for wd := 0; wd <= 9; wd++ {
		for h := 0; h <= 33; h++ {
			for m := 0; m <= 65; m++ {
				for s := 0; s <= 65; s++ {
					evals++
					if wd|h|m|s != 0 {
						nontrivial++
					}
					if mech, msg := judgeTime(uint8(wd), uint8(h), uint8(m), uint8(s)); mech != "" {
						r.Violation(classOf(mech, "10.001"), msg, structInput{"10.001", []int64{int64(wd), int64(h), int64(m), int64(s)}})
					}
				}
			}
		}
	}
	return
}

func classOf(mech, fam string) string {
	if mech == "infra" {
		return "INFRA:table-mismatch:" + fam
	}
	return "C07:" + mech + ":" + fam
}

// ---- 11.001 date ------------------------------------------------------------------------------

func realDate(y, m, d int) bool {
	if y < 1990 || y > 2089 || m < 1 || m > 12 || d < 1 {
		return false
	}
	dim := [...]int{31, 28, 31, 30, 31, 30, 31, 31, 30, 31, 30, 31}[m-1]
	if m == 2 && y%4 == 0 && (y%100 != 0 || y%400 == 0) {
		dim = 29
	}
	return d <= dim
}

func judgeDate(y uint16, m, d uint8) (mech, msg string) {
	pi, ok1 := dpt.Produce("11.001")
	po, ok2 := dpt.Produce("11.001")
	in, ok3 := pi.(*dpt.DPT_11001)
	out, ok4 := po.(*dpt.DPT_11001)
	if !(ok1 && ok2 && ok3 && ok4) {
		return "infra", "registry does not yield *DPT_11001 for 11.001"
	}
	*in = dpt.DPT_11001{Year: y, Month: m, Day: d}
	var enc []byte
	var err error
	if p, v := enumlib.Try(func() { enc = in.Pack(); err = out.Unpack(enc) }); p {
		return "panic", fmt.Sprintf("DPT 11.001 %+v: panic %s", *in, v)
	}
	if mech, msg := reusedReceiver(in, out, enc, err); mech != "" {
		return mech, msg
	}
	head := fmt.Sprintf("DPT 11.001 %+v Pack=% x", *in, enc)
	if len(enc) != 4 || enc[0] != 0 {
		return "shape", head + " — expected 4 octets with a zero leading octet"
	}
	if !realDate(int(y), int(m), int(d)) {
		if !bytes.Equal(enc, []byte{0, 0, 0, 0}) {
			return "invalid-gate", head + " — an invalid date must encode to the all-zero payload"
		}
		if err != nil {
			return "undecodable", head + fmt.Sprintf(" — rejected by own decoder: %v", err)
		}
		return "", ""
	}
	if want := []byte{0, d, m, byte(y % 100)}; !bytes.Equal(enc, want) {
		return "shape", head + fmt.Sprintf(" — expected % x (day, month, two-digit year)", want)
	}
	if err != nil {
		return "undecodable", head + fmt.Sprintf(" — rejected by own decoder: %v", err)
	}
	if *out != *in {
		return "roundtrip", head + fmt.Sprintf(" decodes to %+v", *out)
	}
	return "", ""
}

func runDate(r *enumlib.Run) (evals, nontrivial int64) {
	for d := 0; d <= 33; d++ {
		for m := 0; m <= 17; m++ {
			for y := 1985; y <= 2095; y++ {
				evals++
				if realDate(y, m, d) {
					nontrivial++
				}
				if mech, msg := judgeDate(uint16(y), uint8(m), uint8(d)); mech != "" {
					r.Violation(classOf(mech, "11.001"), msg, structInput{"11.001", []int64{int64(y), int64(m), int64(d)}})
				}
			}
		}
	}
	return
}

// ---- colour types -----------------------------------------------------------------------------

var (
	octetAlphabet16 = []uint8{0, 1, 2, 0x0F, 0x10, 0x3F, 0x40, 0x55, 0x7F, 0x80, 0x81, 0xAA, 0xBF, 0xC0, 0xFE, 0xFF}
	octetAlphabet8  = []uint8{0, 1, 0x55, 0x7F, 0x80, 0xAA, 0xFE, 0xFF}
	wordAlphabet16  = []uint16{0, 1, 0x7F, 0x80, 0xFF, 0x100, 0x101, 0x1234, 0x7FFF, 0x8000, 0x8001, 0xAA55, 0xFF00, 0xFFFE, 0xFFFF, 0x00AA}
)

func b2i(b bool) int64 {
	if b {
		return 1
	}
	return 0
}

func judgeRGB(rr, g, b uint8) (mech, msg string) {
	pi, ok1 := dpt.Produce("232.600")
	po, ok2 := dpt.Produce("232.600")
	in, ok3 := pi.(*dpt.DPT_232600)
	out, ok4 := po.(*dpt.DPT_232600)
	if !(ok1 && ok2 && ok3 && ok4) {
		return "infra", "registry does not yield *DPT_232600 for 232.600"
	}
	*in = dpt.DPT_232600{Red: rr, Green: g, Blue: b}
	var enc []byte
	var err error
	if p, v := enumlib.Try(func() { enc = in.Pack(); err = out.Unpack(enc) }); p {
		return "panic", fmt.Sprintf("DPT 232.600 %+v: panic %s", *in, v)
	}
	if mech, msg := reusedReceiver(in, out, enc, err); mech != "" {
		return mech, msg
	}
	head := fmt.Sprintf("DPT 232.600 %+v Pack=% x", *in, enc)
	if !bytes.Equal(enc, []byte{0, rr, g, b}) {
		return "shape", head + " — expected 00 R G B"
	}
	if err != nil {
		return "undecodable", head + fmt.Sprintf(" — rejected by own decoder: %v", err)
	}
	if *out != *in {
		return "roundtrip", head + fmt.Sprintf(" decodes to %+v", *out)
	}
	return "", ""
}

func judgeXYY(x, y uint16, br uint8, cv, bv bool) (mech, msg string) {
	pi, ok1 := dpt.Produce("242.600")
	po, ok2 := dpt.Produce("242.600")
	in, ok3 := pi.(*dpt.DPT_242600)
	out, ok4 := po.(*dpt.DPT_242600)
	if !(ok1 && ok2 && ok3 && ok4) {
		return "infra", "registry does not yield *DPT_242600 for 242.600"
	}
	*in = dpt.DPT_242600{X: x, Y: y, YBrightness: br, ColorValid: cv, BrightnessValid: bv}
	var enc []byte
	var err error
	if p, v := enumlib.Try(func() { enc = in.Pack(); err = out.Unpack(enc) }); p {
		return "panic", fmt.Sprintf("DPT 242.600 %+v: panic %s", *in, v)
	}
	if mech, msg := reusedReceiver(in, out, enc, err); mech != "" {
		return mech, msg
	}
	head := fmt.Sprintf("DPT 242.600 %+v Pack=% x", *in, enc)
	if len(enc) != 7 || !bytes.Equal(enc[:6], []byte{0, byte(x >> 8), byte(x), byte(y >> 8), byte(y), br}) {
		return "shape", head + " — expected 00 x(16) y(16) brightness validity"
	}
	// which flag sits in which of bits 1..0 is not judged (Appendix B); the count must agree
	if enc[6] > 3 || int64(bits.OnesCount8(enc[6])) != b2i(cv)+b2i(bv) {
		return "shape", head + " — validity octet must carry exactly the two flags in bits 1..0"
	}
	if err != nil {
		return "undecodable", head + fmt.Sprintf(" — rejected by own decoder: %v", err)
	}
	if *out != *in {
		return "roundtrip", head + fmt.Sprintf(" decodes to %+v", *out)
	}
	return "", ""
}

func judgeRGBW(c [4]uint8, f [4]bool) (mech, msg string) {
	pi, ok1 := dpt.Produce("251.600")
	po, ok2 := dpt.Produce("251.600")
	in, ok3 := pi.(*dpt.DPT_251600)
	out, ok4 := po.(*dpt.DPT_251600)
	if !(ok1 && ok2 && ok3 && ok4) {
		return "infra", "registry does not yield *DPT_251600 for 251.600"
	}
	*in = dpt.DPT_251600{Red: c[0], Green: c[1], Blue: c[2], White: c[3], RedValid: f[0], GreenValid: f[1], BlueValid: f[2], WhiteValid: f[3]}
	var enc []byte
	var err error
	if p, v := enumlib.Try(func() { enc = in.Pack(); err = out.Unpack(enc) }); p {
		return "panic", fmt.Sprintf("DPT 251.600 %+v: panic %s", *in, v)
	}
	if mech, msg := reusedReceiver(in, out, enc, err); mech != "" {
		return mech, msg
	}
	head := fmt.Sprintf("DPT 251.600 %+v Pack=% x", *in, enc)
	validity := byte(b2i(f[0])<<3 | b2i(f[1])<<2 | b2i(f[2])<<1 | b2i(f[3]))
	if !bytes.Equal(enc, []byte{0, c[0], c[1], c[2], c[3], 0, validity}) {
		return "shape", head + fmt.Sprintf(" — expected 00 R G B W 00 %02x (validity bits 3..0 = R,G,B,W)", validity)
	}
	if err != nil {
		return "undecodable", head + fmt.Sprintf(" — rejected by own decoder: %v", err)
	}
	if *out != *in {
		return "roundtrip", head + fmt.Sprintf(" decodes to %+v", *out)
	}
	return "", ""
}

func runRGB(r *enumlib.Run) (evals, nontrivial int64) {
	for _, a := range octetAlphabet16 {
		for _, b := range octetAlphabet16 {
			for _, c := range octetAlphabet16 {
				evals++
				if a|b|c != 0 {
					nontrivial++
				}
				if mech, msg := judgeRGB(a, b, c); mech != "" {
					r.Violation(classOf(mech, "232.600"), msg, structInput{"232.600", []int64{int64(a), int64(b), int64(c)}})
				}
			}
		}
	}
	return
}

func runXYY(r *enumlib.Run) (evals, nontrivial int64) {
	for _, x := range wordAlphabet16 {
		for _, y := range wordAlphabet16 {
			for _, br := range octetAlphabet16 {
				for f := 0; f < 4; f++ {
					evals++
					if x != 0 || y != 0 || br != 0 || f != 0 {
						nontrivial++
					}
					if mech, msg := judgeXYY(x, y, br, f&1 != 0, f&2 != 0); mech != "" {
						r.Violation(classOf(mech, "242.600"), msg, structInput{"242.600", []int64{int64(x), int64(y), int64(br), int64(f & 1), int64(f >> 1)}})
					}
				}
			}
		}
	}
	return
}

func runRGBW(r *enumlib.Run) (evals, nontrivial int64) {
	al := octetAlphabet8
	for _, a := range al {
		for _, b := range al {
			for _, c := range al {
				for _, w := range al {
					for f := 0; f < 16; f++ {
						evals++
						if a|b|c|w != 0 || f != 0 {
							nontrivial++
						}
						fl := [4]bool{f&8 != 0, f&4 != 0, f&2 != 0, f&1 != 0}
						if mech, msg := judgeRGBW([4]uint8{a, b, c, w}, fl); mech != "" {
							r.Violation(classOf(mech, "251.600"), msg, structInput{"251.600", []int64{int64(a), int64(b), int64(c), int64(w), int64(f)}})
						}
					}
				}
			}
		}
	}
	return
}

// ---- strings ----------------------------------------------------------------------------------

var runeAlphabet = []rune{0, 'A', 0x7F, 0x80, 0xFF, 0x100, 0x20AC, 0x1F600}

// stringSpace: all strings of <= 3 runes over the alphabet, plus lengths 13..16 and 40 of each
// single rune.
func stringSpace() [][]rune {
	var out [][]rune
	out = append(out, []rune{})
	for _, a := range runeAlphabet {
		out = append(out, []rune{a})
	}
	for _, a := range runeAlphabet {
		for _, b := range runeAlphabet {
			out = append(out, []rune{a, b})
		}
	}
	for _, a := range runeAlphabet {
		for _, b := range runeAlphabet {
			for _, c := range runeAlphabet {
				out = append(out, []rune{a, b, c})
			}
		}
	}
	for _, a := range runeAlphabet {
		for _, n := range []int{13, 14, 15, 16, 40} {
			s := make([]rune, n)
			for i := range s {
				s[i] = a
			}
			out = append(out, s)
		}
	}
	return out
}

type stringInput struct {
	Type  string  `json:"type"`
	Runes []int32 `json:"runes"`
}

func judgeString(s *spec, rs []rune) (mech, msg string) {
	pi, ok1 := dpt.Produce(s.name)
	po, ok2 := dpt.Produce(s.name)
	if !ok1 || !ok2 || pi == nil || po == nil {
		return "infra", "Produce failed for " + s.name
	}
	iv, ov := reflect.ValueOf(pi), reflect.ValueOf(po)
	if iv.Kind() != reflect.Ptr || iv.Elem().Kind() != reflect.String {
		return "infra", fmt.Sprintf("registry instance for %s is %T, expected a string-based type", s.name, pi)
	}
	str := string(rs)
	var enc []byte
	var err error
	if p, v := enumlib.Try(func() {
		iv.Elem().SetString(str)
		enc = pi.Pack()
		err = po.Unpack(enc)
	}); p {
		return "panic", fmt.Sprintf("DPT %s %q: panic %s", s.name, str, v)
	}
	head := fmt.Sprintf("DPT %s %+q (%d runes) Pack=% x", s.name, str, len(rs), enc)
	hasNUL := false
	var want []byte
	var wantDec []rune
	switch s.kind {
	case kStrASCII, kStrLatin1:
		limit := rune(0x7F)
		if s.kind == kStrLatin1 {
			limit = 0xFF
		}
		want = make([]byte, 15)
		for i := 0; i < len(rs) && i < 14; i++ {
			c := rs[i]
			if c > limit {
				c = 0x20
			}
			if c == 0 {
				hasNUL = true
			}
			want[i+1] = byte(c)
			wantDec = append(wantDec, c)
		}
	case kStrUTF8:
		want = append([]byte{0}, []byte(str)...)
		want = append(want, 0)
		for _, c := range rs {
			if c == 0 {
				hasNUL = true
			}
		}
		wantDec = rs
	}
	if !bytes.Equal(enc, want) {
		if s.kind == kStrUTF8 {
			return "shape", head + fmt.Sprintf(" — expected leading zero octet + UTF-8 octets + NUL terminator (% x)", want)
		}
		return "shape", head + fmt.Sprintf(" — expected 15 octets: zero octet, <= 14 characters (non-representable ones as 0x20), NUL padding (% x)", want)
	}
	if err != nil {
		return "undecodable", head + fmt.Sprintf(" — rejected by own decoder: %v", err)
	}
	if !hasNUL {
		if got := ov.Elem().String(); got != string(wantDec) {
			return "roundtrip", head + fmt.Sprintf(" decodes to %+q, expected %+q", got, string(wantDec))
		}
	}
	return "", ""
}

func runStrings(r *enumlib.Run, s *spec) (evals, nontrivial, withNUL int64) {
	for _, rs := range stringSpace() {
		evals++
		nul := false
		for _, c := range rs {
			if c == 0 {
				nul = true
			}
		}
		if nul {
			withNUL++
		} else if len(rs) > 0 {
			nontrivial++
		}
		if mech, msg := judgeString(s, rs); mech != "" {
			ri := make([]int32, len(rs))
			for i, c := range rs {
				ri[i] = int32(c)
			}
			r.Violation(classOf(mech, s.name), msg, stringInput{s.name, ri})
		}
	}
	return
}

// reusedReceiver: "self-decodable" must not depend on what the receiving value held before. The
// encoding is decoded once more, into a copy of the value it came from (a receiver that is not
// fresh and may hold out-of-range members); the verdict and the result must be those of the fresh
// receiver.
func reusedReceiver(in, out dpt.Datapoint, enc []byte, errFresh error) (mech, msg string) {
	iv := reflect.ValueOf(in)
	if iv.Kind() != reflect.Ptr {
		return "", ""
	}
	cp := reflect.New(iv.Elem().Type())
	cp.Elem().Set(iv.Elem())
	rec, ok := cp.Interface().(dpt.Datapoint)
	if !ok {
		return "", ""
	}
	var err error
	if p, v := enumlib.Try(func() { err = rec.Unpack(enc) }); p {
		return "panic", fmt.Sprintf("%T %+v Pack=% x: decoding that into a receiver that holds the same value panicked: %s", in, iv.Elem().Interface(), enc, v)
	}
	if (err == nil) != (errFresh == nil) {
		return "undecodable", fmt.Sprintf("%T %+v Pack=% x: a fresh receiver says %v, a receiver that holds the value itself says %v", in, iv.Elem().Interface(), enc, errFresh, err)
	}
	if err == nil && !reflect.DeepEqual(cp.Elem().Interface(), reflect.ValueOf(out).Elem().Interface()) {
		return "roundtrip", fmt.Sprintf("%T %+v Pack=% x decodes to %+v in a fresh receiver and to %+v in a receiver that held the value itself", in, iv.Elem().Interface(), enc, reflect.ValueOf(out).Elem().Interface(), cp.Elem().Interface())
	}
	return "", ""
}
