//go:build verif

package dptenc

// C07 — datapoint encoding is accurate, monotonic, saturating and self-decodable.

import (
	"encoding/json"
	"fmt"
	"sort"
	"strconv"
	"strings"
	"sync"
	"sync/atomic"

	"github.com/vapourismo/knx-go/knx/dpt"

	"verifh/enum/enumlib"
)

func init() {
	enumlib.Register(&enumlib.Check{
		Prop:   "C07",
		Run:    runC07,
		Replay: replayC07,
		Rule: "every type name of dpt.ListSupportedTypes() is looked up in an independent table (Appendix B); per type the whole listed space is enumerated in a fixed order. " +
			"Float-valued types (9.xxx, 5.001, 5.003, 8.003, 8.004, 8.010, 14.xxx): quick = complete grid of the 2^20 float32 bit patterns with 12 zero low mantissa bits (NaN/Inf skipped) " +
			"∪ ±3 ulp around each range bound, ±0, ±20.47·2^e, ±20.48·2^e (e=0..15) and the 16-bit-float extremes ∪ value of every encoding of the wire format ±2 ulp ∪ midpoints of adjacent encodings ±1 ulp, " +
			"visited in increasing numeric order so that monotonicity is judged between consecutive values (all pairs by transitivity); thorough = additionally every finite float32 bit pattern (2^32 keys in numeric order, 16 contiguous blocks overlapping by one value) " +
			"for every 9.xxx, 5.001, 5.003, 8.003, 8.004, 8.010 and for 14.000 (the other 14.xxx identity codecs keep the quick set). " +
			"Integer types: full domain (32-bit: boundary alphabet ±1 ∪ 2^20 grid in quick, all 2^32 in thorough). 10.001: weekday 0..9 × hour 0..33 × minute 0..65 × second 0..65; 11.001: day 0..33 × month 0..17 × year 1985..2095; colour types: octet/word corner alphabets × all flag combinations; " +
			"strings: all strings of ≤3 runes over {NUL,'A',7F,80,FF,U+0100,U+20AC,U+1F600} plus 13,14,15,16,40 repetitions of each rune. " +
			"non-trivial = the input is outside the documented range / invalid (saturation or gate branch) or is changed by quantisation (floats), or is a non-zero value / non-empty NUL-free string (exact types). " +
			"A monotonicity inversion whose endpoint already failed the saturation clause is attributed to that wrap violation, not reported as a second class.",
		Assume: []string{
			"ranges, lengths and step functions are those of DESIGN.md Appendix B (written from the KNX datapoint specification and the doc comments, not from the codec expressions)",
			"float32 slack: 1 ulp of the decoded value is allowed on top of one quantisation step (the decoder computes in float32)",
			"NaN and ±Inf inputs are fed to every float-valued encoder and reported in the evidence (non_finite_inputs) but not judged: the statement quantifies over finite values",
			"18.001: reserved values (64..127, 192..255) are only required to encode to some valid scene-control value accepted by the decoder; strings containing NUL are judged for length/shape/acceptance only",
			"242.600: which validity flag occupies which of bits 1..0 is not judged, only that exactly the set flags appear and round-trip",
		},
	})
}

// sortNames orders "main.sub" names numerically.
func sortNames(names []string) {
	key := func(n string) (int, int) {
		p := strings.SplitN(n, ".", 2)
		a, _ := strconv.Atoi(p[0])
		b := 0
		if len(p) > 1 {
			b, _ = strconv.Atoi(p[1])
		}
		return a, b
	}
	sort.Slice(names, func(i, j int) bool {
		a1, b1 := key(names[i])
		a2, b2 := key(names[j])
		if a1 != a2 {
			return a1 < a2
		}
		if b1 != b2 {
			return b1 < b2
		}
		return names[i] < names[j]
	})
}

type groupAcc struct {
	types      []string
	size       int64
	nontrivial int64
}

func groupOf(s *spec) string {
	switch s.kind {
	case kBool:
		return "1.xxx booleans {false,true}"
	case kUint, kInt:
		switch s.bits {
		case 8:
			return "8-bit integer and enumeration types, all 2^8 values"
		case 16:
			return "16-bit integer types, all 2^16 values"
		}
		return "32-bit integer types, boundary alphabet ±1 ∪ 2^20 grid"
	case kScene, kSceneCtl:
		return "17.001 / 18.001 scene types, all 2^8 values"
	case kF16:
		return "9.xxx 16-bit float types, quick float32 set in numeric order"
	case kScaledU8:
		return "5.001 / 5.003 scaled U8 types, quick float32 set in numeric order"
	case kScaledV16:
		return "8.003 / 8.004 / 8.010 scaled V16 types, quick float32 set in numeric order"
	case kIEEE:
		return "14.xxx IEEE-754 types, quick float32 set in numeric order"
	case kTime:
		return "10.001 weekday 0..9 × hour 0..33 × minute 0..65 × second 0..65"
	case kDate:
		return "11.001 day 0..33 × month 0..17 × year 1985..2095"
	case kRGB:
		return "232.600 octet alphabet(16)^3"
	case kXYY:
		return "242.600 word alphabet(16)^2 × octet alphabet(16) × 4 flag combinations"
	case kRGBW:
		return "251.600 octet alphabet(8)^4 × 16 flag combinations"
	}
	return "16.000 / 16.001 / 28.001 strings (585 of ≤3 runes + 40 long)"
}

func runC07(r *enumlib.Run) {
	var names []string
	if p, v := enumlib.Try(func() { names = dpt.ListSupportedTypes() }); p {
		r.Violation("C07:panic:registry", "ListSupportedTypes panicked: "+v, nil)
		return
	}
	sortNames(names)
	var specs []*spec
	var untabled []string
	seen := map[string]bool{}
	for _, n := range names {
		seen[n] = true
		if s := table[n]; s != nil {
			specs = append(specs, s)
		} else {
			untabled = append(untabled, n)
		}
	}
	var unregistered []string
	for n := range table {
		if !seen[n] {
			unregistered = append(unregistered, n)
		}
	}
	sortNames(unregistered)
	r.Extra("registered_types", len(names))
	r.Extra("types_judged", len(specs))
	r.Extra("untabled_types", untabled)
	r.Extra("table_entries_not_registered", unregistered)
	if len(untabled) > 0 {
		r.Space("registered types without an entry in the independent table (not judged)", int64(len(untabled)), 0, false, strings.Join(untabled, " "))
	}

	// ---- phase 1: the quick spaces of every type, one job per type -------------------------
	var mu sync.Mutex
	groups := map[string]*groupAcc{}
	ratios := map[string]string{}
	nonFinite := map[string][]string{} // result signature -> types showing it
	var nonFiniteN, sceneReplaced, stringsWithNUL int64
	var evals, nontrivial int64
	account := func(s *spec, size, non int64) {
		mu.Lock()
		g := groups[groupOf(s)]
		if g == nil {
			g = &groupAcc{}
			groups[groupOf(s)] = g
		}
		g.types = append(g.types, s.name)
		g.size += size
		g.nontrivial += non
		evals += size
		nontrivial += non
		mu.Unlock()
	}
	var next int64
	r.Parallel(func(shard, n int) {
		for {
			i := int(atomic.AddInt64(&next, 1)) - 1
			if i >= len(specs) {
				return
			}
			s := specs[i]
			switch {
			case s.floatValued():
				fr, size, err := runFloatQuick(r, s)
				if err != nil {
					r.Violation("INFRA:table-mismatch:"+s.name, err.Error(), nil)
					continue
				}
				account(s, size, fr.nontrivial)
				cnt, rep := probeNonFinite(r, s)
				mu.Lock()
				if s.kind != kIEEE {
					ratios[s.name] = fmt.Sprintf("%.6f at x=%v", fr.maxRatio, fr.maxRatioAt)
				}
				var ks []string
				for k := range rep {
					ks = append(ks, k)
				}
				sort.Strings(ks)
				sig := ""
				for _, k := range ks {
					sig += k + " -> " + rep[k] + "; "
				}
				nonFinite[sig] = append(nonFinite[sig], s.name)
				nonFiniteN += cnt
				mu.Unlock()
			case s.kind == kBool || s.kind == kUint || s.kind == kInt || s.kind == kScene || s.kind == kSceneCtl:
				ir, err := runIntQuick(r, s)
				if err != nil {
					r.Violation("INFRA:table-mismatch:"+s.name, err.Error(), nil)
					continue
				}
				account(s, ir.evals, ir.nontrivial)
				mu.Lock()
				sceneReplaced += ir.replaced
				mu.Unlock()
			case s.kind == kTime:
				e, nt := runTime(r)
				account(s, e, nt)
			case s.kind == kDate:
				e, nt := runDate(r)
				account(s, e, nt)
			case s.kind == kRGB:
				e, nt := runRGB(r)
				account(s, e, nt)
			case s.kind == kXYY:
				e, nt := runXYY(r)
				account(s, e, nt)
			case s.kind == kRGBW:
				e, nt := runRGBW(r)
				account(s, e, nt)
			default:
				e, nt, nul := runStrings(r, s)
				account(s, e, nt)
				mu.Lock()
				stringsWithNUL += nul
				mu.Unlock()
			}
		}
	})
	var gnames []string
	for g := range groups {
		gnames = append(gnames, g)
	}
	sort.Strings(gnames)
	for _, gn := range gnames {
		g := groups[gn]
		sortNames(g.types)
		r.Space(gn, g.size, g.nontrivial, true, fmt.Sprintf("%d types: %s", len(g.types), strings.Join(g.types, " ")))
	}
	r.Eval(evals)
	r.Nontrivial(nontrivial)
	r.Extra("max_error_over_step_in_range_quick", ratios)
	for _, l := range nonFinite {
		sortNames(l)
	}
	r.Extra("non_finite_inputs", map[string]interface{}{"count_not_judged": nonFiniteN, "results_by_behaviour": nonFinite})
	r.Extra("not_judged_18.001_reserved_values_replaced", sceneReplaced)
	r.Extra("not_judged_for_round_trip_strings_containing_NUL", stringsWithNUL)
	r.Sample(map[string]interface{}{"type": "9.001", "x": 21.5, "note": "float case: Produce, SetFloat via reflection, Pack, Unpack into a second instance"})
	r.Sample(map[string]interface{}{"type": "8.003", "x": 400.0, "note": "out-of-range case, must saturate at 327.67"})
	r.Sample(map[string]interface{}{"type": "10.001", "fields": []int{8, 24, 60, 60}, "note": "invalid time, must encode to 00 00 00 00"})

	if !r.Thorough() {
		return
	}

	// ---- phase 2 (thorough): every float32 / every 32-bit integer ----------------------------
	var full []*spec
	for _, k := range []kind{kScaledV16, kScaledU8, kF16} {
		for _, s := range specs {
			if s.kind == k {
				full = append(full, s)
			}
		}
	}
	if s := table["14.000"]; s != nil && seen["14.000"] {
		full = append(full, s)
	}
	var completed, incomplete []string
	fullRatios := map[string]string{}
	for _, s := range full {
		if r.Expired() {
			incomplete = append(incomplete, s.name+" (float32 sweep not started)")
			r.Space("every finite float32 in numeric order: "+s.name, 0, 0, false, "budget exhausted before this type")
			continue
		}
		res := sweepAllFloat32(r, s)
		r.Eval(res.evals)
		r.Nontrivial(res.nontrivial)
		note := fmt.Sprintf("%d NaN/Inf bit patterns skipped; max |decoded-x|/step in range = %.6f at x=%v", res.skipped, res.maxRatio, res.maxRatioAt)
		r.Space("every finite float32 in numeric order: "+s.name, res.evals, res.nontrivial, res.done, note)
		if res.done {
			completed = append(completed, s.name)
			fullRatios[s.name] = fmt.Sprintf("%.6f at x=%v", res.maxRatio, res.maxRatioAt)
		} else {
			incomplete = append(incomplete, fmt.Sprintf("%s (stopped after %d values)", s.name, res.evals))
		}
	}
	for _, s := range specs {
		if (s.kind != kUint && s.kind != kInt) || s.bits != 32 {
			continue
		}
		if r.Expired() {
			incomplete = append(incomplete, s.name+" (2^32 integer sweep not started)")
			r.Space("all 2^32 values: "+s.name, 0, 0, false, "budget exhausted before this type")
			continue
		}
		done, e, nt := sweepAllInt32(r, s)
		r.Eval(e)
		r.Nontrivial(nt)
		r.Space("all 2^32 values: "+s.name, e, nt, done, "")
		if done {
			completed = append(completed, s.name)
		} else {
			incomplete = append(incomplete, fmt.Sprintf("%s (stopped after %d values)", s.name, e))
		}
	}
	r.Extra("thorough_full_domain_types_completed", completed)
	r.Extra("thorough_full_domain_types_incomplete", incomplete)
	r.Extra("max_error_over_step_in_range_all_float32", fullRatios)
}

// replayC07 re-judges one stored input.
func replayC07(class string, input json.RawMessage) (string, bool) {
	var probe struct {
		Type   string   `json:"type"`
		Bits   *uint32  `json:"bits"`
		U      *uint32  `json:"u"`
		Fields []int64  `json:"fields"`
		Runes  *[]int32 `json:"runes"`
	}
	if err := json.Unmarshal(input, &probe); err != nil {
		return "cannot parse replay input: " + err.Error(), false
	}
	s := table[probe.Type]
	if s == nil {
		return "type not in table: " + probe.Type, false
	}
	switch {
	case probe.Bits != nil:
		var in floatInput
		_ = json.Unmarshal(input, &in)
		return replayFloat(class, in)
	case probe.U != nil:
		ir, err := newIntRunner(s)
		if err != nil {
			return err.Error(), true
		}
		enc, dec, e, pan := ir.roundTrip(*probe.U)
		mech, msg := s.judgeInt(*probe.U, enc, dec, e, pan)
		if mech == "" {
			return fmt.Sprintf("DPT %s: u=%d Pack=% x decodes to %d — fine", s.name, *probe.U, enc, dec), false
		}
		return msg, true
	case probe.Runes != nil:
		rs := make([]rune, len(*probe.Runes))
		for i, c := range *probe.Runes {
			rs[i] = rune(c)
		}
		mech, msg := judgeString(s, rs)
		if mech == "" {
			return fmt.Sprintf("DPT %s %+q — fine", s.name, string(rs)), false
		}
		return msg, true
	case probe.Fields != nil:
		f := probe.Fields
		var mech, msg string
		switch {
		case s.kind == kTime && len(f) == 4:
			mech, msg = judgeTime(uint8(f[0]), uint8(f[1]), uint8(f[2]), uint8(f[3]))
		case s.kind == kDate && len(f) == 3:
			mech, msg = judgeDate(uint16(f[0]), uint8(f[1]), uint8(f[2]))
		case s.kind == kRGB && len(f) == 3:
			mech, msg = judgeRGB(uint8(f[0]), uint8(f[1]), uint8(f[2]))
		case s.kind == kXYY && len(f) == 5:
			mech, msg = judgeXYY(uint16(f[0]), uint16(f[1]), uint8(f[2]), f[3] != 0, f[4] != 0)
		case s.kind == kRGBW && len(f) == 5:
			fl := [4]bool{f[4]&8 != 0, f[4]&4 != 0, f[4]&2 != 0, f[4]&1 != 0}
			mech, msg = judgeRGBW([4]uint8{uint8(f[0]), uint8(f[1]), uint8(f[2]), uint8(f[3])}, fl)
		default:
			return "malformed struct replay input", false
		}
		if mech == "" {
			return fmt.Sprintf("DPT %s %v — fine", s.name, f), false
		}
		return msg, true
	}
	return "replay input has no recognised value member", false
}
