//go:build verif

package dptenc

// C07, float-valued datapoint types: 9.xxx (KNX 16-bit float), 5.001/5.003 (scaled U8),
// 8.003/8.004/8.010 (scaled V16), 14.xxx (IEEE-754 binary32).

import (
	"fmt"
	"math"
	"reflect"
	"runtime"
	"slices"

	"github.com/vapourismo/knx-go/knx/dpt"

	"verifh/enum/enumlib"
)

// ---- float32 total order -------------------------------------------------------------------

// keyOf maps float32 bits to a key whose unsigned order is the numeric order (-NaN < -Inf < ... <
// -0 < +0 < ... < +Inf < +NaN); bitsOf is its inverse.
func keyOf(b uint32) uint32 {
	if b&0x80000000 != 0 {
		return ^b
	}
	return b | 0x80000000
}

func bitsOf(k uint32) uint32 {
	if k&0x80000000 != 0 {
		return k & 0x7FFFFFFF
	}
	return ^k
}

func finiteBits(b uint32) bool { return b&0x7F800000 != 0x7F800000 }

func ulp32(f float32) float64 {
	a := f
	if a < 0 {
		a = -a
	}
	if math.IsInf(float64(a), 0) || a != a {
		return 0
	}
	n := math.Nextafter32(a, float32(math.Inf(1)))
	if math.IsInf(float64(n), 0) {
		return float64(a) - float64(math.Nextafter32(a, 0))
	}
	return float64(n) - float64(a)
}

// ---- verdict codes -------------------------------------------------------------------------

type verdict int

const (
	vOK verdict = iota
	vPanic
	vShape
	vUndecodable
	vAccuracy
	vWrap
	vNonmonotonic
)

func (v verdict) mech() string {
	return [...]string{"ok", "panic", "shape", "undecodable", "accuracy", "wrap", "nonmonotonic"}[v]
}

// ---- one round trip ------------------------------------------------------------------------

type floatRunner struct {
	s          *spec
	in, out    dpt.Datapoint
	inV, outV  reflect.Value
	evals      int64
	nontrivial int64
	maxRatio   float64 // max |decoded-x| / step(x) over in-range inputs (scaled and F16 kinds)
	maxRatioAt float32
	outOfRange int64
	// monotonicity state
	prevValid bool
	prevWrap  bool
	prevX     float32
	prevDec   float32
}

func newFloatRunner(s *spec) (*floatRunner, error) {
	in, ok1 := dpt.Produce(s.name)
	out, ok2 := dpt.Produce(s.name)
	if !ok1 || !ok2 || in == nil || out == nil {
		return nil, fmt.Errorf("Produce(%q) failed", s.name)
	}
	iv, ov := reflect.ValueOf(in), reflect.ValueOf(out)
	if iv.Kind() != reflect.Ptr || iv.Elem().Kind() != reflect.Float32 || ov.Elem().Kind() != reflect.Float32 {
		return nil, fmt.Errorf("%s: registry instance is %T, expected a pointer to a float32-based type", s.name, in)
	}
	return &floatRunner{s: s, in: in, out: out, inV: iv.Elem(), outV: ov.Elem()}, nil
}

// roundTrip builds the typed value from the registry instance, packs it and unpacks the result into
// a second instance of the same type.
func (fr *floatRunner) roundTrip(x float32) (enc []byte, dec float32, err error, pan string) {
	defer func() {
		if p := recover(); p != nil {
			pan = fmt.Sprint(p)
		}
	}()
	fr.inV.SetFloat(float64(x))
	enc = fr.in.Pack()
	err = fr.out.Unpack(enc)
	if err == nil {
		dec = float32(fr.outV.Float())
	}
	return
}

// judgeFloat is the oracle for one finite input. It returns the verdict, whether x was outside the
// documented range, and the bound / tolerance used (for the message).
func (s *spec) judgeFloat(x float32, enc []byte, dec float32, err error, pan string) (v verdict, oor bool, ref, tol float64) {
	if pan != "" {
		return vPanic, false, 0, 0
	}
	if len(enc) != s.length || enc[0] != 0 {
		return vShape, false, 0, 0
	}
	xv, dv := float64(x), float64(dec)
	if xv >= s.lo && xv <= s.hi {
		if err != nil {
			return vUndecodable, false, 0, 0
		}
		tol = s.stepAt(xv)
		if !(math.Abs(dv-xv) <= tol) {
			if !(math.Abs(dv-xv) <= tol+ulp32(dec)) {
				return vAccuracy, false, xv, tol
			}
		}
		return vOK, false, xv, tol
	}
	// outside the documented range: saturate at the nearest bound, keep the bound's sign
	b := s.hi
	if xv < s.lo {
		b = s.lo
	}
	if err != nil {
		return vUndecodable, true, b, 0
	}
	tol = s.stepAt(b)
	ok := math.Abs(dv-b) <= tol || math.Abs(dv-b) <= tol+ulp32(dec)
	switch {
	case b > 0:
		ok = ok && dv > 0
	case b < 0:
		ok = ok && dv < 0
	default:
		ok = ok && dv >= 0
	}
	if !ok {
		return vWrap, true, b, tol
	}
	return vOK, true, b, tol
}

type floatInput struct {
	Type  string  `json:"type"`
	Bits  uint32  `json:"bits"`
	X     float64 `json:"x"`
	Bits2 *uint32 `json:"bits2,omitempty"` // second (larger) input of a monotonicity pair
	Y     float64 `json:"y,omitempty"`
}

func describeFloat(s *spec, x float32, enc []byte, dec float32, err error, pan string, v verdict, ref, tol float64) string {
	head := fmt.Sprintf("DPT %s: x=%v (bits %#08x) Pack=% x", s.name, x, math.Float32bits(x), enc)
	switch v {
	case vPanic:
		return head + " panicked: " + pan
	case vShape:
		return head + fmt.Sprintf(" — expected %d octets with a zero leading octet", s.length)
	case vUndecodable:
		return head + fmt.Sprintf(" — the type's own decoder rejects its encoding: %v", err)
	case vAccuracy:
		return head + fmt.Sprintf(" decodes to %v: |decoded-x|=%.9g exceeds one quantisation step %.9g (range [%g,%g])", dec, math.Abs(float64(dec)-float64(x)), tol, s.lo, s.hi)
	case vWrap:
		return head + fmt.Sprintf(" decodes to %v: x is outside [%g,%g] and must saturate at %g (±%.9g, same sign) — wrap-around / sign flip instead of saturation", dec, s.lo, s.hi, ref, tol)
	}
	return head + fmt.Sprintf(" decodes to %v", dec)
}

func goTypeName(s *spec) string {
	n := ""
	for _, c := range s.name {
		if c != '.' {
			n += string(c)
		}
	}
	return "DPT_" + n
}

func floatGoTest(s *spec, x float32, v verdict, ref, tol float64) string {
	tn := goTypeName(s)
	body := fmt.Sprintf("// needs imports: math, testing, github.com/vapourismo/knx-go/knx/dpt\nfunc TestC07_%s_%s(t *testing.T) {\n\tx := dpt.%s(math.Float32frombits(%#08x)) // %v\n\tvar y dpt.%s\n\tenc := x.Pack()\n\tif err := y.Unpack(enc); err != nil {\n\t\tt.Fatalf(\"%% x rejected by own decoder: %%v\", enc, err)\n\t}\n", tn, v.mech(), tn, math.Float32bits(x), x, tn)
	switch v {
	case vWrap:
		body += fmt.Sprintf("\tif d := math.Abs(float64(y) - (%v)); d > %v*1.001 || (float64(y) < 0) != (%v < 0) {\n\t\tt.Fatalf(\"%%v encodes as %% x = %%v, expected saturation at %v\", x, enc, y)\n\t}\n}\n", ref, tol, ref, ref)
	case vAccuracy:
		body += fmt.Sprintf("\tif d := math.Abs(float64(y) - float64(x)); d > %v*1.001 {\n\t\tt.Fatalf(\"%%v encodes as %% x = %%v, off by %%v > one step %v\", x, enc, y, d)\n\t}\n}\n", tol, tol)
	default:
		body += "\tt.Logf(\"%v -> % x -> %v\", x, enc, y)\n}\n"
	}
	return body
}

// visit evaluates one finite float32 (given by bits) and records violations.
func (fr *floatRunner) visit(r *enumlib.Run, bits uint32, count bool) {
	s := fr.s
	x := math.Float32frombits(bits)
	enc, dec, err, pan := fr.roundTrip(x)
	v, oor, ref, tol := s.judgeFloat(x, enc, dec, err, pan)
	if count {
		fr.evals++
		if oor {
			fr.outOfRange++
			fr.nontrivial++
		} else if dec != x {
			fr.nontrivial++
		}
	}
	if v != vOK {
		r.ViolationWithTest("C07:"+v.mech()+":"+s.family(),
			describeFloat(s, x, enc, dec, err, pan, v, ref, tol),
			floatInput{Type: s.name, Bits: bits, X: float64(x)},
			floatGoTest(s, x, v, ref, tol))
	} else if !oor && tol > 0 {
		if q := math.Abs(float64(dec)-float64(x)) / tol; q > fr.maxRatio {
			fr.maxRatio, fr.maxRatioAt = q, x
		}
	}
	decodable := v == vOK || v == vAccuracy || v == vWrap
	if decodable && fr.prevValid && x > fr.prevX && dec < fr.prevDec && v != vWrap && !fr.prevWrap {
		b2 := bits
		r.Violation("C07:nonmonotonic:"+s.family(),
			fmt.Sprintf("DPT %s: x=%v < y=%v but decode(encode(x))=%v > decode(encode(y))=%v", s.name, fr.prevX, x, fr.prevDec, dec),
			floatInput{Type: s.name, Bits: math.Float32bits(fr.prevX), X: float64(fr.prevX), Bits2: &b2, Y: float64(x)})
	}
	if decodable {
		fr.prevValid, fr.prevX, fr.prevDec, fr.prevWrap = true, x, dec, v == vWrap
	} else {
		fr.prevValid = false
	}
}

// ---- the quick set -------------------------------------------------------------------------

// encodedValues lists the value of every encoding of the type's wire format (reference formulas
// of Appendix B, float64), sorted and de-duplicated. Empty for the identity (IEEE) kind.
func encodedValues(s *spec) []float64 {
	var vs []float64
	switch s.kind {
	case kF16:
		for e := 0; e < 16; e++ {
			for m := -2048; m <= 2047; m++ {
				vs = append(vs, 0.01*float64(m)*float64(uint(1)<<uint(e)))
			}
		}
	case kScaledU8:
		for k := 0; k <= 255; k++ {
			vs = append(vs, float64(k)*s.hi/255)
		}
	case kScaledV16:
		for k := -32768; k <= 32767; k++ {
			vs = append(vs, float64(k)*s.step)
		}
	}
	slices.Sort(vs)
	return slices.Compact(vs)
}

// quickKeys builds the complete quick-tier input set of one float-valued type as sorted order keys.
func quickKeys(s *spec) []uint32 {
	keys := make([]uint32, 0, 1<<21)
	// (a) the complete grid of float32 values whose low 12 mantissa bits are zero
	for k := uint32(0); k < 1<<20; k++ {
		if b := k << 12; finiteBits(b) {
			keys = append(keys, keyOf(b))
		}
	}
	nb := func(v float64, d int) {
		f := float32(v)
		if math.IsInf(float64(f), 0) {
			f = float32(math.Copysign(math.MaxFloat32, v))
		}
		k := int64(keyOf(math.Float32bits(f)))
		for i := int64(-d); i <= int64(d); i++ {
			kk := k + i
			if kk < 0 || kk > math.MaxUint32 {
				continue
			}
			if finiteBits(bitsOf(uint32(kk))) {
				keys = append(keys, uint32(kk))
			}
		}
	}
	// (b) ±3 ulp around every range bound, around ±0 and around every exponent-switch point
	nb(s.lo, 3)
	nb(s.hi, 3)
	nb(0, 3)
	nb(math.Copysign(0, -1), 3)
	for e := 0; e < 16; e++ {
		p := float64(uint(1) << uint(e))
		for _, c := range []float64{20.47, 20.48, -20.47, -20.48} {
			nb(c*p, 3)
		}
	}
	nb(f16Max, 3)
	nb(f16Min, 3)
	// (c) the value of every encoding with its float32 neighbours, and the midpoints between
	// adjacent encodings (where a rounding encoder switches)
	vs := encodedValues(s)
	for i, v := range vs {
		nb(v, 2)
		if i > 0 {
			nb((vs[i-1]+v)/2, 1)
		}
	}
	slices.Sort(keys)
	return slices.Compact(keys)
}

// runFloatQuick evaluates the whole quick set of one type in increasing numeric order.
func runFloatQuick(r *enumlib.Run, s *spec) (fr *floatRunner, size int64, err error) {
	fr, err = newFloatRunner(s)
	if err != nil {
		return nil, 0, err
	}
	keys := quickKeys(s)
	// Readable examples first: these six values are members of the grid below; visiting them ahead of
	// the ordered pass (uncounted, separate runner) only decides which input a violation class keeps.
	if show, e := newFloatRunner(s); e == nil {
		for _, x := range []float32{400, -400, 4000, -4000, 1 << 20, -(1 << 20)} {
			show.prevValid = false
			show.visit(r, math.Float32bits(x), false)
		}
	}
	for _, k := range keys {
		fr.visit(r, bitsOf(k), true)
	}
	return fr, int64(len(keys)), nil
}

// ---- not judged: NaN and infinities ---------------------------------------------------------

// probeNonFinite feeds NaN / ±Inf to the encoder and reports what comes back. The statement
// quantifies over finite values only, so this is evidence, not a verdict (a panic still is one).
func probeNonFinite(r *enumlib.Run, s *spec) (n int64, report map[string]string) {
	fr, err := newFloatRunner(s)
	if err != nil {
		return 0, nil
	}
	report = map[string]string{}
	for _, in := range []struct {
		name string
		bits uint32
	}{{"+Inf", 0x7F800000}, {"-Inf", 0xFF800000}, {"NaN", 0x7FC00000}, {"-NaN", 0xFFC00000}, {"sNaN", 0x7F800001}, {"NaN(all ones)", 0x7FFFFFFF}} {
		x := math.Float32frombits(in.bits)
		enc, dec, e, pan := fr.roundTrip(x)
		n++
		switch {
		case pan != "":
			r.Violation("C07:panic:"+s.family(), fmt.Sprintf("DPT %s: Pack/Unpack of %s panicked: %s", s.name, in.name, pan), floatInput{Type: s.name, Bits: in.bits})
			report[in.name] = "panic " + pan
		case e != nil:
			report[in.name] = fmt.Sprintf("% x rejected by decoder", enc)
		default:
			report[in.name] = fmt.Sprintf("% x = %v", enc, dec)
		}
	}
	return
}

// ---- the thorough sweep: every finite float32, in increasing order ---------------------------

type sweepResult struct {
	done       bool
	evals      int64
	nontrivial int64
	skipped    int64 // NaN / Inf bit patterns (not inputs of the property)
	maxRatio   float64
	maxRatioAt float32
}

// sweepAllFloat32 visits every float32 bit pattern for one type: 16 contiguous blocks of the
// numeric order, each block first re-evaluating the last value of the previous block so that
// monotonicity is also checked across block boundaries.
func sweepAllFloat32(r *enumlib.Run, s *spec) (res sweepResult) {
	type part struct {
		sweepResult
		err error
	}
	parts := make([]part, runtime.GOMAXPROCS(0))
	complete := true
	r.Parallel(func(shard, n int) {
		fr, err := newFloatRunner(s)
		if err != nil {
			parts[shard].err = err
			return
		}
		total := uint64(1) << 32
		from := total * uint64(shard) / uint64(n)
		to := total * uint64(shard+1) / uint64(n) // exclusive
		var skipped int64
		if from > 0 {
			// overlap by one value: find the closest finite predecessor
			for p := from - 1; ; p-- {
				if b := bitsOf(uint32(p)); finiteBits(b) {
					fr.visit(r, b, false)
					break
				}
				if p == 0 {
					break
				}
			}
		}
		finished := true
		for k := from; k < to; k++ {
			if k&(1<<18-1) == 0 && r.Expired() {
				finished = false
				break
			}
			b := bitsOf(uint32(k))
			if !finiteBits(b) {
				skipped++
				continue
			}
			fr.visit(r, b, true)
		}
		parts[shard].sweepResult = sweepResult{done: finished, evals: fr.evals, nontrivial: fr.nontrivial, skipped: skipped, maxRatio: fr.maxRatio, maxRatioAt: fr.maxRatioAt}
	})
	for _, p := range parts {
		if p.err != nil || !p.done {
			complete = false
		}
		res.evals += p.evals
		res.nontrivial += p.nontrivial
		res.skipped += p.skipped
		if p.maxRatio > res.maxRatio {
			res.maxRatio, res.maxRatioAt = p.maxRatio, p.maxRatioAt
		}
	}
	res.done = complete
	return
}

// replayFloat re-judges one stored float case (or monotonicity pair).
func replayFloat(class string, in floatInput) (string, bool) {
	s := table[in.Type]
	if s == nil || !s.floatValued() {
		return "unknown float type " + in.Type, false
	}
	fr, err := newFloatRunner(s)
	if err != nil {
		return err.Error(), true
	}
	x := math.Float32frombits(in.Bits)
	enc, dec, e, pan := fr.roundTrip(x)
	if x != x || math.IsInf(float64(x), 0) {
		return fmt.Sprintf("DPT %s: non-finite input %v -> % x (panic=%q)", s.name, x, enc, pan), pan != ""
	}
	v, _, ref, tol := s.judgeFloat(x, enc, dec, e, pan)
	desc := describeFloat(s, x, enc, dec, e, pan, v, ref, tol)
	if in.Bits2 == nil {
		return desc, v != vOK
	}
	y := math.Float32frombits(*in.Bits2)
	enc2, dec2, e2, pan2 := fr.roundTrip(y)
	v2, _, ref2, tol2 := s.judgeFloat(y, enc2, dec2, e2, pan2)
	desc += "\n" + describeFloat(s, y, enc2, dec2, e2, pan2, v2, ref2, tol2)
	bad := x < y && e == nil && e2 == nil && dec > dec2
	if bad {
		desc += fmt.Sprintf("\nx < y but decode(encode(x)) = %v > decode(encode(y)) = %v", dec, dec2)
	}
	return desc, bad
}
