//go:build verif

// Package dptenc: see DESIGN.md (E5).
package dptenc
