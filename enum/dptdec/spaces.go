//go:build verif

package dptdec

import (
	"fmt"
	"reflect"
	"sort"
	"strings"
	"sync"
	"sync/atomic"

	"github.com/vapourismo/knx-go/knx/dpt"
	"verifh/enum/enumlib"
)

// alphabet is the 16-value boundary octet alphabet of DESIGN.md C06/C08.
var alphabet = [16]byte{0x00, 0x01, 0x02, 0x3F, 0x40, 0x7E, 0x7F, 0x80, 0x81, 0xBF, 0xC0, 0xFE, 0xFF, 0x10, 0x55, 0xAA}

// space is a finite, index-addressable set of payloads: case i is gen(i, buf[:0]).
type space struct {
	name string
	size uint64
	gen  func(i uint64, buf []byte) []byte
}

// fullSpace: every payload of n octets (leading octet included), big-endian counter.
func fullSpace(n int) *space {
	return &space{
		name: fmt.Sprintf("%d-octet payloads: all 2^%d (leading octet included)", n, 8*n),
		size: 1 << (8 * uint(n)),
		gen: func(i uint64, buf []byte) []byte {
			for k := n - 1; k >= 0; k-- {
				buf = append(buf, byte(i>>(8*uint(k))))
			}
			return buf
		},
	}
}

// leadSpace: leading octet from leads x every combination of nval value octets.
func leadSpace(leads []byte, nval int) *space {
	per := uint64(1) << (8 * uint(nval))
	return &space{
		name: fmt.Sprintf("%d-octet payloads: leading octet {% x} x all 2^%d value encodings", nval+1, leads, 8*nval),
		size: uint64(len(leads)) * per,
		gen: func(i uint64, buf []byte) []byte {
			buf = append(buf, leads[i/per])
			v := i % per
			for k := nval - 1; k >= 0; k-- {
				buf = append(buf, byte(v>>(8*uint(k))))
			}
			return buf
		},
	}
}

// alphaSpace: leading octet 0 + n octets, each from the alphabet (16^n).
func alphaSpace(n int) *space {
	return &space{
		name: fmt.Sprintf("%d-octet payloads: leading octet 00 + alphabet^%d", n+1, n),
		size: 1 << (4 * uint(n)),
		gen: func(i uint64, buf []byte) []byte {
			buf = append(buf, 0)
			for k := n - 1; k >= 0; k-- {
				buf = append(buf, alphabet[(i>>(4*uint(k)))&15])
			}
			return buf
		},
	}
}

// shortStrings: every byte string of length 0..4 over the alphabet (1+16+..+16^4 = 69905).
func shortStrings() *space {
	return &space{
		name: "byte strings of length 0..4 over the 16-octet alphabet",
		size: 1 + 16 + 256 + 4096 + 65536,
		gen: func(i uint64, buf []byte) []byte {
			n := 0
			for sz := uint64(1); i >= sz; sz *= 16 {
				i -= sz
				n++
			}
			for k := n - 1; k >= 0; k-- {
				buf = append(buf, alphabet[(i>>(4*uint(k)))&15])
			}
			return buf
		},
	}
}

var fills = [3]byte{0x00, 0xFF, 0x41}

// longStrings: every length 5..20, every 2-octet prefix over the alphabet, fills 00/FF/41.
func longStrings() *space {
	return &space{
		name: "byte strings of length 5..20: alphabet^2 prefix + fill {00,ff,41}",
		size: 16 * 256 * 3,
		gen: func(i uint64, buf []byte) []byte {
			fill := fills[i%3]
			i /= 3
			pre := i % 256
			n := 5 + int(i/256)
			buf = append(buf, alphabet[pre>>4], alphabet[pre&15])
			for len(buf) < n {
				buf = append(buf, fill)
			}
			return buf
		},
	}
}

// octetSweep: for each listed position all 256 values, every other octet set to one of the 16
// alphabet values (same fill everywhere).
func octetSweep(length int, positions []int) *space {
	return &space{
		name: "octet sweeps: all 256 values of the leading / reserved / validity octet x 16 alphabet fills",
		size: uint64(len(positions)) * 256 * 16,
		gen: func(i uint64, buf []byte) []byte {
			fill := alphabet[i%16]
			i /= 16
			v := byte(i % 256)
			pos := positions[i/256]
			for k := 0; k < length; k++ {
				if k == pos {
					buf = append(buf, v)
				} else {
					buf = append(buf, fill)
				}
			}
			return buf
		},
	}
}

// listSpace: an explicit list.
func listSpace(name string, l [][]byte) *space {
	return &space{name: name, size: uint64(len(l)), gen: func(i uint64, buf []byte) []byte { return append(buf, l[i]...) }}
}

// validity242: validity octet all 256 x alphabet^3 over octets 1,3,5 (octets 2,4 = 55).
func validity242() *space {
	return &space{
		name: "242.600: validity octet all 256 x alphabet^3 (x-high, y-high, brightness)",
		size: 256 * 4096,
		gen: func(i uint64, buf []byte) []byte {
			v := byte(i % 256)
			i /= 256
			return append(buf, 0, alphabet[(i>>8)&15], 0x55, alphabet[(i>>4)&15], 0x55, alphabet[i&15], v)
		},
	}
}

var validity18 = func() []byte {
	var l []byte
	for i := 0; i < 16; i++ {
		l = append(l, byte(i))
	}
	return append(l, 16, 255)
}()

// validity251: (validity all 256 x reserved from the alphabet) and (reserved all 256 x validity
// {0..15,16,255}), each x alphabet^2 over red and white (green, blue = 55).
func validity251() *space {
	a := uint64(256 * 16 * 256)
	b := uint64(256 * len(validity18) * 256)
	return &space{
		name: "251.600: validity all 256 x reserved alphabet + reserved all 256 x validity {0..15,16,255}, each x alphabet^2",
		size: a + b,
		gen: func(i uint64, buf []byte) []byte {
			var val, res byte
			var c uint64
			if i < a {
				c = i % 256
				i /= 256
				res = alphabet[i%16]
				val = byte(i / 16)
			} else {
				i -= a
				c = i % 256
				i /= 256
				val = validity18[i%uint64(len(validity18))]
				res = byte(i / uint64(len(validity18)))
			}
			return append(buf, 0, alphabet[c>>4], 0x55, 0x55, alphabet[c&15], res, val)
		},
	}
}

// stringPlacements: 15-octet payloads; all single- and double-position placements of
// {00,20,41,7f,80,ff} over an 'A'-filled and a zero-filled 14-character base.
func stringPlacements() *space {
	syms := []byte{0x00, 0x20, 0x41, 0x7F, 0x80, 0xFF}
	var l [][]byte
	for _, base := range []byte{'A', 0} {
		b := make([]byte, 15)
		for i := 1; i < 15; i++ {
			b[i] = base
		}
		l = append(l, append([]byte(nil), b...))
		for i := 1; i < 15; i++ {
			for _, s := range syms {
				p := append([]byte(nil), b...)
				p[i] = s
				l = append(l, p)
			}
		}
		for i := 1; i < 15; i++ {
			for j := i + 1; j < 15; j++ {
				for _, s := range syms {
					for _, t := range syms {
						p := append([]byte(nil), b...)
						p[i], p[j] = s, t
						l = append(l, p)
					}
				}
			}
		}
	}
	return listSpace("15-octet strings: base + single + double placements of {00,20,41,7f,80,ff} over 'A'-filled and zero-filled base", l)
}

// stringRuns: 15-octet payloads that contain runs of high octets - a character decoder must take
// every octet for one character whatever its neighbours are (a run that happens to be well-formed
// UTF-8 is still that many ISO 8859-1 characters). "T" + run + "C" + NULs, and the same run at the
// end of the field:
//
//	all 2^16 two-octet runs; all three-octet runs E0..EF x 80..BF x 80..BF; four-octet runs
//	F0..F7 x {80,8F,90,9F,A0,BF}^3 (thorough: F0..F4 x all 64^3 continuation octets).
func stringRuns(thorough bool) *space {
	const n2, n3 = 1 << 16, 16 * 64 * 64
	cont := []byte{0x80, 0x8F, 0x90, 0x9F, 0xA0, 0xBF}
	n4 := uint64(8 * 6 * 6 * 6)
	if thorough {
		n4 = 5 * 64 * 64 * 64
	}
	per := uint64(n2) + n3 + n4
	return &space{
		name: "15-octet strings: runs of 2, 3 and 4 high octets (every 2-octet run, every well-formed 3-octet UTF-8 shape, 4-octet shapes) inside and at the end of the field",
		size: 2 * per,
		gen: func(i uint64, buf []byte) []byte {
			atEnd := i >= per
			i %= per
			var run []byte
			switch {
			case i < n2:
				run = []byte{byte(i >> 8), byte(i)}
			case i < n2+n3:
				j := i - n2
				run = []byte{0xE0 + byte(j>>12), 0x80 + byte(j>>6)&63, 0x80 + byte(j)&63}
			default:
				j := i - n2 - n3
				if thorough {
					run = []byte{0xF0 + byte(j>>18), 0x80 + byte(j>>12)&63, 0x80 + byte(j>>6)&63, 0x80 + byte(j)&63}
				} else {
					run = []byte{0xF0 + byte(j/216), cont[j/36%6], cont[j/6%6], cont[j%6]}
				}
			}
			b := make([]byte, 15)
			if atEnd {
				for k := 1; k < 15-len(run); k++ {
					b[k] = 'x'
				}
				copy(b[15-len(run):], run)
			} else {
				b[1] = 'T'
				copy(b[2:], run)
				b[2+len(run)] = 'C'
			}
			return append(buf, b...)
		},
	}
}

// wrapLengths: a length check done in a narrower integer type accepts n + k*256 (n + k*65536)
// octets for n: payloads of the lengths n+256, n+512, n+768, n+1024 and n+65536, each filled with
// 00, FF and 41 (the leading octet 00).
func wrapLengths(n int) *space {
	lens := []int{n + 256, n + 512, n + 768, n + 1024, n + 65536}
	return &space{
		name: fmt.Sprintf("payload lengths that equal the fixed length %d modulo 256 and 65536 (%v) x fill {00,ff,41}", n, lens),
		size: uint64(len(lens) * 3),
		gen: func(i uint64, buf []byte) []byte {
			l := lens[i/3]
			fill := fills[i%3]
			buf = append(buf, 0)
			for len(buf) < l {
				buf = append(buf, fill)
			}
			return buf
		},
	}
}

// varStrings: 28.001: leading octet {00,ff} + every byte string of length <= 3 over
// {00,41,7f,c3,a9,ff}, with and without the NUL terminator.
func varStrings() *space {
	syms := []byte{0x00, 0x41, 0x7F, 0xC3, 0xA9, 0xFF}
	bodies := [][]byte{{}}
	prev := [][]byte{{}}
	for n := 1; n <= 3; n++ {
		var cur [][]byte
		for _, b := range prev {
			for _, s := range syms {
				cur = append(cur, append(append([]byte(nil), b...), s))
			}
		}
		bodies = append(bodies, cur...)
		prev = cur
	}
	var l [][]byte
	for _, lead := range []byte{0x00, 0xFF} {
		for _, b := range bodies {
			p := append([]byte{lead}, b...)
			l = append(l, append(append([]byte(nil), p...), 0))
			l = append(l, p)
		}
	}
	return listSpace("28.001: leading octet {00,ff} + byte strings of length <= 3 over {00,41,7f,c3,a9,ff}, with / without terminator", l)
}

// ---- running ------------------------------------------------------------------------------

type item struct {
	typ string
	sp  *space
	fl  flags
}

type stat struct {
	cases, accepted, rejected, panics uint64
	violations                        uint64
	cut                               bool
	types                             map[string]bool
}

func (s *stat) add(o *stat) {
	s.cases += o.cases
	s.accepted += o.accepted
	s.rejected += o.rejected
	s.panics += o.panics
	s.violations += o.violations
	s.cut = s.cut || o.cut
	for t := range o.types {
		if s.types == nil {
			s.types = map[string]bool{}
		}
		s.types[t] = true
	}
}

type tally struct {
	bySpace map[string]*stat
	byType  map[string]*stat
	extra   map[string]uint64
	order   []string // space names in first-use order
}

func newTally() *tally {
	return &tally{bySpace: map[string]*stat{}, byType: map[string]*stat{}, extra: map[string]uint64{}}
}

func (t *tally) space(name string) *stat {
	s := t.bySpace[name]
	if s == nil {
		s = &stat{types: map[string]bool{}}
		t.bySpace[name] = s
		t.order = append(t.order, name)
	}
	return s
}

func (t *tally) typ(name string) *stat {
	s := t.byType[name]
	if s == nil {
		s = &stat{}
		t.byType[name] = s
	}
	return s
}

func (t *tally) merge(o *tally) {
	for _, n := range o.order {
		t.space(n).add(o.bySpace[n])
	}
	for n, s := range o.byType {
		t.typ(n).add(s)
	}
	for k, v := range o.extra {
		t.extra[k] += v
	}
}

const chunk = 1 << 15

type job struct {
	it       *item
	from, to uint64
}

// runItems enumerates every item completely (in chunks handed to the cores), judges each case
// and returns the tallies. Items not (completely) evaluated because the budget expired are
// marked cut.
// sharedInstance reports whether two datapoints obtained from dpt.Produce(name) are one and the same
// object (or nothing at all). The enumeration keeps two instances per shard and compares them; on one
// shared object every comparison would succeed vacuously and the shards would write to it from 16
// goroutines at once, so such a type is reported here and left out of the enumeration.
func sharedInstance(name string) (shared bool, detail string) {
	a, ok1 := dpt.Produce(name)
	b, ok2 := dpt.Produce(name)
	if !ok1 || !ok2 || a == nil || b == nil {
		return false, ""
	}
	va, vb := reflect.ValueOf(a), reflect.ValueOf(b)
	if va.Kind() == reflect.Ptr && vb.Kind() == reflect.Ptr && va.Pointer() == vb.Pointer() {
		return true, fmt.Sprintf("dpt.Produce(%q) returned the same %T (%p) twice: every datapoint of the type is one object, a value decoded into one of them is overwritten by the next telegram decoded into any other", name, a, a)
	}
	return false, ""
}

func runItems(r *enumlib.Run, items []item) *tally {
	{
		seen := map[string]bool{}
		kept := items[:0:0]
		for _, it := range items {
			if !seen[it.typ] {
				seen[it.typ] = true
				if shared, detail := sharedInstance(it.typ); shared {
					prop := "C08"
					if it.fl&fC06 != 0 {
						prop = "C06"
					}
					r.Violation(prop+":datapoints-of-a-type-share-one-value", detail, caseInput{Type: it.typ})
					seen[it.typ+"/shared"] = true
				}
			}
			if !seen[it.typ+"/shared"] {
				kept = append(kept, it)
			}
		}
		items = kept
		nt := 0
		for k := range seen {
			if !strings.HasSuffix(k, "/shared") {
				nt++
			}
		}
		r.Space("instances", int64(nt), int64(nt), true, "every type of the run: two datapoints obtained from dpt.Produce are two objects (a type whose datapoints are one shared object is reported and left out of the enumeration)")
		r.Eval(int64(nt))
		r.Nontrivial(int64(nt))
	}
	var jobs []job
	for k := range items {
		it := &items[k]
		for from := uint64(0); from < it.sp.size; from += chunk {
			to := from + chunk
			if to > it.sp.size {
				to = it.sp.size
			}
			jobs = append(jobs, job{it, from, to})
		}
	}
	total := newTally()
	for k := range items { // fix the reporting order
		total.space(items[k].sp.name)
	}
	var next int64
	var mu sync.Mutex
	sampled := map[string]bool{}
	r.Parallel(func(shard, n int) {
		rep := newReporter(r)
		codecs := map[string]*codec{}
		loc := newTally()
		buf := make([]byte, 0, 64)
		for {
			j := atomic.AddInt64(&next, 1) - 1
			if j >= int64(len(jobs)) {
				break
			}
			jb := jobs[j]
			sp := loc.space(jb.it.sp.name)
			if r.Expired() {
				sp.cut = true
				continue
			}
			c := codecs[jb.it.typ]
			if c == nil {
				c = newCodec(jb.it.typ)
				if c == nil {
					panic("dpt.Produce failed for registered type " + jb.it.typ)
				}
				codecs[jb.it.typ] = c
			}
			sp.types[jb.it.typ] = true
			ty := loc.typ(jb.it.typ)
			var cases, acc, rej, pan, viol uint64
			for i := jb.from; i < jb.to; i++ {
				p := jb.it.sp.gen(i, buf[:0])
				o := c.eval(p, jb.it.fl)
				cases++
				switch {
				case o&oAccepted != 0:
					acc++
				case o&oRejected != 0:
					rej++
				default:
					pan++
				}
				if o&(c06Bits|c08Bits|oNoTerminator|oEmbeddedNUL) != 0 {
					viol += uint64(rep.report(c, p, o))
					if o&oNoTerminator != 0 {
						loc.extra["28.001 payloads accepted although the last octet is not NUL (not judged: the statement only names payloads too short to hold the terminator)"]++
					}
					if o&oEmbeddedNUL != 0 {
						loc.extra["28.001 decoded strings containing NUL (not judged: no documented range)"]++
					}
				}
				if o&oRejected != 0 && c.spec != nil && jb.it.fl&fC08 != 0 {
					if c.spec.lengthOK(len(p)) {
						loc.extra["correct-length payloads rejected (out-of-range / reserved bits)"]++
					} else {
						loc.extra["wrong-length payloads rejected"]++
					}
				}
			}
			if jb.from == 0 {
				mu.Lock()
				if !sampled[jb.it.sp.name] {
					sampled[jb.it.sp.name] = true
					p := jb.it.sp.gen(jb.it.sp.size/3, buf[:0])
					o := c.eval(p, jb.it.fl)
					r.Sample(c.describe(p, o))
				}
				mu.Unlock()
			}
			sp.cases += cases
			sp.accepted += acc
			sp.rejected += rej
			sp.panics += pan
			sp.violations += viol
			ty.cases += cases
			ty.accepted += acc
			ty.rejected += rej
			ty.panics += pan
			ty.violations += viol
		}
		mu.Lock()
		total.merge(loc)
		mu.Unlock()
	})
	return total
}

// publish records the spaces and counters of a tally in the run.
func publish(r *enumlib.Run, t *tally, planned map[string]uint64) {
	var evals, nontriv uint64
	for _, n := range t.order {
		s := t.bySpace[n]
		if s.cases == 0 && !s.cut {
			continue
		}
		var tl []string
		for ty := range s.types {
			tl = append(tl, ty)
		}
		sortTypeNames(tl)
		exhaustive := !s.cut && s.cases == planned[n]
		note := fmt.Sprintf("%d types: %s; accepted %d, rejected %d, panicked %d", len(tl), compressTypes(tl), s.accepted, s.rejected, s.panics)
		if !exhaustive {
			note += fmt.Sprintf("; budget expired: %d of %d planned cases evaluated", s.cases, planned[n])
		}
		r.Space(n, int64(s.cases), int64(s.accepted), exhaustive, note)
		evals += s.cases
		nontriv += s.accepted
	}
	r.Eval(int64(evals))
	r.Nontrivial(int64(nontriv))
}

func sortTypeNames(l []string) {
	order := map[string]int{}
	for i, n := range registeredTypes() {
		order[n] = i
	}
	sort.Slice(l, func(i, j int) bool { return order[l[i]] < order[l[j]] })
}

// compressTypes renders a sorted type list compactly ("14.000-14.079(80)" style by main number).
func compressTypes(l []string) string {
	if len(l) <= 6 {
		return strings.Join(l, " ")
	}
	var out []string
	i := 0
	for i < len(l) {
		main := strings.SplitN(l[i], ".", 2)[0]
		j := i
		for j+1 < len(l) && strings.SplitN(l[j+1], ".", 2)[0] == main {
			j++
		}
		if j == i {
			out = append(out, l[i])
		} else {
			out = append(out, fmt.Sprintf("%s..%s(%d)", l[i], l[j], j-i+1))
		}
		i = j + 1
	}
	return strings.Join(out, " ")
}

func plannedSizes(items []item) map[string]uint64 {
	m := map[string]uint64{}
	for _, it := range items {
		m[it.sp.name] += it.sp.size
	}
	return m
}

func perTypeExtra(t *tally) map[string]interface{} {
	out := map[string]interface{}{}
	for n, s := range t.byType {
		out[n] = map[string]uint64{"cases": s.cases, "accepted": s.accepted, "rejected": s.rejected, "panicked": s.panics, "violations": s.violations}
	}
	return out
}
