//go:build verif

package dptdec

import (
	"fmt"
	"sync/atomic"

	"verifh/enum/enumlib"
)

func init() {
	enumlib.Register(&enumlib.Check{
		Prop:   "C06",
		Run:    runC06,
		Replay: replay("C06"),
		Rule: "for every name of dpt.ListSupportedTypes() (sorted) the payload spaces listed under `spaces` are enumerated completely in index order; " +
			"a case is one (type, payload); it is non-trivial when the type's decoder accepts the payload, i.e. the decode -> encode -> decode comparison was actually made " +
			"(the count is per space; the octet-sweep space overlaps the full spaces in a few thousand payloads). " +
			"Oracle: Unpack(Pack(v)) succeeds and equals v (== / float bit equality / field-wise); for the exact classes of the independent table " +
			"(bit-field, integer, enumeration, character, IEEE-754, integer/bit-field structs) Pack(v) equals the payload with reserved bits masked and documented replacements applied.",
		Assume: []string{
			"format class, fixed length, reserved bits and documented replacements come from the independent table enum/dptdec/table.go (DESIGN.md Appendix B), keyed by type name",
			"instances are produced once per shard with dpt.Produce and zeroed with reflect SetZero before each case (not zeroed in the 2^32 spaces, whose types are plain 4-byte scalars that Unpack overwrites completely)",
			"panics of Unpack on the original payload are counted here but judged by C08",
		},
	})
}

// c06Items lays out the spaces of one registered type.
func c06Items(name string, thorough bool) []item {
	s := specTable[name]
	const fl = fC06 | fZero
	if s == nil {
		return []item{{name, shortStrings(), fl}, {name, longStrings(), fl}}
	}
	var out []item
	add := func(sp *space) { out = append(out, item{name, sp, fl}) }
	switch {
	case name == "10.001" || name == "11.001" || name == "232.600":
		add(leadSpace([]byte{0}, 3))
	case name == "242.600":
		add(alphaSpace(6))
		add(validity242())
	case name == "251.600":
		add(alphaSpace(6))
		add(validity251())
	case s.length == 15:
		add(stringPlacements())
		add(stringRuns(thorough))
	case s.length == 0:
		add(varStrings())
	case s.length == 1:
		add(fullSpace(1))
	case s.length == 2:
		add(fullSpace(2))
	case s.length == 3:
		if thorough {
			add(fullSpace(3))
		} else {
			add(leadSpace([]byte{0x00, 0x01, 0xFF}, 2))
		}
	case s.length == 5:
		add(alphaSpace(4))
	default:
		add(shortStrings())
		add(longStrings())
	}
	if s.length >= 2 {
		add(octetSweep(s.length, append([]int{0}, s.reserved...)))
	}
	return out
}

func runC06(r *enumlib.Run) {
	types := registeredTypes()
	var items []item
	var unknown []string
	for _, n := range types {
		if specTable[n] == nil {
			unknown = append(unknown, n)
		}
		items = append(items, c06Items(n, r.Thorough())...)
	}
	t := runItems(r, items)
	publish(r, t, plannedSizes(items))
	r.Extra("registered_types", len(types))
	r.Extra("registered_types_without_table_entry", unknown)
	var missing []string
	reg := map[string]bool{}
	for _, n := range types {
		reg[n] = true
	}
	for n := range specTable {
		if !reg[n] {
			missing = append(missing, n)
		}
	}
	sortTypeNames(missing)
	r.Extra("table_entries_not_registered", missing)
	counted := map[string]uint64{}
	for k, v := range t.extra {
		counted[k] = v
	}
	var unpackPanics uint64
	for _, s := range t.byType {
		unpackPanics += s.panics
	}
	counted["payloads on which Unpack panicked (judged by C08, not here)"] = unpackPanics
	r.Extra("counted_not_judged", counted)

	var full32 map[string]interface{}
	if r.Thorough() {
		full32 = runFull32(r, types, t)
		r.Extra("full_2^32", full32)
	}
	r.Extra("per_type", perTypeExtra(t))
}

// runFull32 enumerates all 2^32 payloads (leading octet 00) of every 5-octet type, one type at
// a time on all cores, until the budget expires.
func runFull32(r *enumlib.Run, types []string, t *tally) map[string]interface{} {
	var completed, notStarted []string
	var partial string
	var partialDone uint64
	var totalCases, totalAcc, completedAcc uint64
	for _, name := range types {
		s := specTable[name]
		if s == nil || s.length != 5 {
			continue
		}
		if r.Expired() || partial != "" {
			notStarted = append(notStarted, name)
			continue
		}
		var done, acc, viol uint64
		var stop int32
		r.Parallel(func(shard, n int) {
			rep := newReporter(r)
			c := newCodec(name)
			lo := uint64(shard) << 32 / uint64(n)
			hi := uint64(shard+1) << 32 / uint64(n)
			var buf [5]byte
			var ldone, lacc, lviol uint64
			for blk := lo; blk < hi && atomic.LoadInt32(&stop) == 0; {
				end := blk + 1<<20
				if end > hi {
					end = hi
				}
				for i := blk; i < end; i++ {
					buf[1], buf[2], buf[3], buf[4] = byte(i>>24), byte(i>>16), byte(i>>8), byte(i)
					o := c.eval(buf[:], fC06)
					if o&oAccepted != 0 {
						lacc++
					}
					if o&c06Bits != 0 {
						lviol += uint64(rep.report(c, buf[:], o))
					}
				}
				ldone += end - blk
				blk = end
				if r.Expired() || lviol > 100000 {
					atomic.StoreInt32(&stop, 1)
				}
			}
			atomic.AddUint64(&done, ldone)
			atomic.AddUint64(&acc, lacc)
			atomic.AddUint64(&viol, lviol)
		})
		totalCases += done
		totalAcc += acc
		ty := t.typ(name)
		ty.cases += done
		ty.accepted += acc
		ty.violations += viol
		if done == 1<<32 {
			completed = append(completed, name)
			completedAcc += acc
		} else {
			partial, partialDone = name, done
		}
	}
	if len(completed) > 0 {
		r.Space("5-octet payloads: leading octet 00 x all 2^32 value encodings (completed types)", int64(len(completed))<<32, int64(completedAcc), true,
			fmt.Sprintf("%d types: %s", len(completed), compressTypes(completed)))
	}
	if partial != "" || len(notStarted) > 0 {
		note := fmt.Sprintf("budget expired (or > 10^5 violations in one shard); partially enumerated: %s (%d of 2^32); not started: %d types: %s", partial, partialDone, len(notStarted), compressTypes(notStarted))
		r.Space("5-octet payloads: leading octet 00 x all 2^32 value encodings (types cut short)", int64(partialDone), int64(totalAcc-completedAcc), false, note)
	}
	r.Eval(int64(totalCases))
	r.Nontrivial(int64(totalAcc))
	return map[string]interface{}{"completed_types": completed, "partial_type": partial, "partial_cases": partialDone, "not_started_types": notStarted}
}
