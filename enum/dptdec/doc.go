//go:build verif

// Package dptdec: see DESIGN.md (E5).
package dptdec
