//go:build verif

package dptdec

// The independent datapoint table: written from DESIGN.md Appendix B (KNX datapoint
// specification + the types' doc comments), keyed by type name. Nothing in this file is derived
// from the codec expressions of the library; the checks consult it for
//   - the fixed payload length (0 = variable length, 28.001),
//   - the format class and whether it is an "exact" class (C06: byte-identical re-encoding),
//   - the canonical re-encoding of an accepted payload (reserved bits masked, documented
//     replacements applied),
//   - the documented value range (C08).

import (
	"fmt"
	"math"
	"reflect"
	"unicode/utf8"
)

const (
	clBit     = "bit-field"
	clInt     = "integer"
	clEnum    = "enumeration"
	clChar    = "character"
	clIEEE    = "ieee754"
	clStruct  = "struct" // exact struct of integer / bit fields
	clReplace = "integer-with-replacement"
	clScaled  = "scaled"  // not exact: value stability only
	clFloat16 = "float16" // not exact: several encodings per value
)

type typeSpec struct {
	name   string
	family string // used in violation classes
	length int    // payload octets including the leading octet; 0 = variable
	class  string
	exact  bool
	// canon appends to out the payload that re-encoding an accepted payload p must produce.
	canon func(p, out []byte) []byte
	// inRange returns "" when the decoded value (the dereferenced library value) lies within the
	// documented range, else a description.
	inRange func(v reflect.Value) string
	// reserved lists the octets (besides the leading octet) that are entirely or partly reserved
	// or carry validity flags; C08 sweeps all 256 values of each.
	reserved []int
	rangeDoc string
}

// lengthOK is the C08 length rule: fixed-length types accept exactly their length; the
// variable-length string must at least hold its terminator (leading octet + NUL).
func (s *typeSpec) lengthOK(n int) bool {
	if s.length == 0 {
		return n >= 2
	}
	return n == s.length
}

var specTable = map[string]*typeSpec{}

func addSpec(s *typeSpec) {
	if specTable[s.name] != nil {
		panic("duplicate table entry " + s.name)
	}
	specTable[s.name] = s
}

func names(main int, subs ...int) []string {
	var out []string
	for _, s := range subs {
		out = append(out, fmt.Sprintf("%d.%03d", main, s))
	}
	return out
}

func span(from, to int) []int {
	var out []int
	for i := from; i <= to; i++ {
		out = append(out, i)
	}
	return out
}

func cat(l ...[]int) []int {
	var out []int
	for _, x := range l {
		out = append(out, x...)
	}
	return out
}

// ---- canonical re-encodings ---------------------------------------------------------------

// keepValueOctets: leading octet 0, all value octets unchanged.
func canonKeep(p, out []byte) []byte {
	out = append(out, 0)
	return append(out, p[1:]...)
}

func canonB1(p, out []byte) []byte { return append(out, p[0]&1) }

func canon17(p, out []byte) []byte {
	b := p[1]
	if b > 63 {
		b = 63
	}
	return append(out, 0, b)
}

func canon18(p, out []byte) []byte {
	b := p[1]
	if !(b <= 63 || (b >= 128 && b <= 191)) {
		b = 63
	}
	return append(out, 0, b)
}

func canon10(p, out []byte) []byte { return append(out, 0, p[1], p[2]&0x3F, p[3]&0x3F) }

func canon11(p, out []byte) []byte {
	d, m, y := p[1]&0x1F, p[2]&0x0F, p[3]&0x7F
	if d == 0 && m == 0 && y == 0 {
		return append(out, 0, 1, 1, 90) // documented replacement: 1990-01-01
	}
	return append(out, 0, d, m, y)
}

func canon242(p, out []byte) []byte {
	return append(out, 0, p[1], p[2], p[3], p[4], p[5], p[6]&0x03)
}

func canon251(p, out []byte) []byte {
	return append(out, 0, p[1], p[2], p[3], p[4], 0, p[6])
}

// 16.000: bit 7 of every octet is masked; the characters run up to the first NUL (of the masked
// octets - a masked 0x80 is a NUL); everything after is NUL padding.
func canon16000(p, out []byte) []byte {
	out = append(out, 0)
	i := 1
	for ; i < 15 && p[i]&0x7F != 0; i++ {
		out = append(out, p[i]&0x7F)
	}
	for ; i < 15; i++ {
		out = append(out, 0)
	}
	return out
}

func canon16001(p, out []byte) []byte {
	out = append(out, 0)
	i := 1
	for ; i < 15 && p[i] != 0; i++ {
		out = append(out, p[i])
	}
	for ; i < 15; i++ {
		out = append(out, 0)
	}
	return out
}

// 28.001: leading octet, the string octets, the terminator. (The last octet is the terminator
// position; a payload that carries something else there is counted, see c08.go.)
func canon28(p, out []byte) []byte {
	out = append(out, 0)
	out = append(out, p[1:len(p)-1]...)
	return append(out, 0)
}

// ---- documented ranges --------------------------------------------------------------------

func num(v reflect.Value) (float64, bool) {
	switch v.Kind() {
	case reflect.Float32, reflect.Float64:
		return v.Float(), true
	case reflect.Int, reflect.Int8, reflect.Int16, reflect.Int32, reflect.Int64:
		return float64(v.Int()), true
	case reflect.Uint, reflect.Uint8, reflect.Uint16, reflect.Uint32, reflect.Uint64:
		return float64(v.Uint()), true
	}
	return 0, false
}

// within: lo-tol <= value <= hi+tol. tol is half a quantisation step for the scaled types (their
// bounds are not binary fractions) and 0 elsewhere.
// ulp32 is the distance between x and the next float32 above it. Range bounds that a float32
// represents exactly (0, 100, 360) are checked without tolerance: the mathematical value at the end of
// the wire range is the bound itself, so a decoder that returns the next float32 beyond it is out of
// range. Decimal bounds that no float32 represents (327.68, 3276.8) get one ulp, the distance a
// correctly rounded result may lie on either side of them.
func ulp32(x float64) float64 {
	f := float32(x)
	return float64(math.Nextafter32(f, float32(math.Inf(1)))) - float64(f)
}

func within(lo, hi, tol float64) func(reflect.Value) string {
	return func(v reflect.Value) string {
		f, ok := num(v)
		if !ok {
			panic("dptdec: table expects a numeric value, library value has kind " + v.Kind().String())
		}
		if !(f >= lo-tol && f <= hi+tol) { // also catches NaN
			return fmt.Sprintf("value %v outside [%v, %v]", f, lo, hi)
		}
		return ""
	}
}

func anyValue(reflect.Value) string { return "" }

func field(v reflect.Value, name string) uint64 {
	f := v.FieldByName(name)
	if !f.IsValid() {
		panic("dptdec: library value has no field " + name)
	}
	return f.Uint()
}

func range10(v reflect.Value) string {
	wd, h, m, s := field(v, "Weekday"), field(v, "Hour"), field(v, "Minutes"), field(v, "Seconds")
	if wd > 7 || h > 23 || m > 59 || s > 59 {
		return fmt.Sprintf("weekday %d hour %d minute %d second %d is not a time of day", wd, h, m, s)
	}
	return ""
}

func daysIn(year, month uint64) uint64 {
	switch month {
	case 1, 3, 5, 7, 8, 10, 12:
		return 31
	case 4, 6, 9, 11:
		return 30
	case 2:
		if year%4 == 0 && (year%100 != 0 || year%400 == 0) {
			return 29
		}
		return 28
	}
	return 0
}

func realDate(y, m, d uint64) bool {
	return y >= 1990 && y <= 2089 && m >= 1 && m <= 12 && d >= 1 && d <= daysIn(y, m)
}

func range11(v reflect.Value) string {
	y, m, d := field(v, "Year"), field(v, "Month"), field(v, "Day")
	if !realDate(y, m, d) {
		return fmt.Sprintf("%04d-%02d-%02d is not a calendar date within 1990..2089", y, m, d)
	}
	return ""
}

func range18(v reflect.Value) string {
	u := v.Uint()
	if u <= 63 || (u >= 128 && u <= 191) {
		return ""
	}
	return fmt.Sprintf("scene control %d: scene number not below 64 / reserved bit 6 set", u)
}

func rangeString(maxRune rune) func(reflect.Value) string {
	return func(v reflect.Value) string {
		s := v.String()
		if n := utf8.RuneCountInString(s); n > 14 {
			return fmt.Sprintf("%d characters (> 14)", n)
		}
		for _, c := range s {
			if c > maxRune {
				return fmt.Sprintf("character U+%04X outside the character set", c)
			}
		}
		return ""
	}
}

// ---- the table ----------------------------------------------------------------------------

func init() {
	// 1.xxx: b1 in bit 0 of the single octet, bits 7..1 ignored on decode, 0 on encode.
	for _, n := range names(1, cat(span(1, 19), span(21, 24), []int{100})...) {
		addSpec(&typeSpec{name: n, family: "1.xxx", length: 1, class: clBit, exact: true, canon: canonB1, inRange: anyValue, rangeDoc: "{false,true}"})
	}
	// 5.xxx
	addSpec(&typeSpec{name: "5.001", family: "5.001", length: 2, class: clScaled, inRange: within(0, 100, 0), rangeDoc: "0..100 %"})
	addSpec(&typeSpec{name: "5.003", family: "5.003", length: 2, class: clScaled, inRange: within(0, 360, 0), rangeDoc: "0..360 deg"})
	for _, n := range names(5, 4, 5) {
		addSpec(&typeSpec{name: n, family: "5.xxx", length: 2, class: clInt, exact: true, canon: canonKeep, inRange: within(0, 255, 0), rangeDoc: "0..255"})
	}
	// 6.010
	addSpec(&typeSpec{name: "6.010", family: "6.xxx", length: 2, class: clInt, exact: true, canon: canonKeep, inRange: within(-128, 127, 0), rangeDoc: "-128..127"})
	// 7.xxx U16
	for _, n := range names(7, cat(span(1, 7), span(10, 13), []int{600})...) {
		addSpec(&typeSpec{name: n, family: "7.xxx", length: 3, class: clInt, exact: true, canon: canonKeep, inRange: within(0, 65535, 0), rangeDoc: "0..65535"})
	}
	// 8.xxx V16
	for _, n := range names(8, 1, 2, 5, 6, 7, 11) {
		addSpec(&typeSpec{name: n, family: "8.xxx", length: 3, class: clInt, exact: true, canon: canonKeep, inRange: within(-32768, 32767, 0), rangeDoc: "-32768..32767"})
	}
	addSpec(&typeSpec{name: "8.003", family: "8.003", length: 3, class: clScaled, inRange: within(-327.68, 327.67, ulp32(327.68)), rangeDoc: "-327.68..327.67"})
	addSpec(&typeSpec{name: "8.010", family: "8.010", length: 3, class: clScaled, inRange: within(-327.68, 327.67, ulp32(327.68)), rangeDoc: "-327.68..327.67"})
	addSpec(&typeSpec{name: "8.004", family: "8.004", length: 3, class: clScaled, inRange: within(-3276.8, 3276.7, ulp32(3276.8)), rangeDoc: "-3276.8..3276.7"})
	// 9.xxx F16
	f16 := func(n string, lo, hi float64) {
		addSpec(&typeSpec{name: n, family: "9.xxx", length: 3, class: clFloat16, inRange: within(lo, hi, 0), rangeDoc: fmt.Sprintf("%v..%v", lo, hi)})
	}
	f16("9.001", -273, 670760)
	f16("9.027", -459.6, 670760)
	for _, n := range names(9, 4, 5, 6, 7, 8, 28, 29) {
		f16(n, 0, 670760)
	}
	for _, n := range names(9, cat([]int{2, 3, 10, 11}, span(20, 26))...) {
		f16(n, -670760, 670760)
	}
	// 10.001, 11.001
	addSpec(&typeSpec{name: "10.001", family: "10.001", length: 4, class: clStruct, exact: true, canon: canon10, inRange: range10, reserved: []int{1, 2, 3}, rangeDoc: "weekday 0..7, hour 0..23, min/sec 0..59"})
	addSpec(&typeSpec{name: "11.001", family: "11.001", length: 4, class: clStruct, exact: true, canon: canon11, inRange: range11, reserved: []int{1, 2, 3}, rangeDoc: "calendar dates 1990-01-01..2089-12-31"})
	// 12.001 U32, 13.xxx V32
	addSpec(&typeSpec{name: "12.001", family: "12.xxx", length: 5, class: clInt, exact: true, canon: canonKeep, inRange: within(0, 4294967295, 0), rangeDoc: "0..2^32-1"})
	for _, n := range names(13, cat([]int{1, 2}, span(10, 16), []int{100})...) {
		addSpec(&typeSpec{name: n, family: "13.xxx", length: 5, class: clInt, exact: true, canon: canonKeep, inRange: within(-2147483648, 2147483647, 0), rangeDoc: "-2^31..2^31-1"})
	}
	// 14.xxx IEEE-754 binary32: every bit pattern is a value (NaN payloads included).
	for _, n := range append(names(14, span(0, 79)...), "14.1200") {
		addSpec(&typeSpec{name: n, family: "14.xxx", length: 5, class: clIEEE, exact: true, canon: canonKeep, inRange: anyValue, rangeDoc: "every binary32 bit pattern"})
	}
	// 16.xxx
	addSpec(&typeSpec{name: "16.000", family: "16.000", length: 15, class: clChar, exact: true, canon: canon16000, inRange: rangeString(0x7F), rangeDoc: "<= 14 ASCII characters"})
	addSpec(&typeSpec{name: "16.001", family: "16.001", length: 15, class: clChar, exact: true, canon: canon16001, inRange: rangeString(0xFF), rangeDoc: "<= 14 ISO-8859-1 characters"})
	// 17.001, 18.001
	addSpec(&typeSpec{name: "17.001", family: "17.001", length: 2, class: clReplace, exact: true, canon: canon17, inRange: within(0, 63, 0), reserved: []int{1}, rangeDoc: "0..63"})
	addSpec(&typeSpec{name: "18.001", family: "18.001", length: 2, class: clReplace, exact: true, canon: canon18, inRange: range18, reserved: []int{1}, rangeDoc: "0..63, 128..191"})
	// 20.xxx
	for _, n := range names(20, 102, 105) {
		addSpec(&typeSpec{name: n, family: "20.xxx", length: 2, class: clEnum, exact: true, canon: canonKeep, inRange: within(0, 255, 0), rangeDoc: "0..255"})
	}
	// 28.001
	addSpec(&typeSpec{name: "28.001", family: "28.001", length: 0, class: clChar, exact: true, canon: canon28, inRange: anyValue, rangeDoc: "any string (embedded NUL counted, not judged)"})
	// colours
	addSpec(&typeSpec{name: "232.600", family: "232.600", length: 4, class: clStruct, exact: true, canon: canonKeep, inRange: anyValue, rangeDoc: "0..255 each"})
	addSpec(&typeSpec{name: "242.600", family: "242.600", length: 7, class: clStruct, exact: true, canon: canon242, inRange: anyValue, reserved: []int{6}, rangeDoc: "x,y 0..65535, Y 0..255"})
	addSpec(&typeSpec{name: "251.600", family: "251.600", length: 7, class: clStruct, exact: true, canon: canon251, inRange: anyValue, reserved: []int{5, 6}, rangeDoc: "0..255 each"})
}
