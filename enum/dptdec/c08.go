//go:build verif

package dptdec

import (
	"verifh/enum/enumlib"
)

func init() {
	enumlib.Register(&enumlib.Check{
		Prop:   "C08",
		Run:    runC08,
		Replay: replay("C08"),
		Rule: "for every name of dpt.ListSupportedTypes() (sorted) the byte-string spaces listed under `spaces` are enumerated completely in index order; " +
			"a case is one (type, byte string); every case is judged for panics and for the length rule; it is non-trivial when the decoder accepts it, " +
			"i.e. the range oracle was applied to the value and String()/Unit() were called (the count is per space; spaces overlap in a few thousand payloads). " +
			"Oracle: Unpack never panics; a length different from the type's fixed length (28.001: shorter than leading octet + terminator) is an error; " +
			"an accepted value lies within the range documented in the independent table; String() and Unit() do not panic.",
		Assume: []string{
			"fixed lengths and documented ranges come from the independent table enum/dptdec/table.go (DESIGN.md Appendix B), keyed by type name; range bounds of the x0.01 / x0.1 / x100/255 scaled types are compared with a tolerance of half a quantisation step",
			"instances are produced once per shard with dpt.Produce and zeroed with reflect SetZero before each case",
			"28.001: only payloads shorter than 2 octets are required to be rejected (the statement: 'too short to hold its terminator'); accepted payloads whose last octet is not NUL and decoded strings with an embedded NUL are counted, not judged",
			"that a correct-length in-range payload is accepted is not demanded by the statement; rejections of correct-length payloads are counted",
		},
	})
}

func c08Items(name string, thorough bool) []item {
	s := specTable[name]
	const fl = fC08 | fZero
	out := []item{{name, shortStrings(), fl}, {name, longStrings(), fl}}
	if s == nil {
		return out
	}
	add := func(sp *space) { out = append(out, item{name, sp, fl}) }
	switch {
	case name == "10.001" || name == "11.001":
		add(leadSpace([]byte{0}, 3)) // superset of all field combinations: every reserved-bit pattern included
	case s.length == 1:
		add(fullSpace(1))
	case s.length == 2:
		add(fullSpace(2))
	case s.length == 3:
		if thorough {
			add(fullSpace(3))
		} else {
			add(leadSpace([]byte{0x00, 0x01, 0xFF}, 2))
		}
	case s.length == 5:
		add(alphaSpace(4))
	case name == "232.600":
		add(alphaSpace(3))
	case name == "242.600":
		add(validity242())
	case name == "251.600":
		add(validity251())
	case s.length == 15:
		add(stringPlacements())
		add(stringRuns(thorough))
	case s.length == 0:
		add(varStrings())
	}
	if s.length >= 2 {
		add(octetSweep(s.length, append([]int{0}, s.reserved...)))
	}
	if s.length >= 1 {
		add(wrapLengths(s.length))
	}
	return out
}

func runC08(r *enumlib.Run) {
	types := registeredTypes()
	var items []item
	var unknown []string
	for _, n := range types {
		if specTable[n] == nil {
			unknown = append(unknown, n)
		}
		items = append(items, c08Items(n, r.Thorough())...)
	}
	t := runItems(r, items)
	publish(r, t, plannedSizes(items))
	r.Extra("registered_types", len(types))
	r.Extra("registered_types_without_table_entry", unknown)
	counted := map[string]uint64{}
	for k, v := range t.extra {
		counted[k] = v
	}
	r.Extra("counted_not_judged", counted)
	r.Extra("per_type", perTypeExtra(t))
}
