//go:build verif

package dptdec

import (
	"bytes"
	"encoding/hex"
	"encoding/json"
	"fmt"
	"math"
	"reflect"
	"sort"
	"strconv"
	"strings"

	"github.com/vapourismo/knx-go/knx/dpt"

	"verifh/enum/enumlib"
)

// outcome is the bit set of observations made on one payload.
type outcome uint32

const (
	oRejected      outcome = 1 << iota // Unpack returned an error
	oAccepted                          // Unpack returned nil
	oPanicUnpack                       // C08
	oWrongLen                          // C08: accepted although the length rule says reject
	oOutOfRange                        // C08
	oPanicString                       // C08
	oPanicUnit                         // C08
	oPanicPack                         // C06
	oPanicReUnpack                     // C06
	oReRejected                        // C06: Unpack(Pack(v)) returned an error
	oDrift                             // C06: Unpack(Pack(v)) != v
	oNotIdentical                      // C06: exact class, Pack(v) != canonical(p)
	oNoTerminator                      // counted only: 28.001 accepted without NUL in the last octet
	oEmbeddedNUL                       // counted only: 28.001 value contains NUL
	oAliasPayload                      // C06: the decoded value changes when the payload buffer is overwritten afterwards
	oReceiverDep                       // C06: decoding into a receiver that holds another value yields a different value
	oRepeatDiffers                     // C08: the same payload decoded twice in a row into one receiver: the verdicts differ
	oOtherInstance                     // C06: the decoded value changes when another datapoint of the type decodes another payload
	oInputModified                     // C06: the decoder changed the payload it was given
	oPayloadShared                     // C06: an encoded payload changes when another value is encoded afterwards

	c06Bits = oPanicPack | oPanicReUnpack | oReRejected | oDrift | oNotIdentical | oAliasPayload | oReceiverDep | oOtherInstance | oInputModified | oPayloadShared
	c08Bits = oPanicUnpack | oWrongLen | oOutOfRange | oPanicString | oPanicUnit | oRepeatDiffers
)

type flags uint8

const (
	fC06  flags = 1 << iota // re-encode, re-decode, compare
	fC08                    // length rule, range, String, Unit
	fZero                   // zero both instances first (equivalent to fresh dpt.Produce instances)
)

const (
	stUnpack = iota
	stString
	stUnit
	stPack
	stReUnpack
)

var panicBit = [...]outcome{stUnpack: oPanicUnpack, stString: oPanicString, stUnit: oPanicUnit, stPack: oPanicPack, stReUnpack: oPanicReUnpack}

// codec holds two instances of one registered type (produced once per shard and reused) and
// the pre-bound comparison of their values.
type codec struct {
	name     string
	spec     *typeSpec // nil: registered type without table entry
	family   string
	d, d2    dpt.Datapoint
	rv, rv2  reflect.Value // dereferenced values
	equal    func() bool
	canonBuf [32]byte
	refKind  bool   // the Go type holds strings, slices, pointers or maps: a decoded value could share memory with the payload
	scratch  []byte // a private copy of the payload for the overwrite-after-decode probe
	pcopy    []byte
	p2copy   []byte
	p3       []byte
	d3       dpt.Datapoint // a receiver that is primed with another value before every probe
	primer   []byte        // an accepted payload with as many non-zero fields as could be found
	p4       []byte
	// details of the last eval
	p2       []byte
	err      error
	panicVal string
	rangeMsg string
}

func newCodec(name string) *codec {
	d, ok := dpt.Produce(name)
	d2, ok2 := dpt.Produce(name)
	if !ok || !ok2 || d == nil || d2 == nil {
		return nil
	}
	c := &codec{name: name, spec: specTable[name], d: d, d2: d2}
	c.rv, c.rv2 = reflect.ValueOf(d).Elem(), reflect.ValueOf(d2).Elem()
	if c.spec != nil {
		c.family = c.spec.family
	} else {
		c.family = name
	}
	c.equal = equalFunc(d, d2)
	c.refKind = holdsRefs(c.rv.Type())
	if d3, ok := dpt.Produce(name); ok && d3 != nil {
		n := len(d.Pack())
		for _, v := range []byte{0xFF, 0xEF, 0x7F, 0x3B, 0x2B, 0x17, 0x11, 0x01} {
			q := make([]byte, n)
			for i := 1; i < n; i++ {
				q[i] = v
			}
			if n == 1 {
				q[0] = v & 0x3F
			}
			ok := false
			func() {
				defer func() { recover() }()
				ok = d3.Unpack(q) == nil
			}()
			if ok {
				c.d3, c.primer = d3, q
				break
			}
		}
	}
	return c
}

func holdsRefs(t reflect.Type) bool {
	switch t.Kind() {
	case reflect.String, reflect.Slice, reflect.Ptr, reflect.Map, reflect.Interface, reflect.UnsafePointer:
		return true
	case reflect.Array:
		return holdsRefs(t.Elem())
	case reflect.Struct:
		for i := 0; i < t.NumField(); i++ {
			if holdsRefs(t.Field(i).Type) {
				return true
			}
		}
	}
	return false
}

func ptrAs[T any](d dpt.Datapoint) *T {
	return reflect.ValueOf(d).Convert(reflect.TypeOf((*T)(nil))).Interface().(*T)
}

func cmpPtr[T comparable](a, b dpt.Datapoint) func() bool {
	pa, pb := ptrAs[T](a), ptrAs[T](b)
	return func() bool { return *pa == *pb }
}

// equalFunc returns "the two dereferenced values are exactly equal": == for integers, booleans
// and strings, bit equality for floats (no float32->float64 conversion, so NaN payloads are
// preserved), reflect.DeepEqual with bit-compared floats for everything else.
func equalFunc(a, b dpt.Datapoint) func() bool {
	ra, rb := reflect.ValueOf(a).Elem(), reflect.ValueOf(b).Elem()
	switch ra.Kind() {
	case reflect.Bool:
		return cmpPtr[bool](a, b)
	case reflect.Int8:
		return cmpPtr[int8](a, b)
	case reflect.Int16:
		return cmpPtr[int16](a, b)
	case reflect.Int32:
		return cmpPtr[int32](a, b)
	case reflect.Int64:
		return cmpPtr[int64](a, b)
	case reflect.Uint8:
		return cmpPtr[uint8](a, b)
	case reflect.Uint16:
		return cmpPtr[uint16](a, b)
	case reflect.Uint32:
		return cmpPtr[uint32](a, b)
	case reflect.Uint64:
		return cmpPtr[uint64](a, b)
	case reflect.String:
		return cmpPtr[string](a, b)
	case reflect.Float32:
		pa, pb := ptrAs[float32](a), ptrAs[float32](b)
		return func() bool { return math.Float32bits(*pa) == math.Float32bits(*pb) }
	case reflect.Float64:
		pa, pb := ptrAs[float64](a), ptrAs[float64](b)
		return func() bool { return math.Float64bits(*pa) == math.Float64bits(*pb) }
	}
	return func() bool { return deepEqualBits(ra, rb) }
}

func deepEqualBits(a, b reflect.Value) bool {
	if a.Type() != b.Type() {
		return false
	}
	switch a.Kind() {
	case reflect.Float32:
		if a.CanAddr() && b.CanAddr() {
			pa := a.Addr().Convert(reflect.TypeOf((*float32)(nil))).Interface().(*float32)
			pb := b.Addr().Convert(reflect.TypeOf((*float32)(nil))).Interface().(*float32)
			return math.Float32bits(*pa) == math.Float32bits(*pb)
		}
		return math.Float64bits(a.Float()) == math.Float64bits(b.Float())
	case reflect.Float64:
		return math.Float64bits(a.Float()) == math.Float64bits(b.Float())
	case reflect.Struct:
		for i := 0; i < a.NumField(); i++ {
			if !deepEqualBits(a.Field(i), b.Field(i)) {
				return false
			}
		}
		return true
	case reflect.Array:
		for i := 0; i < a.Len(); i++ {
			if !deepEqualBits(a.Index(i), b.Index(i)) {
				return false
			}
		}
		return true
	}
	if !a.CanInterface() {
		panic("dptdec: cannot compare unexported field of kind " + a.Kind().String())
	}
	return reflect.DeepEqual(a.Interface(), b.Interface())
}

// eval runs the code under test on payload p and judges it. p is never retained or modified.
func (c *codec) eval(p []byte, fl flags) (o outcome) {
	stage := stUnpack
	defer func() {
		if x := recover(); x != nil {
			c.panicVal = fmt.Sprint(x)
			o |= panicBit[stage]
		}
	}()
	if fl&fZero != 0 {
		c.rv.SetZero()
		c.rv2.SetZero()
	}
	c.pcopy = append(c.pcopy[:0], p...)
	if err := c.d.Unpack(p); err != nil {
		c.err = err
		if fl&fC08 != 0 {
			// a rejected payload must be rejected again when it comes a second time (a device that
			// keeps sending it), whatever the first attempt left in the receiver
			if c.d.Unpack(p) == nil {
				return oRejected | oRepeatDiffers
			}
		}
		return oRejected
	}
	o = oAccepted
	if fl&fC06 != 0 && !bytes.Equal(p, c.pcopy) {
		// the payload belongs to the caller (a second listener decodes the same telegram, a relay
		// forwards it): a decoder that writes into it changes what they see
		o |= oInputModified
		copy(p, c.pcopy)
	}
	if fl&fC08 != 0 {
		if s := c.spec; s != nil {
			if !s.lengthOK(len(p)) {
				o |= oWrongLen
			}
			if msg := s.inRange(c.rv); msg != "" {
				c.rangeMsg = msg
				o |= oOutOfRange
			}
			if s.length == 0 && len(p) >= 2 {
				if p[len(p)-1] != 0 {
					o |= oNoTerminator
				}
				if strings.IndexByte(c.rv.String(), 0) >= 0 {
					o |= oEmbeddedNUL
				}
			}
		}
		stage = stString
		_ = c.d.String()
		stage = stUnit
		_ = c.d.Unit()
	}
	if fl&fC06 != 0 {
		stage = stPack
		p2 := c.d.Pack()
		c.p2 = p2
		c.p2copy = append(c.p2copy[:0], p2...)
		stage = stReUnpack
		if err := c.d2.Unpack(p2); err != nil {
			c.err = err
			return o | oReRejected
		}
		if !c.equal() {
			o |= oDrift
		}
		if c.d3 != nil && o&oDrift == 0 {
			// a receiver that held another value before (an application decodes every telegram of a
			// group address into the same variable): the result must be that of a fresh receiver
			stage = stUnpack
			if err := c.d3.Unpack(c.primer); err == nil {
				// ... and the value decoded first belongs to its own datapoint: it is what it was,
				// whatever another datapoint of the type has decoded since (the comparison through a
				// second instance above says nothing if the registry hands out one shared instance)
				stage = stPack
				if !bytes.Equal(c.d.Pack(), p2) {
					o |= oOtherInstance
				}
				stage = stUnpack
				if err := c.d3.Unpack(p); err != nil {
					o |= oReceiverDep
					c.p4 = nil
				} else {
					stage = stPack
					c.p4 = c.d3.Pack()
					if !bytes.Equal(c.p4, p2) {
						o |= oReceiverDep
					}
				}
			}
		}
		// the payload handed out first is the caller's: it still reads as it did, whatever was encoded
		// since (this datapoint again, the primed one)
		if !bytes.Equal(p2, c.p2copy) {
			o |= oPayloadShared
			p2 = c.p2copy
		}
		if c.refKind && o&oDrift == 0 {
			// a receiver re-uses its buffer for the next telegram: decode from a private copy of the
			// payload, overwrite the copy, encode - the value must be what it was
			c.scratch = append(c.scratch[:0], p...)
			stage = stUnpack
			if err := c.d.Unpack(c.scratch); err == nil {
				for i := range c.scratch {
					c.scratch[i] ^= 0x5A
				}
				stage = stPack
				c.p3 = c.d.Pack()
				if !bytes.Equal(c.p3, p2) {
					o |= oAliasPayload
				}
			}
		}
		// Byte identity is the additional demand on a stable round trip; a drifting case is
		// reported as drift only (one class per defect).
		if s := c.spec; o&oDrift == 0 && s != nil && s.exact && s.lengthOK(len(p)) {
			if !bytes.Equal(s.canon(p, c.canonBuf[:0]), p2) {
				o |= oNotIdentical
			}
		}
	}
	return o
}

// classes maps the violation bits of an outcome to structural violation classes.
func (c *codec) classes(o outcome) []string {
	var out []string
	add := func(bit outcome, format string) {
		if o&bit != 0 {
			out = append(out, fmt.Sprintf(format, c.family))
		}
	}
	add(oDrift, "C06:drift:%s")
	add(oReRejected, "C06:reencoded-rejected:%s")
	add(oNotIdentical, "C06:not-byte-identical:%s")
	add(oAliasPayload, "C06:decoded-value-aliases-payload:%s")
	add(oReceiverDep, "C06:decode-depends-on-receiver:%s")
	add(oOtherInstance, "C06:value-changed-by-another-datapoint:%s")
	add(oInputModified, "C06:decoder-modifies-its-input:%s")
	add(oPayloadShared, "C06:encoded-payload-changes-afterwards:%s")
	add(oPanicPack, "C06:panic:Pack:%s")
	add(oPanicReUnpack, "C06:panic:Unpack-of-reencoded:%s")
	add(oPanicUnpack, "C08:panic:%s")
	add(oWrongLen, "C08:wrong-length-accepted:%s")
	add(oOutOfRange, "C08:out-of-range:%s")
	add(oRepeatDiffers, "C08:rejected-payload-accepted-on-repeat:%s")
	add(oPanicString, "C08:panic:String:%s")
	add(oPanicUnit, "C08:panic:Unit:%s")
	return out
}

func describeValue(v reflect.Value) string {
	switch v.Kind() {
	case reflect.Float32:
		f := v.Float()
		return fmt.Sprintf("%s(%s)", v.Type().Name(), strconv.FormatFloat(f, 'g', -1, 32))
	case reflect.String:
		return fmt.Sprintf("%s(%q)", v.Type().Name(), v.String())
	case reflect.Int8, reflect.Int16, reflect.Int32, reflect.Int64:
		return fmt.Sprintf("%s(%d)", v.Type().Name(), v.Int())
	case reflect.Uint8, reflect.Uint16, reflect.Uint32, reflect.Uint64:
		return fmt.Sprintf("%s(%d)", v.Type().Name(), v.Uint())
	case reflect.Bool:
		return fmt.Sprintf("%s(%v)", v.Type().Name(), v.Bool())
	}
	return fmt.Sprintf("%#v", v.Interface())
}

// describe renders the last eval of payload p for a violation message.
func (c *codec) describe(p []byte, o outcome) string {
	var b strings.Builder
	fmt.Fprintf(&b, "DPT %s: Unpack(% x)", c.name, p)
	switch {
	case o&oPanicUnpack != 0:
		fmt.Fprintf(&b, " panicked: %s", c.panicVal)
		return b.String()
	case o&oRejected != 0:
		fmt.Fprintf(&b, " rejected: %v", c.err)
		if o&oRepeatDiffers != 0 {
			fmt.Fprintf(&b, "; the same payload decoded once more into the same receiver is ACCEPTED and yields %s", describeValue(c.rv))
		}
		return b.String()
	}
	fmt.Fprintf(&b, " = %s", describeValue(c.rv))
	if o&oWrongLen != 0 {
		fmt.Fprintf(&b, "; accepted a %d-octet payload", len(p))
		if c.spec.length > 0 {
			fmt.Fprintf(&b, " (the type has %d octets)", c.spec.length)
		} else {
			b.WriteString(" (too short to hold leading octet and terminator)")
		}
	}
	if o&oOutOfRange != 0 {
		fmt.Fprintf(&b, "; %s (documented range: %s)", c.rangeMsg, c.spec.rangeDoc)
	}
	if o&oPanicString != 0 {
		fmt.Fprintf(&b, "; String() panicked: %s", c.panicVal)
	}
	if o&oPanicUnit != 0 {
		fmt.Fprintf(&b, "; Unit() panicked: %s", c.panicVal)
	}
	if o&oPanicPack != 0 {
		fmt.Fprintf(&b, "; Pack() panicked: %s", c.panicVal)
		return b.String()
	}
	if o&(c06Bits) != 0 {
		fmt.Fprintf(&b, "; Pack() = % x", c.p2)
		switch {
		case o&oPanicReUnpack != 0:
			fmt.Fprintf(&b, "; Unpack of that panicked: %s", c.panicVal)
		case o&oReRejected != 0:
			fmt.Fprintf(&b, "; Unpack of that is rejected: %v", c.err)
		default:
			fmt.Fprintf(&b, "; Unpack of that = %s", describeValue(c.rv2))
			if o&oDrift != 0 {
				b.WriteString(" (value drifted)")
			}
			if o&oNotIdentical != 0 {
				fmt.Fprintf(&b, "; class %s must re-encode to % x", c.spec.class, c.spec.canon(p, nil))
			}
			if o&oReceiverDep != 0 {
				fmt.Fprintf(&b, "; decoded into a receiver that held the value of payload % x before, the same payload yields a value that encodes to % x (nil: rejected): the result depends on what the receiver held", c.primer, c.p4)
			}
			if o&oInputModified != 0 {
				fmt.Fprintf(&b, "; Unpack changed the payload it was given: it now reads % x (before: % x)", p, c.pcopy)
			}
			if o&oPayloadShared != 0 {
				fmt.Fprintf(&b, "; the payload returned by the first Pack() read % x; after further Pack() calls (the same datapoint again, another datapoint of the type) the same slice reads % x: encoded payloads share memory", c.p2copy, c.p2)
			}
			if o&oOtherInstance != 0 {
				fmt.Fprintf(&b, "; after another datapoint obtained from dpt.Produce(%q) decoded payload % x, the first datapoint no longer encodes to that: the two share their value", c.name, c.primer)
			}
			if o&oAliasPayload != 0 {
				fmt.Fprintf(&b, "; decoded from a buffer that is overwritten afterwards (as a receiver re-using its buffer does) the same value encodes to % x: it shares memory with the payload", c.p3)
			}
		}
	}
	return b.String()
}

// caseInput is the replayable description of one case.
type caseInput struct {
	Type    string `json:"type"`
	Payload string `json:"payload"` // hex
}

func goBytes(p []byte) string {
	parts := make([]string, len(p))
	for i, x := range p {
		parts[i] = fmt.Sprintf("0x%02x", x)
	}
	return "[]byte{" + strings.Join(parts, ", ") + "}"
}

// goTest is a plain go test body reproducing the case against the unmodified library
// (imports: testing, reflect, github.com/vapourismo/knx-go/knx/dpt).
func goTest(prop, name string, p []byte) string {
	if prop == "C08" {
		return fmt.Sprintf(`func TestC08Repro(t *testing.T) {
	d, _ := dpt.Produce(%q)
	err := d.Unpack(%s) // must not panic; wrong length must be an error
	if err == nil {
		t.Logf("accepted: %%#v  String=%%q Unit=%%q", reflect.ValueOf(d).Elem().Interface(), d.String(), d.Unit())
	} else {
		t.Logf("rejected: %%v", err)
	}
}`, name, goBytes(p))
	}
	return fmt.Sprintf(`func TestC06Repro(t *testing.T) {
	d, _ := dpt.Produce(%q)
	if err := d.Unpack(%s); err != nil {
		t.Skip(err)
	}
	p2 := d.Pack()
	d2, _ := dpt.Produce(%q)
	if err := d2.Unpack(p2); err != nil {
		t.Fatalf("re-encoded payload %% x rejected: %%v", p2, err)
	}
	if !reflect.DeepEqual(d, d2) {
		t.Fatalf("drift: %%#v -> %% x -> %%#v", reflect.ValueOf(d).Elem().Interface(), p2, reflect.ValueOf(d2).Elem().Interface())
	}
	t.Logf("re-encoded as %% x", p2)
}`, name, goBytes(p), name)
}

// reporter funnels violations of one shard to the run: the full message is built only for the
// first case of a class seen by this shard (the run keeps the first per class anyway).
type reporter struct {
	r    *enumlib.Run
	prop string
	seen map[string]int64
}

func newReporter(r *enumlib.Run) *reporter {
	return &reporter{r: r, prop: r.Prop, seen: map[string]int64{}}
}

// report records the violations of this property contained in o. Returns their number.
func (rp *reporter) report(c *codec, p []byte, o outcome) int {
	mask := c06Bits
	if rp.prop == "C08" {
		mask = c08Bits
	}
	if o&mask == 0 {
		return 0
	}
	n := 0
	for _, cl := range c.classes(o & mask) {
		n++
		rp.seen[cl]++
		if rp.seen[cl] == 1 {
			in := caseInput{Type: c.name, Payload: hex.EncodeToString(p)}
			rp.r.ViolationWithTest(cl, c.describe(p, o), in, goTest(rp.prop, c.name, p))
		} else {
			rp.r.Violation(cl, "", nil)
		}
	}
	return n
}

// replay re-judges one stored case.
func replay(prop string) func(class string, input json.RawMessage) (string, bool) {
	return func(class string, input json.RawMessage) (string, bool) {
		var in caseInput
		if err := json.Unmarshal(input, &in); err != nil {
			return "cannot parse input: " + err.Error(), false
		}
		p, err := hex.DecodeString(in.Payload)
		if err != nil {
			return "cannot parse payload: " + err.Error(), false
		}
		if shared, detail := sharedInstance(in.Type); shared || strings.HasSuffix(class, ":datapoints-of-a-type-share-one-value") {
			return detail, shared
		}
		c := newCodec(in.Type)
		if c == nil {
			return "type " + in.Type + " is not registered", false
		}
		o := c.eval(p, fC06|fC08|fZero)
		desc := c.describe(p, o)
		mask := c06Bits
		if prop == "C08" {
			mask = c08Bits
		}
		cls := c.classes(o & mask)
		bad := false
		for _, cl := range cls {
			if cl == class {
				bad = true
			}
		}
		return fmt.Sprintf("%s\n  violation classes now: %v", desc, cls), bad
	}
}

// registeredTypes is the sorted list of names the library registers right now.
func registeredTypes() []string {
	l := append([]string(nil), dpt.ListSupportedTypes()...)
	sort.Slice(l, func(i, j int) bool {
		a, b := strings.SplitN(l[i], ".", 2), strings.SplitN(l[j], ".", 2)
		am, _ := strconv.Atoi(a[0])
		bm, _ := strconv.Atoi(b[0])
		if am != bm {
			return am < bm
		}
		if len(a) > 1 && len(b) > 1 {
			as, _ := strconv.Atoi(a[1])
			bs, _ := strconv.Atoi(b[1])
			if as != bs {
				return as < bs
			}
		}
		return l[i] < l[j]
	})
	return l
}
