//go:build verif

package addr

import (
	"fmt"

	"github.com/vapourismo/knx-go/knx/cemi"
	"verifh/enum/statelib"
)

// Hidden state of package cemi (a parse cache, a memo of the last result, a shared scratch buffer):
// explicit-state search over the package's own variables (see enum/statelib and, for the idea,
// enum/registry/statespace.go). Transitions: both parsers on a set of texts of every form, and the
// formatters; invariant: in every reachable state every call yields what it yields in the initial
// state.
func addrTransitions() (ts []statelib.Transition, ntexts int) {
	parse := func(k kind, s string) {
		ts = append(ts, statelib.Transition{Label: fmt.Sprintf("%s(%q)", parserName(k), s), Run: func() string {
			v, err, p, pv := callParse(k, s)
			if p {
				return "panic " + pv
			}
			if err != nil {
				return "rejected"
			}
			return fmt.Sprintf("accepted %#04x", v)
		}})
	}
	var texts []string
	for _, x := range []int{0, 1, 15, 16, 31, 32} {
		for _, y := range []int{0, 1, 7, 8, 15, 16, 255, 256, 2047, 2048} {
			texts = append(texts, fmt.Sprintf("%d/%d", x, y), fmt.Sprintf("%d.%d", x, y))
			for _, z := range []int{0, 1, 255, 256} {
				texts = append(texts, fmt.Sprintf("%d.%d.%d", x, y, z), fmt.Sprintf("%d/%d/%d", x, y, z))
			}
		}
	}
	texts = append(texts, "0", "1", "4660", "65535", "65536", "", "1.", "1/", "1/2/", "a.b.c", " 1.1.1", "1.1.1 ", "01.01.001", "+1.1.1", "-1/1/1")
	for _, s := range texts {
		parse(kIndividual, s)
		parse(kGroup, s)
	}
	for _, v := range []uint16{1, 0x1101, 0x1203, 0x0A03, 0x7FFF, 0x8000, 0xFFFE, 0xFFFF} {
		v := v
		for _, k := range []kind{kIndividual, kGroup} {
			k := k
			ts = append(ts, statelib.Transition{Label: fmt.Sprintf("%s(%#04x).String()", k, v), Run: func() string {
				s, p, pv := callString(k, v)
				if p {
					return "panic " + pv
				}
				return s
			}})
		}
	}
	return ts, len(texts)
}

func (c *ctx) stateSpace() {
	vnames, roots := cemi.VerifGlobals()
	ts, ntexts := addrTransitions()
	maxStates, maxDepth := 8, 2
	if c.r.Thorough() {
		maxStates, maxDepth = 24, 3
	}
	res := statelib.Search(roots, ts, maxStates, maxDepth, func(i int) string { return opOf(ts[i].Label) })
	for _, w := range res.Witnesses {
		path := ""
		var labels []string
		for _, j := range w.Path {
			path += ts[j].Label + "; "
			labels = append(labels, ts[j].Label)
		}
		c.r.Violation("C18:result-depends-on-history:"+opOf(ts[w.Index].Label),
			fmt.Sprintf("%s: in the initial state of package cemi: %s; after %sthe same call: %s", ts[w.Index].Label, w.Want, path, w.Got),
			input{Op: "statepath", Text: ts[w.Index].Label, Path: labels})
	}
	c.r.Eval(res.Transitions)
	c.r.Nontrivial(res.Compared + int64(len(ts)))
	note := fmt.Sprintf("explicit-state search over package cemi's own variables (%d variables %v, %d saved locations): %d distinct states, %d transitions (%d calls per state: both parsers on %d texts, the formatters on 8 values), %d results compared with the initial state's", len(vnames), vnames, res.Locations, res.States, res.Transitions, len(ts), ntexts, res.Compared)
	if res.Capped != "" {
		note += "; " + res.Capped
	}
	c.r.Space("hidden-state-search", res.Transitions, res.Compared+int64(len(ts)), res.Capped == "", note)
}

func opOf(label string) string {
	for i := 0; i < len(label); i++ {
		if label[i] == '(' {
			return label[:i]
		}
	}
	return label
}

func replayStatePath(in input) (string, bool) {
	_, roots := cemi.VerifGlobals()
	ts, _ := addrTransitions()
	byLabel := map[string]statelib.Transition{}
	for _, t := range ts {
		byLabel[t.Label] = t
	}
	t, ok := byLabel[in.Text]
	if !ok {
		return "unknown transition " + in.Text, false
	}
	s0 := statelib.Take(roots)
	first := t.Run()
	s0.Restore()
	for _, l := range in.Path {
		if p, ok := byLabel[l]; ok {
			p.Run()
		}
	}
	after := t.Run()
	s0.Restore()
	return fmt.Sprintf("%s in the initial state: %s; after %v: %s", in.Text, first, in.Path, after), first != after
}
