//go:build verif

package addr

import (
	"encoding/json"
	"fmt"
	"strconv"
	"strings"
	"sync"
	"sync/atomic"

	"github.com/vapourismo/knx-go/knx/cemi"

	"verifh/enum/enumlib"
)

func init() {
	enumlib.Register(&enumlib.Check{
		Prop:   "C18",
		Run:    run,
		Replay: replay,
		Rule: "every space is enumerated completely in index order (index % shards). Spaces: (1) String()->parser round trip of all 65535 non-zero values of both kinds; " +
			"(2) decimal component tuples over the documented ranges widened by a margin on both sides (negatives included) for the 3-level, 2-level and raw form of both kinds; " +
			"(3) tuples over an alphabet of far-away values that wrap into range under 8/16/32/64-bit truncation; (4) constructor arguments; " +
			"(5) strings derived from a grammar of components x separators x leading/trailing separators with 0..3 components plus 4 and 5 well-formed components. " +
			"Oracle: reference acceptance predicate and bit packing written from the documented ranges 5/3/8, 5/11, 4/4/8, 8/8, raw 1..65535, zero rejected. " +
			"Non-trivial: round trip - every case; tuples - the reference accepts (value comparison performed); constructors - at least one argument has bits outside its documented width (masking exercised); " +
			"grammar - at least one component is a plain decimal number (the verdict is decided after numeric parsing succeeded somewhere). " +
			"Texts containing a form the statement does not classify (explicit '+', '-0', leading zeros) are counted in unclassified_forms and are neither judged nor counted as evaluations.",
		Assume: []string{
			"the reference model in enum/addr/ref.go states the documented ranges correctly (5/3/8, 5/11, 4/4/8, 8/8 bits, raw 1..65535, address zero invalid)",
			"the property demands the round trip only; that String() produces the three-level form is counted (string_is_three_level_form) but not judged",
			"component texts are 'plain decimal' iff they match -?(0|[1-9][0-9]*) and are not \"-0\"; '+1', '-0', '01' are reported, not judged",
			"int is 64 bits on the platform the check runs on (the far-value alphabet contains 2^32+1, which a 32-bit strconv.Atoi would reject instead of the range check)",
		},
	})
}

// input is the replayable description of one case.
type input struct {
	Op    string   `json:"op"` // "parse" | "roundtrip" | "ctor"
	Kind  string   `json:"kind,omitempty"`
	Text  string   `json:"text,omitempty"`
	Value int      `json:"value,omitempty"`
	Fn    string   `json:"fn,omitempty"`
	Args  []int    `json:"args,omitempty"`
	Path  []string `json:"path,omitempty"`
}

// ---------------------------------------------------------------------------------------------
// calls into the library, each guarded

func parserName(k kind) string {
	if k == kGroup {
		return "NewGroupAddrString"
	}
	return "NewIndividualAddrString"
}

func callParse(k kind, s string) (val uint16, err error, panicked bool, pv string) {
	panicked, pv = enumlib.Try(func() {
		if k == kGroup {
			var g cemi.GroupAddr
			g, err = cemi.NewGroupAddrString(s)
			val = uint16(g)
		} else {
			var a cemi.IndividualAddr
			a, err = cemi.NewIndividualAddrString(s)
			val = uint16(a)
		}
	})
	return
}

func callString(k kind, v uint16) (s string, panicked bool, pv string) {
	panicked, pv = enumlib.Try(func() {
		if k == kGroup {
			s = cemi.GroupAddr(v).String()
		} else {
			s = cemi.IndividualAddr(v).String()
		}
	})
	return
}

// ---------------------------------------------------------------------------------------------
// judging one case (shared by Run and Replay)

type outcome struct {
	Bad   bool
	Class string
	Msg   string
}

func levelTag(k kind, v verdict) string {
	switch v.Reason {
	case "component-count", "malformed-component":
		return k.String()
	}
	return k.String() + strconv.Itoa(v.Levels)
}

// judgeParse compares the parser with the reference on one text. accepted/got describe the
// library's answer also for unclassified texts (which are never Bad).
func judgeParse(k kind, s string) (v verdict, accepted bool, got uint16, o outcome) {
	v = refParse(k, s)
	val, err, panicked, pv := callParse(k, s)
	if panicked {
		o = outcome{true, "C18:panic:" + parserName(k), fmt.Sprintf("%s(%q) panicked: %s", parserName(k), s, pv)}
		return
	}
	accepted, got = err == nil, val
	switch v.Kind {
	case "unclassified":
		return
	case "accept":
		if err != nil {
			o = outcome{true, "C18:rejects-valid:" + levelTag(k, v),
				fmt.Sprintf("%s(%q) returned error %q; the documented ranges accept it as %d (0x%04X)", parserName(k), s, err.Error(), v.Value, v.Value)}
		} else if val != v.Value {
			o = outcome{true, "C18:wrong-value:" + levelTag(k, v),
				fmt.Sprintf("%s(%q) = %d (0x%04X), reference bit packing gives %d (0x%04X)", parserName(k), s, val, val, v.Value, v.Value)}
		}
	case "reject":
		if err == nil {
			o = outcome{true, "C18:accepts-" + v.Reason + ":" + levelTag(k, v),
				fmt.Sprintf("%s(%q) accepted the text as %d (0x%04X); it must be rejected (%s)", parserName(k), s, val, val, v.Reason)}
		}
	}
	return
}

func judgeRoundTrip(k kind, v uint16) (text string, o outcome) {
	s, panicked, pv := callString(k, v)
	if panicked {
		return "", outcome{true, "C18:panic:String:" + k.String(), fmt.Sprintf("%sAddr(%d).String() panicked: %s", k, v, pv)}
	}
	val, err, panicked, pv := callParse(k, s)
	switch {
	case panicked:
		o = outcome{true, "C18:panic:" + parserName(k), fmt.Sprintf("%s(%q) panicked: %s", parserName(k), s, pv)}
	case err != nil:
		o = outcome{true, "C18:roundtrip:" + k.String() + ":rejected", fmt.Sprintf("%s address %d (0x%04X) formats as %q, which the parser rejects: %v", k, v, v, s, err)}
	case val != v:
		o = outcome{true, "C18:roundtrip:" + k.String() + ":changed", fmt.Sprintf("%s address %d (0x%04X) formats as %q, which parses as %d (0x%04X)", k, v, v, s, val, val)}
	}
	return s, o
}

// constructors ---------------------------------------------------------------------------------

type ctorSpec struct {
	name   string
	kind   kind
	levels int
	argMax []int // largest value of each argument type
}

var ctors = map[string]ctorSpec{
	"NewGroupAddr3":      {"NewGroupAddr3", kGroup, 3, []int{255, 255, 255}},
	"NewGroupAddr2":      {"NewGroupAddr2", kGroup, 2, []int{255, 65535}},
	"NewIndividualAddr3": {"NewIndividualAddr3", kIndividual, 3, []int{255, 255, 255}},
	"NewIndividualAddr2": {"NewIndividualAddr2", kIndividual, 2, []int{255, 255}},
}

func refCtor(c ctorSpec, args []int) uint16 {
	comps := make([]int64, len(args))
	for i, a := range args {
		comps[i] = int64(a)
	}
	return refComposeMasked(refWidths(c.kind, c.levels), comps)
}

func callCtor(name string, args []int) uint16 {
	switch name {
	case "NewGroupAddr3":
		return uint16(cemi.NewGroupAddr3(uint8(args[0]), uint8(args[1]), uint8(args[2])))
	case "NewGroupAddr2":
		return uint16(cemi.NewGroupAddr2(uint8(args[0]), uint16(args[1])))
	case "NewIndividualAddr3":
		return uint16(cemi.NewIndividualAddr3(uint8(args[0]), uint8(args[1]), uint8(args[2])))
	case "NewIndividualAddr2":
		return uint16(cemi.NewIndividualAddr2(uint8(args[0]), uint8(args[1])))
	}
	panic("unknown constructor " + name)
}

func judgeCtor(name string, args []int) outcome {
	c, ok := ctors[name]
	if !ok || len(args) != c.levels {
		return outcome{false, "", "unknown constructor or wrong argument count"}
	}
	for i, a := range args {
		if a < 0 || a > c.argMax[i] {
			return outcome{false, "", "argument outside the parameter type"}
		}
	}
	var got uint16
	if p, pv := enumlib.Try(func() { got = callCtor(name, args) }); p {
		return outcome{true, "C18:panic:" + name, fmt.Sprintf("%s%v panicked: %s", name, args, pv)}
	}
	if exp := refCtor(c, args); got != exp {
		return outcome{true, "C18:constructor:" + name,
			fmt.Sprintf("%s%v = 0x%04X, reference packing into widths %v (bits outside the width ignored) gives 0x%04X", name, args, got, refWidths(c.kind, c.levels), exp)}
	}
	return outcome{}
}

// ---------------------------------------------------------------------------------------------
// Replay

func replay(class string, raw json.RawMessage) (string, bool) {
	var in input
	if err := json.Unmarshal(raw, &in); err != nil {
		return "cannot decode input: " + err.Error(), false
	}
	k, _ := kindOf(in.Kind)
	switch in.Op {
	case "statepath":
		return replayStatePath(in)
	case "parse":
		v, accepted, got, o := judgeParse(k, in.Text)
		desc := fmt.Sprintf("%s(%q): reference=%s %s value=%d; library accepted=%v value=%d", parserName(k), in.Text, v.Kind, v.Reason, v.Value, accepted, got)
		if o.Bad {
			desc += "\n" + o.Class + ": " + o.Msg
		}
		return desc, o.Bad
	case "cross":
		other := kIndividual
		if k == kIndividual {
			other = kGroup
		}
		_, a1, _, _ := judgeParse(other, in.Text)
		v, accepted, got, o := judgeParse(k, in.Text)
		desc := fmt.Sprintf("%s(%q) accepted=%v, then %s(%q): reference=%s %s value=%d; library accepted=%v value=%d", parserName(other), in.Text, a1, parserName(k), in.Text, v.Kind, v.Reason, v.Value, accepted, got)
		if o.Bad {
			desc += "\n" + o.Class + ": " + o.Msg
		}
		return desc, o.Bad
	case "roundtrip":
		s, o := judgeRoundTrip(k, uint16(in.Value))
		desc := fmt.Sprintf("%s address %d -> %q", k, in.Value, s)
		if o.Bad {
			desc += "\n" + o.Class + ": " + o.Msg
		}
		return desc, o.Bad
	case "ctor":
		o := judgeCtor(in.Fn, in.Args)
		desc := fmt.Sprintf("%s%v", in.Fn, in.Args)
		if o.Msg != "" {
			desc += "\n" + o.Class + ": " + o.Msg
		}
		return desc, o.Bad
	}
	return "unknown op " + in.Op, false
}

// ---------------------------------------------------------------------------------------------
// Run

type ctx struct {
	r    *enumlib.Run
	mu   sync.Mutex
	uncl map[string]int64 // "<kind>:<forms>:<accepted|rejected>" -> count
}

func (c *ctx) mergeUncl(m map[string]int64) {
	c.mu.Lock()
	for k, v := range m {
		c.uncl[k] += v
	}
	c.mu.Unlock()
}

func run(r *enumlib.Run) {
	c := &ctx{r: r, uncl: map[string]int64{}}
	c.stateSpace() // first: the package is in the state its initialisation left it in
	c.roundTrip()
	c.crossParser()
	c.tuples()
	c.farValues()
	c.constructors()
	c.grammar()
	c.decorated()
	if len(c.uncl) == 0 {
		c.uncl["(none)"] = 0
	}
	r.Extra("unclassified_forms", c.uncl)
	r.Extra("unclassified_forms_note", "texts inside the judged spaces that contain an explicit '+', '-0' or leading zeros: key = kind:forms:what the library did; counted, not judged, not part of 'evaluations'")
}

// parseSpace enumerates total texts gen(0..total-1) against the parser of the kind gen returns.
func (c *ctx) parseSpace(name string, total int64, note string, nontrivial func(verdict) bool, gen func(i int64) (kind, string)) {
	var judged, nontriv, unclassified int64
	var expired int32
	c.r.Parallel(func(shard, n int) {
		var ev, nt, un int64
		uncl := map[string]int64{}
		for i := int64(shard); i < total; i += int64(n) {
			if (i/int64(n))&0x3FFF == 0 && c.r.Expired() {
				atomic.StoreInt32(&expired, 1)
				break
			}
			k, s := gen(i)
			v, accepted, _, o := judgeParse(k, s)
			if i == total/2 {
				c.r.Sample(map[string]interface{}{"space": name, "kind": k.String(), "text": s, "reference": v.Kind + " " + v.Reason, "library_accepted": accepted})
			}
			if o.Bad {
				c.r.Violation(o.Class, o.Msg, input{Op: "parse", Kind: k.String(), Text: s})
				ev++
				continue
			}
			if v.Kind == "unclassified" {
				un++
				what := "rejected"
				if accepted {
					what = "accepted"
				}
				uncl[k.String()+":"+v.Reason+":"+what]++
				continue
			}
			ev++
			if nontrivial(v) {
				nt++
			}
		}
		atomic.AddInt64(&judged, ev)
		atomic.AddInt64(&nontriv, nt)
		atomic.AddInt64(&unclassified, un)
		c.mergeUncl(uncl)
	})
	c.r.Eval(judged)
	c.r.Nontrivial(nontriv)
	if unclassified > 0 {
		note += fmt.Sprintf("; %d of these texts are unclassified forms (counted, not judged)", unclassified)
	}
	if expired != 0 {
		note += fmt.Sprintf("; CUT SHORT by the time budget after %d cases", judged+unclassified)
	}
	c.r.Space(name, total, nontriv, expired == 0, note)
}

func refAccepts(v verdict) bool { return v.Kind == "accept" }

// (1) round trip ------------------------------------------------------------------------------

func (c *ctx) roundTrip() {
	var same3 int64
	for _, k := range []kind{kGroup, kIndividual} {
		k := k
		c.r.Parallel(func(shard, n int) {
			var s3 int64
			for v := 1 + shard; v <= 65535; v += n {
				s, o := judgeRoundTrip(k, uint16(v))
				if o.Bad {
					c.r.Violation(o.Class, o.Msg, input{Op: "roundtrip", Kind: k.String(), Value: v})
				}
				a, b, cc := refFormat3(k, uint16(v))
				if s == fmt.Sprintf("%d%c%d%c%d", a, k.sep(), b, k.sep(), cc) {
					s3++
				}
				if v == 0x1234 {
					c.r.Sample(map[string]interface{}{"space": "roundtrip-" + k.String(), "value": v, "text": s})
				}
			}
			atomic.AddInt64(&same3, s3)
		})
		c.r.Eval(65535)
		c.r.Nontrivial(65535)
		c.r.Space("roundtrip-"+k.String(), 65535, 65535, true, "every non-zero 16-bit value: String() -> "+parserName(k)+" -> same value")
	}
	c.r.Extra("string_is_three_level_form", fmt.Sprintf("%d of 131070 String() results equal the documented three-level text (counted, not judged)", same3))
}

// (1b) both parsers on the same text, in both orders ------------------------------------------
//
// A result must not depend on which parser saw the text before (a shared parse cache, a shared
// scratch buffer): every String() text of either kind is given to its own parser and then to the
// other kind's, and - for the texts of odd values - the other way round; each answer is judged by
// the reference grammar.
func (c *ctx) crossParser() {
	var nontriv int64
	for _, k := range []kind{kGroup, kIndividual} {
		k := k
		other := kIndividual
		if k == kIndividual {
			other = kGroup
		}
		c.r.Parallel(func(shard, n int) {
			var nt int64
			for v := 1 + shard; v <= 65535; v += n {
				text, _, _ := callString(k, uint16(v))
				order := []kind{k, other}
				if v&1 == 1 {
					order = []kind{other, k}
				}
				for _, pk := range order {
					rv, _, _, o := judgeParse(pk, text)
					if o.Bad {
						c.r.Violation(o.Class, o.Msg+fmt.Sprintf(" (history: the text was given to %s and then to %s)", parserName(order[0]), parserName(order[1])), input{Op: "cross", Kind: pk.String(), Text: text, Value: v})
					} else if rv.Kind != "unclassified" {
						nt++
					}
				}
			}
			atomic.AddInt64(&nontriv, nt)
		})
	}
	c.r.Eval(4 * 65535)
	c.r.Nontrivial(nontriv)
	c.r.Space("cross-parser", 4*65535, nontriv, true, "every String() text of either kind given to both parsers one after the other (own parser first for even values, the other kind's first for odd values); each answer judged by the reference grammar")
}

// (2) component tuples over the documented ranges widened by a margin --------------------------

func (c *ctx) tuples() {
	m := int64(3)
	if c.r.Thorough() {
		m = 300 // beyond 256 so that an 8-bit wrap of every component is inside the space
	}
	for _, k := range []kind{kGroup, kIndividual} {
		for levels := 3; levels >= 1; levels-- {
			k, levels := k, levels
			widths := refWidths(k, levels)
			dims := make([]int64, levels)
			total := int64(1)
			var rng []string
			for i, w := range widths {
				dims[i] = pow2(w) + 2*m
				total *= dims[i]
				rng = append(rng, fmt.Sprintf("%d..%d", -m, pow2(w)-1+m))
			}
			sep := string(k.sep())
			c.parseSpace(fmt.Sprintf("tuples-%s%d", k, levels), total,
				"decimal components "+strings.Join(rng, " x ")+" (documented range widened by "+strconv.FormatInt(m, 10)+" on both sides)",
				refAccepts,
				func(i int64) (kind, string) {
					parts := make([]string, levels)
					for j := levels - 1; j >= 0; j-- {
						parts[j] = strconv.FormatInt(i%dims[j]-m, 10)
						i /= dims[j]
					}
					return k, strings.Join(parts, sep)
				})
		}
	}
}

// (3) far-away values --------------------------------------------------------------------------

var farAlphabet = []string{
	"-9223372036854775808", "-4294967296", "-65536", "-256", "-1", "0", "1", "255", "256", "257", "2047", "2048",
	"65535", "65536", "65537", "4294967295", "4294967296", "4294967297", "9223372036854775807", "9223372036854775808",
	"18446744073709551616", "18446744073709551617",
}

func (c *ctx) farValues() {
	a := int64(len(farAlphabet))
	perKind := a + a*a + a*a*a
	c.parseSpace("far-values", 2*perKind,
		fmt.Sprintf("1, 2 and 3 components from an alphabet of %d values around 2^8, 2^11, 2^16, 2^32, 2^63, 2^64 (they wrap into range under truncation), both kinds", a),
		refAccepts,
		func(i int64) (kind, string) {
			k := kind(i % 2)
			i /= 2
			levels := 1
			for sz := a; i >= sz; sz *= a {
				i -= sz
				levels++
			}
			parts := make([]string, levels)
			for j := levels - 1; j >= 0; j-- {
				parts[j] = farAlphabet[i%a]
				i /= a
			}
			return k, strings.Join(parts, string(k.sep()))
		})
}

// (4) constructors -----------------------------------------------------------------------------

func seq(lo, hi int) []int {
	var s []int
	for i := lo; i <= hi; i++ {
		s = append(s, i)
	}
	return s
}

// ctorSpace enumerates the Cartesian product of the given argument alphabets.
func (c *ctx) ctorSpace(space, fn string, alph [][]int, note string) {
	spec := ctors[fn]
	widths := refWidths(spec.kind, spec.levels)
	total := int64(1)
	for _, a := range alph {
		total *= int64(len(a))
	}
	inner := int64(len(alph[len(alph)-1]))
	outer := total / inner
	var nontriv int64
	var expired int32
	c.r.Parallel(func(shard, n int) {
		var nt int64
		args := make([]int, len(alph))
		for o := int64(shard); o < outer; o += int64(n) {
			if (o/int64(n))&0xFF == 0 && c.r.Expired() {
				atomic.StoreInt32(&expired, 1)
				return
			}
			x := o
			for j := len(alph) - 2; j >= 0; j-- {
				args[j] = alph[j][x%int64(len(alph[j]))]
				x /= int64(len(alph[j]))
			}
			// one guarded block per value of the leading arguments; args is visible to the handler
			panicked, pv := enumlib.Try(func() {
				for _, last := range alph[len(alph)-1] {
					args[len(args)-1] = last
					got := callCtor(fn, args)
					if got != refCtor(spec, args) {
						oc := judgeCtor(fn, args)
						c.r.Violation(oc.Class, oc.Msg, input{Op: "ctor", Fn: fn, Args: append([]int(nil), args...)})
					}
					for j, w := range widths {
						if int64(args[j]) >= pow2(w) {
							nt++
							break
						}
					}
				}
			})
			if panicked {
				c.r.Violation("C18:panic:"+fn, fmt.Sprintf("%s%v panicked: %s", fn, args, pv), input{Op: "ctor", Fn: fn, Args: append([]int(nil), args...)})
			}
		}
		atomic.AddInt64(&nontriv, nt)
	})
	c.r.Eval(total)
	c.r.Nontrivial(nontriv)
	if spec.levels == 2 {
		c.r.Sample(map[string]interface{}{"space": space, "fn": fn, "args": []int{alph[0][len(alph[0])-1], alph[1][len(alph[1])/2]}, "note": "first two arguments of one enumerated case"})
	}
	if expired != 0 {
		note += "; CUT SHORT by the time budget"
	}
	c.r.Space(space, total, nontriv, expired == 0, note)
}

func (c *ctx) constructors() {
	all8, all16 := seq(0, 255), seq(0, 65535)
	thirdAlphabet := []int{0, 1, 2, 127, 128, 254, 255}
	gA := []int{0, 1, 15, 16, 30, 31, 32, 33, 63, 64, 127, 128, 224, 255}
	gB := []int{0, 1, 6, 7, 8, 9, 15, 16, 248, 255}
	iA := []int{0, 1, 14, 15, 16, 17, 31, 32, 127, 128, 240, 255}
	iB := iA
	if c.r.Thorough() {
		c.ctorSpace("ctor-NewGroupAddr3-all", "NewGroupAddr3", [][]int{all8, all8, all8}, "all 2^24 argument triples")
		c.ctorSpace("ctor-NewGroupAddr2-all", "NewGroupAddr2", [][]int{all8, all16}, "all 2^8 x 2^16 argument pairs")
		c.ctorSpace("ctor-NewIndividualAddr3-all", "NewIndividualAddr3", [][]int{all8, all8, all8}, "all 2^24 argument triples")
	} else {
		c.ctorSpace("ctor-NewGroupAddr3-ab", "NewGroupAddr3", [][]int{all8, all8, thirdAlphabet}, fmt.Sprintf("all 2^8 x 2^8 (a,b) x c in %v", thirdAlphabet))
		c.ctorSpace("ctor-NewGroupAddr3-c", "NewGroupAddr3", [][]int{gA, gB, all8}, fmt.Sprintf("a in %v x b in %v x all 256 c", gA, gB))
		c.ctorSpace("ctor-NewGroupAddr2", "NewGroupAddr2", [][]int{gA, all16}, fmt.Sprintf("a in %v x all 2^16 b", gA))
		c.ctorSpace("ctor-NewIndividualAddr3-ab", "NewIndividualAddr3", [][]int{all8, all8, thirdAlphabet}, fmt.Sprintf("all 2^8 x 2^8 (a,b) x c in %v", thirdAlphabet))
		c.ctorSpace("ctor-NewIndividualAddr3-c", "NewIndividualAddr3", [][]int{iA, iB, all8}, fmt.Sprintf("a in %v x b in %v x all 256 c", iA, iB))
	}
	c.ctorSpace("ctor-NewIndividualAddr2", "NewIndividualAddr2", [][]int{all8, all8}, "all 2^16 argument pairs (both components fill their octet: nothing to mask, so no non-trivial case by the rule)")
}

// (5) grammar of malformed (and, as a by-product, well-formed) texts ----------------------------

type grammar struct {
	comps, seps, lead, trail, valid []string
	sect                            []int64 // cumulative sizes of the sections
}

func newGrammar(thorough bool) *grammar {
	g := &grammar{
		comps: []string{
			"", " ", "a", "1a", "0x1", "１", "99999999999999999999", // the malformed components named in DESIGN C18
			"0", "1", "7", // well-formed, in range everywhere
			"256", "-1", // well-formed, out of range somewhere
			" 1", "1 ", "1e1", "+", // near misses
			"+1", "-0", "01", // forms the statement does not classify
		},
		seps:  []string{"/", ".", ",", "-", "//"},
		lead:  []string{"", "/", "."},
		trail: []string{"", "/", "."},
		valid: []string{"0", "1", "15"},
	}
	if thorough {
		g.comps = append(g.comps,
			"٣", "1_0", "0b1", "0o7", "1.0", "\t1", "1\n", "\x00", "1\x00", "NaN", "Inf", "-", "--1", "+-1", "1+", "١/",
			"9223372036854775808", "-9223372036854775809", "4294967297", "65536", "2048", "32", "8", "16", "00", "+0", "-00", "007")
		g.seps = append(g.seps, ":", " ", ";", "\\", "..", "/.")
		g.lead = append(g.lead, "//", " ")
		g.trail = append(g.trail, "..", " ", "\n")
	}
	nc, ns, nl, nt, nv := int64(len(g.comps)), int64(len(g.seps)), int64(len(g.lead)), int64(len(g.trail)), int64(len(g.valid))
	sizes := []int64{
		nl * nt,                          // 0 components
		nl * nt * nc,                     // 1
		nl * nt * nc * nc * ns,           // 2
		nl * nt * nc * nc * nc * ns * ns, // 3
		2 * nv * nv * nv * nv,            // 4 well-formed components, "/" or "."
		2 * nv * nv * nv * nv * nv,       // 5
	}
	cum := int64(0)
	for _, s := range sizes {
		cum += s
		g.sect = append(g.sect, cum)
	}
	return g
}

func (g *grammar) total() int64 { return g.sect[len(g.sect)-1] }

func pick(list []string, i *int64) string {
	n := int64(len(list))
	s := list[*i%n]
	*i /= n
	return s
}

// derive builds the i-th derivation.
func (g *grammar) derive(i int64) string {
	s := 0
	for i >= g.sect[s] {
		s++
	}
	if s > 0 {
		i -= g.sect[s-1]
	}
	var b strings.Builder
	if s <= 3 {
		lead, trail := pick(g.lead, &i), pick(g.trail, &i)
		b.WriteString(lead)
		for j := 0; j < s; j++ {
			if j > 0 {
				b.WriteString(pick(g.seps, &i))
			}
			b.WriteString(pick(g.comps, &i))
		}
		b.WriteString(trail)
		return b.String()
	}
	sep := pick([]string{"/", "."}, &i)
	for j := 0; j < s; j++ {
		if j > 0 {
			b.WriteString(sep)
		}
		b.WriteString(pick(g.valid, &i))
	}
	return b.String()
}

func (c *ctx) grammar() {
	g := newGrammar(c.r.Thorough())
	n := g.total()
	c.parseSpace("grammar", 2*n,
		fmt.Sprintf("derivations (not deduplicated) of [lead] comp (sep comp){0..2} [trail] with %d components %q, separators %q, lead %q, trail %q, plus the empty text and 4 and 5 well-formed components from %q joined by \"/\" or \".\"; every derivation is given to both parsers (so each kind also sees the other kind's separator)",
			len(g.comps), g.comps, g.seps, g.lead, g.trail, g.valid),
		func(v verdict) bool { return v.Canon >= 1 },
		func(i int64) (kind, string) { return kind(i % 2), g.derive(i / 2) })
}

// (6) decorated well-formed texts: counted only ------------------------------------------------

// decorated gives every non-zero address in its three-level form with (a) '+' before every
// component, (b) one leading zero before every component, (c) "-0" for every zero component.
// None of these is classified by the statement; the library's answers are tallied in the
// evidence and nothing is judged.
func (c *ctx) decorated() {
	tally := map[string]int64{}
	var mu sync.Mutex
	c.r.Parallel(func(shard, n int) {
		t := map[string]int64{}
		for i := shard; i < 2*65535; i += n {
			k := kind(i % 2)
			v := uint16(i/2 + 1)
			a, b, cc := refFormat3(k, v)
			comps := []int64{a, b, cc}
			for _, deco := range []string{"plus-sign", "leading-zero", "minus-zero"} {
				parts := make([]string, 3)
				applicable := deco != "minus-zero"
				for j, x := range comps {
					switch {
					case deco == "plus-sign":
						parts[j] = "+" + strconv.FormatInt(x, 10)
					case deco == "leading-zero":
						parts[j] = "0" + strconv.FormatInt(x, 10)
					case x == 0:
						parts[j] = "-0"
						applicable = true
					default:
						parts[j] = strconv.FormatInt(x, 10)
					}
				}
				if !applicable {
					continue
				}
				val, err, panicked, _ := callParse(k, strings.Join(parts, string(k.sep())))
				what := "accepted-as-the-undecorated-value"
				switch {
				case panicked:
					what = "panicked"
				case err != nil:
					what = "rejected"
				case val != v:
					what = "accepted-as-another-value"
				}
				t[k.String()+":"+deco+":"+what]++
			}
		}
		mu.Lock()
		for k, v := range t {
			tally[k] += v
		}
		mu.Unlock()
	})
	c.r.Extra("unclassified_decorated", tally)
	c.r.Extra("unclassified_decorated_note", "every non-zero address of both kinds in three-level form with '+' on every component / a leading zero on every component / '-0' for every zero component; counted, not judged")
}
