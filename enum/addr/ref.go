//go:build verif

package addr

import (
	"sort"
	"strings"
)

// Reference model for property C18, written from the property statement only:
//
//	group      a/b/c  5/3/8 bits      a/b  5/11 bits     raw 1..65535
//	individual a.b.c  4/4/8 bits      a.b  8/8 bits      raw 1..65535
//
// A text is accepted iff it has 1..3 components separated by the kind's separator, every
// component is a plain decimal number inside the documented range, and the address is not zero.
// The value is the big-endian concatenation of the components in their documented widths.
// Nothing in this file looks at the library.

type kind int

const (
	kGroup kind = iota
	kIndividual
)

var kindNames = [...]string{"group", "individual"}

func (k kind) String() string { return kindNames[k] }

func kindOf(s string) (kind, bool) {
	for i, n := range kindNames {
		if n == s {
			return kind(i), true
		}
	}
	return 0, false
}

func (k kind) sep() byte {
	if k == kGroup {
		return '/'
	}
	return '.'
}

// refWidths gives the documented bit widths of the components of a form with the given number of
// levels (nil: there is no such form).
func refWidths(k kind, levels int) []uint {
	switch {
	case levels == 1:
		return []uint{16}
	case k == kGroup && levels == 2:
		return []uint{5, 11}
	case k == kGroup && levels == 3:
		return []uint{5, 3, 8}
	case k == kIndividual && levels == 2:
		return []uint{8, 8}
	case k == kIndividual && levels == 3:
		return []uint{4, 4, 8}
	}
	return nil
}

func pow2(w uint) int64 {
	p := int64(1)
	for i := uint(0); i < w; i++ {
		p *= 2
	}
	return p
}

// refCompose concatenates in-range components.
func refCompose(widths []uint, comps []int64) uint16 {
	v := int64(0)
	for i, w := range widths {
		v = v*pow2(w) + comps[i]
	}
	return uint16(v)
}

// refComposeMasked is the constructor contract: bits outside a component's width are ignored.
func refComposeMasked(widths []uint, comps []int64) uint16 {
	v := int64(0)
	for i, w := range widths {
		v = v*pow2(w) + comps[i]%pow2(w)
	}
	return uint16(v)
}

// refFormat3 is the documented three-level text of a value (only used for an unjudged count).
func refFormat3(k kind, v uint16) (a, b, c int64) {
	w := refWidths(k, 3)
	x := int64(v)
	c = x % pow2(w[2])
	x /= pow2(w[2])
	b = x % pow2(w[1])
	x /= pow2(w[1])
	a = x
	return
}

const (
	compCanon = iota
	compUnclassified
	compMalformed
)

const clipped = int64(1000000000) // stands for "far outside every documented range"

// classifyComp sorts one component text into: a plain decimal number (optional '-', no leading
// zeros, not "-0"); a form the property statement does not classify (explicit '+', "-0", leading
// zeros); or malformed (everything else: empty, blanks, letters, other digits, a lone sign …).
func classifyComp(s string) (cls int, val int64, why []string) {
	if s == "" {
		return compMalformed, 0, []string{"empty"}
	}
	sign := byte(0)
	body := s
	if body[0] == '+' || body[0] == '-' {
		sign = body[0]
		body = body[1:]
	}
	if body == "" {
		return compMalformed, 0, []string{"sign-only"}
	}
	allZero := true
	for i := 0; i < len(body); i++ {
		ch := body[i]
		if ch < '0' || ch > '9' {
			return compMalformed, 0, []string{"non-decimal"}
		}
		if ch != '0' {
			allZero = false
		}
	}
	if sign == '+' {
		why = append(why, "plus-sign")
	}
	if sign == '-' && allZero {
		why = append(why, "minus-zero")
	}
	if len(body) > 1 && body[0] == '0' {
		why = append(why, "leading-zeros")
	}
	digits := strings.TrimLeft(body, "0")
	if len(digits) > 9 {
		val = clipped
	} else {
		for i := 0; i < len(digits); i++ {
			val = val*10 + int64(digits[i]-'0')
		}
	}
	if sign == '-' {
		val = -val
	}
	if len(why) > 0 {
		return compUnclassified, val, why
	}
	return compCanon, val, nil
}

// verdict is what the reference says about one text.
type verdict struct {
	Kind   string // "accept" | "reject" | "unclassified"
	Value  uint16 // for accept
	Reason string // reject: component-count | malformed-component | out-of-range | zero; unclassified: the forms present
	Levels int
	Canon  int // number of components that are plain decimal numbers
}

func refSplit(s string, sep byte) []string {
	var out []string
	start := 0
	for i := 0; i < len(s); i++ {
		if s[i] == sep {
			out = append(out, s[start:i])
			start = i + 1
		}
	}
	return append(out, s[start:])
}

func refParse(k kind, s string) verdict {
	parts := refSplit(s, k.sep())
	v := verdict{Levels: len(parts)}
	vals := make([]int64, len(parts))
	malformed := false
	forms := map[string]bool{}
	for i, p := range parts {
		cls, val, why := classifyComp(p)
		vals[i] = val
		switch cls {
		case compCanon:
			v.Canon++
		case compMalformed:
			malformed = true
		case compUnclassified:
			for _, w := range why {
				forms[w] = true
			}
		}
	}
	widths := refWidths(k, len(parts))
	if widths == nil {
		v.Kind, v.Reason = "reject", "component-count"
		return v
	}
	if malformed {
		v.Kind, v.Reason = "reject", "malformed-component"
		return v
	}
	if len(forms) > 0 {
		var fs []string
		for f := range forms {
			fs = append(fs, f)
		}
		sort.Strings(fs)
		v.Kind, v.Reason = "unclassified", strings.Join(fs, "+")
		return v
	}
	for i, w := range widths {
		if vals[i] < 0 || vals[i] >= pow2(w) {
			v.Kind, v.Reason = "reject", "out-of-range"
			return v
		}
	}
	val := refCompose(widths, vals)
	if val == 0 {
		v.Kind, v.Reason = "reject", "zero"
		return v
	}
	v.Kind, v.Value = "accept", val
	return v
}
