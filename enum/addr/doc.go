//go:build verif

// Package addr: see DESIGN.md (E5).
package addr
