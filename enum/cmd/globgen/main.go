// globgen -repo /repo -out <dir> knx/dpt knx/cemi ... : see package globlib.
package main

import (
	"flag"
	"fmt"
	"os"

	"verifh/enum/globlib"
)

func main() {
	repo := flag.String("repo", "/repo", "repository working tree")
	out := flag.String("out", "", "output directory")
	flag.Parse()
	if *out == "" {
		fmt.Fprintln(os.Stderr, "INFRA-ERROR globgen: need -out")
		os.Exit(2)
	}
	if _, err := globlib.Generate(*repo, *out, flag.Args()...); err != nil {
		fmt.Fprintln(os.Stderr, "INFRA-ERROR globgen:", err)
		os.Exit(2)
	}
}
