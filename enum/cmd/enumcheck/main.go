//go:build verif

// enumcheck runs the bounded exhaustive input-space check of one property.
package main

import (
	"flag"
	"os"
	"time"

	_ "verifh/enum/addr"
	_ "verifh/enum/cemilayout"
	_ "verifh/enum/codec"
	_ "verifh/enum/decode"
	_ "verifh/enum/dptdec"
	_ "verifh/enum/dptenc"
	"verifh/enum/enumlib"
	_ "verifh/enum/registry"
)

func main() {
	enumlib.MaybeWorker()
	prop := flag.String("prop", "", "property id")
	tier := flag.String("tier", "quick", "quick|thorough")
	verifDir := flag.String("verif", "/verif", "verif directory")
	repo := flag.String("repo", "/repo", "repository under test")
	replay := flag.String("replay", "", "replay file")
	budget := flag.Duration("budget", 0, "wall-clock budget (0 = tier default)")
	flag.Parse()
	os.Exit(enumlib.Main(*prop, *tier, *verifDir, *repo, *replay, time.Duration(*budget)))
}
