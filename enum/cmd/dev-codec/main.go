//go:build verif

// dev-codec is a private development entry for the codec group only (same as enumcheck but
// importing nothing else, so that other groups under construction cannot break the build).
package main

import (
	"flag"
	"os"
	"runtime/pprof"
	"time"

	_ "verifh/enum/codec"
	"verifh/enum/enumlib"
)

func main() {
	enumlib.MaybeWorker()
	prop := flag.String("prop", "", "property id")
	tier := flag.String("tier", "quick", "quick|thorough")
	verifDir := flag.String("verif", "/verif", "verif directory")
	repo := flag.String("repo", "/repo", "repository under test")
	replay := flag.String("replay", "", "replay file")
	budget := flag.Duration("budget", 0, "wall-clock budget (0 = tier default)")
	prof := flag.String("cpuprofile", "", "write a CPU profile (development)")
	flag.Parse()
	if *prof != "" {
		f, _ := os.Create(*prof)
		pprof.StartCPUProfile(f)
		code := enumlib.Main(*prop, *tier, *verifDir, *repo, *replay, time.Duration(*budget))
		pprof.StopCPUProfile()
		f.Close()
		os.Exit(code)
	}
	os.Exit(enumlib.Main(*prop, *tier, *verifDir, *repo, *replay, time.Duration(*budget)))
}
