// Hook constructors: the bodies of the exported constructors minus the dial, so that a harness
// can inject its own knxnet.Socket. This file is added to package knx through the build overlay
// only (it is run through mcgen like the rest of the package); /repo carries no hook code.

package knx

import (
	"container/list"

	"github.com/vapourismo/knx-go/knx/cemi"
	"github.com/vapourismo/knx-go/knx/knxnet"
)

// NewTunnelOnSocket is NewTunnel on an existing socket.
func NewTunnelOnSocket(sock knxnet.Socket, layer knxnet.TunnelLayer, config TunnelConfig) (*Tunnel, error) {
	client := &Tunnel{
		sock:    sock,
		config:  checkTunnelConfig(config),
		layer:   layer,
		ack:     make(chan *knxnet.TunnelRes),
		inbound: make(chan cemi.Message),
		done:    make(chan struct{}),
	}

	err := client.requestConn()
	if err != nil {
		sock.Close()
		return nil, err
	}

	client.wait.Add(1)
	go client.serve()

	return client, nil
}

// NewGroupTunnelOnSocket is NewGroupTunnel on an existing socket.
func NewGroupTunnelOnSocket(sock knxnet.Socket, config TunnelConfig) (gt GroupTunnel, err error) {
	gt.Tunnel, err = NewTunnelOnSocket(sock, knxnet.TunnelLayerData, config)

	if err == nil {
		gt.inbound = make(chan GroupEvent)
		go serveGroupInbound(gt.Tunnel.Inbound(), gt.inbound)
	}

	return
}

// NewRouterOnSocket is NewRouter on an existing socket.
func NewRouterOnSocket(sock knxnet.Socket, config RouterConfig) (*Router, error) {
	config = checkRouterConfig(config)

	r := &Router{
		sock:          sock,
		config:        config,
		inbound:       make(chan cemi.Message),
		retainer:      list.New(),
		postSendPause: config.PostSendPauseDuration,
	}

	go r.serve()

	return r, nil
}

// NewGroupRouterOnSocket is NewGroupRouter on an existing socket.
func NewGroupRouterOnSocket(sock knxnet.Socket, config RouterConfig) (gr GroupRouter, err error) {
	gr.Router, err = NewRouterOnSocket(sock, config)

	if err == nil {
		gr.inbound = make(chan GroupEvent)
		go serveGroupInbound(gr.Router.Inbound(), gr.inbound)
	}

	return
}

// ServeGroupInboundForTest exposes the group layer on an arbitrary source channel.
func ServeGroupInboundForTest(inbound <-chan cemi.Message, outbound chan<- GroupEvent) {
	serveGroupInbound(inbound, outbound)
}
