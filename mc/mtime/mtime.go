//go:build go1.18

// Package mtime replaces "time" in rewritten code: same types, virtual clock.
package mtime

import (
	"time"

	"github.com/vapourismo/knx-go/verifmc/mc"
)

type (
	Duration = time.Duration
	Time     = time.Time
	Month    = time.Month
	Ticker   = mc.Ticker
	Timer    = mc.TimerT
)

const (
	Nanosecond  = time.Nanosecond
	Microsecond = time.Microsecond
	Millisecond = time.Millisecond
	Second      = time.Second
	Minute      = time.Minute
	Hour        = time.Hour
)

func NewTicker(d Duration) *Ticker         { return mc.NewTicker(d) }
func NewTimer(d Duration) *Timer           { return mc.NewTimer(d) }
func After(d Duration) *mc.Chan[time.Time] { return mc.After(d) }
func Sleep(d Duration)                     { mc.Sleep(d) }

// AfterFunc: mcgen passes the call site as an extra argument via AfterFuncAt.
func AfterFunc(d Duration, f func()) *Timer { return mc.AfterFunc(d, f, "AfterFunc") }

func AfterFuncAt(site string, d Duration, f func()) *Timer { return mc.AfterFunc(d, f, site) }

// Now is the virtual clock as a time.Time (offset from the zero time).
func Now() Time { return time.Time{}.Add(mc.Now()) }

func Since(t Time) Duration { return Now().Sub(t) }

func Date(year int, month Month, day, hour, min, sec, nsec int, loc *time.Location) Time {
	return time.Date(year, month, day, hour, min, sec, nsec, loc)
}

var UTC = time.UTC

func Until(t Time) Duration { return t.Sub(Now()) }

// Tick is NewTicker(d).C.
func Tick(d Duration) *mc.Chan[time.Time] { return mc.NewTicker(d).C }

func ParseDuration(s string) (Duration, error) { return time.ParseDuration(s) }
func Unix(sec, nsec int64) Time                { return time.Unix(sec, nsec) }
func UnixMilli(ms int64) Time                  { return time.UnixMilli(ms) }

type (
	Weekday  = time.Weekday
	Location = time.Location
)

var Local = time.Local

const (
	January   = time.January
	February  = time.February
	March     = time.March
	April     = time.April
	May       = time.May
	June      = time.June
	July      = time.July
	August    = time.August
	September = time.September
	October   = time.October
	November  = time.November
	December  = time.December
	Sunday    = time.Sunday
	Monday    = time.Monday
	RFC3339   = time.RFC3339
)
