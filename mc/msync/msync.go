//go:build go1.18

// Package msync replaces "sync" in rewritten code.
package msync

import "github.com/vapourismo/knx-go/verifmc/mc"

type (
	Mutex     = mc.Mutex
	RWMutex   = mc.RWMutex
	Once      = mc.Once
	WaitGroup = mc.WaitGroup
)

// Pool replaces sync.Pool with the most adversarial legal behaviour, deterministically: one shared
// free list, Get returns the object that was Put most recently (the real pool may hand any pooled
// object to any goroutine; which one is otherwise an uncontrolled source of nondeterminism).
// Get and Put are scheduling points.
type Pool struct {
	New  func() any
	free []any
}

func (p *Pool) Get() any {
	mc.Yield()
	if n := len(p.free); n > 0 {
		x := p.free[n-1]
		p.free = p.free[:n-1]
		return x
	}
	if p.New != nil {
		return p.New()
	}
	return nil
}

func (p *Pool) Put(x any) {
	mc.Yield()
	p.free = append(p.free, x)
}

// Map is not provided: a use of sync.Map fails the instrumented build loudly (INFRA-ERROR).
