//go:build go1.18

// Package msync replaces "sync" in rewritten code.
package msync

import "github.com/vapourismo/knx-go/verifmc/mc"

type (
	Mutex     = mc.Mutex
	RWMutex   = mc.RWMutex
	Once      = mc.Once
	WaitGroup = mc.WaitGroup
)

// Pool replaces sync.Pool with the most adversarial legal behaviour, deterministically: one shared
// free list, Get returns the object that was Put most recently (the real pool may hand any pooled
// object to any goroutine; which one is otherwise an uncontrolled source of nondeterminism).
// Get and Put are scheduling points.
type Pool struct {
	New  func() any
	free []any
}

func (p *Pool) Get() any {
	mc.Yield()
	if n := len(p.free); n > 0 {
		x := p.free[n-1]
		p.free = p.free[:n-1]
		return x
	}
	if p.New != nil {
		return p.New()
	}
	return nil
}

func (p *Pool) Put(x any) {
	mc.Yield()
	p.free = append(p.free, x)
}

// Locker mirrors sync.Locker.
type Locker interface {
	Lock()
	Unlock()
}

// Cond replaces sync.Cond: waiters are queued in arrival order; Signal wakes the oldest.
type Cond struct {
	L       Locker
	waiters []*mc.Chan[struct{}]
}

func NewCond(l Locker) *Cond { return &Cond{L: l} }

func (c *Cond) Wait() {
	ch := mc.NewChan[struct{}](1, "cond.wait")
	c.waiters = append(c.waiters, ch)
	c.L.Unlock()
	ch.Recv()
	c.L.Lock()
}

func (c *Cond) Signal() {
	mc.Yield()
	if len(c.waiters) > 0 {
		w := c.waiters[0]
		c.waiters = c.waiters[1:]
		w.Send(struct{}{})
	}
}

func (c *Cond) Broadcast() {
	mc.Yield()
	ws := c.waiters
	c.waiters = nil
	for _, w := range ws {
		w.Send(struct{}{})
	}
}

// Map replaces sync.Map (every operation is a scheduling point).
type Map struct{ m map[any]any }

func (m *Map) Load(k any) (any, bool) { mc.Yield(); v, ok := m.m[k]; return v, ok }
func (m *Map) Store(k, v any) {
	mc.Yield()
	if m.m == nil {
		m.m = map[any]any{}
	}
	m.m[k] = v
}
func (m *Map) Delete(k any) { mc.Yield(); delete(m.m, k) }
func (m *Map) LoadOrStore(k, v any) (any, bool) {
	mc.Yield()
	if x, ok := m.m[k]; ok {
		return x, true
	}
	if m.m == nil {
		m.m = map[any]any{}
	}
	m.m[k] = v
	return v, false
}
func (m *Map) Range(f func(k, v any) bool) {
	mc.Yield()
	for k, v := range m.m {
		if !f(k, v) {
			return
		}
	}
}
