//go:build go1.18

// Package msync replaces "sync" in rewritten code.
package msync

import "github.com/vapourismo/knx-go/verifmc/mc"

type (
	Mutex     = mc.Mutex
	RWMutex   = mc.RWMutex
	Once      = mc.Once
	WaitGroup = mc.WaitGroup
)
