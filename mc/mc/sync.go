//go:build go1.18

package mc

import (
	"fmt"
	"time"
)

// Mutex models sync.Mutex with FIFO hand-off (see DESIGN §4).
type Mutex struct {
	id     int
	locked bool
	owner  int
	hash   uint64
	vc     []uint32
}

func (m *Mutex) ident() int {
	if m.id == 0 && S != nil {
		S.nObj++
		m.id = S.nObj
	}
	return m.id
}

func (m *Mutex) name() string { return fmt.Sprintf("mutex#%d", m.ident()) }

func (m *Mutex) Lock() {
	if inert() {
		return
	}
	S.yield(&op{kind: opLock, mu: m})
}

func (m *Mutex) Unlock() {
	if inert() {
		return
	}
	S.yield(&op{kind: opUnlock, mu: m})
}

// TryLock is not a scheduling point beyond a yield.
func (m *Mutex) TryLock() bool {
	if inert() {
		return false
	}
	Yield()
	if m.locked {
		return false
	}
	m.locked = true
	m.owner = S.cur.ID
	return true
}

// RWMutex models sync.RWMutex (writer preference, no hand-off queue).
type RWMutex struct {
	id   int
	w    bool
	r    int
	hash uint64
	vc   []uint32
	rvc  []uint32
}

func (rw *RWMutex) ident() {
	if rw.id == 0 && S != nil {
		S.nObj++
		rw.id = S.nObj
	}
}

func (rw *RWMutex) Lock() {
	if inert() {
		return
	}
	rw.ident()
	// a writer needs no readers and no writer: modelled as opLock on rw, enabled when free
	o := &op{kind: opLock, rw: rw}
	S.yieldRW(o)
}

func (s *Sched) yieldRW(o *op) {
	// writers wait until w == false and r == 0; implemented by spinning on a yield with an
	// enabledness test in opEnabled (kind opLock with rw set)
	s.yield(o)
}

func (rw *RWMutex) Unlock() {
	if inert() {
		return
	}
	rw.ident()
	S.yield(&op{kind: opUnlock, rw: rw})
}

func (rw *RWMutex) RLock() {
	if inert() {
		return
	}
	rw.ident()
	S.yield(&op{kind: opRLock, rw: rw})
}

func (rw *RWMutex) RUnlock() {
	if inert() {
		return
	}
	rw.ident()
	S.yield(&op{kind: opRUnlock, rw: rw})
}

// Once models sync.Once.
type Once struct {
	id      int
	started bool
	done    bool
	hash    uint64
	vc      []uint32
}

func (o *Once) ident() int {
	if o.id == 0 && S != nil {
		S.nObj++
		o.id = S.nObj
	}
	return o.id
}

func (o *Once) Do(f func()) {
	if inert() {
		return
	}
	p := &op{kind: opOnce, once: o}
	S.yield(p)
	if inert() {
		return
	}
	if p.rrun {
		defer func() {
			if inert() {
				return
			}
			S.yield(&op{kind: opOnceDone, once: o})
		}()
		f()
	}
}

// WaitGroup models sync.WaitGroup.
type WaitGroup struct {
	id   int
	n    int
	hash uint64
	vc   []uint32
}

func (w *WaitGroup) ident() int {
	if w.id == 0 && S != nil {
		S.nObj++
		w.id = S.nObj
	}
	return w.id
}

func (w *WaitGroup) Add(n int) {
	if inert() {
		return
	}
	o := &op{kind: opWgAdd, wg: w, delta: n}
	S.yield(o)
	if o.panicMsg != "" && !inert() {
		raise(o.panicMsg)
	}
}

func (w *WaitGroup) Done() { w.Add(-1) }

func (w *WaitGroup) Wait() {
	if inert() {
		return
	}
	S.yield(&op{kind: opWgWait, wg: w})
}

// ---------------------------------------------------------------------------------------------
// virtual time

// Ticker models time.Ticker.
type Ticker struct {
	C *Chan[time.Time]
	t *Timer
}

func (s *Sched) addTimer(t *Timer) *Timer {
	t.id = s.nTimer
	s.nTimer++
	t.active = true
	t.listed = true
	g := s.cur
	t.hash = mix(g.hash, 0x79, uint64(t.id))
	t.vc = append([]uint32(nil), g.vc...)
	g.hash = mix(g.hash, 0x7a, uint64(t.id))
	g.tick()
	s.timers = append(s.timers, t)
	return t
}

func NewTicker(d Duration) *Ticker {
	if d <= 0 {
		panic("non-positive interval for NewTicker")
	}
	tk := &Ticker{C: NewChan[time.Time](1, "ticker")}
	if inert() {
		return tk
	}
	tk.t = S.addTimer(&Timer{when: S.now + d, period: d, kind: tkChan, ch: tk.C})
	return tk
}

func (tk *Ticker) Stop() {
	if tk.t != nil {
		tk.t.active = false
	}
}

func (tk *Ticker) Reset(d Duration) {
	if inert() || tk.t == nil {
		return
	}
	tk.t.period = d
	tk.t.when = S.now + d
	tk.t.active = true
	if !tk.t.listed {
		tk.t.listed = true
		S.timers = append(S.timers, tk.t)
	}
}

// TimerT models time.Timer.
type TimerT struct {
	C *Chan[time.Time]
	t *Timer
}

func NewTimer(d Duration) *TimerT {
	tm := &TimerT{C: NewChan[time.Time](1, "timer")}
	if inert() {
		return tm
	}
	tm.t = S.addTimer(&Timer{when: S.now + d, kind: tkChan, ch: tm.C})
	return tm
}

func (tm *TimerT) Stop() bool {
	if tm.t == nil {
		return false
	}
	was := tm.t.active
	tm.t.active = false
	return was
}

func (tm *TimerT) Reset(d Duration) bool {
	if inert() || tm.t == nil {
		return false
	}
	was := tm.t.active
	tm.t.when = S.now + d
	tm.t.active = true
	if !tm.t.listed {
		tm.t.listed = true
		S.timers = append(S.timers, tm.t)
	}
	return was
}

func After(d Duration) *Chan[time.Time] { return NewTimer(d).C }

func AfterFunc(d Duration, f func(), site string) *TimerT {
	tm := &TimerT{}
	if inert() {
		return tm
	}
	tm.t = S.addTimer(&Timer{when: S.now + d, kind: tkFunc, f: f, site: site})
	return tm
}
