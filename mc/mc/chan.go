//go:build go1.18

package mc

import (
	"errors"
	"fmt"
)

type bufElem struct {
	v    any
	hash uint64
	vc   []uint32
}

type chanCore struct {
	id        int
	name      string
	cap       int
	buf       []bufElem
	closed    bool
	closeHash uint64
	closeVC   []uint32
}

// Chan is the controlled replacement of a Go channel.
type Chan[T any] struct {
	chanCore
}

// NewChan replaces make(chan T, n).
func NewChan[T any](n int, name string) *Chan[T] {
	c := &Chan[T]{}
	c.cap = n
	if S != nil {
		c.id = S.nChan
		S.nChan++
	}
	c.name = fmt.Sprintf("%s#%d", name, c.id)
	return c
}

func (c *Chan[T]) core() *chanCore {
	if c == nil {
		return nil
	}
	return &c.chanCore
}

// Name returns the diagnostic name of the channel.
func (c *Chan[T]) Name() string {
	if c == nil {
		return "nil"
	}
	return c.name
}

// IsClosed is for harness assertions only (not a visible operation).
func (c *Chan[T]) IsClosed() bool { return c != nil && c.closed }

type runtimePanic struct{ msg string }

func (r runtimePanic) Error() string { return r.msg }
func (r runtimePanic) RuntimeError() {}

func raise(msg string) {
	panic(error(runtimePanic{msg}))
}

var _ = errors.New

func conv[T any](v any) T {
	if v == nil {
		var z T
		return z
	}
	return v.(T)
}

// Send replaces ch <- v.
func (c *Chan[T]) Send(v T) {
	if inert() {
		return
	}
	o := &op{kind: opSend, ch: c.core(), val: v}
	S.yield(o)
	if o.panicMsg != "" && !inert() {
		raise(o.panicMsg)
	}
}

// Recv replaces <-ch.
func (c *Chan[T]) Recv() T {
	v, _ := c.Recv2()
	return v
}

// Recv2 replaces v, ok := <-ch.
func (c *Chan[T]) Recv2() (T, bool) {
	if inert() {
		var z T
		return z, false
	}
	o := &op{kind: opRecv, ch: c.core()}
	S.yield(o)
	return conv[T](o.rval), o.rok
}

// Close replaces close(ch).
func (c *Chan[T]) Close() {
	if inert() {
		return
	}
	o := &op{kind: opClose, ch: c.core()}
	S.yield(o)
	if o.panicMsg != "" && !inert() {
		raise(o.panicMsg)
	}
}

// Case is one arm of a select.
type Case interface {
	selCase() selCase
	setResult(v any, ok bool)
}

// RCase is a receive arm; V and Ok hold the result if it was chosen.
type RCase[T any] struct {
	ch *Chan[T]
	V  T
	Ok bool
}

// SCase is a send arm.
type SCase[T any] struct {
	ch *Chan[T]
	v  T
}

func RecvC[T any](ch *Chan[T]) *RCase[T]      { return &RCase[T]{ch: ch} }
func SendC[T any](ch *Chan[T], v T) *SCase[T] { return &SCase[T]{ch: ch, v: v} }

func (r *RCase[T]) selCase() selCase         { return selCase{ch: r.ch.core()} }
func (r *RCase[T]) setResult(v any, ok bool) { r.V, r.Ok = conv[T](v), ok }
func (s *SCase[T]) selCase() selCase         { return selCase{ch: s.ch.core(), send: true, val: s.v} }
func (s *SCase[T]) setResult(v any, ok bool) {}

// Select replaces a select statement; returns the index of the chosen arm, -1 for default.
func Select(hasDefault bool, cases ...Case) int {
	if inert() {
		// abort mode: pretend nothing is ever ready; callers are being unwound anyway
		return -1
	}
	o := &op{kind: opSelect, hasDef: hasDefault, cases: make([]selCase, len(cases))}
	for i, c := range cases {
		o.cases[i] = c.selCase()
	}
	S.yield(o)
	if inert() {
		return -1
	}
	if o.panicMsg != "" {
		raise(o.panicMsg)
	}
	if o.rcase >= 0 {
		cases[o.rcase].setResult(o.rval, o.rok)
	}
	return o.rcase
}
