//go:build go1.18

package mc

import (
	"fmt"
	"unsafe"
)

// Happens-before race detection on instrumented locations (vector clocks, see DESIGN E1).

type access struct {
	g     int
	clock uint32
	site  string
	gsite string
}

type shadowLoc struct {
	w  access
	hw bool
	rs []access
}

func ordered(a access, vc []uint32) bool {
	return a.g < len(vc) && vc[a.g] >= a.clock
}

func (s *Sched) access(addr unsafe.Pointer, site string, write bool) {
	g := s.cur
	if g == nil {
		return
	}
	loc := s.shadow[addr]
	if loc == nil {
		loc = &shadowLoc{}
		s.shadow[addr] = loc
	}
	me := access{g: g.ID, clock: g.vc[g.ID], site: site, gsite: g.Site}
	report := func(o access, ow bool) {
		key := fmt.Sprintf("%s|%v|%s|%v", o.site, ow, site, write)
		if s.races[key] {
			return
		}
		s.races[key] = true
		s.logAt(g, Race{A: o.site, AWrite: ow, AGoroutine: o.gsite, B: site, BWrite: write, BGoroutine: g.Site})
	}
	if loc.hw && loc.w.g != g.ID && !ordered(loc.w, g.vc) {
		report(loc.w, true)
	}
	if write {
		for _, r := range loc.rs {
			if r.g != g.ID && !ordered(r, g.vc) {
				report(r, false)
			}
		}
		loc.w, loc.hw = me, true
		loc.rs = loc.rs[:0]
	} else {
		for i, r := range loc.rs {
			if r.g == g.ID {
				loc.rs[i] = me
				return
			}
		}
		loc.rs = append(loc.rs, me)
	}
}

// R records a read of *p and returns p.
func R[T any](p *T, site string) *T {
	if S != nil && !S.abort && S.shadow != nil {
		S.access(unsafe.Pointer(p), site, false)
	}
	return p
}

// W records a write of *p and returns p.
func W[T any](p *T, site string) *T {
	if S != nil && !S.abort && S.shadow != nil {
		S.access(unsafe.Pointer(p), site, true)
	}
	return p
}
